import Thanos.Model.BlockSet
import Thanos.Lemmas.BlockSet
import Thanos.Generated.Facts
/-
  C15 — Store gateway picks blocks that cover the query at allowed resolutions.

  "For any layout of blocks at raw, 5m and 1h resolution and any query range and maximum resolution,
   the blocks selected for a query never exceed the maximum resolution, never duplicate a block, all
   overlap the query range, and together cover every instant of the range that some block of an allowed
   resolution covers."

  The model (`Model/BlockSet.lean`) transliterates `bucketBlockSet.add` / `getFor`.  The theorems are
  stated twice: over any well-formed set (`WF`), and — the registered property theorems `C15_*` — over
  every set that is built by adding an arbitrary list of blocks, in any order, to the empty set (the
  only way the code builds one), for every query range and every maximum resolution.
  `dd`/`guard` select the code before (`false`) or after (`true`) the two repairs; the clauses that do
  not depend on a repair are proved for both.
-/
namespace Thanos.BlockSet

/-- invariant of a `bucketBlockSet` -/
structure WF (s : BSet) : Prop where
  desc : s.ress.Pairwise (fun a b => a > b)
  len : s.blocks.length = s.ress.length
  typed : ∀ (i : Nat) (l : List Block) (r : Int), s.blocks[i]? = some l → s.ress[i]? = some r → ∀ b ∈ l, b.res = r
  sorted : ∀ l ∈ s.blocks, SortedByMin l

theorem empty_wf : WF empty := by
  refine ⟨by decide, by decide, ?_, ?_⟩
  · intro i l r hl _ b hb
    have : l = [] := by
      simp only [empty, resolutions, List.map] at hl
      match i, hl with
      | 0, hl => simp at hl; exact hl
      | 1, hl => simp at hl; exact hl
      | 2, hl => simp at hl; exact hl
      | n + 3, hl => simp at hl
    subst this
    simp at hb
  · intro l hl
    simp [empty, resolutions] at hl
    subst hl
    simp [SortedByMin]

/-! ### `add` preserves the invariant -/

theorem addAt_spec : ∀ (ress : List Int) (blocks : List (List Block)) (b : Block) (blocks' : List (List Block)),
    addAt ress blocks b = some blocks' →
    blocks'.length = blocks.length ∧
    (∀ l' ∈ blocks', (∃ l ∈ blocks, l' = l) ∨ (∃ l ∈ blocks, l' = insert b l)) ∧
    (∀ (i : Nat) (l' : List Block), blocks'[i]? = some l' →
       blocks[i]? = some l' ∨ (∃ l, blocks[i]? = some l ∧ l' = insert b l ∧ ress[i]? = some b.res))
  | [], _, _, _, h => by simp [addAt] at h
  | _ :: _, [], _, _, h => by simp [addAt] at h
  | r :: rs, bs :: bss, b, blocks', h => by
    simp only [addAt] at h
    split at h
    next hr =>
      simp at h
      subst h
      refine ⟨by simp, ?_, ?_⟩
      · intro l' hl'
        rcases List.mem_cons.mp hl' with rfl | h2
        · exact Or.inr ⟨bs, by simp, rfl⟩
        · exact Or.inl ⟨l', List.mem_cons_of_mem _ h2, rfl⟩
      · intro i l' hi
        cases i with
        | zero =>
          simp at hi
          subst hi
          exact Or.inr ⟨bs, by simp, rfl, by simp [hr]⟩
        | succ i =>
          simp at hi
          exact Or.inl (by simpa using hi)
    next hr =>
      cases hrec : addAt rs bss b with
      | none => simp [hrec] at h
      | some bl =>
        simp [hrec] at h
        subst h
        obtain ⟨h1, h2, h3⟩ := addAt_spec rs bss b bl hrec
        refine ⟨by simp [h1], ?_, ?_⟩
        · intro l' hl'
          rcases List.mem_cons.mp hl' with rfl | hm
          · exact Or.inl ⟨l', by simp, rfl⟩
          · rcases h2 l' hm with ⟨l, hl, he⟩ | ⟨l, hl, he⟩
            · exact Or.inl ⟨l, List.mem_cons_of_mem _ hl, he⟩
            · exact Or.inr ⟨l, List.mem_cons_of_mem _ hl, he⟩
        · intro i l' hi
          cases i with
          | zero =>
            simp at hi
            subst hi
            exact Or.inl (by simp)
          | succ i =>
            simp at hi
            rcases h3 i l' hi with h4 | ⟨l, h4, h5, h6⟩
            · exact Or.inl (by simpa using h4)
            · exact Or.inr ⟨l, by simpa using h4, h5, by simpa using h6⟩

theorem add_wf {s s' : BSet} {b : Block} (h : WF s) (ha : add s b = some s') : WF s' := by
  unfold add at ha
  cases hb : addAt s.ress s.blocks b with
  | none => simp [hb] at ha
  | some bl =>
    simp [hb] at ha
    subst ha
    obtain ⟨h1, h2, h3⟩ := addAt_spec _ _ _ _ hb
    refine ⟨h.desc, by simpa [h1] using h.len, ?_, ?_⟩
    · intro i l r hl hr x hx
      rcases h3 i l hl with h4 | ⟨l0, h4, hl0, h6⟩
      · exact h.typed i l r h4 hr x hx
      · have hr' : s.ress[i]? = some r := hr
        rw [h6] at hr'
        have hbr : b.res = r := by simpa using hr'
        rw [hl0] at hx
        rcases (mem_insert b l0 x).mp hx with hxb | hx'
        · rw [hxb]; exact hbr
        · rw [← hbr]
          exact h.typed i l0 b.res h4 h6 x hx'
    · intro l hl
      rcases h2 l hl with ⟨l0, hl0, rfl⟩ | ⟨l0, hl0, rfl⟩
      · exact h.sorted l hl0
      · exact insert_sorted b l0 (h.sorted l0 hl0)

theorem addAll_wf : ∀ (bs : List Block) (s : BSet), WF s → WF (addAll s bs).1
  | [], s, h => by simpa [addAll] using h
  | b :: bs, s, h => by
    simp only [addAll]
    cases ha : add s b with
    | none => simpa using addAll_wf bs s h
    | some s' => simpa using addAll_wf bs s' (add_wf h ha)

/-! ### resolution levels -/

theorem firstIdx_le_length : ∀ (ress : List Int) (m : Int), firstIdx ress m ≤ ress.length
  | [], _ => by simp [firstIdx]
  | r :: rs, m => by
    simp only [firstIdx]
    split
    · have := firstIdx_le_length rs m
      simp; omega
    · simp

/-- levels before `firstIdx` are too coarse -/
theorem before_firstIdx : ∀ (ress : List Int) (m : Int) (j : Nat) (r : Int),
    j < firstIdx ress m → ress[j]? = some r → r > m
  | [], _, _, _, h, _ => by simp [firstIdx] at h
  | x :: xs, m, j, r, h, hr => by
    simp only [firstIdx] at h
    split at h
    next hx =>
      cases j with
      | zero => simp at hr; subst hr; exact hx
      | succ j => exact before_firstIdx xs m j r (by omega) (by simpa using hr)
    next hx => omega

/-- levels from `firstIdx` on are allowed, when the resolutions descend -/
theorem from_firstIdx : ∀ (ress : List Int) (m : Int) (j : Nat) (r : Int),
    ress.Pairwise (fun a b => a > b) → firstIdx ress m ≤ j → ress[j]? = some r → r ≤ m
  | [], _, _, _, _, _, h => by simp at h
  | x :: xs, m, j, r, hp, h, hr => by
    have hx := List.pairwise_cons.mp hp
    simp only [firstIdx] at h
    split at h
    next hgt =>
      cases j with
      | zero => omega
      | succ j => exact from_firstIdx xs m j r hx.2 (by omega) (by simpa using hr)
    next hle =>
      cases j with
      | zero => simp at hr; subst hr; omega
      | succ j =>
        have : r ∈ xs := List.mem_of_getElem? (by simpa using hr)
        have := hx.1 r this
        omega

/-! ### the clauses over a well-formed set -/

theorem getFor_mem {dd guard : Bool} {s : BSet} {mint maxt maxRes : Int} {r : List Block} {b : Block}
    (hg : getFor dd guard s mint maxt maxRes = some r) (hb : b ∈ r) :
    ¬ mint > maxt ∧ firstIdx s.ress maxRes < s.blocks.length ∧
      b ∈ getForL dd (s.blocks.drop (firstIdx s.ress maxRes)) mint maxt := by
  unfold getFor at hg
  split at hg
  · simp at hg; subst hg; simp at hb
  · next hm =>
    simp only at hg
    split at hg
    · next hi => simp at hg; subst hg; exact ⟨hm, hi, hb⟩
    · split at hg
      · simp at hg; subst hg; simp at hb
      · simp at hg

theorem resolution_wf {dd guard : Bool} {s : BSet} (h : WF s) {mint maxt maxRes : Int} {r : List Block} {b : Block}
    (hg : getFor dd guard s mint maxt maxRes = some r) (hb : b ∈ r) : b.res ≤ maxRes := by
  obtain ⟨_, _, hmem⟩ := getFor_mem hg hb
  obtain ⟨⟨l, hl, hbl⟩, _⟩ := getForL_sound dd _ mint maxt b hmem
  obtain ⟨k, hk, hkl⟩ := List.getElem_of_mem hl
  have hk' : (s.blocks.drop (firstIdx s.ress maxRes))[k]? = some l := by
    rw [List.getElem?_eq_getElem hk, hkl]
  rw [List.getElem?_drop] at hk'
  have hj : firstIdx s.ress maxRes + k < s.ress.length := by
    rw [← h.len]
    rcases Nat.lt_or_ge (firstIdx s.ress maxRes + k) s.blocks.length with hlt | hge
    · exact hlt
    · rw [List.getElem?_eq_none hge] at hk'
      simp at hk'
  have hr : s.ress[firstIdx s.ress maxRes + k]? = some (s.ress[firstIdx s.ress maxRes + k]) :=
    List.getElem?_eq_getElem hj
  have := h.typed _ l _ hk' hr b hbl
  rw [this]
  exact from_firstIdx s.ress maxRes _ _ h.desc (by omega) hr

theorem overlap_any {dd guard : Bool} {s : BSet} {mint maxt maxRes : Int} {r : List Block} {b : Block}
    (hg : getFor dd guard s mint maxt maxRes = some r) (hb : b ∈ r) :
    mint < b.maxt ∧ b.mint ≤ maxt ∧ b.keep = true := by
  obtain ⟨_, _, hmem⟩ := getFor_mem hg hb
  obtain ⟨_, hk, h1, h2⟩ := getForL_sound dd _ mint maxt b hmem
  exact ⟨h1, h2, hk⟩

theorem cover_wf {dd guard : Bool} {s : BSet} (h : WF s) {mint maxt maxRes t : Int} {r : List Block}
    (hkeep : ∀ l ∈ s.blocks, ∀ b ∈ l, b.keep = true)
    (hg : getFor dd guard s mint maxt maxRes = some r) (h1 : mint ≤ t) (h2 : t ≤ maxt)
    (hex : ∃ l ∈ s.blocks, ∃ b ∈ l, b.res ≤ maxRes ∧ covers b t) : ∃ b' ∈ r, covers b' t := by
  obtain ⟨l, hl, b, hb, hres, hc⟩ := hex
  obtain ⟨j, hj, hjl⟩ := List.getElem_of_mem hl
  have hjl' : s.blocks[j]? = some l := by rw [List.getElem?_eq_getElem hj, hjl]
  have hjr : j < s.ress.length := by rw [← h.len]; exact hj
  have hrj : s.ress[j]? = some (s.ress[j]) := List.getElem?_eq_getElem hjr
  have hbres := h.typed j l _ hjl' hrj b hb
  -- the level of `b` is not before the first allowed one
  have hge : firstIdx s.ress maxRes ≤ j := by
    rcases Nat.lt_or_ge j (firstIdx s.ress maxRes) with hlt | hge
    · have := before_firstIdx s.ress maxRes j _ hlt hrj
      omega
    · exact hge
  have hi : firstIdx s.ress maxRes < s.blocks.length := by omega
  have hm : ¬ mint > maxt := by omega
  have hr : r = getForL dd (s.blocks.drop (firstIdx s.ress maxRes)) mint maxt := by
    unfold getFor at hg
    simp [hm, hi] at hg
    exact hg.symm
  subst hr
  apply getForL_cover dd _ mint maxt t _ h1 h2 _ _
  · intro l' hl'
    exact h.sorted l' (List.mem_of_mem_drop hl')
  · refine ⟨l, ?_, b, hb, hkeep l hl b hb, hc⟩
    have : (s.blocks.drop (firstIdx s.ress maxRes))[j - firstIdx s.ress maxRes]? = some l := by
      rw [List.getElem?_drop]
      have : firstIdx s.ress maxRes + (j - firstIdx s.ress maxRes) = j := by omega
      rw [this]; exact hjl'
    exact List.mem_of_getElem? this
  · intro l' hl' b' hb'
    exact hkeep l' (List.mem_of_mem_drop hl') b' hb'

theorem nodup_wf {guard : Bool} {s : BSet} (hd : AllDistinct s.blocks) {mint maxt maxRes : Int} {r : List Block}
    (hg : getFor true guard s mint maxt maxRes = some r) : r.Nodup := by
  unfold getFor at hg
  split at hg
  · simp at hg; subst hg; simp
  · simp only at hg
    split at hg
    · simp at hg
      subst hg
      apply getForL_nodup
      unfold AllDistinct at *
      exact flatten_drop_nodup _ _ hd
    · split at hg
      · simp at hg; subst hg; simp
      · simp at hg

/-! ### sets built by `add` from distinct blocks hold distinct blocks -/

theorem insert_nodup (b : Block) : ∀ (bs : List Block), bs.Nodup → b ∉ bs → (insert b bs).Nodup
  | [], _, _ => by simp [insert]
  | y :: ys, h, hb => by
    unfold insert
    split
    · exact List.nodup_cons.mpr ⟨hb, h⟩
    · have hy := List.nodup_cons.mp h
      apply List.nodup_cons.mpr
      refine ⟨?_, insert_nodup b ys hy.2 (fun h' => hb (List.mem_cons_of_mem _ h'))⟩
      intro hmem
      rcases (mem_insert b ys y).mp hmem with rfl | h'
      · exact hb (by simp)
      · exact hy.1 h'

theorem addAt_flatten : ∀ (ress : List Int) (blocks : List (List Block)) (b : Block) (blocks' : List (List Block)),
    addAt ress blocks b = some blocks' → blocks.flatten.Nodup → b ∉ blocks.flatten →
    blocks'.flatten.Nodup ∧ ∀ x, x ∈ blocks'.flatten ↔ x = b ∨ x ∈ blocks.flatten
  | [], _, _, _, h, _, _ => by simp [addAt] at h
  | _ :: _, [], _, _, h, _, _ => by simp [addAt] at h
  | r :: rs, bs :: bss, b, blocks', h, hnd, hb => by
    simp only [addAt] at h
    rw [List.flatten_cons, List.nodup_append] at hnd
    obtain ⟨n1, n2, n3⟩ := hnd
    have hb1 : b ∉ bs := fun h' => hb (by simp [h'])
    have hb2 : b ∉ bss.flatten := fun h' => hb (by rw [List.flatten_cons]; exact List.mem_append_right _ h')
    split at h
    next hr =>
      simp at h
      subst h
      refine ⟨?_, ?_⟩
      · rw [List.flatten_cons, List.nodup_append]
        refine ⟨insert_nodup b bs n1 hb1, n2, ?_⟩
        intro x hx y hy hxy
        subst hxy
        rcases (mem_insert b bs x).mp hx with rfl | hx'
        · exact hb2 hy
        · exact n3 x hx' x hy rfl
      · intro x
        rw [List.flatten_cons, List.flatten_cons, List.mem_append, List.mem_append, mem_insert]
        constructor
        · rintro ((h | h) | h)
          · exact Or.inl h
          · exact Or.inr (Or.inl h)
          · exact Or.inr (Or.inr h)
        · rintro (h | h | h)
          · exact Or.inl (Or.inl h)
          · exact Or.inl (Or.inr h)
          · exact Or.inr h
    next hr =>
      cases hrec : addAt rs bss b with
      | none => simp [hrec] at h
      | some bl =>
        simp [hrec] at h
        subst h
        obtain ⟨m1, m2⟩ := addAt_flatten rs bss b bl hrec n2 hb2
        refine ⟨?_, ?_⟩
        · rw [List.flatten_cons, List.nodup_append]
          refine ⟨n1, m1, ?_⟩
          intro x hx y hy hxy
          subst hxy
          rcases (m2 x).mp hy with rfl | hy'
          · exact hb1 hx
          · exact n3 x hx x hy' rfl
        · intro x
          rw [List.flatten_cons, List.flatten_cons, List.mem_append, List.mem_append, m2]
          constructor
          · rintro (h | h | h)
            · exact Or.inr (Or.inl h)
            · exact Or.inl h
            · exact Or.inr (Or.inr h)
          · rintro (h | h | h)
            · exact Or.inr (Or.inl h)
            · exact Or.inl h
            · exact Or.inr (Or.inr h)

theorem addAll_distinct : ∀ (bs : List Block) (s : BSet), AllDistinct s.blocks → bs.Nodup →
    (∀ x ∈ bs, x ∉ s.blocks.flatten) →
    AllDistinct (addAll s bs).1.blocks ∧ ∀ x ∈ (addAll s bs).1.blocks.flatten, x ∈ bs ∨ x ∈ s.blocks.flatten
  | [], s, h, _, _ => by
    simp only [addAll]
    exact ⟨h, fun x hx => Or.inr hx⟩
  | b :: bs, s, h, hnd, hdis => by
    have hnd' := List.nodup_cons.mp hnd
    simp only [addAll]
    cases ha : add s b with
    | none =>
      obtain ⟨i1, i2⟩ := addAll_distinct bs s h hnd'.2 (fun x hx => hdis x (List.mem_cons_of_mem _ hx))
      simp only
      refine ⟨i1, ?_⟩
      intro x hx
      rcases i2 x hx with h' | h'
      · exact Or.inl (List.mem_cons_of_mem _ h')
      · exact Or.inr h'
    | some s' =>
      unfold add at ha
      cases hb : addAt s.ress s.blocks b with
      | none => simp [hb] at ha
      | some bl =>
        simp [hb] at ha
        subst ha
        obtain ⟨m1, m2⟩ := addAt_flatten _ _ _ _ hb h (hdis b (by simp))
        simp only
        obtain ⟨i1, i2⟩ := addAll_distinct bs { s with blocks := bl } m1 hnd'.2 (by
          intro x hx hx'
          rcases (m2 x).mp hx' with rfl | h'
          · exact hnd'.1 hx
          · exact hdis x (List.mem_cons_of_mem _ hx) h')
        refine ⟨i1, ?_⟩
        intro x hx
        rcases i2 x hx with h' | h'
        · exact Or.inl (List.mem_cons_of_mem _ h')
        · rcases (m2 x).mp h' with rfl | h''
          · exact Or.inl (by simp)
          · exact Or.inr h''

theorem empty_flatten : empty.blocks.flatten = [] := by decide

theorem built_distinct (bs : List Block) (h : bs.Nodup) : AllDistinct (addAll empty bs).1.blocks :=
  (addAll_distinct bs empty (by unfold AllDistinct; rw [empty_flatten]; simp) h
    (by intro x _; rw [empty_flatten]; simp)).1

/-- the set the code builds from a list of blocks, added in the given order -/
def built (bs : List Block) : BSet := (addAll empty bs).1

theorem built_wf (bs : List Block) : WF (built bs) := addAll_wf bs empty empty_wf

/-! ## The property theorems (for every list of added blocks, range and maximum resolution) -/

/-- selected blocks never exceed the maximum resolution (code before and after the repairs) -/
theorem C15_resolution (dd guard : Bool) (bs : List Block) (mint maxt maxRes : Int) (r : List Block) (b : Block)
    (hg : getFor dd guard (built bs) mint maxt maxRes = some r) (hb : b ∈ r) : b.res ≤ maxRes :=
  resolution_wf (built_wf bs) hg hb

/-- selected blocks all overlap the query range `[mint, maxt]` (block ranges are half-open) and satisfy the
    block matchers -/
theorem C15_overlap (dd guard : Bool) (bs : List Block) (mint maxt maxRes : Int) (r : List Block) (b : Block)
    (hg : getFor dd guard (built bs) mint maxt maxRes = some r) (hb : b ∈ r) :
    mint < b.maxt ∧ b.mint ≤ maxt ∧ b.keep = true :=
  overlap_any hg hb

/-- selected blocks cover every instant of the range that some added block of an allowed resolution covers
    (requests without block matchers: every `keep` is true) -/
theorem C15_cover (dd guard : Bool) (bs : List Block) (mint maxt maxRes t : Int) (r : List Block)
    (hkeep : ∀ b ∈ bs, b.keep = true)
    (hg : getFor dd guard (built bs) mint maxt maxRes = some r) (h1 : mint ≤ t) (h2 : t ≤ maxt)
    (hex : ∃ l ∈ (built bs).blocks, ∃ b ∈ l, b.res ≤ maxRes ∧ covers b t) : ∃ b' ∈ r, covers b' t := by
  apply cover_wf (built_wf bs) _ hg h1 h2 hex
  intro l hl b hb
  -- every block of the set is one of the added blocks
  have hmem : b ∈ (built bs).blocks.flatten := List.mem_flatten.mpr ⟨l, hl, hb⟩
  -- `addAll` adds nothing but blocks of `bs`; shown without the distinctness hypothesis
  have : ∀ (cs : List Block) (s : BSet), (∀ x ∈ s.blocks.flatten, x.keep = true) → (∀ x ∈ cs, x.keep = true) →
      ∀ x ∈ (addAll s cs).1.blocks.flatten, x.keep = true := by
    intro cs
    induction cs with
    | nil => intro s hs _ x hx; simpa [addAll] using hs x (by simpa [addAll] using hx)
    | cons c cs ih =>
      intro s hs hcs x hx
      simp only [addAll] at hx
      cases ha : add s c with
      | none =>
        rw [ha] at hx
        exact ih s hs (fun y hy => hcs y (List.mem_cons_of_mem _ hy)) x (by simpa using hx)
      | some s' =>
        rw [ha] at hx
        apply ih s' _ (fun y hy => hcs y (List.mem_cons_of_mem _ hy)) x (by simpa using hx)
        intro y hy
        unfold add at ha
        cases hb' : addAt s.ress s.blocks c with
        | none => simp [hb'] at ha
        | some bl =>
          simp [hb'] at ha
          subst ha
          obtain ⟨_, h2', _⟩ := addAt_spec _ _ _ _ hb'
          obtain ⟨l', hl', hyl'⟩ := List.mem_flatten.mp hy
          rcases h2' l' hl' with ⟨l0, hl0, rfl⟩ | ⟨l0, hl0, rfl⟩
          · exact hs y (List.mem_flatten.mpr ⟨l', hl0, hyl'⟩)
          · rcases (mem_insert c l0 y).mp hyl' with rfl | hy'
            · exact hcs y (by simp)
            · exact hs y (List.mem_flatten.mpr ⟨l0, hl0, hy'⟩)
  exact this bs empty (by rw [empty_flatten]; simp) hkeep b hmem

/-- C15 "never duplicate a block", at full strength, for the code selected by `dd` -/
def C15_nodup_full (dd : Bool) : Prop :=
  ∀ (bs : List Block) (mint maxt maxRes : Int) (r : List Block), bs.Nodup →
    getFor dd true (built bs) mint maxt maxRes = some r → r.Nodup

/-- the repaired `getFor` (recursive results appended with `appendMissing`) never returns a block twice -/
theorem C15_nodup : C15_nodup_full true := by
  intro bs mint maxt maxRes r hnd hg
  exact nodup_wf (built_distinct bs hnd) hg

/-- the code before the repair did: 1h block [100,200), 5m block [0,300), query [0,300] at 1h (F15) -/
theorem C15_nodup_unrepaired_false : ¬ C15_nodup_full false := by
  intro h
  have := h [⟨0, 3600000, 100, 200, true⟩, ⟨1, 300000, 0, 300, true⟩] 0 300 3600000
    [⟨1, 300000, 0, 300, true⟩, ⟨0, 3600000, 100, 200, true⟩, ⟨1, 300000, 0, 300, true⟩] (by decide) (by decide)
  revert this
  decide

/-- C15 "for any … maximum resolution": the call returns (no run-time panic) -/
def C15_total_full (guard : Bool) : Prop :=
  ∀ (dd : Bool) (s : BSet) (mint maxt maxRes : Int), (getFor dd guard s mint maxt maxRes).isSome = true

theorem C15_total : C15_total_full true := by
  intro dd s mint maxt maxRes
  unfold getFor
  split
  · rfl
  · simp only
    split
    · rfl
    · rfl

/-- before the repair a maximum resolution below every level indexed `s.blocks[3]` -/
theorem C15_total_unrepaired_false : ¬ C15_total_full false := by
  intro h
  have := h false empty 0 0 (-1)
  revert this
  decide

/-- … and only then: with some allowed resolution the unrepaired code returns as well -/
theorem C15_total_unrepaired_partial (dd : Bool) (s : BSet) (h : WF s) (mint maxt maxRes : Int)
    (hres : ∃ r ∈ s.ress, r ≤ maxRes) : (getFor dd false s mint maxt maxRes).isSome = true := by
  have hlt : firstIdx s.ress maxRes < s.ress.length := by
    obtain ⟨r, hr, hle⟩ := hres
    obtain ⟨j, hj, hjr⟩ := List.getElem_of_mem hr
    rcases Nat.lt_or_ge (firstIdx s.ress maxRes) s.ress.length with hlt | hge
    · exact hlt
    · have := before_firstIdx s.ress maxRes j r (by omega) (by rw [List.getElem?_eq_getElem hj, hjr])
      omega
  unfold getFor
  split
  · rfl
  · simp only
    rw [h.len]
    simp [hlt]

/-! ## Histories: every set reachable by adds and removes -/

theorem remove_wf {s : BSet} (h : WF s) (id : Nat) : WF (remove s id) := by
  refine ⟨h.desc, by simpa [remove, removeLevels_length] using h.len, ?_, ?_⟩
  · intro i l r hl hr b hb
    obtain ⟨l0, h1, h2⟩ := removeLevels_level id s.blocks i l hl
    exact h.typed i l0 r h1 hr b (h2.subset hb)
  · intro l hl
    obtain ⟨l0, h1, h2⟩ := removeLevels_mem_level id s.blocks l hl
    exact List.Pairwise.sublist h2 (h.sorted l0 h1)

theorem remove_distinct {s : BSet} (h : AllDistinct s.blocks) (id : Nat) : AllDistinct (remove s id).blocks :=
  List.Sublist.nodup (removeLevels_flatten_sublist id s.blocks) h

/-- the sets the store gateway can hold: built from the empty set by `add` (of a block object that is not in the
    set: a block is loaded once; a re-added block is a new object) and `remove`, in any order -/
inductive Reachable : BSet → Prop where
  | empty : Reachable empty
  | add {s s' : BSet} {b : Block} : Reachable s → b ∉ s.blocks.flatten → add s b = some s' → Reachable s'
  | remove {s : BSet} (id : Nat) : Reachable s → Reachable (remove s id)

theorem reachable_wf {s : BSet} (h : Reachable s) : WF s := by
  induction h with
  | empty => exact empty_wf
  | add _ _ ha ih => exact add_wf ih ha
  | remove id _ ih => exact remove_wf ih id

theorem reachable_distinct {s : BSet} (h : Reachable s) : AllDistinct s.blocks := by
  induction h with
  | empty => unfold AllDistinct; rw [empty_flatten]; simp
  | @add s s' b _ hb ha ih =>
    unfold BlockSet.add at ha
    cases hat : addAt s.ress s.blocks b with
    | none => simp [hat] at ha
    | some bl =>
      simp [hat] at ha
      subst ha
      exact (addAt_flatten _ _ _ _ hat ih hb).1
  | remove id _ ih => exact remove_distinct ih id

/-- C15 for every reachable set: resolution, overlap and block matchers -/
theorem C15_reachable_resolution_overlap (dd guard : Bool) (s : BSet) (hs : Reachable s) (mint maxt maxRes : Int)
    (r : List Block) (b : Block) (hg : getFor dd guard s mint maxt maxRes = some r) (hb : b ∈ r) :
    b.res ≤ maxRes ∧ mint < b.maxt ∧ b.mint ≤ maxt ∧ b.keep = true :=
  ⟨resolution_wf (reachable_wf hs) hg hb, overlap_any hg hb⟩

/-- C15 for every reachable set: coverage (requests without block matchers) -/
theorem C15_reachable_cover (dd guard : Bool) (s : BSet) (hs : Reachable s) (mint maxt maxRes t : Int) (r : List Block)
    (hkeep : ∀ l ∈ s.blocks, ∀ b ∈ l, b.keep = true)
    (hg : getFor dd guard s mint maxt maxRes = some r) (h1 : mint ≤ t) (h2 : t ≤ maxt)
    (hex : ∃ l ∈ s.blocks, ∃ b ∈ l, b.res ≤ maxRes ∧ covers b t) : ∃ b' ∈ r, covers b' t :=
  cover_wf (reachable_wf hs) hkeep hg h1 h2 hex

/-- C15 for every reachable set: no block twice (repaired `getFor`) -/
theorem C15_reachable_nodup (guard : Bool) (s : BSet) (hs : Reachable s) (mint maxt maxRes : Int) (r : List Block)
    (hg : getFor true guard s mint maxt maxRes = some r) : r.Nodup :=
  nodup_wf (reachable_distinct hs) hg

/-- an order-destroying delete (swap with the last block) breaks the invariant `getFor` relies on: after removing the
    first of three raw blocks that way the level is no longer sorted, and the block [100,200) is lost from the
    selection for [0,150] (the scan ends at the block [200,300) that now comes first) — what the order-preserving `remove` of the model (and of the code) avoids -/
theorem C15_swap_delete_breaks :
    let swapped : BSet := { empty with blocks := [[], [], [⟨2, 0, 200, 300, true⟩, ⟨1, 0, 100, 200, true⟩]] }
    (getFor true true swapped 0 150 0).map (·.map (·.id)) = some [] ∧
    (getFor true true (remove (built [⟨0, 0, 0, 100, true⟩, ⟨1, 0, 100, 200, true⟩, ⟨2, 0, 200, 300, true⟩]) 0) 0 150 0).map
      (·.map (·.id)) = some [1] := by decide

/-- regenerated fact: `remove` deletes with the order-preserving `append(bs[:j], bs[j+1:]...)` -/
theorem C15_fact_remove :
    Thanos.Facts.storesBlockSetRemove = ["s.blocks[i] = append(bs[:j], bs[j+1:]...)", "Lock", "Unlock", "append"] := by decide

/-! ### regenerated facts: the level table and the loop conditions are the modelled ones -/

theorem C15_fact_resolutions :
    Thanos.Facts.storesBlockSetResolutions = "[]int64{downsample.ResLevel2, downsample.ResLevel1, downsample.ResLevel0}"
    ∧ Thanos.Facts.storesResLevels = ["int64(0)", "int64(5 * 60 * 1000)", "int64(60 * 60 * 1000)"]
    ∧ resolutions = [60 * 60 * 1000, 5 * 60 * 1000, 0] := by decide

theorem C15_fact_getFor :
    Thanos.Facts.storesGetForConds = ["mint > maxt", "i == len(s.resolutions)", "b.meta.MaxTime <= mint", "b.meta.MinTime > maxt",
      "i+1 < len(s.resolutions)", "len(blockMatchers) == 0 || b.matchRelabelLabels(blockMatchers)",
      "i+1 < len(s.resolutions)"]
    ∧ Thanos.Facts.storesGetForRecursion = ["start, b.meta.MinTime - 1, s.resolutions[i+1], blockMatchers",
      "start, maxt, s.resolutions[i+1], blockMatchers"]
    ∧ Thanos.Facts.storesGetForAppends = ["appendMissingBlocks", "append", "appendMissingBlocks"] := by decide

/-- the recursive call passes `s.resolutions[i+1]` as maximum resolution and searches the level again:
    with the (strictly descending) level table that search ends at level `i+1`, which is what `getForL` does -/
theorem C15_recursion_level (i : Nat) (r : Int) (h : resolutions[i]? = some r) : firstIdx resolutions r = i :=
  firstIdx_next resolutions i r (by decide) h

/-! ### non-vacuity -/

-- a layout with a gap, an overlap and partial downsampling; the 5m block spans the 1h block
def exampleBlocks : List Block :=
  [⟨0, 0, 0, 100, true⟩, ⟨1, 300000, 0, 300, true⟩, ⟨2, 3600000, 100, 200, true⟩, ⟨3, 0, 250, 400, true⟩,
   ⟨4, 0, 350, 500, true⟩]

example : exampleBlocks.Nodup := by decide
example : ∀ b ∈ exampleBlocks, b.keep = true := by decide
-- the repaired code returns the 5m block once, the unrepaired one twice; the raw blocks fill what is left
example : (getFor true true (built exampleBlocks) 0 450 3600000).map (·.map (·.id)) = some [1, 2, 3, 4] := by decide
example : (getFor false true (built exampleBlocks) 0 450 3600000).map (·.map (·.id)) = some [1, 2, 1, 3, 4] := by decide
-- instant 420 is covered by the raw block 4 only, and block 4 is selected
example : ∃ l ∈ (built exampleBlocks).blocks, ∃ b ∈ l, b.res ≤ 3600000 ∧ covers b 420 := by decide
example : (getFor true true (built exampleBlocks) 0 450 (-1)) = some [] := by decide
example : (getFor true false (built exampleBlocks) 0 450 (-1)) = none := by decide
example : ∃ r ∈ (built exampleBlocks).ress, r ≤ 0 := by decide

end Thanos.BlockSet
