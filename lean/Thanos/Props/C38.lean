import Thanos.Lemmas.DownsampleAggr
import Thanos.Lemmas.DownsampleAggrLoop
import Thanos.Props.C36
import Thanos.Generated.Facts
/-
  C38 — Re-downsampling aggregates conserves totals.
  Model: Model/Downsample.lean (`genericAggregate`, `floatAggrBatch`, `aggrLoop`,
  `downsampleAggrLoop`), a transliteration of downsampleAggrLoop / downsampleFloatAggrBatch /
  genericAggregate / downsampleBatch.
-/
namespace Thanos.Downsample

/-! ### termination of downsampleAggrLoop -/

/-- the loop returns for every positive `numChunks` (`clamp` selects how `batchSize` is computed) -/
def C38_terminates (clamp : Bool) : Prop :=
  ∀ (chks : List Chunk) (r : Int) (nc : Nat), 0 < nc → downsampleAggrLoop clamp chks r nc ≠ .hang

/-- `batchSize := len(chks) / numChunks` as written before the repair (F38): with more target chunks than input
    chunks `batchSize` is 0, downsampleFloatAggrBatch of no chunks returns the range [0, 0] (every
    genericAggregate returns `0, 0`), the "invalid range" test does not fire and the loop never
    consumes a chunk. -/
theorem C38_terminates_unclamped_false : ¬ C38_terminates false := by
  intro h
  exact h [{ mint := 49, maxt := 49, count := [(49, 2)], sum := [(49, 4)], min := [(49, 1)], max := [(49, 3)],
             counter := [(10, 1), (49, 3), (49, 3)] }] 100 2 (by decide) (by decide)

/-- … exactly when `numChunks` exceeds the number of chunks -/
theorem C38_unclamped_hangs (chks : List Chunk) (r : Int) (nc : Nat) (h : chks.length < nc) (hne : chks ≠ []) :
    downsampleAggrLoop false chks r nc = .hang := by
  have hnc : nc ≠ 0 := by omega
  simp only [downsampleAggrLoop, hnc, if_false, aggrBatchSize, Bool.false_eq_true]
  rw [Nat.div_eq_of_lt h]
  exact aggrLoop_zero_hang r _ chks hne

theorem C38_terminates_unclamped_partial (chks : List Chunk) (r : Int) (nc : Nat) (h0 : 0 < nc) (h : nc ≤ chks.length) :
    downsampleAggrLoop false chks r nc ≠ .hang := by
  have hnc : nc ≠ 0 := by omega
  simp only [downsampleAggrLoop, hnc, if_false, aggrBatchSize, Bool.false_eq_true]
  exact aggrLoop_progress r _ (Nat.div_pos h h0) _ chks (Nat.le_refl _)

/-- with `batchSize` kept at least 1 the loop always returns -/
theorem C38_terminates_clamped : C38_terminates true := by
  intro chks r nc h0
  have hnc : nc ≠ 0 := by omega
  simp only [downsampleAggrLoop, hnc, if_false, aggrBatchSize, if_true]
  exact aggrLoop_progress r _ (by omega) _ chks (Nat.le_refl _)

/-! ### what one aggregate of one output chunk conserves -/

/-- **genericAggregate conserves the totals of its input samples.**  `buf` is what was expanded
    from the sub-chunks of one aggregate (timestamps above MinInt64, the last one the largest, finite values):
    the emitted samples' Σ of window sums is Σ buf (used for the sum aggregate and, over count
    samples, for the count aggregate), the least window minimum is min buf, the greatest window
    maximum is max buf, and the emitted timestamps strictly increase inside [first, last] of buf. -/
theorem C38_batch_totals (r : Int) (hr : 0 < r) (buf : List Pt) (t0 v0 lastT lv : Int)
    (hhead : buf.head? = some (t0, v0)) (hlast : buf.getLast? = some (lastT, lv))
    (hb : ∀ p ∈ buf, minInt64 < p.1 ∧ p.1 ≤ lastT) (hfin : ∀ p ∈ buf, Finite p.2) :
    ∃ out nt, downsampleBatch buf r = some (out, nt) ∧ out ≠ [] ∧
      (out.map (fun e => e.2.sum)).sum = (buf.map (·.2)).sum ∧
      (out.map (fun e => e.2.min)).min? = (buf.map (·.2)).min? ∧
      (out.map (fun e => e.2.max)).max? = (buf.map (·.2)).max? ∧
      (out.map (·.1)).Pairwise (· < ·) ∧ ∀ t ∈ out.map (·.1), t0 ≤ t ∧ t ≤ lastT := by
  obtain ⟨out, nt, h1, h2, h3, _, h5, h6, h7, h8⟩ := downsampleBatch_totals r hr buf t0 v0 lastT lv hhead hlast hb hfin
  exact ⟨out, nt, h1, h2, h3, h5, h6, h7, h8⟩

/-! ### the whole loop -/

/-- what C38 asks of a re-downsampling of the chunks `inp` into the chunks `out` -/
structure C38_holds (inp out : List Chunk) : Prop where
  count : ((out.flatMap (·.count)).map (·.2)).sum = ((inp.flatMap (·.count)).map (·.2)).sum
  sum : ((out.flatMap (·.sum)).map (·.2)).sum = ((inp.flatMap (·.sum)).map (·.2)).sum
  min : ((out.flatMap (·.min)).map (·.2)).min? = ((inp.flatMap (·.min)).map (·.2)).min?
  max : ((out.flatMap (·.max)).map (·.2)).max? = ((inp.flatMap (·.max)).map (·.2)).max?
  aligned : ∀ c ∈ out, c.sum.map (·.1) = c.count.map (·.1) ∧ c.min.map (·.1) = c.count.map (·.1) ∧
    c.max.map (·.1) = c.count.map (·.1) ∧ c.count ≠ []
  ordered : ((out.flatMap (·.count)).map (·.1)).Pairwise (· < ·)
  span : ∀ t ∈ (out.flatMap (·.count)).map (·.1), ∀ first last,
    ((inp.flatMap (·.count)).map (·.1)).head? = some first → ((inp.flatMap (·.count)).map (·.1)).getLast? = some last →
    first ≤ t ∧ t ≤ last

private theorem holds_of_conserves {inp out : List Chunk} (hwf : WFChunks inp) (h : AggrConserves inp out) :
    C38_holds inp out := by
  refine ⟨h.count, h.sum, min?_eq_of_foldl_all _ _ h.min, max?_eq_of_foldl_all _ _ h.max, h.tsEq, h.tsSorted, ?_⟩
  intro t ht first last hf hl
  obtain ⟨lo, hlo, hi, hhi, hb⟩ := h.tsSpan t ht
  have b1 := sorted_bounds _ first last hwf.sorted hf hl lo hlo
  have b2 := sorted_bounds _ first last hwf.sorted hf hl hi hhi
  omega

/-- **C38 for downsampleAggrLoop as repaired** (`batchSize = max(len(chks)/numChunks, 1)`): for
    well-formed aggregate chunks (the shape DownsampleRaw produces, `C36_wellformed`), every
    resolution > 0 and every numChunks ≥ 1 the loop returns chunks whose total count, total sum,
    overall minimum and overall maximum are those of the input, whose four aggregates share
    their timestamps per chunk, and whose timestamps strictly increase inside the input's span. -/
theorem C38_conserves (r : Int) (hr : 0 < r) (chks : List Chunk) (nc : Nat) (hnc : 0 < nc) (hwf : WFChunks chks) :
    ∃ out, downsampleAggrLoop true chks r nc = .ok out ∧ C38_holds chks out := by
  have hnc' : nc ≠ 0 := by omega
  obtain ⟨out, ho, hc⟩ := aggrLoop_conserves r hr (aggrBatchSize true chks.length nc)
    (by simp [aggrBatchSize]; omega) chks.length chks (Nat.le_refl _) hwf
  exact ⟨out, by simp only [downsampleAggrLoop, hnc', if_false, ho], holds_of_conserves hwf hc⟩

/-- the same for `batchSize = len(chks)/numChunks` (before the repair) as long as numChunks does
    not exceed the number of chunks -/
theorem C38_conserves_unclamped_partial (r : Int) (hr : 0 < r) (chks : List Chunk) (nc : Nat) (hnc : 0 < nc)
    (hle : nc ≤ chks.length) (hwf : WFChunks chks) :
    ∃ out, downsampleAggrLoop false chks r nc = .ok out ∧ C38_holds chks out := by
  have hnc' : nc ≠ 0 := by omega
  obtain ⟨out, ho, hc⟩ := aggrLoop_conserves r hr (aggrBatchSize false chks.length nc)
    (by simp only [aggrBatchSize, Bool.false_eq_true, if_false]; exact Nat.div_pos hle hnc) chks.length chks (Nat.le_refl _) hwf
  exact ⟨out, by simp only [downsampleAggrLoop, hnc', if_false, ho], holds_of_conserves hwf hc⟩

/-- **C38 end to end**: raw series → DownsampleRaw (resolution r1, numChunks nc1) →
    downsampleAggrLoop (resolution r2, numChunks nc2): the second level's total count is the
    number of non-NaN raw samples, its total sum their sum, its overall minimum and maximum theirs,
    for all series, resolutions and chunk counts. -/
theorem C38_from_raw (r1 r2 : Int) (h1 : 0 < r1) (h2 : 0 < r2) (data : List Raw) (nc1 nc2 : Nat)
    (hn1 : 0 < nc1) (hn2 : 0 < nc2) (ok : RawOK data) :
    ∃ l1 l2, downsampleRaw data r1 nc1 = some l1 ∧ downsampleAggrLoop true l1 r2 nc2 = .ok l2 ∧
      C38_holds l1 l2 ∧
      ((l2.flatMap (·.count)).map (·.2)).sum = ((dropNaN data).length : Int) ∧
      ((l2.flatMap (·.sum)).map (·.2)).sum = ((dropNaN data).map (·.2)).sum ∧
      ((l2.flatMap (·.min)).map (·.2)).min? = ((dropNaN data).map (·.2)).min? ∧
      ((l2.flatMap (·.max)).map (·.2)).max? = ((dropNaN data).map (·.2)).max? := by
  obtain ⟨l1, e1, hwf⟩ := C36_wellformed r1 h1 data nc1 hn1 ok
  obtain ⟨l1', e1', t1, t2⟩ := C36_totals r1 h1 data nc1 hn1 ok.toIn
  rw [e1] at e1'; cases e1'
  obtain ⟨l1'', e1'', t3, t4⟩ := C36_minmax r1 h1 data nc1 hn1 ok.toIn
  rw [e1] at e1''; cases e1''
  obtain ⟨l2, e2, hh⟩ := C38_conserves r2 h2 l1 nc2 hn2 hwf
  exact ⟨l1, l2, e1, e2, hh, hh.count.trans t1, hh.sum.trans t2, hh.min.trans t3, hh.max.trans t4⟩

/-- Regenerated obligations: how the loop computes `batchSize` (the repaired expression, which
    is the one the driver's model uses: `aggrClampNow`) and what it tests. -/
theorem C38_source_facts :
    Thanos.Facts.dsAggrBatchSize = "max(len(chks)/numChunks, 1)" ∧ aggrClampNow = true ∧
    Thanos.Facts.dsAggrLoopConds = ["chk.MinTime == math.MaxInt64 || chk.MaxTime == math.MinInt64", "err != nil"] := by
  decide

-- non-vacuity: the two level-1 chunks below are well-formed, so `C38_conserves` applies to them
example : WFChunks
    [{ mint := 49, maxt := 49, count := [(49, 2)], sum := [(49, 4)], min := [(49, 1)], max := [(49, 3)], counter := [(10, 1), (49, 3), (49, 3)] },
     { mint := 70, maxt := 70, count := [(70, 1)], sum := [(70, 2)], min := [(70, 2)], max := [(70, 2)], counter := [(70, 2), (70, 2), (70, 2)] }] := by
  refine ⟨?_, by decide, by decide⟩
  intro c hc
  simp only [List.mem_cons, List.not_mem_nil, or_false] at hc
  rcases hc with rfl | rfl <;> exact ⟨by decide, by decide, by decide, by decide, by decide, by decide⟩
example : downsampleAggrLoop false
    [{ mint := 49, maxt := 49, count := [(49, 2)], sum := [(49, 4)], min := [(49, 1)], max := [(49, 3)], counter := [(10, 1), (49, 3), (49, 3)] },
     { mint := 70, maxt := 70, count := [(70, 1)], sum := [(70, 2)], min := [(70, 2)], max := [(70, 2)], counter := [(70, 2), (70, 2), (70, 2)] }] 100 1
    = .ok [{ mint := 70, maxt := 70, count := [(70, 3)], sum := [(70, 6)], min := [(70, 1)], max := [(70, 3)],
             counter := [(10, 1), (70, 5), (70, 2)] }] := by decide
example : downsampleAggrLoop false
    [{ mint := 49, maxt := 49, count := [(49, 2)], sum := [(49, 4)], min := [(49, 1)], max := [(49, 3)], counter := [(10, 1), (49, 3), (49, 3)] }] 100 2
    = .hang := by decide

end Thanos.Downsample
