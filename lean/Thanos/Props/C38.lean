import Thanos.Lemmas.DownsampleAggr
import Thanos.Generated.Facts
/-
  C38 — Re-downsampling aggregates conserves totals.
  Model: Model/Downsample.lean (`genericAggregate`, `floatAggrBatch`, `aggrLoop`,
  `downsampleAggrLoop`), a transliteration of downsampleAggrLoop / downsampleFloatAggrBatch /
  genericAggregate / downsampleBatch.
-/
namespace Thanos.Downsample

/-! ### termination of downsampleAggrLoop -/

/-- the loop returns for every positive `numChunks` (`clamp` selects how `batchSize` is computed) -/
def C38_terminates (clamp : Bool) : Prop :=
  ∀ (chks : List Chunk) (r : Int) (nc : Nat), 0 < nc → downsampleAggrLoop clamp chks r nc ≠ .hang

/-- `batchSize := len(chks) / numChunks` as written before the repair (F38): with more target chunks than input
    chunks `batchSize` is 0, downsampleFloatAggrBatch of no chunks returns the range [0, 0] (every
    genericAggregate returns `0, 0`), the "invalid range" test does not fire and the loop never
    consumes a chunk. -/
theorem C38_terminates_unclamped_false : ¬ C38_terminates false := by
  intro h
  exact h [{ mint := 49, maxt := 49, count := [(49, 2)], sum := [(49, 4)], min := [(49, 1)], max := [(49, 3)],
             counter := [(10, 1), (49, 3), (49, 3)] }] 100 2 (by decide) (by decide)

/-- … exactly when `numChunks` exceeds the number of chunks -/
theorem C38_unclamped_hangs (chks : List Chunk) (r : Int) (nc : Nat) (h : chks.length < nc) (hne : chks ≠ []) :
    downsampleAggrLoop false chks r nc = .hang := by
  have hnc : nc ≠ 0 := by omega
  simp only [downsampleAggrLoop, hnc, if_false, aggrBatchSize, Bool.false_eq_true]
  rw [Nat.div_eq_of_lt h]
  exact aggrLoop_zero_hang r _ chks hne

theorem C38_terminates_unclamped_partial (chks : List Chunk) (r : Int) (nc : Nat) (h0 : 0 < nc) (h : nc ≤ chks.length) :
    downsampleAggrLoop false chks r nc ≠ .hang := by
  have hnc : nc ≠ 0 := by omega
  simp only [downsampleAggrLoop, hnc, if_false, aggrBatchSize, Bool.false_eq_true]
  exact aggrLoop_progress r _ (Nat.div_pos h h0) _ chks (Nat.le_refl _)

/-- with `batchSize` kept at least 1 the loop always returns -/
theorem C38_terminates_clamped : C38_terminates true := by
  intro chks r nc h0
  have hnc : nc ≠ 0 := by omega
  simp only [downsampleAggrLoop, hnc, if_false, aggrBatchSize, if_true]
  exact aggrLoop_progress r _ (by omega) _ chks (Nat.le_refl _)

/-! ### what one aggregate of one output chunk conserves -/

/-- **genericAggregate conserves the totals of its input samples.**  `buf` is what was expanded
    from the sub-chunks of one aggregate (timestamps ≥ 0, the last one the largest, finite values):
    the emitted samples' Σ of window sums is Σ buf (used for the sum aggregate and, over count
    samples, for the count aggregate), the least window minimum is min buf, the greatest window
    maximum is max buf, and the emitted timestamps strictly increase inside [first, last] of buf. -/
theorem C38_batch_totals (r : Int) (hr : 0 < r) (buf : List Pt) (t0 v0 lastT lv : Int)
    (hhead : buf.head? = some (t0, v0)) (hlast : buf.getLast? = some (lastT, lv))
    (hb : ∀ p ∈ buf, 0 ≤ p.1 ∧ p.1 ≤ lastT) (hfin : ∀ p ∈ buf, Finite p.2) :
    ∃ out nt, downsampleBatch buf r = some (out, nt) ∧ out ≠ [] ∧
      (out.map (fun e => e.2.sum)).sum = (buf.map (·.2)).sum ∧
      (out.map (fun e => e.2.min)).min? = (buf.map (·.2)).min? ∧
      (out.map (fun e => e.2.max)).max? = (buf.map (·.2)).max? ∧
      (out.map (·.1)).Pairwise (· < ·) ∧ ∀ t ∈ out.map (·.1), t0 ≤ t ∧ t ≤ lastT := by
  obtain ⟨out, nt, h1, h2, h3, _, h5, h6, h7, h8⟩ := downsampleBatch_totals r hr buf t0 v0 lastT lv hhead hlast hb hfin
  exact ⟨out, nt, h1, h2, h3, h5, h6, h7, h8⟩

/-- Regenerated obligations: how the loop computes `batchSize` (the repaired expression, which
    is the one the driver's model uses: `aggrClampNow`) and what it tests. -/
theorem C38_source_facts :
    Thanos.Facts.dsAggrBatchSize = "max(len(chks)/numChunks, 1)" ∧ aggrClampNow = true ∧
    Thanos.Facts.dsAggrLoopConds = ["chk.MinTime == math.MaxInt64 || chk.MaxTime == math.MinInt64", "err != nil"] := by
  decide

-- non-vacuity
example : downsampleAggrLoop false
    [{ mint := 49, maxt := 49, count := [(49, 2)], sum := [(49, 4)], min := [(49, 1)], max := [(49, 3)], counter := [(10, 1), (49, 3), (49, 3)] },
     { mint := 70, maxt := 70, count := [(70, 1)], sum := [(70, 2)], min := [(70, 2)], max := [(70, 2)], counter := [(70, 2), (70, 2), (70, 2)] }] 100 1
    = .ok [{ mint := 70, maxt := 70, count := [(70, 3)], sum := [(70, 6)], min := [(70, 1)], max := [(70, 3)],
             counter := [(10, 1), (70, 5), (70, 2)] }] := by decide
example : downsampleAggrLoop false
    [{ mint := 49, maxt := 49, count := [(49, 2)], sum := [(49, 4)], min := [(49, 1)], max := [(49, 3)], counter := [(10, 1), (49, 3), (49, 3)] }] 100 2
    = .hang := by decide

end Thanos.Downsample
