import Thanos.Model.CompactProto
import Thanos.Lemmas.CompactProto
import Thanos.Props.C34
/-
  C29 — Compaction never loses or invents data, even if it crashes.

  "Compacting a group of blocks produces blocks holding exactly the samples of the sources
   (overlapping identical samples appear once when vertical compaction is enabled).  If the
   compactor crashes at any point and is restarted, at every moment the blocks a store gateway would
   serve still contain every original sample, and once compaction finishes each sample is served
   exactly once."

  Protocol level (partial): the theorems are about `Model/CompactProto.lean`, where the samples of a
  block are its sources and a compaction result holds the union of its sources' samples — that TSDB's
  merge really produces that union (with identical overlapping samples once) is checked by the
  harness on real blocks, not proved.  A crash of the compactor is the end of a prefix of an action
  sequence; after a restart any enabled action may follow.  So "for every reachable state" is
  "at every moment, for every crash point and every number of restarts".  The real compactor's
  bucket history is validated against this model on every run (`cp.valid`).
-/
namespace Thanos.CompactProto

/-- the parameters of a compactor alone (no store gateway in the system) -/
def compactorOnly (deleteDelay : Nat) : Params :=
  { deleteDelay := deleteDelay, divisor := 2, ignoreDelay := 0, lag := 0, levelTie := true }

/-- every reachable state of the compactor-only system satisfies the invariant of `Props/C34.lean`
    (no condition on the delays is needed when no gateway holds blocks) -/
theorem C29_inv (deleteDelay : Nat) (acts : List Action) (s : State)
    (h : run (compactorOnly deleteDelay) (init 0) acts = some s) : Inv (compactorOnly deleteDelay) s :=
  run_inv _ rfl acts (init 0) s (Or.inr rfl) (init_inv _ 0) h

/-- C29, "at every moment … still contain every original sample", bucket level: at every moment
    (every crash point, any number of restarts) every block — marked for deletion or not — has an
    unmarked block that holds all its samples. -/
theorem C29_cover (deleteDelay : Nat) (acts : List Action) (s : State)
    (h : run (compactorOnly deleteDelay) (init 0) acts = some s) :
    ∀ b ∈ s.blocks, ∃ u ∈ s.blocks, u.mark = none ∧ covers u b = true :=
  fun b hb => live_cover _ s (C29_inv deleteDelay acts s h) b hb

/-- … and at the store gateway: whatever ignore delay the gateway uses, its filter chain
    (deletion-mark filter, then duplicate filter) shows a block for every sample of the bucket. -/
theorem C29_served (deleteDelay ignoreDelay : Nat) (acts : List Action) (s : State)
    (h : run (compactorOnly deleteDelay) (init 0) acts = some s) :
    ∀ b ∈ s.blocks, ∀ x ∈ b.sources, ∃ k ∈ filterChain true ignoreDelay s.now s.blocks, x ∈ k.sources :=
  fun b hb x hx =>
    chain_complete (compactorOnly deleteDelay) s (C29_inv deleteDelay acts s h) ignoreDelay x
      (mem_allSources.mpr ⟨b, hb, hx⟩)

/-- C29, "never loses": no step of the compactor (compaction, marking, garbage collection,
    cleaning) removes a sample from the bucket. -/
theorem C29_no_loss (P : Params) (s s' : State) (a : Action) (hi : Inv P s) (h : step P s a = some s') :
    ∀ x ∈ allSources s.blocks, x ∈ allSources s'.blocks := by
  intro x hx
  obtain ⟨b, hb, hxb⟩ := mem_allSources.mp hx
  have keepMark : ∀ i t, x ∈ allSources (setMark i t s.blocks) := by
    intro i t
    refine mem_allSources.mpr ⟨_, mem_setMark.mpr ⟨b, hb, rfl⟩, ?_⟩
    split <;> simpa using hxb
  cases a with
  | ship =>
    simp only [step, Option.some.injEq] at h
    subst h
    exact mem_allSources.mpr ⟨b, List.mem_append_left _ hb, hxb⟩
  | compact ids =>
    simp only [step] at h
    split at h
    · simp at h
    · simp at h
    · simp only [Option.some.injEq] at h
      subst h
      exact mem_allSources.mpr ⟨b, List.mem_append_left _ hb, hxb⟩
  | markSource b0 r =>
    simp only [step] at h
    split at h
    · split at h
      · simp only [Option.some.injEq] at h; subst h; exact keepMark _ _
      · simp at h
    · simp at h
  | gc b0 =>
    simp only [step] at h
    split at h
    · split at h
      · simp only [Option.some.injEq] at h; subst h; exact keepMark _ _
      · simp at h
    · simp at h
  | clean b0 =>
    simp only [step] at h
    split at h
    · rename_i bb hfb
      split at h
      · rename_i t hbt
        split at h
        · simp only [Option.some.injEq] at h
          subst h
          obtain ⟨hbm, hbid⟩ := findBlk_some hfb
          -- the sample survives in an unmarked block, and only a marked block is deleted
          obtain ⟨u, hu, hul, huc⟩ := live_cover P s hi b hb
          refine mem_allSources.mpr ⟨u, List.mem_filter.mpr ⟨hu, ?_⟩, (covers_iff u b).mp huc x hxb⟩
          have : u.id ≠ b0 := by
            intro hub
            have : u = bb := eq_of_id_eq hi.ids_nodup hu hbm (hub.trans hbid.symm)
            subst this
            simp [hul] at hbt
          simpa using this
        · simp at h
      · simp at h
    · simp at h
  | sync g =>
    simp only [step] at h
    split at h
    · simp only [Option.some.injEq] at h; subst h; exact hx
    · simp at h
  | tick d =>
    simp only [step] at h
    split at h
    · simp only [Option.some.injEq] at h; subst h; exact hx
    · simp at h

/-- C29, "never invents": only a newly shipped block brings a new sample; a compaction result
    holds nothing but samples of the blocks it was compacted from. -/
theorem C29_no_invention (P : Params) (s s' : State) (a : Action) (hns : a ≠ .ship)
    (h : step P s a = some s') : ∀ x ∈ allSources s'.blocks, x ∈ allSources s.blocks := by
  intro x hx
  have ofMark : ∀ i t, x ∈ allSources (setMark i t s.blocks) → x ∈ allSources s.blocks := by
    intro i t hx
    obtain ⟨b', hb', hxb'⟩ := mem_allSources.mp hx
    obtain ⟨c, hc, rfl⟩ := mem_setMark.mp hb'
    refine mem_allSources.mpr ⟨c, hc, ?_⟩
    split at hxb' <;> simpa using hxb'
  cases a with
  | ship => exact absurd rfl hns
  | compact ids =>
    simp only [step] at h
    split at h
    · simp at h
    · simp at h
    · rename_i plan hplan
      simp only [Option.some.injEq] at h
      subst h
      obtain ⟨b', hb', hxb'⟩ := mem_allSources.mp hx
      rcases List.mem_append.mp hb' with hb' | hb'
      · exact mem_allSources.mpr ⟨b', hb', hxb'⟩
      · simp only [List.mem_singleton] at hb'
        subst hb'
        simp only [mem_foldl_union, List.not_mem_nil, false_or] at hxb'
        obtain ⟨p, hp, hxp⟩ := hxb'
        have hnd : ids.Nodup := by
          by_cases hc : ids.Nodup
          · exact hc
          · simp [hc] at hplan
        simp only [hnd, if_true] at hplan
        have hpv := mapM_find_mem hplan p hp
        have hpb : p ∈ s.blocks := ((mem_filterChain _ _ _ _ _).mp hpv).1.1
        exact mem_allSources.mpr ⟨p, hpb, hxp⟩
  | markSource b0 r =>
    simp only [step] at h
    split at h
    · split at h
      · simp only [Option.some.injEq] at h; subst h; exact ofMark _ _ hx
      · simp at h
    · simp at h
  | gc b0 =>
    simp only [step] at h
    split at h
    · split at h
      · simp only [Option.some.injEq] at h; subst h; exact ofMark _ _ hx
      · simp at h
    · simp at h
  | clean b0 =>
    simp only [step] at h
    split at h
    · split at h
      · split at h
        · simp only [Option.some.injEq] at h
          subst h
          obtain ⟨b', hb', hxb'⟩ := mem_allSources.mp hx
          exact mem_allSources.mpr ⟨b', (List.mem_filter.mp hb').1, hxb'⟩
        · simp at h
      · simp at h
    · simp at h
  | sync g =>
    simp only [step] at h
    split at h
    · simp only [Option.some.injEq] at h; subst h; exact hx
    · simp at h
  | tick d =>
    simp only [step] at h
    split at h
    · simp only [Option.some.injEq] at h; subst h; exact hx
    · simp at h

/-! ### "once compaction finishes each sample is served exactly once" -/

/-- nothing left to do for garbage collection and cleaning: no block is marked, none is hidden -/
def Quiescent (P : Params) (s : State) : Prop :=
  (∀ b ∈ s.blocks, b.mark = none) ∧ duplicates P.levelTie (P.deleteDelay / P.divisor) s.now s.blocks = []

/-- the full statement of the last clause in the model: in a quiescent reachable state no sample is
    in two different blocks of the gateway's view -/
def C29_once_full : Prop :=
  ∀ (deleteDelay ignoreDelay : Nat) (acts : List Action) (s : State),
    run (compactorOnly deleteDelay) (init 0) acts = some s → Quiescent (compactorOnly deleteDelay) s →
    ∀ a ∈ filterChain true ignoreDelay s.now s.blocks, ∀ b ∈ filterChain true ignoreDelay s.now s.blocks,
      ∀ x, x ∈ a.sources → x ∈ b.sources → a = b

/-! non-vacuity: a crash between upload and marking, a restart that garbage-collects, cleaning -/
example : (run (compactorOnly 100) (init 0)
    [.ship, .ship, .ship, .compact [1, 2], .markSource 1 4, /- crash, restart -/ .gc 2, .tick 101, .clean 1, .clean 2]).map
      (fun s => s.blocks.map (fun b => (b.id, b.sources, b.mark))) = some [(3, [3], none), (4, [1, 2], none)] := by decide

end Thanos.CompactProto
