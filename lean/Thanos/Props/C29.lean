import Thanos.Model.CompactProto
import Thanos.Lemmas.CompactProto
import Thanos.Props.C34
import Thanos.Generated.Facts
/-
  C29 — Compaction never loses or invents data, even if it crashes.

  "Compacting a group of blocks produces blocks holding exactly the samples of the sources
   (overlapping identical samples appear once when vertical compaction is enabled).  If the
   compactor crashes at any point and is restarted, at every moment the blocks a store gateway would
   serve still contain every original sample, and once compaction finishes each sample is served
   exactly once."

  Protocol level (partial): the theorems are about `Model/CompactProto.lean`, where the samples of a
  block are its sources and a compaction result holds the union of its sources' samples — that TSDB's
  merge really produces that union (with identical overlapping samples once) is checked by the
  harness on real blocks, not proved.  A crash of the compactor is the end of a prefix of an action
  sequence; after a restart any enabled action may follow.  So "for every reachable state" is
  "at every moment, for every crash point and every number of restarts".  The real compactor's
  bucket history is validated against this model on every run (`cp.valid`).
-/
namespace Thanos.CompactProto

/-- the parameters of a compactor alone (no store gateway in the system) -/
def compactorOnly (deleteDelay : Nat) : Params :=
  { deleteDelay := deleteDelay, divisor := 2, ignoreDelay := 0, lag := 0, levelTie := true }

/-- every reachable state of the compactor-only system satisfies the invariant of `Props/C34.lean`
    (no condition on the delays is needed when no gateway holds blocks) -/
theorem C29_inv (deleteDelay : Nat) (acts : List Action) (s : State)
    (h : run (compactorOnly deleteDelay) (init 0) acts = some s) : Inv (compactorOnly deleteDelay) s :=
  run_inv _ rfl acts (init 0) s (Or.inr rfl) (init_inv _ 0) h

/-- C29, "at every moment … still contain every original sample", bucket level: at every moment
    (every crash point, any number of restarts) every block — marked for deletion or not — has an
    unmarked block that holds all its samples. -/
theorem C29_cover (deleteDelay : Nat) (acts : List Action) (s : State)
    (h : run (compactorOnly deleteDelay) (init 0) acts = some s) :
    ∀ b ∈ s.blocks, ∃ u ∈ s.blocks, u.mark = none ∧ covers u b = true :=
  fun b hb => live_cover _ s (C29_inv deleteDelay acts s h) b hb

/-- … and at the store gateway: whatever ignore delay the gateway uses, its filter chain
    (deletion-mark filter, then duplicate filter) shows a block for every sample of the bucket. -/
theorem C29_served (deleteDelay ignoreDelay : Nat) (acts : List Action) (s : State)
    (h : run (compactorOnly deleteDelay) (init 0) acts = some s) :
    ∀ b ∈ s.blocks, ∀ x ∈ b.sources, ∃ k ∈ filterChain true ignoreDelay s.now s.blocks, x ∈ k.sources :=
  fun b hb x hx =>
    chain_complete (compactorOnly deleteDelay) s (C29_inv deleteDelay acts s h) ignoreDelay x
      (mem_allSources.mpr ⟨b, hb, hx⟩)

/-- C29, "never loses": no step of the compactor (compaction, marking, garbage collection,
    cleaning) removes a sample from the bucket. -/
theorem C29_no_loss (P : Params) (s s' : State) (a : Action) (hi : Inv P s) (h : step P s a = some s') :
    ∀ x ∈ allSources s.blocks, x ∈ allSources s'.blocks := by
  intro x hx
  obtain ⟨b, hb, hxb⟩ := mem_allSources.mp hx
  have keepMark : ∀ i t, x ∈ allSources (setMark i t s.blocks) := by
    intro i t
    refine mem_allSources.mpr ⟨_, mem_setMark.mpr ⟨b, hb, rfl⟩, ?_⟩
    split <;> simpa using hxb
  cases a with
  | ship =>
    simp only [step, Option.some.injEq] at h
    subst h
    exact mem_allSources.mpr ⟨b, List.mem_append_left _ hb, hxb⟩
  | compact ids =>
    simp only [step] at h
    split at h
    · simp at h
    · simp at h
    · simp only [Option.some.injEq] at h
      subst h
      exact mem_allSources.mpr ⟨b, List.mem_append_left _ hb, hxb⟩
  | markSource b0 r =>
    simp only [step] at h
    split at h
    · split at h
      · simp only [Option.some.injEq] at h; subst h; exact keepMark _ _
      · simp at h
    · simp at h
  | gc b0 =>
    simp only [step] at h
    split at h
    · split at h
      · simp only [Option.some.injEq] at h; subst h; exact keepMark _ _
      · simp at h
    · simp at h
  | clean b0 =>
    simp only [step] at h
    split at h
    · rename_i bb hfb
      split at h
      · rename_i t hbt
        split at h
        · simp only [Option.some.injEq] at h
          subst h
          obtain ⟨hbm, hbid⟩ := findBlk_some hfb
          -- the sample survives in an unmarked block, and only a marked block is deleted
          obtain ⟨u, hu, hul, huc⟩ := live_cover P s hi b hb
          refine mem_allSources.mpr ⟨u, List.mem_filter.mpr ⟨hu, ?_⟩, (covers_iff u b).mp huc x hxb⟩
          have : u.id ≠ b0 := by
            intro hub
            have : u = bb := eq_of_id_eq hi.ids_nodup hu hbm (hub.trans hbid.symm)
            subst this
            simp [hul] at hbt
          simpa using this
        · simp at h
      · simp at h
    · simp at h
  | sync g =>
    simp only [step] at h
    split at h
    · simp only [Option.some.injEq] at h; subst h; exact hx
    · simp at h
  | tick d =>
    simp only [step] at h
    split at h
    · simp only [Option.some.injEq] at h; subst h; exact hx
    · simp at h
  | failedUpload =>
    simp only [step, Option.some.injEq] at h
    subst h; exact hx
  | readFault =>
    simp only [step, Option.some.injEq] at h
    subst h; exact hx
  | syncLoad g =>
    simp only [step] at h
    split at h
    · simp only [Option.some.injEq] at h; subst h; exact hx
    · simp at h
  | syncDrop g =>
    simp only [step] at h
    split at h
    · simp only [Option.some.injEq] at h; subst h; exact hx
    · simp at h

/-- C29, "never invents": only a newly shipped block brings a new sample; a compaction result
    holds nothing but samples of the blocks it was compacted from. -/
theorem C29_no_invention (P : Params) (s s' : State) (a : Action) (hns : a ≠ .ship)
    (h : step P s a = some s') : ∀ x ∈ allSources s'.blocks, x ∈ allSources s.blocks := by
  intro x hx
  have ofMark : ∀ i t, x ∈ allSources (setMark i t s.blocks) → x ∈ allSources s.blocks := by
    intro i t hx
    obtain ⟨b', hb', hxb'⟩ := mem_allSources.mp hx
    obtain ⟨c, hc, rfl⟩ := mem_setMark.mp hb'
    refine mem_allSources.mpr ⟨c, hc, ?_⟩
    split at hxb' <;> simpa using hxb'
  cases a with
  | ship => exact absurd rfl hns
  | compact ids =>
    simp only [step] at h
    split at h
    · simp at h
    · simp at h
    · rename_i plan hplan
      simp only [Option.some.injEq] at h
      subst h
      obtain ⟨b', hb', hxb'⟩ := mem_allSources.mp hx
      rcases List.mem_append.mp hb' with hb' | hb'
      · exact mem_allSources.mpr ⟨b', hb', hxb'⟩
      · simp only [List.mem_singleton] at hb'
        subst hb'
        simp only [mem_foldl_union, List.not_mem_nil, false_or] at hxb'
        obtain ⟨p, hp, hxp⟩ := hxb'
        have hnd : ids.Nodup := by
          by_cases hc : ids.Nodup
          · exact hc
          · simp [hc] at hplan
        simp only [hnd, if_true] at hplan
        have hpv := mapM_find_mem hplan p hp
        have hpb : p ∈ s.blocks := ((mem_filterChain _ _ _ _ _).mp hpv).1.1
        exact mem_allSources.mpr ⟨p, hpb, hxp⟩
  | markSource b0 r =>
    simp only [step] at h
    split at h
    · split at h
      · simp only [Option.some.injEq] at h; subst h; exact ofMark _ _ hx
      · simp at h
    · simp at h
  | gc b0 =>
    simp only [step] at h
    split at h
    · split at h
      · simp only [Option.some.injEq] at h; subst h; exact ofMark _ _ hx
      · simp at h
    · simp at h
  | clean b0 =>
    simp only [step] at h
    split at h
    · split at h
      · split at h
        · simp only [Option.some.injEq] at h
          subst h
          obtain ⟨b', hb', hxb'⟩ := mem_allSources.mp hx
          exact mem_allSources.mpr ⟨b', (List.mem_filter.mp hb').1, hxb'⟩
        · simp at h
      · simp at h
    · simp at h
  | sync g =>
    simp only [step] at h
    split at h
    · simp only [Option.some.injEq] at h; subst h; exact hx
    · simp at h
  | tick d =>
    simp only [step] at h
    split at h
    · simp only [Option.some.injEq] at h; subst h; exact hx
    · simp at h
  | failedUpload =>
    simp only [step, Option.some.injEq] at h
    subst h; exact hx
  | readFault =>
    simp only [step, Option.some.injEq] at h
    subst h; exact hx
  | syncLoad g =>
    simp only [step] at h
    split at h
    · simp only [Option.some.injEq] at h; subst h; exact hx
    · simp at h
  | syncDrop g =>
    simp only [step] at h
    split at h
    · simp only [Option.some.injEq] at h; subst h; exact hx
    · simp at h


/-! ### the planner is not part of the model: ANY plan over the compactor's view is allowed -/

theorem mapM_find_some {view : List Blk} : ∀ (ids : List Nat), (∀ i ∈ ids, ∃ b ∈ view, b.id = i) →
    ∃ plan, ids.mapM (findBlk view) = some plan ∧ plan.length = ids.length
  | [], _ => ⟨[], by simp, rfl⟩
  | i :: ids, h => by
    obtain ⟨plan, hp, hl⟩ := mapM_find_some ids (fun j hj => h j (List.mem_cons_of_mem _ hj))
    obtain ⟨b, hb, hbi⟩ := h i (by simp)
    have hfind : ∃ b', findBlk view i = some b' := by
      unfold findBlk
      cases hf : view.find? (fun b => b.id == i) with
      | some b' => exact ⟨b', rfl⟩
      | none =>
        have := List.find?_eq_none.mp hf b hb
        simp [hbi] at this
    obtain ⟨b', hb'⟩ := hfind
    exact ⟨b' :: plan, by simp [List.mapM_cons, hb', hp], by simp [hl]⟩

/-- The `compact` action is enabled for EVERY non-empty duplicate-free choice of blocks of the
    compactor's view — not only for plans the real planner would make.  By `C30_subset` and
    `C30_no_excluded` every plan of the real planner is such a choice (a sublist of the group's metas,
    which are the compactor's view), so the theorems of this file (`C29_cover`, `C29_served`,
    `C29_no_loss`, `C29_no_invention`, `C29_once`), being about all action sequences, hold whatever
    the planner selects: single blocks, overlapping blocks, blocks with gaps between them, blocks
    already marked for deletion but still in view. -/
theorem C29_any_plan (P : Params) (s : State) (ids : List Nat) (hne : ids ≠ []) (hnd : ids.Nodup)
    (hview : ∀ i ∈ ids, ∃ b ∈ compactorView P s, b.id = i) :
    ∃ s', step P s (.compact ids) = some s' := by
  obtain ⟨plan, hp, hl⟩ := mapM_find_some (view := compactorView P s) ids hview
  have hpne : plan ≠ [] := by
    intro h0
    rw [h0] at hl
    cases ids with
    | nil => exact hne rfl
    | cons a l => simp at hl
  simp only [step, hnd, if_true, hp]
  cases plan with
  | nil => exact absurd rfl hpne
  | cons a l => exact ⟨_, rfl⟩

/-- A failed read of a meta.json or of a marker during a sync never changes the bucket: what it may
    do is abort the iteration (block family, `C33_classify`: which read outcomes make the view
    incomplete, and that an incomplete view leads to no write).  In particular it may not make a
    complete block look like an aborted upload to `BestEffortCleanAbortedPartialUploads` — the
    harness injects such faults (call error, body cut in the middle, on 72 h old blocks) into the
    full compactor iteration and validates the recorded bucket history against this. -/
theorem C29_readFault_no_change (P : Params) (s : State) : step P s .readFault = some s := rfl

/-! ### "once compaction finishes each sample is served exactly once" -/

/-- two blocks share no sample -/
def Disjoint (a b : Blk) : Prop := ∀ x, x ∈ a.sources → x ∈ b.sources → False

/-- the source sets of the bucket form a laminar family: any two blocks are nested or disjoint;
    every sample was shipped before -/
structure Lam (s : State) : Prop where
  src_lt  : ∀ b ∈ s.blocks, ∀ x ∈ b.sources, x < s.nextId
  laminar : ∀ a ∈ s.blocks, ∀ b ∈ s.blocks, covers a b = true ∨ covers b a = true ∨ Disjoint a b

/-- a block of the compactor's view is not strictly contained in any block of the bucket -/
theorem view_maximal (P : Params) (s : State) (hi : Inv P s) (m e : Blk)
    (hm : m ∈ compactorView P s) (he : e ∈ s.blocks) (hc : covers e m = true) : covers m e = true := by
  obtain ⟨⟨hmb, _⟩, hmh⟩ := (mem_filterChain _ _ _ _ _).mp hm
  obtain ⟨u, hu, hul, huc⟩ := live_cover P s hi e he
  have huV : u ∈ markView (P.deleteDelay / P.divisor) s.now s.blocks := by
    simp [markView, List.mem_filter, hu, markOk, hul]
  have hum : covers u m = true := covers_trans huc hc
  have hnb : beats P.levelTie u m = false := by
    cases hb : beats P.levelTie u m with
    | false => rfl
    | true =>
      have : hiddenIn P.levelTie (markView (P.deleteDelay / P.divisor) s.now s.blocks) m = true :=
        (hiddenIn_iff _ _ _).mpr ⟨u, huV, hb, hum⟩
      simp [this] at hmh
  have hmu := covers_back_of_unbeaten (nodup_of_sorted (hi.src_sorted u hu)) (nodup_of_sorted (hi.src_sorted m hmb)) hum hnb
  exact covers_trans hmu huc

theorem lam_of_map (s : State) (f : Blk → Blk) (hf : ∀ b, (f b).sources = b.sources) (hl : Lam s) :
    Lam { s with blocks := s.blocks.map f } := by
  have hcov : ∀ a b, covers (f a) (f b) = covers a b := by intro a b; simp [covers, hf]
  refine ⟨?_, ?_⟩
  · intro b hb x hx
    obtain ⟨c, hc, rfl⟩ := List.mem_map.mp hb
    exact hl.src_lt c hc x (hf c ▸ hx)
  · intro a ha b hb
    obtain ⟨a', ha', rfl⟩ := List.mem_map.mp ha
    obtain ⟨b', hb', rfl⟩ := List.mem_map.mp hb
    rcases hl.laminar a' ha' b' hb' with h | h | h
    · exact Or.inl (by rw [hcov]; exact h)
    · exact Or.inr (Or.inl (by rw [hcov]; exact h))
    · refine Or.inr (Or.inr ?_)
      intro x hx1 hx2
      exact h x (hf a' ▸ hx1) (hf b' ▸ hx2)

theorem lam_of_sublist (s : State) (bs : List Blk) (hsub : bs.Sublist s.blocks) (hl : Lam s) :
    Lam { s with blocks := bs } :=
  ⟨fun b hb => hl.src_lt b (hsub.subset hb), fun a ha b hb => hl.laminar a (hsub.subset ha) b (hsub.subset hb)⟩

/-- adding a block that is, for every old block, a superset of it or disjoint from it -/
theorem lam_add (s : State) (nb : Blk) (hl : Lam s) (hlt : ∀ x ∈ nb.sources, x < s.nextId + 1)
    (hrel : ∀ e ∈ s.blocks, covers nb e = true ∨ Disjoint nb e) :
    Lam { s with blocks := s.blocks ++ [nb], nextId := s.nextId + 1 } := by
  refine ⟨?_, ?_⟩
  · intro b hb x hx
    rcases List.mem_append.mp hb with hb | hb
    · have := hl.src_lt b hb x hx; simp only; omega
    · simp at hb; subst hb; exact hlt x hx
  · intro a ha b hb
    rcases List.mem_append.mp ha with ha1 | ha1 <;> rcases List.mem_append.mp hb with hb1 | hb1
    · exact hl.laminar a ha1 b hb1
    · have hbe : b = nb := by simpa using hb1
      rw [hbe]
      rcases hrel a ha1 with h | h
      · exact Or.inr (Or.inl h)
      · exact Or.inr (Or.inr (fun x h1 h2 => h x h2 h1))
    · have hae : a = nb := by simpa using ha1
      rw [hae]
      rcases hrel b hb1 with h | h
      · exact Or.inl h
      · exact Or.inr (Or.inr h)
    · have hae : a = nb := by simpa using ha1
      have hbe : b = nb := by simpa using hb1
      rw [hae, hbe]
      exact Or.inl (covers_refl _)

theorem step_lam (P : Params) (s s' : State) (a : Action) (hi : Inv P s) (hl : Lam s)
    (h : step P s a = some s') : Lam s' := by
  have markCase : ∀ i t, Lam { s with blocks := setMark i t s.blocks } := by
    intro i t
    exact lam_of_map s _ (by intro b; split <;> rfl) hl
  cases a with
  | ship =>
    simp only [step, Option.some.injEq] at h
    subst h
    refine lam_add s _ hl (by simp) ?_
    intro e he
    right
    intro x hx hxe
    simp at hx
    subst hx
    have := hl.src_lt e he _ hxe
    omega
  | compact ids =>
    simp only [step] at h
    split at h
    · simp at h
    · simp at h
    · rename_i plan _ hplan
      simp only [Option.some.injEq] at h
      subst h
      have hnd : ids.Nodup := by
        by_cases hc : ids.Nodup
        · exact hc
        · simp [hc] at hplan
      simp only [hnd, if_true] at hplan
      have hpv : ∀ p ∈ plan, p ∈ compactorView P s := mapM_find_mem hplan
      have hpb : ∀ p ∈ plan, p ∈ s.blocks := fun p hp => ((mem_filterChain _ _ _ _ _).mp (hpv p hp)).1.1
      refine lam_add s _ hl ?_ ?_
      · intro x hx
        simp only [mem_foldl_union, List.not_mem_nil, false_or] at hx
        obtain ⟨p, hp, hxp⟩ := hx
        have := hl.src_lt p (hpb p hp) x hxp
        omega
      · intro e he
        by_cases hex : ∃ m ∈ plan, covers m e = true
        · obtain ⟨m, hm, hme⟩ := hex
          left
          rw [covers_iff] at hme ⊢
          intro x hx
          simp only [mem_foldl_union, List.not_mem_nil, false_or]
          exact ⟨m, hm, hme x hx⟩
        · right
          intro x hx hxe
          simp only [mem_foldl_union, List.not_mem_nil, false_or] at hx
          obtain ⟨m, hm, hxm⟩ := hx
          rcases hl.laminar m (hpb m hm) e he with h1 | h1 | h1
          · exact hex ⟨m, hm, h1⟩
          · exact hex ⟨m, hm, view_maximal P s hi m e (hpv m hm) he h1⟩
          · exact h1 x hxm hxe
  | markSource b0 r =>
    simp only [step] at h
    split at h
    · split at h
      · simp only [Option.some.injEq] at h; subst h; exact markCase _ _
      · simp at h
    · simp at h
  | gc b0 =>
    simp only [step] at h
    split at h
    · split at h
      · simp only [Option.some.injEq] at h; subst h; exact markCase _ _
      · simp at h
    · simp at h
  | clean b0 =>
    simp only [step] at h
    split at h
    · split at h
      · split at h
        · simp only [Option.some.injEq] at h
          subst h
          exact lam_of_sublist s _ List.filter_sublist hl
        · simp at h
      · simp at h
    · simp at h
  | sync g =>
    simp only [step] at h
    split at h
    · simp only [Option.some.injEq] at h; subst h; exact ⟨hl.src_lt, hl.laminar⟩
    · simp at h
  | tick d =>
    simp only [step] at h
    split at h
    · simp only [Option.some.injEq] at h; subst h; exact ⟨hl.src_lt, hl.laminar⟩
    · simp at h
  | failedUpload =>
    simp only [step, Option.some.injEq] at h
    subst h
    exact ⟨fun b hb x hx => by have := hl.src_lt b hb x hx; simp only; omega, hl.laminar⟩
  | readFault =>
    simp only [step, Option.some.injEq] at h
    subst h; exact hl
  | syncLoad g =>
    simp only [step] at h
    split at h
    · simp only [Option.some.injEq] at h; subst h; exact ⟨hl.src_lt, hl.laminar⟩
    · simp at h
  | syncDrop g =>
    simp only [step] at h
    split at h
    · simp only [Option.some.injEq] at h; subst h; exact ⟨hl.src_lt, hl.laminar⟩
    · simp at h

theorem run_lam (P : Params) (hT : P.levelTie = true) : ∀ (acts : List Action) (s s' : State),
    s.gws = [] → Inv P s → Lam s → run P s acts = some s' → Lam s'
  | [], s, s', _, _, hl, h => by simp [run] at h; subst h; exact hl
  | a :: as, s, s', hn, hi, hl, h => by
    simp only [run] at h
    split at h
    · rename_i s1 hs1
      exact run_lam P hT as s1 s' (step_gws_nil P s s1 a hn hs1)
        (step_inv P s s1 (Or.inr hn) hT a hi hs1) (step_lam P s s1 a hi hl hs1) h
    · simp at h

/-- nothing left to do for garbage collection and cleaning: no block is marked, none is hidden -/
def Quiescent (P : Params) (s : State) : Prop :=
  (∀ b ∈ s.blocks, b.mark = none) ∧ duplicates P.levelTie (P.deleteDelay / P.divisor) s.now s.blocks = []

/-- the full statement of the last clause in the model: in a quiescent reachable state no sample is
    in two different blocks of the gateway's view -/
def C29_once_full : Prop :=
  ∀ (deleteDelay ignoreDelay : Nat) (acts : List Action) (s : State),
    run (compactorOnly deleteDelay) (init 0) acts = some s → Quiescent (compactorOnly deleteDelay) s →
    ∀ a ∈ filterChain true ignoreDelay s.now s.blocks, ∀ b ∈ filterChain true ignoreDelay s.now s.blocks,
      ∀ x, x ∈ a.sources → x ∈ b.sources → a = b

/-- C29, "once compaction finishes each sample is served exactly once": when nothing is marked
    and nothing is hidden any more, the blocks a gateway shows are pairwise disjoint. -/
theorem C29_once : C29_once_full := by
  intro dd ig acts s hrun hq a ha b hb x hxa hxb
  have hi := C29_inv dd acts s hrun
  have hl : Lam s := run_lam _ rfl acts (init 0) s rfl (init_inv _ 0) ⟨by simp [init], by simp [init]⟩ hrun
  have hab : a ∈ s.blocks := ((mem_filterChain _ _ _ _ _).mp ha).1.1
  have hbb : b ∈ s.blocks := ((mem_filterChain _ _ _ _ _).mp hb).1.1
  -- nothing is hidden in the compactor's view, which is the whole bucket
  have hnh : ∀ c ∈ s.blocks, ∀ u ∈ s.blocks, ¬ (beats true u c = true ∧ covers u c = true) := by
    intro c hc u hu hbc
    have hV : ∀ k ∈ s.blocks, k ∈ markView ((compactorOnly dd).deleteDelay / (compactorOnly dd).divisor) s.now s.blocks := by
      intro k hk
      simp [markView, List.mem_filter, hk, markOk, hq.1 k hk]
    have : c ∈ duplicates (compactorOnly dd).levelTie ((compactorOnly dd).deleteDelay / (compactorOnly dd).divisor) s.now s.blocks := by
      refine (mem_duplicates _ _ _ _ _).mpr ⟨⟨hc, by simp [markOk, hq.1 c hc]⟩, ?_⟩
      exact (hiddenIn_iff _ _ _).mpr ⟨u, hV u hu, hbc.1, hbc.2⟩
    rw [hq.2] at this
    simp at this
  by_cases hid : a.id = b.id
  · exact eq_of_id_eq hi.ids_nodup hab hbb hid
  · exfalso
    have nested : ∀ (p q : Blk), p ∈ s.blocks → q ∈ s.blocks → p.id ≠ q.id → covers p q = true → False := by
      intro p q hp hqm hpq hc
      have hnb : beats true p q = false := by
        cases hbq : beats true p q with
        | false => rfl
        | true => exact absurd ⟨hbq, hc⟩ (hnh q hqm p hp)
      have hback := covers_back_of_unbeaten (nodup_of_sorted (hi.src_sorted p hp)) (nodup_of_sorted (hi.src_sorted q hqm)) hc hnb
      have hlen : p.sources.length = q.sources.length := by
        have h1 := length_le_of_nodup_subset (nodup_of_sorted (hi.src_sorted q hqm)) (fun x hx => (covers_iff p q).mp hc x hx)
        have h2 := length_le_of_nodup_subset (nodup_of_sorted (hi.src_sorted p hp)) (fun x hx => (covers_iff q p).mp hback x hx)
        omega
      rcases beats_total hpq hlen with h1 | h1
      · exact hnh q hqm p hp ⟨h1, hc⟩
      · exact hnh p hp q hqm ⟨h1, hback⟩
    rcases hl.laminar a hab b hbb with h | h | h
    · exact nested a b hab hbb hid h
    · exact nested b a hbb hab (fun h' => hid h'.symm) h
    · exact h x hxa hxb

/-- non-vacuity of `C29_once`: the run below ends quiescent with two disjoint blocks -/
example : (run (compactorOnly 100) (init 0)
    [.ship, .ship, .ship, .compact [1, 2], .markSource 1 4, .gc 2, .tick 101, .clean 1, .clean 2]).map
      (fun s => decide (∀ b ∈ s.blocks, b.mark = none) && (duplicates true 50 s.now s.blocks).isEmpty) = some true := by decide

/-! non-vacuity: a crash between upload and marking, a restart that garbage-collects, cleaning -/
example : (run (compactorOnly 100) (init 0)
    [.ship, .ship, .ship, .compact [1, 2], .markSource 1 4, /- crash, restart -/ .gc 2, .tick 101, .clean 1, .clean 2]).map
      (fun s => s.blocks.map (fun b => (b.id, b.sources, b.mark))) = some [(3, [3], none), (4, [1, 2], none)] := by decide

/-! ## Regenerated facts: the order of the bucket-changing steps -/

/-- `Group.compact` uploads the result before it marks the sources (`markSource` needs the result in
    the bucket); the earlier `deleteBlock` is the branch for a compaction that produced no block and
    only touches sources without samples.  `deleteBlock` marks, it never deletes. -/
theorem C29_fact_compact_order :
    Thanos.Facts.groupCompactOrder = ["CompactWithBlockPopulator", "deleteBlock", "Upload", "deleteBlock"] ∧
    Thanos.Facts.deleteBlockMarks = ["MarkForDeletion"] := by decide

/-- the upload's error reaches the check in front of the marking loop (shared with C34, where the
    skeleton `marksReached` is defined): marks are placed only after the result upload returned nil -/
theorem C29_fact_marks_only_after_upload :
    marksReached Thanos.Facts.groupCompactUploadGuard true = false := C34_fact_marks_only_after_upload.2.1

/-- the full iteration of cmd/thanos/compact.go the harness replays: (definition of cleanPartialMarked with
    BestEffortCleanAbortedPartialUploads over `sy.Partial()`), then in compactMainFn: compactor.Compact,
    retention, cleanPartialMarked; cleanPartialMarked once more as the periodic cleanup -/
theorem C29_fact_main_fn :
    Thanos.Facts.compactMainFnOrder = ["BestEffortCleanAbortedPartialUploads", "compactor.Compact",
      "ApplyRetentionPolicyByResolution", "cleanPartialMarked", "cleanPartialMarked"] ∧
    Thanos.Facts.cleanPartialArg = "sy.Partial()" := by decide

/-- `loadMeta` reads the whole object before it parses: a failed READ is an error of the sync
    (incomplete view, nothing is written), only a failed PARSE makes the block "partial" — and
    partial blocks older than 48 h are what the cleaner deletes.  This is the implementation side of
    `C29_readFault_no_change`. -/
theorem C29_fact_load_meta : Thanos.Facts.loadMetaDecode = ["io.ReadAll", "json.Unmarshal"] := by decide

/-- What happens under a fault OUTSIDE the property's quantifier (recorded, not claimed): C29 ranges
    over block sets and crash points of the bucket operation sequence; the object store is trusted
    to be consistent (DESIGN §5).  If a store transiently answers "not found" for the meta.json of a
    complete 72 h old block, the fetcher takes the block for an aborted upload and the partial-upload
    cleaner deletes it although it was never marked — and once the only block holding a sample is
    deleted unmarked, the cover is gone.  No action of the model does this.  The harness generates
    the fault (read-fault mode `n`) and counts the outcome as an observation. -/
theorem C29_unmarked_delete_breaks_cover :
    let s : State := { now := 0, blocks := [{ id := 1, level := 1, sources := [1], mark := none }], gws := [], nextId := 2 }
    (∃ b ∈ s.blocks, 1 ∈ b.sources) ∧ ¬ (∃ b ∈ (s.blocks.filter (fun c => c.id != 1)), 1 ∈ b.sources) := by decide

/-- one iteration of `BucketCompactor.Compact`: sync, clean, garbage-collect, then plan -/
theorem C29_fact_loop_order :
    Thanos.Facts.compactLoopOrder = ["SyncMetas", "DeleteMarkedBlocks", "GarbageCollect", "Groups"] := by decide

end Thanos.CompactProto
