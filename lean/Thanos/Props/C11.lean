import Thanos.Model.IndexHeader
import Thanos.Lemmas.IndexHeader
import Thanos.Lemmas.IndexLookup
import Thanos.Lemmas.IndexMeta
import Thanos.Generated.Facts
/-
  C11 — Binary index-header answers equal the full index.

  The postings offset table of one label name is a strictly increasing list of (value, posting
  offset); label values are compared through their ranks (the harness supplies them), so the
  theorems hold for every table, of any size.
-/
namespace Thanos.IndexHeader

/-- C11, lookup part, at full strength: for every sampling rate, every table and every sorted list
    of requested values (duplicates, absent values), the header finds exactly the locations the
    full table gives. -/
def C11_lookup_full : Prop :=
  ∀ (n : Nat) (tbl : List (Nat × Nat)) (lastValOffset : Int) (values : List Nat),
    n ≥ 1 → tbl ≠ [] → StrictlyIncreasing tbl → Sorted values →
    lookup (sample n tbl) tbl lastValOffset values = .ok (specLookup tbl lastValOffset values)

/-- what `init` keeps in memory of a label name's table: the entries at the multiples of the
    sampling rate, and the last one — each with its position in the table -/
theorem C11_sample_spec (n : Nat) (tbl : List (Nat × Nat)) :
    sample n tbl =
      tbl.zipIdx.filterMap fun ek => if keptAt n tbl.length ek.2 then some (ek.1.1, ek.2) else none := by
  have := sampleFrom_spec n tbl 0
  simpa [sample] using this

/-- LabelValues returns every value of the label name, in table order, for every sampling rate -/
theorem C11_labelValues_all (n : Nat) (hn : n ≥ 1) (tbl : List (Nat × Nat)) (hne : tbl ≠ [])
    (hs : StrictlyIncreasing tbl) : labelValues (sample n tbl) tbl = .ok (tbl.map (·.1)) := by
  cases tbl with
  | nil => exact absurd rfl hne
  | cons e rest =>
    obtain ⟨v, p⟩ := e
    obtain ⟨more, hsm⟩ := sample_head n hn v p rest
    have hlast : ∃ e, ((v, p) :: rest).getLast? = some e := by
      cases h : ((v, p) :: rest).getLast? with
      | none => simp at h
      | some e => exact ⟨e, rfl⟩
    obtain ⟨e, he⟩ := hlast
    have hg := sampleFrom_getLast n ((v, p) :: rest) 0 e he
    have hgo := labelValues_go ((v, p) :: rest) e hs he
    have hg' : (sample n ((v, p) :: rest)).getLast? = some (e.1, 0 + ((v, p) :: rest).length - 1) := hg
    unfold labelValues
    rw [hsm] at hg' ⊢
    simp only [hg']
    simpa using hgo

/-! ### label names, symbols, index format v1 -/

/-- LabelNames: the keys of the postings map — for a table whose names come in non-decreasing order
    (format v2 groups and sorts them; for v1 the reader sorts the keys) exactly the distinct names of
    the table except the name of the all-postings key, each once, in increasing order. -/
theorem C11_labelNames (emptyName : Option Nat) (names : List Nat) (h : names.Pairwise (· ≤ ·)) :
    (labelNames emptyName names).Pairwise (· < ·) ∧
    ∀ x, x ∈ labelNames emptyName names ↔ x ∈ names ∧ some x ≠ emptyName :=
  ⟨labelNames_strict emptyName names h, mem_labelNames emptyName names⟩

/-- LookupSymbol: any sequence of lookups, through the map of label-name symbols and the
    direct-mapped cache of value symbols (any number of slots, collisions, overwritten slots,
    the empty symbol that never counts as cached), answers what the symbol table answers — for a
    v1 index at the shifted reference. -/
theorem C11_lookupSymbols (table : Nat → Option (List Nat)) (names : List (Nat × List Nat))
    (size shift : Nat) (hn : NamesOK table names) (refs : List Nat) :
    lookupSymbols table names size shift refs [] =
      refs.map fun o => table ((o + shift) % 4294967296) :=
  lookupSymbols_ok table names size shift hn refs [] (cacheOK_nil table)

/-- the same from any reachable cache state (the invariant is preserved by every lookup) -/
theorem C11_lookupSymbol_step (table : Nat → Option (List Nat)) (names : List (Nat × List Nat))
    (size shift o : Nat) (c : SymCache) (hn : NamesOK table names) (hc : CacheOK table c) :
    (lookupSymbol table names size shift o c).1 = table ((o + shift) % 4294967296) ∧
    CacheOK table (lookupSymbol table names size shift o c).2 :=
  lookupSymbol_ok table names size shift o c hn hc

/-- the hit test needs the reference: a cache that compared the slot only would answer a
    colliding reference with the wrong symbol (two references 1024 apart) -/
example : lookupSymbols (fun o => if o = 1 then some [97] else if o = 1025 then some [98] else none)
    [] 1024 0 [1, 1025, 1, 1025, 7] [] = [some [97], some [98], some [97], some [98], none] := by decide

/-- index format v1, multi-value lookup: one answer per requested value, in order — the stored
    range of the pair, or NotFoundRange. -/
theorem C11_v1_lookup (e lastEnd : Nat) (tbl : List EntryV1) (name : Nat) (values : List Nat)
    (hk : (tbl.any fun x => x.1 = name) = true) :
    lookupV1 false e lastEnd tbl name values =
      values.map (fun v => ((rangesV1 e lastEnd tbl).reverse.lookup (name, v)).getD notFound) ∧
    (lookupV1 false e lastEnd tbl name values).length = values.length := by
  refine ⟨?_, lookupV1_length e lastEnd tbl name values hk⟩
  unfold lookupV1; simp [hk]

/-- … where the stored range of the i-th entry starts 4 bytes after its offset and ends 4 bytes
    before the next entry's offset; the last entry's ends 4 bytes before the end of the section and
    is missing altogether if its name is "" -/
theorem C11_v1_ranges (e lastEnd : Nat) (tbl : List EntryV1) :
    (∀ i a b, tbl[i]? = some a → tbl[i + 1]? = some b →
      (rangesV1 e lastEnd tbl)[i]? = some ((a.1, a.2.1), ⟨(a.2.2 : Int) + 4, (b.2.2 : Int) - 4⟩)) ∧
    (∀ a, tbl.getLast? = some a → (rangesV1 e lastEnd tbl)[tbl.length - 1]? =
      if a.1 = e then none else some ((a.1, a.2.1), ⟨(a.2.2 : Int) + 4, (lastEnd : Int) - 4⟩)) :=
  ⟨fun i a b ha hb => rangesV1_inner e lastEnd tbl i a b ha hb,
   fun a ha => rangesV1_last e lastEnd tbl a ha⟩

/-- the v1 branch as it was (`continue` on a missing value) is wrong: the answer is shorter than the
    request, so positions no longer correspond … -/
theorem C11_v1_omit_false :
    ∃ (e lastEnd : Nat) (tbl : List EntryV1) (name : Nat) (values : List Nat),
      (tbl.any fun x => x.1 = name) = true ∧
      (lookupV1 true e lastEnd tbl name values).length ≠ values.length :=
  ⟨0, 1000, [(1, 5, 100), (1, 7, 200)], 1, [5, 6, 7], by decide, by decide⟩

/-- … and right exactly as far as every requested value exists -/
theorem C11_v1_omit_partial (e lastEnd : Nat) (tbl : List EntryV1) (name : Nat) (values : List Nat)
    (hall : ∀ v ∈ values, ((rangesV1 e lastEnd tbl).reverse.lookup (name, v)).isSome) :
    lookupV1 true e lastEnd tbl name values = lookupV1 false e lastEnd tbl name values :=
  lookupV1_old_partial e lastEnd tbl name values hall

example : lookupV1 false 0 1000 [(1, 5, 100), (0, 0, 200), (1, 7, 300)] 1 [5, 6, 7] =
    [⟨104, 196⟩, notFound, ⟨304, 996⟩] := by decide
example : lookupV1 false 0 1000 [(1, 5, 100), (0, 0, 200)] 0 [0] = [notFound] := by decide
example : labelNames (some 0) [0, 1, 1, 1, 3, 3] = [1, 3] := by decide

/-! ### byte level: how the lookup gets past key count and label name of a table entry -/

/-- `skipNAndName` as it is: the length is measured on the first entry visited (whatever the length
    of the label name — one, two or three bytes of length prefix) and reused for every further entry
    of the same label name; both times the decoder stands exactly on the label value. -/
theorem C11_skip_measured (name v1 v2 : List Nat) (o1 o2 : Nat) (rest1 rest2 : List Nat)
    (hn : name.length < 2 ^ 64) :
    (skipNAndName (entryBytes name v1 o1 ++ rest1) 0).1 =
      Thanos.Uvarint.uvarint v1.length ++ v1 ++ Thanos.Uvarint.uvarint o1 ++ rest1 ∧
    (skipNAndName (entryBytes name v2 o2 ++ rest2) (skipNAndName (entryBytes name v1 o1 ++ rest1) 0).2).1 =
      Thanos.Uvarint.uvarint v2.length ++ v2 ++ Thanos.Uvarint.uvarint o2 ++ rest2 := by
  rw [skip_measure name v1 o1 rest1 hn]
  exact ⟨rfl, by rw [skip_again]⟩

/-- a skip length computed upfront as `1 + 1 + len(name)` is the measured one exactly for label
    names shorter than 128 bytes -/
theorem C11_skip_upfront_iff (name : List Nat) : nameSkipLen name = 1 + 1 + name.length ↔ name.length < 128 := by
  unfold nameSkipLen
  rw [← uvarint_length_one_iff]
  omega

/-- … so it is wrong: with a label name of 128 bytes the decoder stands one byte before the label
    value (on the second byte of the name's length prefix … of the name's last byte) -/
theorem C11_skip_upfront_false :
    ∃ name : List Nat, nameSkipLen name ≠ 1 + 1 + name.length :=
  ⟨List.replicate 128 97, by
    intro h
    have := (C11_skip_upfront_iff (List.replicate 128 97)).mp h
    simp at this⟩

example : (skipNAndName (entryBytes [97, 98] [120] 300 ++ [7]) 0) = ([1, 120, 172, 2, 7], 4) := by decide

/-- regenerated fact: the skip length starts as 0 in `postingsOffset` and `skipNAndName` measures it
    from the decoder (`d.Len()` before and after decoding), it is not computed from the name -/
theorem C11_skip_fact :
    Thanos.Facts.skipNAndNameStmts =
      ["if:*buf == 0 {", "*buf = d.Len()", "d.Uvarint()", "d.UvarintBytes()", "*buf -= d.Len()",
       "return", "}", "d.Skip(*buf)"] ∧
    Thanos.Facts.postingsOffsetBufInit = ["buf := 0", "skipNAndName(&d, &buf)", "skipNAndName(&d, &buf)"] := by
  decide

/-- regenerated fact: the in-memory index-header owns its bytes — NewMemoryWriter allocates a fresh
    buffer, MemoryWriter.Close only flushes (it hands the buffer to nobody), and the package has no
    package-level pool.  (The model takes a header's bytes as an immutable value: this is the
    condition under which it may.) -/
theorem C11_memory_header_owned_fact :
    Thanos.Facts.memoryWriterCtorStmts =
      ["return &MemoryWriter{ id: id, buf: bytes.NewBuffer(make([]byte, 0, size)), pos: 0, }"] ∧
    Thanos.Facts.memoryWriterCloseStmts = ["return mw.Flush()"] ∧
    Thanos.Facts.indexheaderPoolVars = [] := by decide

/-! regenerated facts: the statements of LookupSymbol, LabelNames and the v1 branch are the ones
    transliterated in Model/IndexHeader.lean -/

theorem C11_lookupSymbol_fact :
    Thanos.Facts.lookupSymbolStmts =
      ["if:r.indexVersion == index.FormatV1 {", "o += headerLen - index.HeaderLen", "}",
       "if:s, ok := r.nameSymbols[o]; ok {", "return s, nil", "}",
       "cacheIndex := o % valueSymbolsCacheSize", "r.valueSymbolsMx.RLock()",
       "if:cached := r.valueSymbols[cacheIndex]; cached.index == o && cached.symbol != \"\" {",
       "v := cached.symbol", "r.valueSymbolsMx.RUnlock()", "return v, nil", "}",
       "r.valueSymbolsMx.RUnlock()", "s, err := r.symbols.Lookup(o)",
       "if:err != nil {", "return s, err", "}",
       "r.valueSymbolsMx.Lock()", "r.valueSymbols[cacheIndex].index = o",
       "r.valueSymbols[cacheIndex].symbol = s", "r.valueSymbolsMx.Unlock()", "return s, nil"] := by
  decide

theorem C11_labelNames_fact :
    Thanos.Facts.labelNamesStmts =
      ["allPostingsKeyName, _ := index.AllPostingsKey()",
       "labelNames := make([]string, 0, len(r.postings))",
       "range:name,unknown in r.postings {", "if:name == allPostingsKeyName {", "continue", "}",
       "labelNames = append(labelNames, name)", "}", "sort.Strings(labelNames)",
       "return labelNames, nil"] := by decide

theorem C11_v1_fact :
    Thanos.Facts.postingsOffsetV1Stmts =
      ["e, ok := r.postingsV1[name]", "if:!ok {", "return nil, nil", "}",
       "range:_,v in values {", "rng, ok := e[v]", "if:!ok {", "rngs = append(rngs, NotFoundRange)", "continue", "}",
       "rngs = append(rngs, rng)", "}", "return rngs, nil"] ∧
    Thanos.Facts.headerInitLastNameConds =
      ["if:lastName != nil", "if:string(lastName) != \"\"", "if:lastName != nil", "if:lastName != nil"] := by
  decide

/-! ### regenerated facts: the control skeleton of the lookup and the sampling tests of `init`
    are the ones transliterated in Model/IndexHeader.lean -/

theorem C11_lookup_skeleton_fact :
    Thanos.Facts.postingsOffsetConds =
      ["if:len(values) == 0",
       "for:valueIndex < len(values) && values[valueIndex] < e.offsets[0].value",
       "for:valueIndex < len(values)",
       "if:i == len(e.offsets)",
       "for:len(rngs) < len(values)",
       "if:i > 0 && e.offsets[i].value != wantedValue",
       "for:d.Err() == nil",
       "if:len(newSameRngs) > 0",
       "for:string(value) >= wantedValue",
       "if:string(value) == wantedValue",
       "if:valueIndex == len(values)",
       "if:len(newSameRngs) == 0 && i+1 < len(e.offsets)",
       "if:wantedValue >= e.offsets[i+1].value",
       "break Iter",
       "if:i+1 == len(e.offsets)",
       "if:valueIndex != len(values) && wantedValue <= e.offsets[i+1].value",
       "if:wantedValue == e.offsets[i+1].value",
       "if:len(newSameRngs) > 0",
       "if:d.Err() != nil"] := by decide

theorem C11_sampling_fact :
    Thanos.Facts.headerSamplingConds =
      ["if:(valueCount-1)%r.postingOffsetsInMemSampling != 0",
       "if:(valueCount-1)%r.postingOffsetsInMemSampling == 0",
       "if:(valueCount-1)%r.postingOffsetsInMemSampling != 0"] := by decide

theorem lookup_nil (offs : List Sampled) (tbl : List (Nat × Nat)) (l : Int) :
    lookup offs tbl l [] = .ok [] := rfl

private theorem takeWhile_lt_facts (v0 : Nat) : ∀ (values : List Nat), Sorted values →
    (∀ x ∈ values.take (values.takeWhile fun v => v < v0).length, x < v0) ∧
    (∀ x ∈ values.drop (values.takeWhile fun v => v < v0).length, v0 ≤ x) ∧
    (values.takeWhile fun v => v < v0).length ≤ values.length
  | [], _ => by simp
  | x :: l, hs => by
    obtain ⟨ih1, ih2, ih3⟩ := takeWhile_lt_facts v0 l hs.tail
    by_cases h : x < v0
    · simp only [List.takeWhile_cons, h, decide_true, if_true, List.length_cons, List.take_succ_cons,
        List.mem_cons, List.drop_succ_cons]
      refine ⟨?_, ih2, by omega⟩
      rintro y (rfl | hy)
      · exact h
      · exact ih1 y hy
    · simp only [List.takeWhile_cons, h, decide_false, Bool.false_eq_true, if_false, List.length_nil,
        List.take_zero, List.not_mem_nil, false_imp_iff, implies_true, List.drop_zero, List.mem_cons,
        Nat.zero_le, and_true, true_and]
      rintro y (rfl | hy)
      · omega
      · have := Sorted.head_le hs y hy; omega

/-- **C11, the multi-value lookup.**  For every sampling rate `n ≥ 1`, every (strictly increasing)
    postings offset table of a label name, of any size, and every sorted list of requested values
    — duplicates, values that do not exist, values before the first and after the last — the
    index-header's `postingsOffset` returns exactly the locations the full table gives, in order,
    with `NotFoundRange` for the missing ones, and never fails. -/
theorem C11_lookup : C11_lookup_full := by
  intro n tbl lastVal values hn hne hinc hsorted
  cases tbl with
  | nil => exact absurd rfl hne
  | cons e rest0 =>
    obtain ⟨v0, p0⟩ := e
    unfold lookup
    by_cases hv : values.isEmpty = true
    · have : values = [] := List.isEmpty_iff.mp hv
      subst this
      simp [specLookup]
    · simp only [hv, Bool.false_eq_true, if_false]
      obtain ⟨more, hsm⟩ := sample_head n hn v0 p0 rest0
      rw [hsm]
      simp only
      rw [← hsm]
      obtain ⟨h1, h2, h3⟩ := takeWhile_lt_facts v0 values hsorted
      apply outer_ok n hn v0 p0 rest0 hinc lastVal values hsorted _ _ _ h3 (by omega) _ h2
      -- the values before the first table value are not found
      symm
      rw [List.eq_replicate_iff]
      refine ⟨by simp; omega, ?_⟩
      intro r hr
      simp only [List.mem_map] at hr
      obtain ⟨x, hx, rfl⟩ := hr
      apply specOne_lt
      intro e he
      have hxv := h1 x hx
      simp only [List.mem_cons] at he
      rcases he with rfl | he
      · exact hxv
      · have := StrictlyIncreasing.head_lt hinc e he
        simp only at this; omega

-- non-vacuity: a table and a value list that meet the hypotheses of C11_lookup, with duplicates,
-- absent values between, before and after the table values; the instance below is the theorem's
-- conclusion on them for sampling 2 (early i++ to the last sampled entry included)
example : StrictlyIncreasing [(1, 100), (2, 200), (4, 300), (6, 400), (8, 500)] ∧ Sorted [0, 1, 2, 2, 6, 8, 9] := by
  simp [StrictlyIncreasing, Sorted]
example : lookup (sample 4 [(1, 100), (2, 200), (4, 300), (6, 400), (8, 500)])
    [(1, 100), (2, 200), (4, 300), (6, 400), (8, 500)] 996 [0, 5, 6, 8, 8, 9] =
    .ok [notFound, notFound, ⟨404, 496⟩, ⟨504, 996⟩, ⟨504, 996⟩, notFound] := by rfl

-- small-scope instances (tests, not the claim)
example : lookup (sample 2 [(0, 100), (2, 200), (4, 300), (6, 400), (8, 500)])
    [(0, 100), (2, 200), (4, 300), (6, 400), (8, 500)] 996 [0, 1, 2, 2, 6, 8, 9] =
    .ok (specLookup [(0, 100), (2, 200), (4, 300), (6, 400), (8, 500)] 996 [0, 1, 2, 2, 6, 8, 9]) := by
  rfl
example : sample 3 [(0, 100), (2, 200), (4, 300), (6, 400), (8, 500)] = [(0, 0), (6, 3), (8, 4)] := by decide
example : sample 2 [(0, 100), (2, 200), (4, 300), (6, 400), (8, 500)] = [(0, 0), (4, 2), (8, 4)] := by decide

end Thanos.IndexHeader
