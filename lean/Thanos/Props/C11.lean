import Thanos.Model.IndexHeader
import Thanos.Generated.Facts
/-
  C11 — Binary index-header answers equal the full index.
-/
namespace Thanos.IndexHeader

/-- the table of one label name: values strictly increasing -/
def StrictlyIncreasing : List (Nat × Nat) → Prop
  | [] => True
  | [_] => True
  | a :: b :: rest => a.1 < b.1 ∧ StrictlyIncreasing (b :: rest)

/-- the requested values are sorted (duplicates allowed) -/
def Sorted : List Nat → Prop
  | [] => True
  | [_] => True
  | a :: b :: rest => a ≤ b ∧ Sorted (b :: rest)

/-- C11, lookup part, at full strength: for every sampling rate, every table and every sorted list
    of requested values (duplicates, absent values), the header finds exactly the locations the
    full table gives. -/
def C11_lookup_full : Prop :=
  ∀ (n : Nat) (tbl : List (Nat × Nat)) (lastValOffset : Int) (values : List Nat),
    n ≥ 1 → tbl ≠ [] → StrictlyIncreasing tbl → Sorted values →
    lookup (sample n tbl) tbl lastValOffset values = .ok (specLookup tbl lastValOffset values)

theorem lookup_nil (offs : List Sampled) (tbl : List (Nat × Nat)) (l : Int) :
    lookup offs tbl l [] = .ok [] := rfl

-- small-scope instances (tests, not the claim)
example : lookup (sample 2 [(0, 100), (2, 200), (4, 300), (6, 400), (8, 500)])
    [(0, 100), (2, 200), (4, 300), (6, 400), (8, 500)] 996 [0, 1, 2, 2, 6, 8, 9] =
    .ok (specLookup [(0, 100), (2, 200), (4, 300), (6, 400), (8, 500)] 996 [0, 1, 2, 2, 6, 8, 9]) := by
  rfl

end Thanos.IndexHeader
