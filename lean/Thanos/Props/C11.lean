import Thanos.Model.IndexHeader
import Thanos.Lemmas.IndexHeader
import Thanos.Generated.Facts
/-
  C11 — Binary index-header answers equal the full index.

  The postings offset table of one label name is a strictly increasing list of (value, posting
  offset); label values are compared through their ranks (the harness supplies them), so the
  theorems hold for every table, of any size.
-/
namespace Thanos.IndexHeader

/-- C11, lookup part, at full strength: for every sampling rate, every table and every sorted list
    of requested values (duplicates, absent values), the header finds exactly the locations the
    full table gives. -/
def C11_lookup_full : Prop :=
  ∀ (n : Nat) (tbl : List (Nat × Nat)) (lastValOffset : Int) (values : List Nat),
    n ≥ 1 → tbl ≠ [] → StrictlyIncreasing tbl → Sorted values →
    lookup (sample n tbl) tbl lastValOffset values = .ok (specLookup tbl lastValOffset values)

/-- what `init` keeps in memory of a label name's table: the entries at the multiples of the
    sampling rate, and the last one — each with its position in the table -/
theorem C11_sample_spec (n : Nat) (tbl : List (Nat × Nat)) :
    sample n tbl =
      tbl.zipIdx.filterMap fun ek => if keptAt n tbl.length ek.2 then some (ek.1.1, ek.2) else none := by
  have := sampleFrom_spec n tbl 0
  simpa [sample] using this

/-- LabelValues returns every value of the label name, in table order, for every sampling rate -/
theorem C11_labelValues_all (n : Nat) (hn : n ≥ 1) (tbl : List (Nat × Nat)) (hne : tbl ≠ [])
    (hs : StrictlyIncreasing tbl) : labelValues (sample n tbl) tbl = .ok (tbl.map (·.1)) := by
  cases tbl with
  | nil => exact absurd rfl hne
  | cons e rest =>
    obtain ⟨v, p⟩ := e
    obtain ⟨more, hsm⟩ := sample_head n hn v p rest
    have hlast : ∃ e, ((v, p) :: rest).getLast? = some e := by
      cases h : ((v, p) :: rest).getLast? with
      | none => simp at h
      | some e => exact ⟨e, rfl⟩
    obtain ⟨e, he⟩ := hlast
    have hg := sampleFrom_getLast n ((v, p) :: rest) 0 e he
    have hgo := labelValues_go ((v, p) :: rest) e hs he
    have hg' : (sample n ((v, p) :: rest)).getLast? = some (e.1, 0 + ((v, p) :: rest).length - 1) := hg
    unfold labelValues
    rw [hsm] at hg' ⊢
    simp only [hg']
    simpa using hgo

/-! ### regenerated facts: the control skeleton of the lookup and the sampling tests of `init`
    are the ones transliterated in Model/IndexHeader.lean -/

theorem C11_lookup_skeleton_fact :
    Thanos.Facts.postingsOffsetConds =
      ["if:len(values) == 0",
       "for:valueIndex < len(values) && values[valueIndex] < e.offsets[0].value",
       "for:valueIndex < len(values)",
       "if:i == len(e.offsets)",
       "for:len(rngs) < len(values)",
       "if:i > 0 && e.offsets[i].value != wantedValue",
       "for:d.Err() == nil",
       "if:len(newSameRngs) > 0",
       "for:string(value) >= wantedValue",
       "if:string(value) == wantedValue",
       "if:valueIndex == len(values)",
       "if:len(newSameRngs) == 0 && i+1 < len(e.offsets)",
       "if:wantedValue >= e.offsets[i+1].value",
       "break Iter",
       "if:i+1 == len(e.offsets)",
       "if:valueIndex != len(values) && wantedValue <= e.offsets[i+1].value",
       "if:wantedValue == e.offsets[i+1].value",
       "if:len(newSameRngs) > 0",
       "if:d.Err() != nil"] := by decide

theorem C11_sampling_fact :
    Thanos.Facts.headerSamplingConds =
      ["if:(valueCount-1)%r.postingOffsetsInMemSampling != 0",
       "if:(valueCount-1)%r.postingOffsetsInMemSampling == 0",
       "if:(valueCount-1)%r.postingOffsetsInMemSampling != 0"] := by decide

theorem lookup_nil (offs : List Sampled) (tbl : List (Nat × Nat)) (l : Int) :
    lookup offs tbl l [] = .ok [] := rfl

-- small-scope instances (tests, not the claim)
example : lookup (sample 2 [(0, 100), (2, 200), (4, 300), (6, 400), (8, 500)])
    [(0, 100), (2, 200), (4, 300), (6, 400), (8, 500)] 996 [0, 1, 2, 2, 6, 8, 9] =
    .ok (specLookup [(0, 100), (2, 200), (4, 300), (6, 400), (8, 500)] 996 [0, 1, 2, 2, 6, 8, 9]) := by
  rfl
example : sample 3 [(0, 100), (2, 200), (4, 300), (6, 400), (8, 500)] = [(0, 0), (6, 3), (8, 4)] := by decide
example : sample 2 [(0, 100), (2, 200), (4, 300), (6, 400), (8, 500)] = [(0, 0), (4, 2), (8, 4)] := by decide

end Thanos.IndexHeader
