import Thanos.Model.Labels
import Thanos.Model.Frames
import Thanos.Model.StoreSpec
import Thanos.Lemmas.Labels
import Thanos.Lemmas.StoreSpec
import Thanos.Lemmas.Frames
import Thanos.Lemmas.FramesBudget
import Thanos.Generated.Facts
/-
  C08 — Stores present external labels consistently.

  "Every series returned by a store carries the store's external labels, which override same-named
   labels stored in the data, minus any labels the request asked to drop as replica labels.  A request
   whose selectors contradict the store's external labels returns no series."

  Code-level (transliterations, unbounded): `ExtendSortedLabels`, `rmLabels` (through the Prometheus
  `labels.Builder`), the label completion of `TSDBStore.Series` and `blockSeriesClient.nextBatch`, the frame
  splitter of `TSDBStore.Series`.  Specification level: `filterExt` (the three external-label matcher filters)
  and the `Series` answers of `Model/StoreSpec.lean`, which the real stores are compared with on every run.

  Label sets are legal ones: strictly sorted by name (no duplicates) and without empty values — what TSDB
  stores and what external label sets are.  Illegal label sets are part of the correspondence only.
-/
namespace Thanos.Labels

/-- the label `n` of a completed series: dropped when it is a replica label of the request, the external
    value when the store has an external label `n`, the stored value otherwise -/
def expected (R : List Nat) (ext raw : Labels) (n : Nat) : Option Nat :=
  if R.contains n then none else
  match lookup ext n with
  | some v => some v
  | none => lookup raw n

theorem override_noEmpty (ext : Labels) (h : NoEmpty ext) (n : Nat) (old : Option Nat) :
    override (lookup ext n) old = (match lookup ext n with | some v => some v | none => old) := by
  cases hl : lookup ext n with
  | none => simp [override]
  | some v =>
    cases v with
    | zero =>
      -- impossible: ext has no empty value
      exfalso
      have : ∀ (l : Labels), NoEmpty l → lookup l n ≠ some 0 := by
        intro l
        induction l with
        | nil => intro _ h'; simp [lookup] at h'
        | cons x xs ih =>
          intro hne h'
          obtain ⟨m, w⟩ := x
          simp only [lookup] at h'
          split at h'
          · have := hne (m, w) (by simp)
            simp at h'
            exact this h'
          · exact ih (fun y hy => hne y (List.mem_cons_of_mem _ hy)) h'
      exact this ext h hl
    | succ v => simp [override]

/-- ExtendSortedLabels: the external value wins, other labels are kept -/
theorem extend_get (lset ext : Labels) (n : Nat) (he : StrictSorted ext) (hne : NoEmpty ext) (hl : NoEmpty lset) :
    lookup (extendSorted lset ext) n = (match lookup ext n with | some v => some v | none => lookup lset n) := by
  rw [lookup_extendSorted lset ext n (strictSorted_names_nodup ext he) hl, override_noEmpty ext hne]

/-- ExtendSortedLabels: the result is strictly sorted (sorted, no duplicate names) -/
theorem extend_sorted (lset ext : Labels) (h : StrictSorted lset) : StrictSorted (extendSorted lset ext) :=
  extendSorted_sorted lset ext h

theorem extendSorted_noEmpty (lset ext : Labels) (he : StrictSorted ext) (hne : NoEmpty ext) (hl : NoEmpty lset)
    (hs : StrictSorted lset) : NoEmpty (extendSorted lset ext) := by
  -- a label of a strictly sorted list is found by lookup
  have mem_lookup : ∀ (l : Labels), StrictSorted l → ∀ x ∈ l, lookup l x.1 = some x.2 := by
    intro l
    induction l with
    | nil => intro _ x hx; simp at hx
    | cons y ys ih =>
      intro hsy x hx
      obtain ⟨m, w⟩ := y
      have hp := List.pairwise_cons.mp hsy
      rcases List.mem_cons.mp hx with rfl | hx'
      · simp [lookup]
      · have := hp.1 x hx'
        simp only [lookup]
        have hne' : ¬ m = x.1 := by
          simp only at this
          omega
        simp only [hne', if_false]
        exact ih hp.2 x hx'
  have lookup_ne : ∀ (l : Labels), NoEmpty l → ∀ k, lookup l k ≠ some 0 := by
    intro l
    induction l with
    | nil => intro _ k h'; simp [lookup] at h'
    | cons y ys ih =>
      intro hne' k h'
      obtain ⟨m, w⟩ := y
      simp only [lookup] at h'
      split at h'
      · have := hne' (m, w) (by simp)
        simp at h'
        exact this h'
      · exact ih (fun z hz => hne' z (List.mem_cons_of_mem _ hz)) k h'
  intro x hx hx0
  have h1 := mem_lookup _ (extend_sorted lset ext hs) x hx
  rw [extend_get lset ext x.1 he hne hl, hx0] at h1
  cases h2 : lookup ext x.1 with
  | some v =>
    rw [h2] at h1
    simp at h1
    exact lookup_ne ext hne x.1 (by rw [h2, h1])
  | none =>
    rw [h2] at h1
    exact lookup_ne lset hl x.1 h1

/-- `TSDBStore.Series`: labels of a served series -/
theorem C08_labels_tsdb (R : List Nat) (ext raw : Labels) (n : Nat)
    (he : StrictSorted ext) (hne : NoEmpty ext) (hr : NoEmpty raw) :
    lookup (serveTSDB R ext raw) n = expected R ext raw n := by
  unfold serveTSDB expected
  rw [extend_get _ _ n (rm_sorted R ext he hne) (rm_noEmpty R ext hne) (rm_noEmpty R raw hr),
    lookup_rm R ext n hne, lookup_rm R raw n hr]
  cases R.contains n <;> simp

/-- `blockSeriesClient.nextBatch`: labels of a served series -/
theorem C08_labels_bucket (R : List Nat) (ext raw : Labels) (n : Nat)
    (he : StrictSorted ext) (hne : NoEmpty ext) (hr : NoEmpty raw) (hs : StrictSorted raw) :
    lookup (serveBucket R ext raw) n = expected R ext raw n := by
  unfold serveBucket expected
  cases hR : R.isEmpty with
  | true =>
    simp only [List.isEmpty_iff] at hR
    subst hR
    simp only [if_true]
    rw [extend_get raw ext n he hne hr]
    simp
  | false =>
    simp only [Bool.false_eq_true, if_false]
    have hne' := rm_noEmpty R ext hne
    have hs' := rm_sorted R ext he hne
    rw [lookup_rm R _ n (extendSorted_noEmpty raw (rm R ext) hs' hne' hr hs),
      extend_get raw (rm R ext) n hs' hne' hr, lookup_rm R ext n hne]
    cases R.contains n <;> simp

/-- served label sets are strictly sorted -/
theorem C08_sorted_tsdb (R : List Nat) (ext raw : Labels) (hr : NoEmpty raw) (hs : StrictSorted raw) :
    StrictSorted (serveTSDB R ext raw) :=
  extend_sorted _ _ (rm_sorted R raw hs hr)

theorem C08_sorted_bucket (R : List Nat) (ext raw : Labels) (he : StrictSorted ext) (hne : NoEmpty ext)
    (hr : NoEmpty raw) (hs : StrictSorted raw) : StrictSorted (serveBucket R ext raw) := by
  unfold serveBucket
  cases hR : R.isEmpty with
  | true => simp only [if_true]; exact extend_sorted _ _ hs
  | false =>
    simp only [Bool.false_eq_true, if_false]
    exact rm_sorted R _ (extend_sorted _ _ hs)
      (extendSorted_noEmpty raw (rm R ext) (rm_sorted R ext he hne) (rm_noEmpty R ext hne) hr hs)

/-- the two stores serve the same label set for the same stored series -/
theorem C08_labels_same (R : List Nat) (ext raw : Labels)
    (he : StrictSorted ext) (hne : NoEmpty ext) (hr : NoEmpty raw) (hs : StrictSorted raw) :
    serveTSDB R ext raw = serveBucket R ext raw := by
  apply sorted_lookup_ext _ _ (C08_sorted_tsdb R ext raw hr hs) (C08_sorted_bucket R ext raw he hne hr hs)
  intro n
  rw [C08_labels_tsdb R ext raw n he hne hr, C08_labels_bucket R ext raw n he hne hr hs]

/-- every external label that is not dropped is on every served series, with the external value -/
theorem C08_carries_ext (R : List Nat) (ext raw : Labels) (n v : Nat)
    (he : StrictSorted ext) (hne : NoEmpty ext) (hr : NoEmpty raw)
    (hv : lookup ext n = some v) (hn : R.contains n = false) :
    lookup (serveTSDB R ext raw) n = some v := by
  rw [C08_labels_tsdb R ext raw n he hne hr]
  unfold expected
  rw [hn, hv]
  simp

/-- dropped replica labels are on no served series -/
theorem C08_drops_replica (R : List Nat) (ext raw : Labels) (n : Nat)
    (he : StrictSorted ext) (hne : NoEmpty ext) (hr : NoEmpty raw) (hn : R.contains n = true) :
    lookup (serveTSDB R ext raw) n = none := by
  rw [C08_labels_tsdb R ext raw n he hne hr]
  unfold expected
  rw [hn]
  simp

end Thanos.Labels

namespace Thanos.StoreSpec
open Thanos.Labels

/-- a selector contradicts the external labels: it names one and rejects its value -/
def Contradicts (ext : Labels) (ms : List Matcher) : Prop :=
  ∃ m ∈ ms, get ext m.name ≠ 0 ∧ m.ok (get ext m.name) = false

theorem filterExt_none_iff (ext : Labels) : ∀ (ms : List Matcher), filterExt ext ms = none ↔ Contradicts ext ms
  | [] => by simp [filterExt, Contradicts]
  | m :: r => by
    have ih := filterExt_none_iff ext r
    unfold Contradicts at ih ⊢
    simp only [filterExt]
    split
    next hv =>
      constructor
      · intro h
        have : filterExt ext r = none := by
          cases hr : filterExt ext r with
          | none => rfl
          | some x => simp [hr] at h
        obtain ⟨m', hm', h1, h2⟩ := ih.mp this
        exact ⟨m', List.mem_cons_of_mem _ hm', h1, h2⟩
      · rintro ⟨m', hm', h1, h2⟩
        rcases List.mem_cons.mp hm' with rfl | hm''
        · exact absurd hv h1
        · have := ih.mpr ⟨m', hm'', h1, h2⟩
          simp [this]
    next hv =>
      split
      next hok =>
        constructor
        · intro h
          obtain ⟨m', hm', h1, h2⟩ := ih.mp h
          exact ⟨m', List.mem_cons_of_mem _ hm', h1, h2⟩
        · rintro ⟨m', hm', h1, h2⟩
          rcases List.mem_cons.mp hm' with rfl | hm''
          · simp [hok] at h2
          · exact ih.mpr ⟨m', hm'', h1, h2⟩
      next hok =>
        constructor
        · intro _
          exact ⟨m, by simp, hv, by simpa using hok⟩
        · intro _; rfl

/-- a request whose selectors contradict the external labels of the TSDB store returns no series -/
theorem C08_contradiction_tsdb (db : Block) (r : Req) (h : Contradicts db.ext r.matchers) :
    tsdbSeries db r = .ok [] := by
  unfold tsdbSeries
  rw [(filterExt_none_iff db.ext r.matchers).mpr h]

/-- … and so does the store gateway, block by block: blocks whose external labels are contradicted
    contribute nothing -/
theorem C08_contradiction_block (R : List Nat) (b : Block) (r : Req) (h : Contradicts b.ext r.matchers) :
    blockSeries R b r = [] := by
  unfold blockSeries
  rw [(filterExt_none_iff b.ext r.matchers).mpr h]

theorem C08_contradiction_bucket (blocks : List Block) (r : Req)
    (h : ∀ b ∈ blocks, Contradicts b.ext r.matchers) : bucketSeries blocks r = [] := by
  unfold bucketSeries
  rw [List.flatMap_eq_nil_iff]
  intro b hb
  have hb' : b ∈ blocks := (List.mem_filter.mp (mem_selected blocks r b hb)).1
  exact C08_contradiction_block _ b r (h b hb')

/-- every series the specification serves is the completion of a stored series -/
theorem C08_series_from_store_tsdb (db : Block) (r : Req) (es : List Entry) (h : tsdbSeries db r = .ok es) :
    ∀ e ∈ es, ∃ s ∈ db.series, e.1 = serveTSDB r.without db.ext s.lset := by
  unfold tsdbSeries at h
  intro e he
  split at h
  · simp at h; subst h; simp at he
  · simp at h
  · simp at h
    subst h
    unfold selectSeries at he
    obtain ⟨s, hs, hse⟩ := List.mem_filterMap.mp he
    refine ⟨s, hs, ?_⟩
    split at hse
    · simp only at hse
      split at hse
      · simp at hse
      · simp at hse; rw [← hse]
    · simp at hse

theorem C08_series_from_store_bucket (blocks : List Block) (r : Req) :
    ∀ e ∈ bucketSeries blocks r, ∃ b ∈ blocks, ∃ s ∈ b.series, e.1 = serveBucket r.without b.ext s.lset := by
  intro e he
  unfold bucketSeries at he
  obtain ⟨b, hb, heb⟩ := List.mem_flatMap.mp he
  have hb' : b ∈ blocks := (List.mem_filter.mp (mem_selected blocks r b hb)).1
  refine ⟨b, hb', ?_⟩
  unfold blockSeries at heb
  split at heb
  · simp at heb
  · simp at heb
  · unfold selectSeries at heb
    obtain ⟨s, hs, hse⟩ := List.mem_filterMap.mp heb
    refine ⟨s, hs, ?_⟩
    split at hse
    · simp only at hse
      split at hse
      · simp at hse
      · simp at hse; rw [← hse]
    · simp at hse

end Thanos.StoreSpec

namespace Thanos.Frames

/-- frames of a series: concatenating their chunks gives the chunks of the series, in order -/
theorem splitFrames_concat (maxBytes : Int) (labelSizes : List Int) (chunks : List Chunk) :
    (splitFrames maxBytes labelSizes chunks).flatten = chunks := by
  unfold splitFrames
  cases chunks with
  | nil => simp [splitLoop]
  | cons c cs => simpa using splitLoop_flatten _ (c :: cs) _ [] (by simp)

/-- no frame is empty (for every budget, also zero or negative) -/
theorem splitFrames_nonempty (maxBytes : Int) (labelSizes : List Int) (chunks : List Chunk) :
    ∀ f ∈ splitFrames maxBytes labelSizes chunks, f ≠ [] :=
  splitLoop_nonempty _ chunks _ []

/-- a series without chunks sends no frame; any other sends at least one -/
theorem splitFrames_nil_iff (maxBytes : Int) (labelSizes : List Int) (chunks : List Chunk) :
    splitFrames maxBytes labelSizes chunks = [] ↔ chunks = [] :=
  splitLoop_nil_iff _ chunks _ []

/-- "minor inaccuracy … max of full chunk size": without its last chunk a frame is empty or strictly below the
    budget, so a frame exceeds `maxBytesPerFrame − labels` by at most its last chunk (every budget, also ≤ 0) -/
theorem splitFrames_overshoot (maxBytes : Int) (labelSizes : List Int) (chunks : List Chunk) :
    ∀ f ∈ splitFrames maxBytes labelSizes chunks, ∃ init last, f = init ++ [last] ∧
      (init = [] ∨ bytes init < budgetOf maxBytes labelSizes) :=
  splitLoop_overshoot _ chunks _ [] (by simp [bytes]) (by intro h; exact absurd rfl h)

/-- every frame but the last one is full -/
theorem splitFrames_full (maxBytes : Int) (labelSizes : List Int) (chunks : List Chunk) :
    ∀ f ∈ (splitFrames maxBytes labelSizes chunks).dropLast, bytes f ≥ budgetOf maxBytes labelSizes :=
  splitLoop_full _ chunks _ [] (by simp [bytes])

end Thanos.Frames

namespace Thanos.Props.C08
open Thanos.Labels Thanos.StoreSpec Thanos.Frames

/-! ### regenerated facts: the label completions in the sources are the modelled compositions -/

theorem C08_fact_tsdb :
    Thanos.Facts.storesTSDBComplete =
      ["finalExtLset := rmLabels(s.extLsetAsLabelSets[0].Copy(), extLsetToRemove)",
       "completeLabelset := labelpb.ExtendSortedLabels(rmLabels(series.Labels(), extLsetToRemove), finalExtLset)"] := by
  decide

theorem C08_fact_bucket :
    Thanos.Facts.storesBucketComplete =
      ["extLset = rmLabels(extLset.Copy(), extLsetToRemove)",
       "completeLabelset := labelpb.ExtendSortedLabels(b.lset, b.extLset)",
       "completeLabelset = rmLabels(completeLabelset, b.extLsetToRemove)"] := by
  decide

/-! ### non-vacuity -/

-- stored {__name__=8, cluster=1, job=6, replica=3}, external {cluster=9, replica=3, zone=11}, drop replica
example : StrictSorted [(5, 9), (9, 3), (11, 11)] ∧ NoEmpty [(5, 9), (9, 3), (11, 11)] := by
  constructor
  · unfold StrictSorted; decide
  · intro x hx; simp at hx; rcases hx with rfl | rfl | rfl <;> decide
example : serveTSDB [9] [(5, 9), (9, 3), (11, 11)] [(1, 8), (5, 1), (7, 6), (9, 3)] = [(1, 8), (5, 9), (7, 6), (11, 11)] := by decide
example : serveBucket [9] [(5, 9), (9, 3), (11, 11)] [(1, 8), (5, 1), (7, 6), (9, 3)] = [(1, 8), (5, 9), (7, 6), (11, 11)] := by decide
example : Contradicts [(5, 9)] [⟨5, false, [1, 2]⟩] := ⟨⟨5, false, [1, 2]⟩, by simp, by decide, by decide⟩
-- budget 50 − 10 = 40: chunks of 30, 30, 5, 50 bytes go out as [0,1] [2,3]
example : (splitFrames 50 [10] [(0, 30), (1, 30), (2, 5), (3, 50)]).map (·.map (·.1)) = [[0, 1], [2, 3]] := by decide
-- budget below the labels: every chunk alone
example : (splitFrames 1 [10] [(0, 30), (1, 30)]).map (·.map (·.1)) = [[0], [1]] := by decide

end Thanos.Props.C08
