import Thanos.Model.Hashring
import Thanos.Lemmas.Hashring
import Thanos.Lemmas.HashringWalk
import Thanos.Lemmas.HashringPerm
import Thanos.Generated.Facts
/-
  C20 — Adding a node to a ketama ring only moves series onto the new node.

  Setting: ketama without availability zones (at most one configured zone, so the zone rule of
  the replica loop is off).  `ring'` is the ring after adding endpoint `x`; the ring before is
  `without x ring'` — the same hash-sorted sections minus those of `x` (the hashes of the other
  endpoints' sections depend on their addresses only).  A series is its hash `v`.
-/
namespace Thanos.Hashring

/-- the replicas of a series, as `pick` computes them: from the section found by the search once
    around the ring -/
theorem replicasOfSeries_single (lc : Bool) (ring : List Sec) (zones : List Nat) (rf v : Nat)
    (hz : zones.length ≤ 1) (reps : List Nat) (h : replicasOfSeries lc ring zones rf v = .ok reps) :
    reps = (pick rf (searchSuffix v ring ++ ring) []).map (·.ep) := by
  have hsub : ∀ s ∈ searchSuffix v ring, s ∈ ring := by
    intro s hs
    unfold searchSuffix at hs
    split at hs
    · exact hs
    · rename_i a l heq
      have : s ∈ ring.dropWhile (fun s => decide (s.hash < v)) := by rw [heq]; exact hs
      exact (List.dropWhile_sublist _).subset this
  have h' : loop false ring ring.length zones rf (fuelBound ring.length rf) (searchSuffix v ring) 0 [] = .ok reps := by
    cases lc with
    | false => exact h
    | true => exact loop_ok_unrepaired _ _ _ _ _ _ _ _ _ h
  exact loop_single_zone ring ring.length zones rf hz _ _ _ _ _ hsub h'

/-- what the search start of the smaller ring is, in terms of the larger one -/
theorem pick_searchSuffix_without (rf x v : Nat) (ring' : List Sec) (hs : SortedRing ring') :
    pick rf (searchSuffix v (without x ring') ++ without x ring') [] =
      pick rf (without x (searchSuffix v ring' ++ ring')) [] := by
  have hd := dropWhile_without x v hs
  unfold searchSuffix
  cases h' : ring'.dropWhile (fun s => decide (s.hash < v)) with
  | nil =>
    rw [h'] at hd
    simp only [without, List.filter_nil] at hd
    simp only [without] at *
    rw [← hd]
    simp [List.filter_append]
  | cons a l =>
    rw [h'] at hd
    cases h : (without x ring').dropWhile (fun s => decide (s.hash < v)) with
    | nil =>
      -- every section from the search position on belongs to `x`: the smaller ring wraps
      rw [h] at hd
      simp only [without_append, hd, List.nil_append]
      exact pick_twice rf _ _ [] (fun s hs => hs)
    | cons b m =>
      rw [h] at hd
      simp only [without_append, hd]

/-- **C20.**  Adding endpoint `x` to a zone-less ketama ring: for every series hash, every
    replication factor and every ring, the replicas after the addition are — apart from `x`
    itself — a prefix of the replicas before (same nodes, same order), and when `x` is not among
    them nothing changes at all.  Sizes are unbounded. -/
theorem C20_add_node' (lc : Bool) (ring' : List Sec) (zones zones0 : List Nat) (rf v x : Nat)
    (hz : zones.length ≤ 1) (hz0 : zones0.length ≤ 1) (hs : SortedRing ring') (reps reps' : List Nat)
    (hafter : replicasOfSeries lc ring' zones rf v = .ok reps')
    (hbefore : replicasOfSeries lc (without x ring') zones0 rf v = .ok reps) :
    reps'.filter (· != x) <+: reps ∧ (x ∉ reps' → reps' = reps) := by
  have e' := replicasOfSeries_single lc ring' zones rf v hz reps' hafter
  have e := replicasOfSeries_single lc (without x ring') zones0 rf v hz0 reps hbefore
  rw [pick_searchSuffix_without rf x v ring' hs] at e
  constructor
  · have hp := pick_without_prefix rf x (searchSuffix v ring' ++ ring') []
    have hmap : reps'.filter (· != x) = (without x (pick rf (searchSuffix v ring' ++ ring') [])).map (·.ep) := by
      rw [e']; simp [without, List.filter_map, Function.comp_def]
    rw [hmap, e]
    simp only [without, List.filter_nil] at hp ⊢
    exact List.IsPrefix.map _ hp
  · intro hx
    have ht : taken (pick rf (searchSuffix v ring' ++ ring') []) x = false := by
      rw [taken_false_iff, ← e']; exact hx
    rw [e', e, ← pick_without_eq rf x _ [] ht]

theorem C20_add_node (lc : Bool) (ring' : List Sec) (zones : List Nat) (rf v x : Nat)
    (hz : zones.length ≤ 1) (hs : SortedRing ring') (reps reps' : List Nat)
    (hafter : replicasOfSeries lc ring' zones rf v = .ok reps')
    (hbefore : replicasOfSeries lc (without x ring') zones rf v = .ok reps) :
    reps'.filter (· != x) <+: reps ∧ (x ∉ reps' → reps' = reps) :=
  C20_add_node' lc ring' zones zones rf v x hz hz hs reps reps' hafter hbefore

/-- Consequence in the words of the property: every replica after the addition is the new
    endpoint or was a replica of the series before; series never move between old nodes. -/
theorem C20_only_onto_new (lc : Bool) (ring' : List Sec) (zones : List Nat) (rf v x : Nat)
    (hz : zones.length ≤ 1) (hs : SortedRing ring') (reps reps' : List Nat)
    (hafter : replicasOfSeries lc ring' zones rf v = .ok reps')
    (hbefore : replicasOfSeries lc (without x ring') zones rf v = .ok reps) :
    ∀ e ∈ reps', e = x ∨ e ∈ reps := by
  intro e he
  by_cases hx : e = x
  · exact Or.inl hx
  · right
    have hp := (C20_add_node lc ring' zones rf v x hz hs reps reps' hafter hbefore).1
    apply hp.subset
    simp [List.mem_filter, he, hx]

/-- the ring built by `newKetamaHashring` is sorted -/
theorem mkRing_sorted (eps : List Ep) : SortedRing (mkRing eps) := by
  unfold SortedRing mkRing
  have := List.pairwise_mergeSort (le := hashLe)
    (fun a b c h1 h2 => by simp only [hashLe, decide_eq_true_eq] at *; omega)
    (fun a b => by simp only [hashLe, Bool.or_eq_true, decide_eq_true_eq]; omega) (sectionsFrom 0 eps)
  exact this.imp (fun h => by simpa [hashLe] using h)

/-- `GetN` reads a precomputed table: the row of the section the search finds is the loop run
    from that section (this connects `replicasOfSeries` with `build` / `getN`). -/
theorem table_search (lc : Bool) (ring : List Sec) (zones : List Nat) (rf v : Nat) :
    ∀ (suffix : List Sec) (t : List (Sec × List Nat)), table lc ring zones rf suffix = .ring t →
      match suffix.dropWhile (fun s => decide (s.hash < v)) with
      | [] => search v t = none
      | s :: l => ∃ r, search v t = some (s, r) ∧ replicasFor lc ring zones rf (s :: l) = .ok r := by
  intro suffix
  induction suffix with
  | nil => intro t h; simp [table] at h; subst h; simp [search]
  | cons a rest ih =>
    intro t h
    unfold table at h
    cases hr : replicasFor lc ring zones rf (a :: rest) with
    | stuck => simp [hr] at h
    | fuelOut => simp [hr] at h
    | oob => simp [hr] at h
    | ok r =>
      simp only [hr] at h
      cases ht : table lc ring zones rf rest with
      | ring t' =>
        simp only [ht] at h
        injection h with h
        subst h
        by_cases hp : a.hash < v
        · have := ih t' ht
          simp only [List.dropWhile, hp, decide_true]
          have hnv : ¬ v ≤ a.hash := by omega
          simp only [search, hnv, if_false]
          exact this
        · have hv : v ≤ a.hash := by omega
          simp only [List.dropWhile, hp, decide_false]
          exact ⟨r, by simp [search, hv], hr⟩
      | tooFew => simp [ht] at h
      | stuck => simp [ht] at h
      | hang => simp [ht] at h
      | panic => simp [ht] at h

/-- `GetN(n)` of a built ring is the n-th element of `replicasOfSeries` — the statement that
    connects the theorems about `replicasOfSeries` with what `ketamaHashring.GetN` answers. -/
theorem getN_replicasOfSeries (lc : Bool) (eps : List Ep) (rf : Nat) (secs : List (Sec × List Nat)) (v n : Nat)
    (hb : build lc eps rf = .ring secs) (hn : n < rf) (hne : mkRing eps ≠ []) :
    ∃ reps, replicasOfSeries lc (mkRing eps) (zonesOf eps) rf v = .ok reps ∧
      getN eps.length secs v n = ((reps[n]?).map Get.node).getD .panic := by
  unfold build at hb
  by_cases hlt : eps.length < rf
  · simp [hlt] at hb
  · simp only [hlt, if_false] at hb
    have hge : ¬ eps.length ≤ n := by omega
    have hts := table_search lc (mkRing eps) (zonesOf eps) rf v (mkRing eps) secs hb
    unfold replicasOfSeries searchSuffix getN
    simp only [hge, if_false]
    cases hd : (mkRing eps).dropWhile (fun s => decide (s.hash < v)) with
    | cons s l =>
      rw [hd] at hts
      obtain ⟨r, hs, hr⟩ := hts
      refine ⟨r, hr, ?_⟩
      simp only [hs]
      cases r[n]? <;> rfl
    | nil =>
      rw [hd] at hts
      -- the search finds nothing: GetN wraps to the first section, whose row is the loop run from the whole ring
      cases hring : mkRing eps with
      | nil => exact absurd hring hne
      | cons a r =>
        rw [hring] at hb
        unfold table at hb
        cases hr : replicasFor lc (a :: r) (zonesOf eps) rf (a :: r) with
        | ok r0 =>
          simp only [hr] at hb
          cases ht : table lc (a :: r) (zonesOf eps) rf r with
          | ring t =>
            simp only [ht] at hb
            injection hb with hb
            subst hb
            refine ⟨r0, rfl, ?_⟩
            simp only [hts, List.head?_cons]
            cases r0[n]? <;> rfl
          | tooFew => simp [ht] at hb
          | stuck => simp [ht] at hb
          | hang => simp [ht] at hb
          | panic => simp [ht] at hb
        | stuck => simp [hr] at hb
        | fuelOut => simp [hr] at hb
        | oob => simp [hr] at hb

/-! ### in the numbering of the endpoint lists (what the Go code works with) -/

theorem zonesOf_eraseIdx_length (eps : List Ep) (pos : Nat) (hz : (zonesOf eps).length ≤ 1) :
    (zonesOf (eps.eraseIdx pos)).length ≤ 1 := by
  have hsub : ∀ z ∈ zonesOf (eps.eraseIdx pos), z ∈ zonesOf eps := by
    intro z hzm
    simp only [zonesOf, mem_dedup, List.mem_map] at hzm ⊢
    obtain ⟨e, he, rfl⟩ := hzm
    exact ⟨e, (List.eraseIdx_sublist eps pos).subset he, rfl⟩
  have := List.Nodup.length_le_of_subset (nodup_dedup _) hsub
  simp only [zonesOf] at *
  omega

/-- **C20 for endpoint lists.**  `eps` is the configured endpoint list after the addition, the
    new endpoint at position `pos`; the list before is `eps.eraseIdx pos`, whose positions are
    translated into positions of `eps` by `up` (positions from `pos` on move up by one — Go
    renumbers `endpointIndex` by list position).  Without zones and without hash ties, for every
    series hash and rf: apart from the new endpoint the replicas after the addition are a prefix
    of the replicas before, and identical when the new endpoint is not among them. -/
theorem C20_add_endpoint (lc : Bool) (eps : List Ep) (pos rf v : Nat) (hnt : NoTies eps)
    (hz : (zonesOf eps).length ≤ 1) (reps reps' : List Nat)
    (hafter : replicasOfSeries lc (mkRing eps) (zonesOf eps) rf v = .ok reps')
    (hbefore : replicasOfSeries lc (mkRing (eps.eraseIdx pos)) (zonesOf (eps.eraseIdx pos)) rf v = .ok reps) :
    reps'.filter (· != pos) <+: reps.map (up eps.length pos) ∧
      (pos ∉ reps' → reps' = reps.map (up eps.length pos)) := by
  have hring := mkRing_eraseIdx eps pos hnt
  -- the ring before, renamed into the numbering of `eps`
  have hinj : InjOn (up eps.length pos) (mkRing (eps.eraseIdx pos)) := by
    intro s hs t ht he
    have hlen : (eps.eraseIdx pos).length = (others eps.length pos).length := by
      rw [eraseIdx_eq_filterMap]
      have hall : ∀ i ∈ others eps.length pos, i < eps.length := fun i hi => (others_lt hi).1
      generalize others eps.length pos = p at hall
      induction p with
      | nil => rfl
      | cons a q ih =>
        have hlt : a < eps.length := hall a (by simp)
        have : eps[a]? = some (eps[a]'hlt) := List.getElem?_eq_getElem hlt
        simp [this, ih (fun i hi => hall i (by simp [hi]))]
    have hep : ∀ {x : Sec}, x ∈ mkRing (eps.eraseIdx pos) → x.ep < (eps.eraseIdx pos).length := by
      intro x hx
      obtain ⟨e, he', _, _⟩ := mem_mkRing.mp hx
      rcases Nat.lt_or_ge x.ep (eps.eraseIdx pos).length with h' | h'
      · exact h'
      · rw [List.getElem?_eq_none h'] at he'; cases he'
    have hs' := hep hs
    have ht' := hep ht
    exact up_inj eps.length pos (by omega) (by omega) he
  have hren : replicasOfSeries lc (without pos (mkRing eps)) (zonesOf (eps.eraseIdx pos)) rf v =
      .ok (reps.map (up eps.length pos)) := by
    rw [← hring]
    unfold replicasOfSeries replicasFor at hbefore ⊢
    rw [searchSuffix_ren, List.length_map]
    have hsub : ∀ s ∈ searchSuffix v (mkRing (eps.eraseIdx pos)), s ∈ mkRing (eps.eraseIdx pos) := by
      intro s hs
      unfold searchSuffix at hs
      split at hs
      · exact hs
      · rename_i a l heq
        have : s ∈ (mkRing (eps.eraseIdx pos)).dropWhile (fun s => decide (s.hash < v)) := by rw [heq]; exact hs
        exact (List.dropWhile_sublist _).subset this
    have := loop_ren lc (up eps.length pos) (mkRing (eps.eraseIdx pos)) (mkRing (eps.eraseIdx pos)).length
      (zonesOf (eps.eraseIdx pos)) rf hinj (fuelBound (mkRing (eps.eraseIdx pos)).length rf)
      (searchSuffix v (mkRing (eps.eraseIdx pos))) 0 [] hsub (by simp)
    simp only [List.map_nil] at this
    rw [this, hbefore]
    rfl
  exact C20_add_node' lc (mkRing eps) (zonesOf eps) (zonesOf (eps.eraseIdx pos)) rf v pos hz
    (zonesOf_eraseIdx_length eps pos hz) (mkRing_sorted eps) _ reps' hafter hren

/-! ### regenerated facts (shared with C18/C19: the loop shape and the search of GetN) -/

theorem C20_fact_getn :
    Thanos.Facts.ketamaGetN = ["c.sections[i].hash >= v", "i == numSections", "c.sections[i].replicas[n]"] := by decide

/-- the hash of a section depends on the endpoint's address and the section number only, so the
    old sections keep their hashes when an endpoint is added -/
theorem C20_fact_section_hash : Thanos.Facts.ketamaSectionHashInput = "[]byte(endpoint.Address + \":\" + strconv.Itoa(i))" := by
  decide

-- non-vacuity: endpoint 2 is added between the sections of 0 and 1; a series that hashes in
-- front of the new section moves one replica onto it, a series elsewhere is untouched
example : replicasOfSeries true [⟨10, 0, 0⟩, ⟨20, 2, 0⟩, ⟨30, 1, 0⟩, ⟨40, 3, 0⟩] [0] 2 15 = .ok [2, 1] := by decide
example : replicasOfSeries true (without 2 [⟨10, 0, 0⟩, ⟨20, 2, 0⟩, ⟨30, 1, 0⟩, ⟨40, 3, 0⟩]) [0] 2 15 = .ok [1, 3] := by decide
example : replicasOfSeries true [⟨10, 0, 0⟩, ⟨20, 2, 0⟩, ⟨30, 1, 0⟩, ⟨40, 3, 0⟩] [0] 2 35 = .ok [3, 0] := by decide
example : replicasOfSeries true (without 2 [⟨10, 0, 0⟩, ⟨20, 2, 0⟩, ⟨30, 1, 0⟩, ⟨40, 3, 0⟩]) [0] 2 35 = .ok [3, 0] := by decide
example : SortedRing [⟨10, 0, 0⟩, ⟨20, 2, 0⟩, ⟨30, 1, 0⟩, ⟨40, 3, 0⟩] := by unfold SortedRing; decide
-- C20_add_endpoint: three zone-less endpoints, the one at list position 1 is the new one
example : NoTies [⟨0, [10, 50]⟩, ⟨0, [20]⟩, ⟨0, [30, 5]⟩] ∧ (zonesOf [⟨0, [10, 50]⟩, ⟨0, [20]⟩, ⟨0, [30, 5]⟩]).length ≤ 1 := by
  unfold NoTies; decide
example : ([⟨0, [10, 50]⟩, ⟨0, [20]⟩, ⟨0, [30, 5]⟩] : List Ep).eraseIdx 1 = [⟨0, [10, 50]⟩, ⟨0, [30, 5]⟩] ∧
    (List.range 2).map (up 3 1) = [0, 2] := by decide

end Thanos.Hashring
