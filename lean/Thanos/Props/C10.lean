import Thanos.Model.StoreSpec
import Thanos.Model.Partition
import Thanos.Lemmas.StoreSpec
import Thanos.Lemmas.Partition
import Thanos.Props.C07
import Thanos.Props.C15
import Thanos.Generated.Facts
/-
  C10 — Store gateway answers equal a direct TSDB read of the same blocks.

  "For any set of blocks in object storage, any selectors and any time range, the store gateway returns
   exactly the series (labels plus external labels) and chunk contents that reading the same blocks with
   the Prometheus TSDB reader gives for chunks overlapping that range.  The answer does not depend on
   whether index caches are cold or warm, on lazy posting expansion settings, on series batch size, or on
   the index-header sampling rate."

  Specification level (partial).  `readBlock` is the direct read: a series of a block is returned iff every
  selector accepts its labels *with the block's external labels on it* and one of its chunks overlaps the
  range; it carries those labels (minus dropped replica labels) and all overlapping chunks.  The theorems
  show the store specification of `Model/StoreSpec.lean` (external-label matcher filter + residual matchers
  on stored labels + `decodeSeriesForTime`'s early-exit chunk scan) equals the direct read, and that no
  configuration occurs in it.  The real BucketStore is compared with the specification and, independently,
  with the Prometheus reader (`tsdb.OpenBlock` + `NewBlockChunkQuerier`) on every run, under generated
  configurations and cache histories.  Code-level kernels proved here: the chunk scan, the partitioner.
-/
namespace Thanos.StoreSpec
open Thanos.Labels

def overlapsChunk (c : Chunk) (mint maxt : Int) : Bool := decide (c.mint ≤ maxt) && decide (c.maxt ≥ mint)

/-- chunk metas of a series are in index order: sorted by min time -/
def ChunksSorted (cs : List Chunk) : Prop := cs.Pairwise (fun a b => a.mint ≤ b.mint)

/-- `decodeSeriesForTime` stops at the first chunk that starts after the range: on sorted chunk metas that is
    the filter "overlaps the closed range" -/
theorem chunksForTime_eq_filter : ∀ (cs : List Chunk) (mint maxt : Int), ChunksSorted cs →
    chunksForTime cs mint maxt = cs.filter (overlapsChunk · mint maxt)
  | [], _, _, _ => by simp [chunksForTime]
  | c :: cs, mint, maxt, h => by
    have hp := List.pairwise_cons.mp h
    simp only [chunksForTime, List.filter_cons, overlapsChunk]
    split
    next hgt =>
      -- every later chunk starts after the range as well
      have h1 : decide (c.mint ≤ maxt) = false := by simp; omega
      have h2 : cs.filter (fun x => decide (x.mint ≤ maxt) && decide (x.maxt ≥ mint)) = [] := by
        rw [List.filter_eq_nil_iff]
        intro x hx
        have := hp.1 x hx
        simp; omega
      simp [h1, h2]
    next hle =>
      have h1 : decide (c.mint ≤ maxt) = true := by simp; omega
      split
      next hge =>
        have h2 : decide (c.maxt ≥ mint) = true := by simp; omega
        simp only [h1, h2, Bool.and_self, if_true]
        rw [chunksForTime_eq_filter cs mint maxt hp.2]
        rfl
      next hlt =>
        have h2 : decide (c.maxt ≥ mint) = false := by simp; omega
        simp only [h1, h2, Bool.and_false, Bool.false_eq_true, if_false]
        rw [chunksForTime_eq_filter cs mint maxt hp.2]
        rfl

/-- `Labels.Get` on a completed label set: the external value when there is one -/
theorem get_extended (lset ext : Labels) (n : Nat) (he : StrictSorted ext) (hne : NoEmpty ext) (hl : NoEmpty lset) :
    Labels.get (extendSorted lset ext) n = if Labels.get ext n = 0 then Labels.get lset n else Labels.get ext n := by
  unfold Labels.get
  rw [extend_get lset ext n he hne hl]
  cases h : lookup ext n with
  | none => simp
  | some v =>
    have : v ≠ 0 := fun h0 => lookup_ne_zero ext hne n (by rw [h, h0])
    simp [this]

/-- evaluating the selectors on the labels *with* the external labels = the external-label filter followed by
    the residual selectors on the stored labels -/
theorem matchers_on_extended (ext lset : Labels) (he : StrictSorted ext) (hne : NoEmpty ext) (hl : NoEmpty lset) :
    ∀ (ms : List Matcher),
      matchesAll ms (extendSorted lset ext) =
        (match filterExt ext ms with
         | none => false
         | some res => matchesAll res lset)
  | [] => by simp [matchesAll, filterExt]
  | m :: ms => by
    have ih := matchers_on_extended ext lset he hne hl ms
    unfold matchesAll at ih ⊢
    simp only [List.all_cons, filterExt]
    rw [get_extended lset ext m.name he hne hl, ih]
    split
    next h0 =>
      cases hf : filterExt ext ms with
      | none => simp
      | some res => simp [List.all_cons]
    next h0 =>
      cases hok : m.ok (Labels.get ext m.name) with
      | true => simp
      | false => simp

/-- the direct read of one block: selectors on the labels with the external labels on, chunks that overlap -/
def readBlock (R : List Nat) (b : Block) (r : Req) : List Entry :=
  b.series.filterMap fun s =>
    if matchesAll r.matchers (extendSorted s.lset b.ext) then
      let cs := s.chunks.filter (overlapsChunk · r.mint r.maxt)
      if cs.isEmpty then none else some (serveBucket R b.ext s.lset, cs)
    else none

/-- C10 for one block, at full strength -/
def C10_block_full : Prop :=
  ∀ (R : List Nat) (b : Block) (r : Req), WFBlock b → (∀ s ∈ b.series, ChunksSorted s.chunks) →
    blockSeries R b r = readBlock R b r

/-- … holds whenever some selector is not about an external label of the block -/
theorem C10_block_partial (R : List Nat) (b : Block) (r : Req) (wf : WFBlock b)
    (hc : ∀ s ∈ b.series, ChunksSorted s.chunks) (hres : filterExt b.ext r.matchers ≠ some []) :
    blockSeries R b r = readBlock R b r := by
  unfold blockSeries readBlock
  cases hf : filterExt b.ext r.matchers with
  | none =>
    simp only
    symm
    rw [List.filterMap_eq_nil_iff]
    intro s hs
    rw [matchers_on_extended b.ext s.lset wf.ext_sorted wf.ext_ne (wf.lset_ne s hs) r.matchers, hf]
    simp
  | some res =>
    cases res with
    | nil => exact absurd hf hres
    | cons m ms =>
      simp only
      unfold selectSeries
      apply filterMap_congr'
      intro s hs
      rw [matchers_on_extended b.ext s.lset wf.ext_sorted wf.ext_ne (wf.lset_ne s hs) r.matchers, hf]
      simp only
      rw [chunksForTime_eq_filter s.chunks r.mint r.maxt (hc s hs)]

/-- a request whose selectors all name external labels of the block gets nothing from the store gateway
    (`ExpandedPostings` returns no postings without matchers; the TSDB store refuses such a request with
    InvalidArgument), although the direct read matches every series -/
theorem C10_block_full_false : ¬ C10_block_full := by
  intro h
  have := h [] ⟨[(5, 9)], 0, 100, [⟨[(1, 8)], [⟨10, 20, 1⟩]⟩], 0⟩ ⟨0, 50, [⟨5, false, [9]⟩], [], false, false, 0⟩
    ⟨by unfold StrictSorted; decide, by intro x hx; simp at hx; subst hx; decide,
     by intro s hs; simp at hs; subst hs; unfold StrictSorted; decide,
     by intro s hs x hx; simp at hs; subst hs; simp at hx; subst hx; decide,
     by intro s hs; simp at hs; subst hs; simp⟩
    (by intro s hs; simp at hs; subst hs; unfold ChunksSorted; decide)
  revert this
  decide

/-- the whole store gateway: the union over the selected blocks of the direct reads -/
theorem C10_gateway (blocks : List Block) (r : Req) (wf : ∀ b ∈ blocks, WFBlock b)
    (hc : ∀ b ∈ blocks, ∀ s ∈ b.series, ChunksSorted s.chunks)
    (hres : ∀ b ∈ blocks, filterExt b.ext r.matchers ≠ some []) :
    bucketSeries blocks r = (selected blocks r).flatMap (readBlock r.without · r) := by
  unfold bucketSeries
  apply flatMap_congr'
  intro b hb
  have hbm : b ∈ blocks := (List.mem_filter.mp (mem_selected blocks r b hb)).1
  exact C10_block_partial r.without b r (wf b hbm) (hc b hbm) (hres b hbm)

/-- the blocks the store gateway reads never exceed the maximum resolution of the request and all overlap its
    range: the block selection of C15 (`bucketBlockSet.getFor`, per set of blocks with equal external labels) is
    part of the specification, so downsampled blocks are covered by `C10_gateway` as well -/
theorem C10_selected_allowed (blocks : List Block) (r : Req) (b : Block) (h : b ∈ selected blocks r) :
    b.res ≤ r.maxRes ∧ b ∈ blocks ∧ blockOverlaps b r.mint r.maxt = true := by
  have hov := List.mem_filter.mp (mem_selected blocks r b h)
  refine ⟨?_, hov.1, hov.2⟩
  unfold selected at h
  obtain ⟨ext, _, hb⟩ := List.mem_flatMap.mp h
  unfold selectedIn at hb
  simp only at hb
  cases hg : BlockSet.getFor true true (BlockSet.addAll BlockSet.empty (groupBlocks ext 0 blocks)).1 r.mint r.maxt r.maxRes with
  | none => rw [hg] at hb; simp at hb
  | some sel =>
    rw [hg] at hb
    simp only at hb
    obtain ⟨x, hx, hxb⟩ := List.mem_filterMap.mp hb
    have hres := BlockSet.C15_resolution true true (groupBlocks ext 0 blocks) r.mint r.maxt r.maxRes sel x hg hx
    obtain ⟨hmem, _, _⟩ := BlockSet.getFor_sound hg hx
    have hx' : x ∈ groupBlocks ext 0 blocks := by
      rcases BlockSet.addAll_mem _ _ x hmem with h' | h'
      · exact h'
      · have : BlockSet.empty.blocks.flatten = [] := by decide
        rw [this] at h'
        simp at h'
    obtain ⟨b', hb', _, _, _, hr⟩ := groupBlocks_mem ext blocks 0 x hx'
    simp only [Nat.sub_zero] at hb'
    rw [hb'] at hxb
    simp at hxb
    subst hxb
    omega

/-- the expanded postings of (block, matchers) are range independent, and every request over any range is
    answered from them by looking at chunk ranges only: this is what makes it sound to cache them under a key
    without time range (a list that lacks the series without chunks in the FIRST request's range would lose
    them for later requests) -/
theorem C10_cached_postings_range_independent (serve : Labels → Labels) (ms : List Matcher) (series : List Series)
    (mint maxt : Int) :
    selectSeries serve ms series mint maxt =
      (expandedPostings ms series).filterMap (fun s =>
        let cs := chunksForTime s.chunks mint maxt
        if cs.isEmpty then none else some (serve s.lset, cs)) := by
  unfold selectSeries expandedPostings
  induction series with
  | nil => rfl
  | cons s rest ih =>
    simp only [List.filterMap_cons, List.filter_cons]
    cases hm : matchesAll ms s.lset with
    | true => simp only [if_true, List.filterMap_cons]; rw [ih]
    | false => simp only [Bool.false_eq_true, if_false]; rw [ih]

/-- regenerated facts: what is stored as expanded postings — the complete list when nothing is lazy, and with lazy
    expansion the list `b.expandedPostings`, to which a series is appended after the lazy matchers accepted it and
    BEFORE the test for chunks in range (the early skip is only taken without lazy expansion) -/
theorem C10_fact_expanded_postings_cache :
    Thanos.Facts.storesExpandedPostingsStored =
      ["ExpandedPostings: ms, index.EmptyPostings()", "ExpandedPostings: ms, index.NewListPostings(ps.postings)",
       "nextBatch: b.blockMatchers, index.NewListPostings(b.expandedPostings)"]
    ∧ Thanos.Facts.storesNextBatchLoop.take 9 =
      ["if b.ctx.Err", "hasMatchedChunks := b.indexr.LoadSeriesForTime", "if err != nil { return }",
       "if !lazyExpandedPosting && !hasMatchedChunks { continue }", "if b.indexr.LookupLabelsSymbols",
       "b.lset = b.b.Labels", "loop", "if lazyExpandedPosting { b.expandedPostings = append }",
       "if !hasMatchedChunks { continue }"] := by decide

/-- configurations of the store gateway the answer must not depend on -/
structure Config where
  lazyPostings : Bool
  batchSize : Nat
  sampling : Nat
  cacheWarm : Bool
  maxGap : Nat

/-- what the store gateway answers under a configuration, according to the specification -/
def gatewayAnswer (_ : Config) (blocks : List Block) (r : Req) : List (Labels × List Nat) :=
  canonSeries (bucketSeries blocks r)

/-- no configuration occurs in the specification (the implementation is held to it by the differential runs
    under generated configurations and cache histories) -/
theorem C10_config_independent (c1 c2 : Config) (blocks : List Block) (r : Req) :
    gatewayAnswer c1 blocks r = gatewayAnswer c2 blocks r := rfl

end Thanos.StoreSpec

namespace Thanos.Partition

/-- every requested range lies inside the part that holds its index (ranges sorted by start) -/
theorem C10_partition_covers (g : Nat) (rs : List (Nat × Nat)) (hs : rs.Pairwise (fun a b => a.1 ≤ b.1)) :
    ∀ (n : Nat) (h : n < rs.length), Covers (partition g rs) n (rs[n]).1 (rs[n]).2 := by
  cases rs with
  | nil => intro n h; simp at h
  | cons x rs =>
    obtain ⟨s, e⟩ := x
    have hp := List.pairwise_cons.mp hs
    obtain ⟨h1, p, hp1, hpi, hps, hpe, hpj⟩ := go_cover g rs ⟨s, e, 0, 1⟩ 1 rfl (by simp) (fun x hx => hp.1 x hx) hp.2
    intro n hn
    cases n with
    | zero =>
      refine ⟨p, hp1, ?_, ?_, ?_, ?_⟩
      · simp at hpi; omega
      · simp at hpj; omega
      · simp at hps; simp [hps]
      · simp at hpe; simpa using hpe
    | succ n =>
      have hn' : n < rs.length := by simpa using hn
      obtain ⟨q, hq, a1, a2, a3, a4⟩ := h1 n hn'
      refine ⟨q, hq, by omega, by omega, ?_, ?_⟩
      · simpa using a3
      · simpa using a4

/-- parts are consecutive, non-empty index ranges in order, and there are at most as many as ranges -/
theorem C10_partition_ordered (g : Nat) (rs : List (Nat × Nat)) :
    (partition g rs).Pairwise (fun p q => p.j ≤ q.i) ∧ (∀ p ∈ partition g rs, p.i < p.j ∧ p.j ≤ rs.length) ∧
      (partition g rs).length ≤ rs.length := by
  cases rs with
  | nil => simp [partition]
  | cons x rs =>
    obtain ⟨s, e⟩ := x
    obtain ⟨h1, h2⟩ := go_parts_chain g rs ⟨s, e, 0, 1⟩ 1 rfl (by simp)
    refine ⟨h1, ?_, ?_⟩
    · intro p hp
      have := h2 p hp
      simp at this ⊢; omega
    · have := go_length g rs ⟨s, e, 0, 1⟩ 1
      simpa [partition] using this

-- non-vacuity: max gap 5, ranges [0,10) [12,20) [40,45) [41,43): two parts, the second keeps the longer end
example : partition 5 [(0, 10), (12, 20), (40, 45), (41, 43)] = [⟨0, 20, 0, 2⟩, ⟨40, 45, 2, 4⟩] := by decide

end Thanos.Partition

namespace Thanos.StoreSpec
-- non-vacuity: raw [0,100), 5m [0,100), raw [100,200) under one external label set; at max resolution 1h the 5m block
-- and the second raw block are read, at raw resolution the two raw blocks
def exampleBlocks : List Block :=
  [⟨[(5, 9)], 0, 100, [], 0⟩, ⟨[(5, 9)], 0, 100, [], 300000⟩, ⟨[(5, 9)], 100, 200, [], 0⟩]
example : (selected exampleBlocks ⟨0, 300, [], [], false, false, 3600000⟩).map (fun b => (b.mint, b.res)) = [(0, 300000), (100, 0)] := by decide
example : (selected exampleBlocks ⟨0, 300, [], [], false, false, 0⟩).map (fun b => (b.mint, b.res)) = [(0, 0), (100, 0)] := by decide
example : chunksForTime [⟨0, 9, 1⟩, ⟨10, 19, 2⟩, ⟨20, 29, 3⟩, ⟨30, 39, 4⟩] 15 25 = [⟨10, 19, 2⟩, ⟨20, 29, 3⟩] := by decide
example : ChunksSorted [⟨0, 9, 1⟩, ⟨10, 19, 2⟩, ⟨20, 29, 3⟩, ⟨30, 39, 4⟩] := by unfold ChunksSorted; decide
example : (filterExt [(5, 9)] [⟨5, false, [9]⟩, ⟨1, false, [8]⟩]).map (·.map (·.name)) = some [1] := by decide
end Thanos.StoreSpec
