import Thanos.Model.Hashring
import Thanos.Lemmas.Hashring
import Thanos.Lemmas.HashringBalance
import Thanos.Lemmas.HashringWalk
import Thanos.Model.RingMetrics
import Thanos.Generated.Facts
/-
  C19 — Building a hashring from any configuration terminates.

  The replica loop of `calculateSectionReplicas` (model: `loop`) had no bound: for zone layouts
  that cannot be balanced for the replication factor (F19: zones a:1, b:3, rf 4) it span forever.
  The repair (a `fix:` commit in /repo) counts consecutive skipped sections and reports a
  configuration error after a full lap without progress; `lapCheck = true` is the repaired loop,
  `lapCheck = false` the loop as it was.
-/
namespace Thanos.Hashring

/-- C19 for the loop, at full strength: from every cursor position of every ring, for every zone
    list and replication factor, the loop answers after finitely many iterations. -/
def C19_loop_full (lapCheck : Bool) : Prop :=
  ∀ (ring : List Sec) (zones : List Nat) (rf : Nat) (start : List Sec),
    ∃ fuel, loop lapCheck ring ring.length zones rf fuel start 0 [] ≠ .fuelOut

/-- The repaired loop terminates — within `fuelBound n rf = (rf+1)(n+1)+1` iterations, which is
    the fuel the executable model runs with. -/
theorem C19_loop_terminates : C19_loop_full true := by
  intro ring zones rf start
  refine ⟨fuelBound ring.length rf, ?_⟩
  apply loop_repaired_terminates
  · omega
  · simp only [fuelBound, List.length_nil, Nat.sub_zero, Nat.succ_mul]
    omega

/-- … hence `replicasFor` (the model run with `fuelBound`) never reports "out of fuel" -/
theorem replicasFor_repaired_ne_fuelOut (ring : List Sec) (zones : List Nat) (rf : Nat) (start : List Sec) :
    replicasFor true ring zones rf start ≠ .fuelOut := by
  unfold replicasFor
  apply loop_repaired_terminates
  · omega
  · simp only [fuelBound, List.length_nil, Nat.sub_zero, Nat.succ_mul]
    omega

/-- … and any larger fuel gives the same answer: `fuelBound` is not a cut-off of the Go loop. -/
theorem C19_fuel_irrelevant (ring : List Sec) (zones : List Nat) (rf : Nat) (start : List Sec) (k : Nat) :
    loop true ring ring.length zones rf (fuelBound ring.length rf + k) start 0 [] =
      replicasFor true ring zones rf start :=
  loop_fuel_mono true ring ring.length zones rf _ start 0 [] k
    (replicasFor_repaired_ne_fuelOut ring zones rf start)

/-! ### the witness of F19 -/

/-- zones a = 0 (one endpoint), b = 1 (three endpoints), one section per endpoint -/
def f19Ring : List Sec := [⟨10, 0, 0⟩, ⟨20, 1, 1⟩, ⟨30, 2, 1⟩, ⟨40, 3, 1⟩]

/-- the state the loop reaches from section 0 with rf = 4: a, b, b chosen; the last endpoint
    (zone b) is refused because zone a is less occupied, and zone a has no endpoint left -/
def f19Chosen : List Sec := [⟨10, 0, 0⟩, ⟨20, 1, 1⟩, ⟨30, 2, 1⟩]

theorem f19_stuck : Stuck f19Ring [0, 1] f19Chosen := by decide

/-- The loop as it was never answers on the witness, whatever the fuel. -/
theorem f19_hangs : ∀ fuel, loop false f19Ring f19Ring.length [0, 1] 4 fuel f19Ring 0 [] = .fuelOut := by
  intro fuel
  match fuel with
  | 0 => rfl
  | 1 => decide
  | 2 => decide
  | fuel + 3 =>
    have h := stuck_forever f19Ring f19Ring.length [0, 1] 4 f19Chosen (by decide) f19_stuck (by decide)
      fuel [⟨40, 3, 1⟩] 0 (by decide)
    simpa [loop, cursor, taken, skipAZ, cnt, least, f19Ring, f19Chosen] using h

/-- C19 is false of the unrepaired loop. -/
theorem C19_unrepaired_false : ¬ C19_loop_full false := by
  intro h
  obtain ⟨fuel, hf⟩ := h f19Ring [0, 1] 4 f19Ring
  exact hf (f19_hangs fuel)

/-- On the same witness the repaired loop reports the configuration error. -/
theorem f19_repaired_stuck : replicasFor true f19Ring [0, 1] 4 f19Ring = .stuck := by decide

/-! ### the whole construction -/

/-- a usable table: every section has exactly `rf` pairwise distinct replicas, all of them
    valid endpoint indices -/
def Usable (numEps rf : Nat) (secs : List (Sec × List Nat)) : Prop :=
  ∀ p ∈ secs, p.2.length = rf ∧ p.2.Nodup ∧ ∀ e ∈ p.2, e < numEps

theorem loop_ne_oob (lc : Bool) (ring : List Sec) (n : Nat) (zones : List Nat) (rf : Nat) (hne : ring ≠ []) :
    ∀ (fuel : Nat) (rest : List Sec) (skipped : Nat) (chosen : List Sec),
      loop lc ring n zones rf fuel rest skipped chosen ≠ .oob := by
  intro fuel
  induction fuel with
  | zero => intro rest skipped chosen; simp [loop]
  | succ fuel ih =>
    intro rest skipped chosen
    unfold loop
    obtain ⟨rep, rest', hc⟩ := cursor_some_of_ne_nil hne rest
    simp only [hc]
    split
    · simp
    · split
      · simp
      · split
        · exact ih _ _ _
        · split
          · exact ih _ _ _
          · exact ih _ _ _

/-- `calculateSectionReplicas` over the sections of a suffix of the ring -/
theorem table_spec (lc : Bool) (ring : List Sec) (zones : List Nat) (rf : Nat) :
    ∀ (suffix : List Sec), (∀ s ∈ suffix, s ∈ ring) →
      table lc ring zones rf suffix = .stuck ∨ table lc ring zones rf suffix = .hang ∨
      ∃ t, table lc ring zones rf suffix = .ring t ∧ t.map (·.1) = suffix ∧
        ∀ p ∈ t, p.2.length = rf ∧ p.2.Nodup ∧ ∀ e ∈ p.2, ∃ s ∈ ring, s.ep = e := by
  intro suffix
  induction suffix with
  | nil => intro _; exact Or.inr (Or.inr ⟨[], rfl, rfl, by simp⟩)
  | cons s rest ih =>
    intro hsub
    have hne : ring ≠ [] := by
      intro h
      have := hsub s (by simp)
      simp [h] at this
    have hrest : ∀ x ∈ rest, x ∈ ring := fun x hx => hsub x (by simp [hx])
    unfold table
    cases hr : replicasFor lc ring zones rf (s :: rest) with
    | stuck => simp
    | fuelOut => simp
    | oob => exact absurd hr (loop_ne_oob lc ring _ zones rf hne _ _ _ _)
    | ok r =>
      simp only
      have hok := loop_ok lc ring ring.length zones rf _ (s :: rest) 0 [] r hsub (inv_nil rf) hr
      rcases ih hrest with h | h | ⟨t, ht, hmap, hall⟩
      · simp [h]
      · simp [h]
      · refine Or.inr (Or.inr ⟨(s, r) :: t, by simp [ht], by simp [hmap], ?_⟩)
        intro p hp
        simp only [List.mem_cons] at hp
        rcases hp with rfl | hp
        · refine ⟨hok.2.1, hok.1, fun e he => ?_⟩
          rcases hok.2.2 e he with h | h
          · simp at h
          · exact h
        · exact hall p hp

theorem table_repaired_ne_hang (ring : List Sec) (zones : List Nat) (rf : Nat) :
    ∀ (suffix : List Sec), table true ring zones rf suffix ≠ .hang := by
  intro suffix
  induction suffix with
  | nil => simp [table]
  | cons s rest ih =>
    unfold table
    cases hr : replicasFor true ring zones rf (s :: rest) with
    | stuck => simp
    | fuelOut => exact absurd hr (replicasFor_repaired_ne_fuelOut _ _ _ _)
    | oob => simp
    | ok r =>
      simp only
      cases ht : table true ring zones rf rest with
      | hang => exact absurd ht ih
      | _ => simp

theorem sectionsFrom_ep : ∀ (eps : List Ep) (i : Nat) (s : Sec), s ∈ sectionsFrom i eps →
    i ≤ s.ep ∧ s.ep < i + eps.length
  | [], _, _, h => by simp [sectionsFrom] at h
  | e :: es, i, s, h => by
    simp only [sectionsFrom, List.mem_append, List.mem_map] at h
    rcases h with ⟨_, _, rfl⟩ | h
    · simp
    · have := sectionsFrom_ep es (i + 1) s h
      simp only [List.length_cons]
      omega

theorem mkRing_ep {eps : List Ep} {s : Sec} (h : s ∈ mkRing eps) : s.ep < eps.length := by
  have : s ∈ sectionsFrom 0 eps := (List.mergeSort_perm _ _).mem_iff.mp h
  have := sectionsFrom_ep eps 0 s this
  omega

/-- **C19 (repaired code).**  For every endpoint list and replication factor
    `newKetamaHashring` returns: either one of the two configuration errors, or a ring with one
    table row per section, each with exactly `rf` distinct valid replicas.  It never hangs and never
    panics. -/
theorem C19_build_total (eps : List Ep) (rf : Nat) :
    (build true eps rf = .tooFew ∧ eps.length < rf) ∨
    (build true eps rf = .stuck ∧ rf ≤ eps.length) ∨
    ∃ secs, build true eps rf = .ring secs ∧ rf ≤ eps.length ∧ secs.map (·.1) = mkRing eps ∧
      Usable eps.length rf secs := by
  unfold build
  by_cases h : eps.length < rf
  · simp [h]
  · simp only [h, if_false]
    have hle : rf ≤ eps.length := by omega
    rcases table_spec true (mkRing eps) (zonesOf eps) rf (mkRing eps) (fun _ h => h) with h1 | h1 | ⟨t, ht, hmap, hall⟩
    · exact Or.inr (Or.inl ⟨h1, hle⟩)
    · exact absurd h1 (table_repaired_ne_hang _ _ _ _)
    · refine Or.inr (Or.inr ⟨t, ht, hle, hmap, ?_⟩)
      intro p hp
      obtain ⟨a, b, c⟩ := hall p hp
      refine ⟨a, b, fun e he => ?_⟩
      obtain ⟨s, hs, rfl⟩ := c e he
      exact mkRing_ep hs

/-- the F19 layout as an endpoint list: one endpoint in zone 0, three in zone 1 -/
def f19Eps : List Ep := [⟨0, [10]⟩, ⟨1, [20]⟩, ⟨1, [30]⟩, ⟨1, [40]⟩]

theorem f19_mkRing : mkRing f19Eps = f19Ring := by
  simp [mkRing, sectionsFrom, List.mergeSort, List.MergeSort.Internal.splitInTwo, hashLe, f19Eps, f19Ring]

/-- the unrepaired construction on the F19 layout, with the model's fuel: never returns -/
theorem f19_build_unrepaired : build false f19Eps 4 = .hang := by
  have hz : zonesOf f19Eps = [0, 1] := by decide
  have hl : ¬ f19Eps.length < 4 := by decide
  simp only [build, hl, if_false, f19_mkRing, hz]
  decide

/-- … and the repaired one reports the configuration error -/
theorem f19_build_repaired : build true f19Eps 4 = .stuck := by
  have hz : zonesOf f19Eps = [0, 1] := by decide
  have hl : ¬ f19Eps.length < 4 := by decide
  simp only [build, hl, if_false, f19_mkRing, hz]
  decide

/-! ### exactly when is the error reported?

  `canBalance sizes rf` is the arithmetic condition on the zone sizes alone (Model/Hashring.lean):
  with ≥ 2 zones `rf ≤ Σ min(size, m+1)`, `m` the smallest zone; with one zone `rf ≤ size`. -/

/-- **C19 / C18, exactness.**  For every ring whose endpoints each live in one zone, every start
    section and every replication factor: the repaired loop reports "stuck" iff the zone sizes
    cannot take `rf` balanced replicas — independently of all hash values — and answers `rf`
    replicas otherwise. -/
theorem C19_stuck_iff (ring : List Sec) (zones : List Nat) (rf : Nat) (start : List Sec)
    (hne : ring ≠ []) (hstart : ∃ pre, ring = pre ++ start) (hcons : AzConsistent ring)
    (hn : zones.Nodup) (hcover : ∀ s ∈ ring, s.az ∈ zones) (hb : rf < 2 ^ 63 - 1) :
    (replicasFor true ring zones rf start = .stuck ↔ canBalance (zones.map (zsize ring)) rf = false) ∧
    ((∃ reps, replicasFor true ring zones rf start = .ok reps) ↔ canBalance (zones.map (zsize ring)) rf = true) := by
  have hsub : ∀ s ∈ start, s ∈ ring := by
    obtain ⟨pre, hp⟩ := hstart
    intro s hs; rw [hp]; simp [hs]
  have hzne : zones ≠ [] := by
    intro h
    cases ring with
    | nil => exact hne rfl
    | cons a r => have := hcover a (by simp); simp [h] at this
  have key : (replicasFor true ring zones rf start = .stuck ∧ ¬ rf ≤ capacity ring zones) ∨
      ((∃ reps, replicasFor true ring zones rf start = .ok reps) ∧ rf ≤ capacity ring zones) := by
    cases hr : replicasFor true ring zones rf start with
    | ok reps =>
      right
      obtain ⟨final, hreach, hlen, _⟩ := loop_ok_reach true ring ring.length zones rf _ start 0 [] reps hsub
        (reach_nil ring zones rf) hr
      have := length_le_capacity hreach hb hn hcover
      exact ⟨⟨reps, rfl⟩, by omega⟩
    | stuck =>
      left
      obtain ⟨final, hreach, hlen, hst⟩ := loop_stuck_reach ring zones rf _ start 0 [] hsub
        (reach_nil ring zones rf) (window_zero hstart) (by omega) hr
      have := stuck_full hreach hb hn hcover hcons hzne hst
      exact ⟨rfl, by omega⟩
    | fuelOut => exact absurd hr (replicasFor_repaired_ne_fuelOut _ _ _ _)
    | oob => exact absurd hr (loop_ne_oob true ring _ zones rf hne _ _ _ _)
  have hcb := canBalance_iff ring zones rf
  rcases key with ⟨h1, h2⟩ | ⟨⟨reps, h1⟩, h2⟩
  · have hf : canBalance (zones.map (zsize ring)) rf = false := by
      cases h : canBalance (zones.map (zsize ring)) rf with
      | false => rfl
      | true => exact absurd (hcb.mp h) h2
    refine ⟨⟨fun _ => hf, fun _ => h1⟩, ⟨?_, ?_⟩⟩
    · rintro ⟨reps, hr⟩; rw [h1] at hr; cases hr
    · intro h; rw [hf] at h; cases h
  · have ht : canBalance (zones.map (zsize ring)) rf = true := hcb.mpr h2
    refine ⟨⟨?_, ?_⟩, ⟨fun _ => ht, fun _ => ⟨reps, h1⟩⟩⟩
    · intro h; rw [h1] at h; cases h
    · intro h; rw [ht] at h; cases h

/-- **C19, partial theorem for the loop as it was.**  On every layout that can be balanced the
    unrepaired loop terminates too (with the same answer): F19 is confined to the layouts that
    cannot. -/
theorem C19_unrepaired_partial (ring : List Sec) (zones : List Nat) (rf : Nat) (start : List Sec)
    (hne : ring ≠ []) (hstart : ∃ pre, ring = pre ++ start) (hcons : AzConsistent ring)
    (hn : zones.Nodup) (hcover : ∀ s ∈ ring, s.az ∈ zones) (hb : rf < 2 ^ 63 - 1)
    (hcan : canBalance (zones.map (zsize ring)) rf = true) :
    ∃ fuel reps, loop false ring ring.length zones rf fuel start 0 [] = .ok reps := by
  obtain ⟨reps, hr⟩ := (C19_stuck_iff ring zones rf start hne hstart hcons hn hcover hb).2.mpr hcan
  exact ⟨_, reps, loop_ok_unrepaired ring ring.length zones rf _ start 0 [] reps hr⟩

/-- the zone sizes read off the configuration: endpoints per availability zone -/
def zoneSizesOf (eps : List Ep) : List Nat :=
  (zonesOf eps).map fun z => (eps.filter (·.az == z)).length

theorem table_of_canBalance (ring : List Sec) (zones : List Nat) (rf : Nat) (hne : ring ≠ [])
    (hcons : AzConsistent ring) (hn : zones.Nodup) (hcover : ∀ s ∈ ring, s.az ∈ zones) (hb : rf < 2 ^ 63 - 1) :
    ∀ (suffix : List Sec), (∃ pre, ring = pre ++ suffix) →
      (canBalance (zones.map (zsize ring)) rf = true → ∃ t, table true ring zones rf suffix = .ring t) ∧
      (canBalance (zones.map (zsize ring)) rf = false → suffix ≠ [] → table true ring zones rf suffix = .stuck) := by
  intro suffix
  induction suffix with
  | nil => intro _; exact ⟨fun _ => ⟨[], rfl⟩, fun _ h => absurd rfl h⟩
  | cons s rest ih =>
    intro hpre
    obtain ⟨pre, hp⟩ := hpre
    have hiff := C19_stuck_iff ring zones rf (s :: rest) hne ⟨pre, hp⟩ hcons hn hcover hb
    have ih' := ih ⟨pre ++ [s], by simp [hp]⟩
    constructor
    · intro hc
      obtain ⟨reps, hr⟩ := hiff.2.mpr hc
      obtain ⟨t, ht⟩ := ih'.1 hc
      exact ⟨(s, reps) :: t, by simp [table, hr, ht]⟩
    · intro hc _
      have hr := hiff.1.mpr hc
      simp [table, hr]

/-- **C19 / C18 for the whole construction.**  When every endpoint has at least one section
    (production: 1000), `newKetamaHashring` reports the zone error iff `rf ≤ #endpoints` and the
    endpoints-per-zone counts of the configuration cannot take `rf` balanced replicas; it builds a
    ring iff they can.  Hash values, section counts and the order of the endpoints play no role. -/
theorem C19_build_stuck_iff (eps : List Ep) (rf : Nat) (hh : ∀ e ∈ eps, e.hashes ≠ []) (hb : rf < 2 ^ 63 - 1) :
    (build true eps rf = .stuck ↔ rf ≤ eps.length ∧ canBalance (zoneSizesOf eps) rf = false) ∧
    ((∃ secs, build true eps rf = .ring secs) ↔ rf ≤ eps.length ∧ canBalance (zoneSizesOf eps) rf = true) := by
  have hsizes : (zonesOf eps).map (zsize (mkRing eps)) = zoneSizesOf eps := by
    unfold zoneSizesOf
    apply List.map_congr_left
    intro z _
    exact zsize_mkRing eps z hh
  unfold build
  by_cases hlt : eps.length < rf
  · simp only [hlt, if_true]
    refine ⟨⟨fun h => ?_, fun h => ?_⟩, ⟨fun h => ?_, fun h => ?_⟩⟩
    · cases h
    · omega
    · obtain ⟨_, h⟩ := h; cases h
    · omega
  · simp only [hlt, if_false]
    have hle : rf ≤ eps.length := by omega
    by_cases hne : mkRing eps = []
    · -- no endpoints at all: an empty ring, rf = 0
      have heps : eps = [] := by
        cases eps with
        | nil => rfl
        | cons e es =>
          exfalso
          obtain ⟨h, hm⟩ := List.exists_mem_of_ne_nil _ (hh e (by simp))
          have : (⟨h, 0, e.az⟩ : Sec) ∈ mkRing (e :: es) := mem_mkRing.mpr ⟨e, by simp, rfl, hm⟩
          rw [hne] at this; simp at this
      subst heps
      have : rf = 0 := by simpa using hle
      subst this
      simp [mkRing, sectionsFrom, table, zoneSizesOf, zonesOf, dedup, canBalance]
    · have hall := table_of_canBalance (mkRing eps) (zonesOf eps) rf hne (azConsistent_mkRing eps)
        (nodup_dedup _) (mkRing_cover eps) hb (mkRing eps) ⟨[], by simp⟩
      rw [hsizes] at hall
      cases hc : canBalance (zoneSizesOf eps) rf with
      | true =>
        obtain ⟨t, ht⟩ := hall.1 hc
        refine ⟨⟨fun h => ?_, fun h => ?_⟩, ⟨fun _ => ⟨hle, rfl⟩, fun _ => ⟨t, ht⟩⟩⟩
        · rw [ht] at h; cases h
        · obtain ⟨_, h⟩ := h; cases h
      | false =>
        have hst := hall.2 hc hne
        refine ⟨⟨fun _ => ⟨hle, rfl⟩, fun _ => hst⟩, ⟨fun h => ?_, fun h => ?_⟩⟩
        · obtain ⟨secs, h⟩ := h; rw [hst] at h; cases h
        · obtain ⟨_, h⟩ := h; cases h

/-- **F19, exact extent.**  The loop as it was never answers — for any amount of fuel — exactly
    on the zone layouts that cannot be balanced for the replication factor; everywhere else it
    terminates (`C19_unrepaired_partial`).  Hash values and the start section play no role. -/
theorem C19_unrepaired_hangs_iff (ring : List Sec) (zones : List Nat) (rf : Nat) (start : List Sec)
    (hne : ring ≠ []) (hstart : ∃ pre, ring = pre ++ start) (hcons : AzConsistent ring)
    (hn : zones.Nodup) (hcover : ∀ s ∈ ring, s.az ∈ zones) (hb : rf < 2 ^ 63 - 1) :
    (∀ fuel, loop false ring ring.length zones rf fuel start 0 [] = .fuelOut) ↔
      canBalance (zones.map (zsize ring)) rf = false := by
  have hiff := C19_stuck_iff ring zones rf start hne hstart hcons hn hcover hb
  have hsub : ∀ s ∈ start, s ∈ ring := by
    obtain ⟨pre, hp⟩ := hstart
    intro s hs; rw [hp]; simp [hs]
  constructor
  · intro hall
    cases hc : canBalance (zones.map (zsize ring)) rf with
    | false => rfl
    | true =>
      obtain ⟨fuel, reps, hr⟩ := C19_unrepaired_partial ring zones rf start hne hstart hcons hn hcover hb hc
      rw [hall fuel] at hr; cases hr
  · intro hc fuel
    have hst := hiff.1.mpr hc
    exact unrepaired_hangs_of_stuck ring zones rf hne _ start 0 [] hsub (window_zero hstart) (by omega) hst fuel 0

-- non-vacuity of C19_stuck_iff / C19_build_stuck_iff: the F19 ring meets every hypothesis, and the
-- two sides of the equivalence are the interesting ones on it
example : AzConsistent f19Ring := by unfold AzConsistent; decide
example : ([0, 1] : List Nat).Nodup ∧ (∀ s ∈ f19Ring, s.az ∈ [0, 1]) ∧ (∃ pre, f19Ring = pre ++ f19Ring) :=
  ⟨by decide, by decide, ⟨[], rfl⟩⟩
example : replicasFor true f19Ring [0, 1] 4 f19Ring = .stuck ∧ canBalance ([0, 1].map (zsize f19Ring)) 4 = false := by
  decide
example : (∀ e ∈ f19Eps, e.hashes ≠ []) ∧ zoneSizesOf f19Eps = [1, 3] := by decide
-- the F19 layout: zone sizes 1 and 3, rf 4 exceeds the capacity 1 + 2; rf 3 fits
example : canBalance [1, 3] 4 = false := by decide
example : canBalance [1, 3] 3 = true := by decide
example : canBalance [2, 4] 4 = true := by decide
example : canBalance [1, 2, 3] 5 = true ∧ canBalance [1, 2, 3] 6 = false := by decide
example : (f19Ring.map (·.az)) = [0, 1, 1, 1] ∧ [0, 1].map (zsize f19Ring) = [1, 3] := by decide

/-! ### loading a configuration: metrics registration (known findings)

  Outside the ring algorithm, `NewMultiHashring` can still fail to "produce a hashring or report
  an error": the per-hashring metrics of shuffle sharding are registered with `promauto`
  (`MustRegister`).  Spec-level model: `Thanos.RingMetrics`. -/

end Thanos.Hashring

namespace Thanos.RingMetrics

/-- C19 for the loader, at full strength: loading a configuration never panics, whatever is
    registered already -/
def C19_load_full (shared : Bool) : Prop := ∀ reg cfg, load shared reg cfg ≠ .panic

/-- **repaired code:** it holds -/
theorem C19_load_total : C19_load_full true := by
  intro reg cfg
  induction cfg generalizing reg with
  | nil => simp [load]
  | cons c rest ih =>
    obtain ⟨name, sharded⟩ := c
    cases sharded <;> simp [load, ih]

/-- as it was: false — two shuffle sharded hashrings without a name (fixed finding
    load-panic-duplicate-metrics) -/
theorem C19_load_unrepaired_false : ¬ C19_load_full false := by
  intro h
  exact h [] [("", true), ("", true)] (by decide)

theorem load_shared_eq : ∀ (cfg : List (String × Bool)) (reg : Registry),
    load true reg cfg = .ok ((shardedNames cfg).reverse ++ reg)
  | [], reg => by simp [load, shardedNames]
  | (name, sharded) :: rest, reg => by
    cases sharded with
    | false => simpa [load, shardedNames] using load_shared_eq rest reg
    | true =>
      have := load_shared_eq rest (name :: reg)
      simp only [load, if_true, Bool.not_true, Bool.false_and, Bool.false_eq_true, if_false, this]
      simp [shardedNames]

theorem count_release (n : String) : ∀ (names : List String) (reg : Registry),
    (release reg names).count n = reg.count n - names.count n
  | [], reg => by simp [release]
  | a :: names, reg => by
    rw [release, count_release n names (reg.erase a), List.count_erase, List.count_cons]
    by_cases h : a = n
    · subst h; simp; omega
    · have : (n == a) = false := by simp [Ne.symm h]
      simp [this, h]

/-- **repaired code, configuration update.**  After any update every shuffle sharded hashring
    of the new configuration still has its metrics registered (the old hashring's `Close` only
    releases its own use), and the update never panics. -/
theorem C19_reload_keeps_metrics (old new : List (String × Bool)) (reg reg' : Registry)
    (hold : load true [] old = .ok reg) (h : update true reg old new = .ok reg') :
    ∀ n, (n, true) ∈ new → n ∈ reg' := by
  intro n hn
  rw [load_shared_eq] at hold
  injection hold with hold
  simp only [update, load_shared_eq, close, Load.ok.injEq] at h
  have hc := count_release n (shardedNames old) ((shardedNames new).reverse ++ reg)
  rw [h] at hc
  have hnew : 0 < (shardedNames new).count n := by
    apply List.count_pos_iff.mpr
    simp only [shardedNames, List.mem_map, List.mem_filter]
    exact ⟨(n, true), ⟨hn, rfl⟩, rfl⟩
  have hreg : reg.count n = (shardedNames old).count n := by
    rw [← hold]; simp
  rw [List.count_append, List.count_reverse, hreg] at hc
  exact List.count_pos_iff.mp (by omega)

/-- … and closing every hashring that was loaded leaves nothing registered -/
theorem C19_metrics_released (cfg : List (String × Bool)) (reg : Registry)
    (h : load true [] cfg = .ok reg) : close reg cfg = [] := by
  rw [load_shared_eq] at h
  injection h with h
  apply List.eq_nil_iff_forall_not_mem.mpr
  intro n hn
  have hc := count_release n (shardedNames cfg) reg
  have hpos : 0 < (close reg cfg).count n := List.count_pos_iff.mpr hn
  simp only [close] at hpos
  have hreg : reg.count n = (shardedNames cfg).count n := by rw [← h]; simp
  omega

theorem load_mono_unrepaired : ∀ (cfg : List (String × Bool)) (reg reg' : Registry), load false reg cfg = .ok reg' →
    ∀ n, (n ∈ reg ∨ (n, true) ∈ cfg) → n ∈ reg'
  | [], reg, reg', h, n, hn => by
    simp only [load, Load.ok.injEq] at h; subst h
    simpa using hn
  | (name, sharded) :: rest, reg, reg', h, n, hn => by
    unfold load at h
    cases sharded with
    | false =>
      simp only [Bool.false_eq_true, if_false] at h
      apply load_mono_unrepaired rest reg reg' h n
      rcases hn with hn | hn
      · exact Or.inl hn
      · simp at hn; exact Or.inr hn
    | true =>
      simp only [if_true, Bool.not_false, Bool.true_and] at h
      by_cases hc : reg.contains name = true
      · have hc' : name ∈ reg := by simpa using hc
        simp [hc'] at h
      · simp only [hc, Bool.false_eq_true, if_false] at h
        apply load_mono_unrepaired rest (name :: reg) reg' h n
        rcases hn with hn | hn
        · exact Or.inl (by simp [hn])
        · simp only [List.mem_cons, Prod.mk.injEq, and_true] at hn
          rcases hn with hn | hn
          · exact Or.inl (by simp [hn])
          · exact Or.inr hn

theorem load_panic_of_registered : ∀ (cfg : List (String × Bool)) (reg : Registry) (n : String),
    (n, true) ∈ cfg → n ∈ reg → load false reg cfg = .panic
  | [], _, _, h, _ => by simp at h
  | (name, sharded) :: rest, reg, n, h, hr => by
    unfold load
    simp only [List.mem_cons, Prod.mk.injEq] at h
    cases sharded with
    | false =>
      simp only [Bool.false_eq_true, if_false]
      rcases h with ⟨_, h⟩ | h
      · cases h
      · exact load_panic_of_registered rest reg n h hr
    | true =>
      simp only [if_true, Bool.not_false, Bool.true_and]
      by_cases hc : reg.contains name = true
      · have hc' : name ∈ reg := by simpa using hc
        simp [hc']
      · simp only [hc, Bool.false_eq_true, if_false]
        rcases h with ⟨h, _⟩ | h
        · subst h; simp at hc; exact absurd hr hc
        · exact load_panic_of_registered rest (name :: reg) n h (by simp [hr])

/-- **as it was (fixed finding reload-panic-duplicate-metrics), in general.**  Whatever the
    configuration: if it loads and contains a shuffle sharded hashring, loading it again with the
    same registerer — the first step of every hashring file update — panicked. -/
theorem C19_reload_unrepaired_panics (cfg : List (String × Bool)) (reg : Registry) (n : String)
    (hs : (n, true) ∈ cfg) (h : load false [] cfg = .ok reg) : update false reg cfg cfg = .panic := by
  have hm : n ∈ reg := load_mono_unrepaired cfg [] reg h n (Or.inr hs)
  simp [update, load_panic_of_registered cfg reg n hs hm]

/-- the constructor looks the shared metrics up before it registers anything, and `close` only
    unregisters for the last user -/
theorem C19_fact_metrics_shared :
    Thanos.Facts.shuffleShardMetricsShared =
      ["if:ok", "m.users++", "return", "registerShuffleShardCacheMetrics"] ∧
    Thanos.Facts.shuffleShardMetricsClose = ["s.users--", "if:s.users > 0", "return", "delete", "Unregister"] := by decide

/-- a file update builds the new hashring first; the handler closes the old one when the new one is installed -/
theorem C19_fact_reload_order :
    Thanos.Facts.hashringReloadOrder = ["receive.NewMultiHashring", "webHandler.Hashring"] ∧
      Thanos.Facts.handlerHashringSwap = ["h.hashring.Close"] := by decide

example : update false ["h"] [("h", true)] [("h", true)] = .panic := by decide
example : update true ["h"] [("h", true)] [("h", true)] = .ok ["h"] := by decide
example : load true [] [("a", true), ("", false), ("a", true)] = .ok ["a", "a"] := by decide
example : close ["a", "a"] [("a", true), ("", false), ("a", true)] = [] := by decide

end Thanos.RingMetrics

namespace Thanos.Hashring

/-! ### regenerated facts: the source has the loop shape the model transliterates -/

/-- the loop condition -/
theorem C19_fact_loop_cond : Thanos.Facts.ketamaLoopCond = "uint64(len(replicas)) < replicationFactor" := by decide

/-- the lap check is the first statement of the loop body and compares the consecutive skips
    with the number of sections -/
theorem C19_fact_lap_check : Thanos.Facts.ketamaLapCheck = "skipped == len(ringSections)" := by decide

/-- both skip branches count, progress resets the counter -/
theorem C19_fact_skip_counter :
    Thanos.Facts.ketamaSkipCounter = ["if:skipped == len(ringSections)", "return", "if:ok", "skipped++", "continue",
      "if:len(azSpread) > 1 && azSpread[rep.az] > 0 && azSpread[rep.az] > sizeOfLeastOccupiedAZ(azSpread)",
      "skipped++", "continue", "skipped = 0"] := by decide

/-- the endpoint-count test in front of the construction -/
theorem C19_fact_too_few : Thanos.Facts.ketamaTooFew = "len(endpoints) < int(replicationFactor)" := by decide

-- non-vacuity: a balanced layout (2 + 2 endpoints, two sections each) builds, the table has
-- one row per section and the rows alternate between the zones
example : table true [⟨5, 2, 1⟩, ⟨10, 0, 0⟩, ⟨20, 1, 1⟩, ⟨30, 2, 1⟩, ⟨40, 3, 0⟩, ⟨45, 3, 0⟩, ⟨50, 0, 0⟩, ⟨60, 1, 1⟩] [0, 1] 4
    [⟨50, 0, 0⟩, ⟨60, 1, 1⟩] = .ring [(⟨50, 0, 0⟩, [0, 1, 2, 3]), (⟨60, 1, 1⟩, [1, 0, 2, 3])] := by decide
example : build true [⟨0, [10]⟩, ⟨1, [20]⟩] 3 = .tooFew := by decide
example : replicasFor true f19Ring [0, 1] 3 f19Ring = .ok [0, 1, 2] := by decide

end Thanos.Hashring
