import Thanos.Model.ShuffleShard
import Thanos.Lemmas.ShuffleShard
import Thanos.Props.C18
import Thanos.Generated.Facts
/-
  C21 — Shuffle-sharded tenants get stable, correctly sized sub-rings.

  `tenantShard` transliterates `getTenantShard` up to the call of `newKetamaHashring` on the
  selected nodes; the sub-ring itself is the ketama ring of C18/C19.  Random positions
  (`math/rand` seeded by `ShuffleShardSeed`) and glob results are inputs: every theorem is for
  ALL positions and all glob tables.
-/
namespace Thanos.ShuffleShard
open Thanos.Hashring Thanos.MultiRing

/-! ### shard size -/

/-- `getShardSize` answers the size of the first override that applies, the default when none does -/
theorem C21_shardSize_first_match (dflt : Nat) (tenant : String) : ∀ (ovs : List Override),
    (∃ pre o post, ovs = pre ++ o :: post ∧ (∀ p ∈ pre, p.applies tenant = false) ∧
        o.applies tenant = true ∧ shardSize dflt ovs tenant = o.size) ∨
      ((∀ o ∈ ovs, o.applies tenant = false) ∧ shardSize dflt ovs tenant = dflt)
  | [] => Or.inr ⟨by simp, rfl⟩
  | o :: os => by
    by_cases h : o.applies tenant = true
    · exact Or.inl ⟨[], o, os, rfl, by simp, h, by simp [shardSize, h]⟩
    · have h' : o.applies tenant = false := by simpa using h
      rcases C21_shardSize_first_match dflt tenant os with ⟨pre, o', post, e, hp, ho, hs⟩ | ⟨hn, hs⟩
      · refine Or.inl ⟨o :: pre, o', post, by simp [e], ?_, ho, by simp [shardSize, h', hs]⟩
        intro p hp'
        simp only [List.mem_cons] at hp'
        rcases hp' with rfl | hp'
        · exact h'
        · exact hp p hp'
      · refine Or.inr ⟨?_, by simp [shardSize, h', hs]⟩
        intro p hp'
        simp only [List.mem_cons] at hp'
        rcases hp' with rfl | hp'
        · exact h'
        · exact hn p hp'

/-! ### the selection of one zone -/

/-- For ALL random positions: drawing `take` positions in a zone with at least `take` nodes
    selects exactly `take` pairwise distinct nodes of that zone. -/
theorem C21_pick_count (secs : List Sec) (positions : List Nat) (take : Nat)
    (hpos : take ≤ positions.length) (hnodes : take ≤ (zoneNodes secs).length) :
    (pickZone secs (positions.take take) []).length = take ∧
    (pickZone secs (positions.take take) []).Nodup ∧
    ∀ e ∈ pickZone secs (positions.take take) [], ∃ s ∈ secs, s.ep = e := by
  have hfree : free secs [] = zoneNodes secs := by simp [free]
  have hl : (positions.take take).length = take := by simp [List.length_take]; omega
  obtain ⟨r1, r2, _, r4⟩ := pickZone_spec secs (positions.take take) [] (by simp) (by rw [hfree, hl]; exact hnodes)
  refine ⟨by rw [r2, hl]; simp, r1, fun e he => ?_⟩
  rcases r4 e he with h | h
  · simp at h
  · exact h

/-! ### all zones -/

/-- `getTenantShard` fails with "shard size … larger than number of nodes in AZ" iff some zone
    has fewer nodes than are to be taken from it; otherwise the selection is, zone after zone,
    a block of exactly `take` distinct nodes of that zone. -/
theorem selectNodes_spec (take : Nat) (secsOf : Nat → List Sec) (positions : Nat → List Nat) :
    ∀ (zones : List Nat), (∀ z ∈ zones, take ≤ (positions z).length) →
      (selectNodes take secsOf positions zones = .tooBig ∧ ∃ z ∈ zones, (zoneNodes (secsOf z)).length < take) ∨
      (selectNodes take secsOf positions zones =
          .nodes (zones.flatMap fun z => pickZone (secsOf z) ((positions z).take take) []) ∧
        ∀ z ∈ zones, take ≤ (zoneNodes (secsOf z)).length)
  | [], _ => Or.inr ⟨rfl, by simp⟩
  | z :: zs, hp => by
    have ih := selectNodes_spec take secsOf positions zs (fun z' h => hp z' (List.mem_cons_of_mem _ h))
    unfold selectNodes
    by_cases h : (zoneNodes (secsOf z)).length < take
    · exact Or.inl ⟨by simp [h], z, by simp, h⟩
    · simp only [h, if_false]
      rcases ih with ⟨h1, z', hz', hlt⟩ | ⟨h1, h2⟩
      · exact Or.inl ⟨by simp [h1], z', List.mem_cons_of_mem _ hz', hlt⟩
      · refine Or.inr ⟨by simp [h1, List.flatMap_cons], fun z' hz' => ?_⟩
        simp only [List.mem_cons] at hz'
        rcases hz' with rfl | hz'
        · omega
        · exact h2 z' hz'

/-- **C21, size (zone aware).**  When the selection succeeds every zone contributes exactly
    ⌈shardSize / #zones⌉ pairwise distinct nodes of that zone, so the sub-ring has
    ⌈shardSize / #zones⌉ · #zones nodes. -/
theorem C21_size_zone_aware (ring : List Sec) (dflt : Nat) (ovs : List Override) (tenant : String)
    (positions : Nat → List Nat) (final : List Nat)
    (hpos : ∀ z, perZone (shardSize dflt ovs tenant) (dedup (ring.map (·.az))).length ≤ (positions z).length)
    (h : tenantShard true ring dflt ovs tenant positions = .nodes final) :
    let zones := dedup (ring.map (·.az))
    let take := perZone (shardSize dflt ovs tenant) zones.length
    final = zones.flatMap (fun z => pickZone (ring.filter (·.az == z)) ((positions z).take take) []) ∧
    final.length = take * zones.length ∧
    ∀ z ∈ zones,
      (pickZone (ring.filter (·.az == z)) ((positions z).take take) []).length = take ∧
      (pickZone (ring.filter (·.az == z)) ((positions z).take take) []).Nodup ∧
      ∀ e ∈ pickZone (ring.filter (·.az == z)) ((positions z).take take) [], ∃ s ∈ ring, s.ep = e ∧ s.az = z := by
  intro zones take
  simp only [tenantShard, if_true] at h
  rcases selectNodes_spec take (fun z => ring.filter (·.az == z)) positions zones (fun z _ => hpos z) with
    ⟨h1, _⟩ | ⟨h1, h2⟩
  · rw [h1] at h; cases h
  · rw [h1] at h
    injection h with h
    have hblocks : ∀ z ∈ zones,
        (pickZone (ring.filter (·.az == z)) ((positions z).take take) []).length = take ∧
        (pickZone (ring.filter (·.az == z)) ((positions z).take take) []).Nodup ∧
        ∀ e ∈ pickZone (ring.filter (·.az == z)) ((positions z).take take) [], ∃ s ∈ ring, s.ep = e ∧ s.az = z := by
      intro z hz
      obtain ⟨a, b, c⟩ := C21_pick_count (ring.filter (·.az == z)) (positions z) take (hpos z) (h2 z hz)
      refine ⟨a, b, fun e he => ?_⟩
      obtain ⟨s, hs, hse⟩ := c e he
      rw [List.mem_filter] at hs
      exact ⟨s, hs.1, hse, by simpa using hs.2⟩
    refine ⟨h.symm, ?_, hblocks⟩
    rw [← h, List.length_flatMap]
    have : ∀ (l : List Nat), (∀ z ∈ l, z ∈ zones) →
        (l.map fun z => (pickZone (ring.filter (·.az == z)) ((positions z).take take) []).length).sum = take * l.length := by
      intro l
      induction l with
      | nil => simp
      | cons a l ih =>
        intro hl
        simp only [List.map_cons, List.sum_cons, List.length_cons]
        rw [(hblocks a (hl a (by simp))).1, ih (fun z hz => hl z (by simp [hz])), Nat.mul_succ]
        omega
    exact this zones (fun _ h => h)

/-- **C21, size (zone awareness disabled).**  The sub-ring has exactly `shardSize` pairwise
    distinct nodes of the base ring. -/
theorem C21_size_zone_unaware (ring : List Sec) (dflt : Nat) (ovs : List Override) (tenant : String)
    (positions : Nat → List Nat) (final : List Nat)
    (hpos : shardSize dflt ovs tenant ≤ (positions 0).length)
    (h : tenantShard false ring dflt ovs tenant positions = .nodes final) :
    final.length = shardSize dflt ovs tenant ∧ final.Nodup ∧ ∀ e ∈ final, ∃ s ∈ ring, s.ep = e := by
  simp only [tenantShard, Bool.false_eq_true, if_false] at h
  rcases selectNodes_spec (shardSize dflt ovs tenant) (fun _ => ring) positions [0] (by simpa using hpos) with
    ⟨h1, _⟩ | ⟨h1, h2⟩
  · rw [h1] at h; cases h
  · rw [h1] at h
    injection h with h
    simp only [List.flatMap_cons, List.flatMap_nil, List.append_nil] at h
    rw [← h]
    exact C21_pick_count ring (positions 0) _ hpos (h2 0 (by simp))

/-- **C21, too big.**  The selection is refused exactly when some zone has fewer nodes than are
    to be taken from it. -/
theorem C21_too_big_iff (ring : List Sec) (dflt : Nat) (ovs : List Override) (tenant : String)
    (positions : Nat → List Nat)
    (hpos : ∀ z, perZone (shardSize dflt ovs tenant) (dedup (ring.map (·.az))).length ≤ (positions z).length) :
    tenantShard true ring dflt ovs tenant positions = .tooBig ↔
      ∃ z ∈ dedup (ring.map (·.az)),
        (zoneNodes (ring.filter (·.az == z))).length < perZone (shardSize dflt ovs tenant) (dedup (ring.map (·.az))).length := by
  simp only [tenantShard, if_true]
  rcases selectNodes_spec (perZone (shardSize dflt ovs tenant) (dedup (ring.map (·.az))).length)
      (fun z => ring.filter (·.az == z)) positions (dedup (ring.map (·.az))) (fun z _ => hpos z) with
    ⟨h1, h2⟩ | ⟨h1, h2⟩
  · exact ⟨fun _ => h2, fun _ => h1⟩
  · constructor
    · intro h; rw [h1] at h; cases h
    · rintro ⟨z, hz, hlt⟩
      have := h2 z hz
      omega

/-! ### the configured order of the endpoints does not matter -/

/-- **C21, stability under reordering.**  Reordering the configured endpoint list (any
    permutation, no hash ties) gives the tenant the same nodes: the selection on the original base
    ring is the selection on the reordered one with positions translated back.  (The order in
    which Go's map iteration visits the zones only permutes the selected list, and the sub-ring
    over a permuted node list is the same ring by `C18_ketama_perm`.) -/
theorem C21_endpoint_order (eps : List Ep) (perm : List Nat) (h : IsPermOf perm eps.length) (hnt : NoTies eps)
    (zoneAware : Bool) (dflt : Nat) (ovs : List Override) (tenant : String) (positions : Nat → List Nat) :
    tenantShard zoneAware (mkRing eps) dflt ovs tenant positions =
      (tenantShard zoneAware (mkRing (permute eps perm)) dflt ovs tenant positions).map (permFun perm) := by
  rw [← mkRing_permute eps perm h hnt]
  apply tenantShard_ren
  intro a ha b hb hab
  obtain ⟨s, hs, rfl⟩ := List.mem_map.mp ha
  obtain ⟨t, ht, rfl⟩ := List.mem_map.mp hb
  exact injOn_permFun eps perm h s hs t ht hab

/-! ### the replicas stay inside the sub-ring -/

/-- **C21, inside.**  The sub-ring is the ketama ring over the selected nodes: whatever their
    sections' hashes, every `GetN(n)`, `n < rf`, answers a position of the selected node list,
    i.e. one of the tenant's nodes, and the positions for different `n` differ. -/
theorem C21_inside (sub : List Ep) (rf : Nat) (secs : List (Sec × List Nat)) (v : Nat)
    (hb : build true sub rf = .ring secs) (hne : secs ≠ []) :
    ∃ row : List Nat, row.length = rf ∧ row.Nodup ∧ (∀ e ∈ row, e < sub.length) ∧
      ∀ n, n < rf → ∃ e, row[n]? = some e ∧ getN sub.length secs v n = .node e :=
  C18_getN_distinct sub rf secs v hb hne

/-! ### can the selected nodes serve the tenant?  (known finding) -/

/-- C21 (service) at full strength: a tenant whose shard has at least `rf` nodes gets a sub-ring. -/
def C21_serves_full : Prop :=
  ∀ (sub : List Ep) (rf : Nat), rf ≤ sub.length → ∃ secs, build true sub rf = .ring secs

/-- It is false.  The sub-ring is a zone aware ketama ring over the selected nodes WITH their
    real zones, also when zone awareness of the shard selection is disabled.  A selection of one
    node in zone a and three in zone b cannot be balanced for rf = 4 (F19's layout): the repaired
    constructor reports the configuration error (before the repair of F19 it never returned), so
    every request of such a tenant fails although its shard has enough nodes. -/
theorem C21_serves_full_false : ¬ C21_serves_full := by
  intro h
  obtain ⟨secs, hs⟩ := h f19Eps 4 (by decide)
  rw [f19_build_repaired] at hs
  cases hs

example : zoneSizesOf f19Eps = [1, 3] ∧ canBalance (zoneSizesOf f19Eps) 4 = false := by decide

/-- … and holds exactly when the zones of the selected nodes can be balanced: a shard whose
    nodes (each with at least one section) have endpoints-per-zone counts that can take `rf`
    balanced replicas is served.  With zone awareness every zone contributes the same number of
    nodes, which can always be balanced (`canBalance_equal`). -/
theorem C21_serves_partial (sub : List Ep) (rf : Nat) (hh : ∀ e ∈ sub, e.hashes ≠ []) (hb : rf < 2 ^ 63 - 1)
    (hle : rf ≤ sub.length) (hcan : canBalance (zoneSizesOf sub) rf = true) :
    ∃ secs, build true sub rf = .ring secs :=
  (C19_build_stuck_iff sub rf hh hb).2.mpr ⟨hle, hcan⟩

/-- the tenant is refused with the zone error exactly when its nodes' zones cannot be balanced -/
theorem C21_stuck_iff (sub : List Ep) (rf : Nat) (hh : ∀ e ∈ sub, e.hashes ≠ []) (hb : rf < 2 ^ 63 - 1) :
    build true sub rf = .stuck ↔ rf ≤ sub.length ∧ canBalance (zoneSizesOf sub) rf = false :=
  (C19_build_stuck_iff sub rf hh hb).1

theorem listMin_replicate (k : Nat) : ∀ n, 0 < n → listMin (List.replicate n k) = k
  | 1, _ => rfl
  | n + 2, _ => by
    have := listMin_replicate k (n + 1) (by omega)
    simp only [List.replicate_succ] at this ⊢
    simp only [listMin, this]
    omega

/-- equal zone sizes can take as many replicas as there are nodes: the sub-ring of a zone aware
    shard (k nodes from each of n zones) serves every `rf ≤ k·n` -/
theorem sum_replicate_nat (k : Nat) : ∀ n, (List.replicate n k).sum = k * n
  | 0 => by simp
  | n + 1 => by simp [List.replicate_succ, sum_replicate_nat k n, Nat.mul_succ]; omega

theorem canBalance_equal (k n rf : Nat) (h : rf ≤ k * n) : canBalance (List.replicate n k) rf = true := by
  unfold canBalance
  by_cases hn : n ≤ 1
  · simp only [List.length_replicate, hn, if_true, decide_eq_true_eq, sum_replicate_nat]
    exact h
  · simp only [List.length_replicate, hn, if_false, decide_eq_true_eq]
    rw [listMin_replicate k n (by omega)]
    have : (List.replicate n k).map (fun s => min s (k + 1)) = List.replicate n k := by
      rw [List.map_replicate]; congr 1; omega
    rw [this, sum_replicate_nat]; exact h

/-! ### the LRU cache -/

/-- every cached value is what `compute` answers -/
def LruSound {α : Type} (compute : String → Option α) (c : Lru α) : Prop :=
  ∀ k v, c.get k = some v → compute k = some v

theorem getCached_sound {α : Type} (compute : String → Option α) (cap : Nat) (c : Lru α) (tenant : String)
    (hs : LruSound compute c) :
    (getCached compute cap c tenant).1 = compute tenant ∧ LruSound compute (getCached compute cap c tenant).2 := by
  unfold getCached
  cases hg : c.get tenant with
  | some v =>
    refine ⟨(hs tenant v hg).symm, ?_⟩
    intro k w h
    simp only [Lru.touch, Lru.get] at h
    by_cases hk : tenant = k
    · subst hk; simp at h; subst h; exact hs tenant v hg
    · simp only [hk, if_false] at h
      exact hs k w (Lru.get_filter_ne c tenant k w h)
  | none =>
    cases hc : compute tenant with
    | none => exact ⟨rfl, hs⟩
    | some v =>
      refine ⟨rfl, ?_⟩
      intro k w h
      have h' := Lru.get_take _ cap k w h
      simp only [Lru.get] at h'
      by_cases hk : tenant = k
      · subst hk; simp at h'; subst h'; exact hc
      · simp only [hk, if_false] at h'
        exact hs k w (Lru.get_filter_ne c tenant k w h')

theorem getCachedSeq_eq {α : Type} (compute : String → Option α) (cap : Nat) :
    ∀ (ts : List String) (c : Lru α), LruSound compute c → getCachedSeq compute cap c ts = ts.map compute
  | [], _, _ => rfl
  | t :: ts, c, hs => by
    obtain ⟨h1, h2⟩ := getCached_sound compute cap c t hs
    simp only [getCachedSeq, List.map_cons]
    rw [h1, getCachedSeq_eq compute cap ts _ h2]

/-- **C21, stability.**  Whatever the cache capacity (evictions included) and the history of
    requests, `getTenantShardCached` answers what the uncached `getTenantShard` computes — which
    is a function of the tenant, the base ring and the configuration only. -/
theorem C21_cache_transparent {α : Type} (compute : String → Option α) (cap : Nat) (ts : List String) :
    getCachedSeq compute cap [] ts = ts.map compute :=
  getCachedSeq_eq compute cap ts [] (by intro k v h; simp [Lru.get] at h)

/-! ### configuration updates -/

theorem Instance.run_eq {α : Type} : ∀ (ts : List String) (i : Instance α), LruSound i.compute i.cache →
    (i.run ts).1 = ts.map i.compute
  | [], _, _ => rfl
  | t :: ts, i, hs => by
    obtain ⟨h1, h2⟩ := getCached_sound i.compute i.cap i.cache t hs
    simp only [Instance.run, List.map_cons]
    rw [h1]
    have := Instance.run_eq ts { i with cache := (getCached i.compute i.cap i.cache t).2 } h2
    simp only at this
    rw [this]

/-- **C21, configuration update.**  Whatever was asked of the old ring (and is cached there), every
    answer of its replacement is what the replacement's own configuration computes: a new ring
    instance starts with an empty cache, so nothing computed under the previous overrides, shard
    size or node list can survive the update. -/
theorem C21_update_transparent {α : Type} (old : Instance α) (histOld : List String)
    (computeNew : String → Option α) (capNew : Nat) (histNew : List String) :
    (update old histOld computeNew capNew histNew).2 = histNew.map computeNew := by
  simp only [update]
  exact Instance.run_eq histNew (Instance.new computeNew capNew) (by intro k v h; simp [Instance.new, Lru.get] at h)

/-- Handing the old ring's cache to the replacement is only sound if every cached entry is what
    the NEW configuration computes (`LruSound`); otherwise stale sub-rings are served: here the old
    configuration gave tenant "big" one node, the new one gives it two, and a replacement that
    inherits the cache keeps answering one. -/
example :
    let old : Instance Nat := Instance.new (fun _ => some 1) 10
    let cacheAfter := (old.run ["big"]).2.cache
    (({ compute := fun t => if t = "big" then some 2 else some 1, cap := 10, cache := cacheAfter } : Instance Nat).run ["big"]).1
      = [some 1] ∧
    (update old ["big"] (fun t => if t = "big" then some 2 else some 1) 10 ["big"]).2 = [some 2] := by decide

/-- the LRU is constructed in the hashring's constructor, the hashring keeps it in its own field, and
    the shared metrics value carries no cache -/
theorem C21_fact_cache_per_instance :
    Thanos.Facts.shuffleShardLruConstructedIn = ["newShuffleShardHashring"] ∧
    Thanos.Facts.shuffleShardMetricsFields = ["requestsTotal", "hitsTotal", "numItems", "maxItems", "evicted", "reg", "key", "users"] ∧
    Thanos.Facts.shuffleShardCacheField = "cache: cache" := by decide

/-! ### regenerated facts -/

/-- the matcher types `getShardSize` knows (the empty type counts as exact, as in `isExactMatcher`) -/
theorem C21_fact_shard_size_cases :
    Thanos.Facts.shardSizeCases = ["TenantMatcherTypeExact, \"\"", "TenantMatcherGlob"] := by decide

/-- the set of already selected endpoints is a map keyed by the (ring-global) endpoint index: membership is
    exact for every index, as `selected.contains` in `pickOne` -/
theorem C21_fact_selected_set : Thanos.Facts.shardSelectedInit = "make(map[uint64]struct{})" := by decide

/-- how many nodes are taken per zone -/
theorem C21_fact_take :
    Thanos.Facts.shardTake = ["if:s.shuffleShardingConfig.ZoneAwarenessDisabled", "take = ss", "else",
      "take = ShuffleShardExpectedInstancesPerZone(ss, len(nodesByAZ))"] := by decide

/-- the sub-ring is the ketama ring over the selected nodes with the handler's replication factor -/
theorem C21_fact_sub_ring :
    Thanos.Facts.shardSubRing = "newKetamaHashring(finalNodes, SectionsPerNode, s.replicationFactor)" := by decide

-- non-vacuity: two zones with two nodes each, one node per zone; two different tenants (position
-- lists) get different shards; an override applies to the listed tenant only
example : tenantShard true [⟨10, 0, 0⟩, ⟨20, 1, 1⟩, ⟨30, 2, 0⟩, ⟨40, 3, 1⟩] 2 [] "t"
    (fun z => if z = 0 then [25] else [5]) = .nodes [2, 1] := by decide
example : tenantShard true [⟨10, 0, 0⟩, ⟨20, 1, 1⟩, ⟨30, 2, 0⟩, ⟨40, 3, 1⟩] 2 [] "u"
    (fun z => if z = 0 then [35] else [21]) = .nodes [0, 3] := by decide
example : tenantShard true [⟨10, 0, 0⟩, ⟨20, 1, 1⟩, ⟨30, 2, 0⟩, ⟨40, 3, 1⟩] 2 [⟨.exact, 6, ["big"], []⟩] "big"
    (fun _ => [1, 2, 3]) = .tooBig := by decide
example : tenantShard false [⟨10, 0, 0⟩, ⟨20, 1, 1⟩, ⟨30, 2, 0⟩, ⟨40, 3, 1⟩] 3 [] "t" (fun _ => [15, 15, 15]) = .nodes [1, 2, 3] := by decide
-- C21_pick_count: three positions on a zone of four nodes (two sections each) pick three distinct nodes,
-- whatever the positions — here two of them hit the same node first
example : pickZone [⟨10, 0, 0⟩, ⟨20, 1, 0⟩, ⟨30, 2, 0⟩, ⟨40, 3, 0⟩, ⟨50, 0, 0⟩, ⟨60, 1, 0⟩, ⟨70, 2, 0⟩, ⟨80, 3, 0⟩]
    ([15, 15, 99].take 3) [] = [1, 2, 0] := by decide
example : (zoneNodes [⟨10, 0, 0⟩, ⟨20, 1, 0⟩, ⟨30, 2, 0⟩, ⟨40, 3, 0⟩, ⟨50, 0, 0⟩]).length = 4 := by decide
example : shardSize 2 [⟨.other, 5, ["t"], []⟩, ⟨.glob, 3, ["t*"], [.yes]⟩] "t" = 3 := by decide
example : getCachedSeq (fun t => if t = "bad" then none else some t.length) 1 [] ["a", "bb", "a", "bad", "a"]
    = [some 1, some 2, some 1, none, some 1] := by decide

end Thanos.ShuffleShard
