import Thanos.Model.Iter
import Thanos.Generated.Facts
/-
  C01 — Penalty replica deduplication yields a well-formed merge of replica samples.
-/
namespace Thanos.Dedup

/-- timestamps strictly increase -/
def SSorted (l : List Sample) : Prop := l.Pairwise (fun x y => x.t < y.t)

/-- what a reader sees that first seeks to `t` and then iterates -/
def seekDrain (t : Int) (i : AnyIt) : List Sample :=
  let r := i.seek t
  if r.2 then
    match r.1.atS with
    | some x => x :: drain r.1
    | none => []
  else []

/-- "A reader that first seeks to some time t sees exactly the suffix (from t on) of what a
    reader iterating from the start sees", for the `Seek` selected by `fixed`. -/
def C01_seek_first (fixed : Bool) : Prop :=
  ∀ (r : List Sample) (rs : List (List Sample)) (t : Int),
    (∀ q ∈ r :: rs, SSorted q ∧ ∀ x ∈ q, minT < x.t) →
    seekDrain t (mk fixed false r rs) = (drain (mk fixed false r rs)).filter (fun x => t ≤ x.t)

/-- F01: `dedupSeriesIterator.Seek` as in the pinned tree answers a first `Seek` from side `a`
    while nothing has been emitted; the following `Next` goes back in time. -/
theorem C01_seek_first_orig_false : ¬ C01_seek_first false := by
  intro h
  have := h [⟨10000, 1⟩, ⟨20000, 2⟩, ⟨30000, 3⟩] [[⟨5000, 4⟩, ⟨15000, 5⟩, ⟨25000, 6⟩]] 1 (by
    intro q hq
    simp at hq
    rcases hq with rfl | rfl <;> (constructor <;> simp [SSorted, minT]))
  revert this
  decide

/-! ### regenerated facts: the source still has the shape the model transliterates -/

/-- the repaired `Seek` starts with one `Next` exactly when nothing has been emitted
    (`nodeSeekFixed`); on the pinned tree this fact is "unknown" and the model with
    `fixed = false` is the faithful one -/
theorem C01_fact_seek_guard : Thanos.Facts.dedupSeekGuard = "it.lastT == math.MinInt64" := by decide

theorem C01_fact_seek_calls :
    Thanos.Facts.dedupSeekCalls = ["it.Next", "it.AtT", "it.a.Seek", "it.b.Seek", "it.Next"] := by decide

/-- `initialPenalty`, the seek targets `lastT + 1 + pen`, the penalties `2 * (t - lastT)` and the
    choice `ta <= tb` of `nodeStep` are the ones in the source -/
theorem C01_fact_next_shape :
    Thanos.Facts.dedupInitialPenalty = "5000" ∧
    Thanos.Facts.dedupSeekArgsA = ["it.lastT + 1 + it.penA"] ∧
    Thanos.Facts.dedupSeekArgsB = ["it.lastT + 1 + it.penB"] ∧
    Thanos.Facts.dedupPenA = ["0", "0", "2 * (tb - it.lastT)", "initialPenalty"] ∧
    Thanos.Facts.dedupPenB = ["0", "2 * (ta - it.lastT)", "initialPenalty", "0"] ∧
    Thanos.Facts.dedupUseA = ["false", "true", "ta <= tb"] := by decide

end Thanos.Dedup
