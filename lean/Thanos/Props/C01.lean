import Thanos.Model.Iter
import Thanos.Model.ReadPath
import Thanos.Lemmas.ListLike
import Thanos.Generated.Facts
/-
  C01 — Penalty replica deduplication yields a well-formed merge of replica samples.
-/
namespace Thanos.Dedup

/-- what a reader sees that first seeks to `t` and then iterates -/
def seekDrain (t : Int) (i : AnyIt) : List Sample :=
  let r := i.seek t
  if r.2 then
    match r.1.atS with
    | some x => x :: drain r.1
    | none => []
  else []

/-- "A reader that first seeks to some time t sees exactly the suffix (from t on) of what a
    reader iterating from the start sees", for the `Seek` selected by `fixed`. -/
def C01_seek_first (fixed : Bool) : Prop :=
  ∀ (r : List Sample) (rs : List (List Sample)) (t : Int),
    (∀ q ∈ r :: rs, SSorted q ∧ ∀ x ∈ q, minT < x.t) →
    seekDrain t (mk fixed false r rs) = (drain (mk fixed false r rs)).filter (fun x => t ≤ x.t)

/-- F01: `dedupSeriesIterator.Seek` as in the pinned tree answers a first `Seek` from side `a`
    while nothing has been emitted; the following `Next` goes back in time. -/
theorem C01_seek_first_orig_false : ¬ C01_seek_first false := by
  intro h
  have := h [⟨10000, 1⟩, ⟨20000, 2⟩, ⟨30000, 3⟩] [[⟨5000, 4⟩, ⟨15000, 5⟩, ⟨25000, 6⟩]] 1 (by
    intro q hq
    simp at hq
    rcases hq with rfl | rfl <;> (constructor <;> simp [SSorted, minT]))
  revert this
  decide

/-! ### the deduplicated series is the fold of the pure penalty merge -/

theorem seekDrain_good {i : AnyIt} {L : List Sample} (h : GoodL i L) (t : Int) :
    seekDrain t i = dropLt t L := by
  obtain ⟨V, abs, hl, hi⟩ := h
  unfold seekDrain AnyIt.seek AnyIt.atS
  simp only [hi.seekOk t]
  cases hL : dropLt t L with
  | nil => simp
  | cons x tl =>
    have hne : abs (i.ops.seek t i.st).1 ≠ [] := by rw [hi.seekAbs, hL]; simp
    simp only [List.isEmpty_cons, Bool.not_false, if_true]
    rw [hl.atS _ (hi.seekV t) hne, hi.seekAbs, hL]
    simp only [List.head?_cons]
    show x :: drainN i.ops (i.ops.fuel (i.ops.seek t i.st).1 + 1) (i.ops.seek t i.st).1 = x :: tl
    rw [drainN_spec hl _ _ (hi.seekV t) hne, hi.seekAbs, hL]
    have := hl.fuel _ (hi.seekV t)
    rw [hi.seekAbs, hL] at this
    simp only [List.length_cons] at this
    simp only [List.tail_cons]
    rw [List.take_of_length_le (by omega)]

theorem leafPkg_good (r : List Sample) (h : ∀ x ∈ r, minT < x.t) :
    GoodL { σ := Leaf, ops := leafOps, st := Leaf.init r } r :=
  ⟨leafV, Leaf.rest, leaf_listLike, leaf_initLike r h⟩

theorem foldNode_goodL (acc : AnyIt) (L r : List Sample) (hacc : GoodL acc L)
    (h : ∀ x ∈ r, minT < x.t) : GoodL (foldNode true false acc r) (pm2 minT L r) := by
  obtain ⟨V, abs, hl, hi⟩ := hacc
  exact ⟨nodeV V leafV abs Leaf.rest, nodeAbs abs Leaf.rest, node_listLike hl leaf_listLike true,
    node_initLike hl leaf_listLike hi.toNext (leaf_initLike r h).toNext⟩

theorem foldl_goodL (rs : List (List Sample)) : ∀ (acc : AnyIt) (L : List Sample), GoodL acc L →
    (∀ q ∈ rs, ∀ x ∈ q, minT < x.t) →
    GoodL (rs.foldl (foldNode true false) acc) (rs.foldl (pm2 minT) L) := by
  induction rs with
  | nil => intro acc L h _; exact h
  | cons r rs ih =>
    intro acc L hacc h
    exact ih _ _ (foldNode_goodL acc L r hacc (h r (by simp))) (fun q hq => h q (by simp [hq]))

/-- the iterator of the deduplicated series is list-like over `pmFold r rs` -/
theorem mk_goodL (r : List Sample) (rs : List (List Sample))
    (h : ∀ q ∈ r :: rs, ∀ x ∈ q, minT < x.t) : GoodL (mk true false r rs) (pmFold r rs) := by
  have hr := leafPkg_good r (h r (by simp))
  cases rs with
  | nil => exact hr
  | cons r2 rs =>
    exact foldl_goodL (r2 :: rs) _ r hr (fun q hq => h q (by simp [hq]))

/-- **Refinement.**  Reading the deduplicated series with `Next` yields exactly the fold of the
    pure penalty merge over the replicas (no panic, no sample lost to the loop fuel). -/
theorem C01_drain (r : List Sample) (rs : List (List Sample))
    (h : ∀ q ∈ r :: rs, ∀ x ∈ q, minT < x.t) : drain (mk true false r rs) = pmFold r rs :=
  drain_good (mk_goodL r rs h)

/-! ### properties of the fold -/

theorem pmFold_identical (n : Nat) (r : List Sample) (hs : SSorted r) (hl : ∀ x ∈ r, minT < x.t) :
    (List.replicate n r).foldl (pm2 minT) r = r := by
  induction n with
  | zero => rfl
  | succ n ih =>
    simp only [List.replicate_succ, List.foldl_cons]
    rw [pm2_suffix hs (List.suffix_refl r) (fun x hx => by have := hl x (List.mem_of_mem_head? hx); omega)]
    exact ih

/-! ### C01 -/

/-- input domain: every replica is sorted by time and its timestamps are not the sentinel
    `math.MinInt64` (which the code uses for "nothing emitted yet") -/
def ValidReplicas (r : List Sample) (rs : List (List Sample)) : Prop :=
  ∀ q ∈ r :: rs, SSorted q ∧ ∀ x ∈ q, minT < x.t

/-- **C01, order.**  For any number of replicas the merged series has strictly increasing timestamps. -/
theorem C01_increasing (r : List Sample) (rs : List (List Sample)) (h : ValidReplicas r rs) :
    SSorted (drain (mk true false r rs)) := by
  rw [C01_drain r rs (fun q hq => (h q hq).2)]
  exact pmFold_sorted rs r (h r (by simp)).1 (h r (by simp)).2 (fun q hq => (h q (by simp [hq])).2)

/-- **C01, provenance.**  Every sample of the merged series is a sample (same timestamp and
    value) of one of the replicas. -/
theorem C01_provenance (r : List Sample) (rs : List (List Sample)) (h : ValidReplicas r rs)
    (z : Sample) (hz : z ∈ drain (mk true false r rs)) : ∃ q ∈ r :: rs, z ∈ q := by
  rw [C01_drain r rs (fun q hq => (h q hq).2)] at hz
  rcases pmFold_mem rs r z hz with h | ⟨q, hq, hz⟩
  · exact ⟨r, by simp, h⟩
  · exact ⟨q, by simp [hq], hz⟩

/-- **C01, provenance, for every function name outside `isCounter`'s set** (gauge functions,
    `*_over_time`, aggregations, the Thanos x-functions `xrate`/`xincrease`/`xdelta`, unknown
    names, the empty name): every sample of the merged series is a sample — same timestamp AND
    value — of one of the replicas. -/
theorem C01_provenance_fn (f : String) (hf : f ∉ counterFuncs) (r : List Sample)
    (rs : List (List Sample)) (h : ValidReplicas r rs)
    (z : Sample) (hz : z ∈ drain (mkF true f r rs)) : ∃ q ∈ r :: rs, z ∈ q := by
  have : isCounter f = false := by
    unfold isCounter
    cases hc : counterFuncs.contains f with
    | false => rfl
    | true => exact absurd (List.contains_iff_mem.mp hc) hf
  unfold mkF at hz
  rw [this] at hz
  exact C01_provenance r rs h z hz

/-- the boundary the classification must not cross: the extended range functions of the Thanos
    engine and the gauge functions are NOT counter functions -/
example : ["xrate", "xincrease", "xdelta", "delta", "idelta", "deriv", "", "sum", "max_over_time"].all
    (fun f => !isCounter f) = true := by decide

/-! ### the series-SET level: which input series are replicas of which output series -/

/-- every group is non-empty, carries a label set of the input, and holds input series of exactly
    that label set -/
theorem groupAdj_mem : ∀ (l : List (List Lbl × List Sample)) (g : List Lbl × List (List Sample)),
    g ∈ groupAdj l → g.2 ≠ [] ∧ ∀ r ∈ g.2, (g.1, r) ∈ l := by
  intro l
  induction l with
  | nil => intro g hg; simp [groupAdj] at hg
  | cons s rest ih =>
    obtain ⟨ls, sm⟩ := s
    intro g hg
    unfold groupAdj at hg
    cases hr : groupAdj rest with
    | nil =>
      rw [hr] at hg
      simp only [List.mem_singleton] at hg
      subst hg
      exact ⟨by simp, by intro r hr'; simp at hr'; subst hr'; exact List.mem_cons_self⟩
    | cons g0 gs =>
      obtain ⟨ls', reps⟩ := g0
      rw [hr] at hg
      simp only at hg
      have ih0 := ih (ls', reps) (by rw [hr]; exact List.mem_cons_self)
      split at hg
      · rename_i heq
        rcases List.mem_cons.mp hg with hg | hg
        · subst hg
          refine ⟨by simp, ?_⟩
          intro r hr'
          rcases List.mem_cons.mp hr' with h | h
          · subst h; exact List.mem_cons_self
          · have := ih0.2 r h
            simp only at this
            rw [← heq] at this
            exact List.mem_cons_of_mem _ this
        · obtain ⟨h1, h2⟩ := ih g (by rw [hr]; exact List.mem_cons_of_mem _ hg)
          exact ⟨h1, fun r hr' => List.mem_cons_of_mem _ (h2 r hr')⟩
      · rcases List.mem_cons.mp hg with hg | hg
        · subst hg
          exact ⟨by simp, by intro r hr'; simp at hr'; subst hr'; exact List.mem_cons_self⟩
        · obtain ⟨h1, h2⟩ := ih g (by rw [hr]; exact hg)
          exact ⟨h1, fun r hr' => List.mem_cons_of_mem _ (h2 r hr')⟩

/-- **nothing is lost, nothing moves**: writing the groups out again, replica by replica, gives
    back the input series in their order — every input series is a replica of exactly one output
    series, the one of its own label set -/
theorem groupAdj_flatten : ∀ (l : List (List Lbl × List Sample)),
    (groupAdj l).flatMap (fun g => g.2.map fun r => (g.1, r)) = l := by
  intro l
  induction l with
  | nil => simp [groupAdj]
  | cons s rest ih =>
    obtain ⟨ls, sm⟩ := s
    unfold groupAdj
    cases hr : groupAdj rest with
    | nil =>
      rw [hr] at ih
      simp only [List.flatMap_nil] at ih
      simp [← ih]
    | cons g0 gs =>
      obtain ⟨ls', reps⟩ := g0
      rw [hr] at ih
      simp only
      split
      · rename_i heq
        subst heq
        simp only [List.flatMap_cons, List.map_cons, List.cons_append] at ih ⊢
        rw [ih]
      · simp only [List.flatMap_cons, List.map_cons, List.map_nil, List.cons_append, List.nil_append] at ih ⊢
        rw [ih]

/-- neighbouring output series have different label sets -/
def AdjDistinct : List (List Lbl × List (List Sample)) → Prop
  | a :: b :: rest => a.1 ≠ b.1 ∧ AdjDistinct (b :: rest)
  | _ => True

theorem groupAdj_adjDistinct : ∀ (l : List (List Lbl × List Sample)), AdjDistinct (groupAdj l) := by
  intro l
  induction l with
  | nil => simp [groupAdj, AdjDistinct]
  | cons s rest ih =>
    obtain ⟨ls, sm⟩ := s
    unfold groupAdj
    cases hr : groupAdj rest with
    | nil => simp [AdjDistinct]
    | cons g0 gs =>
      obtain ⟨ls', reps⟩ := g0
      rw [hr] at ih
      simp only
      split
      · rename_i heq
        subst heq
        cases gs with
        | nil => simp [AdjDistinct]
        | cons g1 gs' => exact ⟨ih.1, ih.2⟩
      · rename_i hne
        exact ⟨hne, ih⟩

theorem groupAdj_labels_sublist : ∀ (l : List (List Lbl × List Sample)),
    ((groupAdj l).map (·.1)).Sublist (l.map (·.1)) := by
  intro l
  induction l with
  | nil => simp [groupAdj]
  | cons s rest ih =>
    obtain ⟨ls, sm⟩ := s
    unfold groupAdj
    cases hr : groupAdj rest with
    | nil => simp
    | cons g0 gs =>
      obtain ⟨ls', reps⟩ := g0
      rw [hr] at ih
      simp only
      split
      · rename_i heq
        subst heq
        simp only [List.map_cons] at ih ⊢
        exact List.Sublist.cons _ ih
      · simp only [List.map_cons] at ih ⊢
        exact List.Sublist.cons₂ _ ih

/-- **one output series per distinct label set**: if the input arrives in label order (any order
    `le` in which different label sets are not mutually `le` — `labels.Compare`), the output label
    sets are pairwise different -/
theorem C01_set_one_per_labelset (le : List Lbl → List Lbl → Prop)
    (antisymm : ∀ a b, le a b → le b a → a = b)
    (l : List (List Lbl × List Sample)) (hs : (l.map (·.1)).Pairwise le) :
    (groupAdj l).Pairwise (fun a b => a.1 ≠ b.1) := by
  have hsub := List.Pairwise.sublist (groupAdj_labels_sublist l) hs
  have hadj := groupAdj_adjDistinct l
  generalize groupAdj l = gs at hsub hadj
  induction gs with
  | nil => exact List.Pairwise.nil
  | cons a t ih =>
    cases t with
    | nil => exact List.Pairwise.cons (by intro x hx; cases hx) List.Pairwise.nil
    | cons b t' =>
      simp only [List.map_cons, List.pairwise_cons] at hsub
      obtain ⟨ha, hb, ht⟩ := hsub
      refine List.Pairwise.cons ?_ (ih (by simp only [List.map_cons, List.pairwise_cons]; exact ⟨hb, ht⟩) hadj.2)
      intro x hx heq
      rcases List.mem_cons.mp hx with hx | hx
      · subst hx; exact hadj.1 heq
      · have h1 : le a.1 b.1 := ha b.1 (by simp)
        have h2 : le b.1 x.1 := hb x.1 (List.mem_map.mpr ⟨x, hx, rfl⟩)
        rw [← heq] at h2
        exact hadj.1 (antisymm _ _ h1 h2)

/-- **C01 at the set level**: for every function name outside `isCounter`'s set, every sample of
    every output series of `dedup.NewSeriesSet` is a sample (timestamp and value) of an input
    series WITH THAT OUTPUT SERIES' LABEL SET (replica labels removed) — no sample crosses from one
    logical series into another, whatever the label sets are -/
theorem C01_set_provenance (f : String) (hf : f ∉ counterFuncs) (rl : List String)
    (series : List (List Lbl × List Sample))
    (hv : ∀ s ∈ series, SSorted s.2 ∧ ∀ x ∈ s.2, minT < x.t) :
    ∀ o ∈ dedupSet true f rl series, ∀ z ∈ drain o.2,
      ∃ s ∈ series, normLbls (rmLabels rl s.1) = o.1 ∧ z ∈ s.2 := by
  intro o ho z hz
  unfold dedupSet at ho
  obtain ⟨g, hg, rfl⟩ := List.mem_map.mp ho
  obtain ⟨hne, hmem⟩ := groupAdj_mem _ g hg
  have hin : ∀ r ∈ g.2, ∃ s ∈ series, normLbls (rmLabels rl s.1) = g.1 ∧ r = s.2 := by
    intro r hr
    have := hmem r hr
    unfold stripAll at this
    obtain ⟨s, hs, hs2⟩ := List.mem_map.mp this
    refine ⟨s, hs, ?_, ?_⟩
    · exact (Prod.mk.inj hs2).1
    · exact (Prod.mk.inj hs2).2.symm
  cases hreps : g.2 with
  | nil => exact absurd hreps hne
  | cons r rs =>
    simp only [hreps, groupIt] at hz
    have hvalid : ValidReplicas r rs := by
      intro q hq
      obtain ⟨s, hs, _, rfl⟩ := hin q (by rw [hreps]; exact hq)
      exact hv s hs
    obtain ⟨q, hq, hzq⟩ := C01_provenance_fn f hf r rs hvalid z hz
    obtain ⟨s, hs, hl, rfl⟩ := hin q (by rw [hreps]; exact hq)
    exact ⟨s, hs, hl, hzq⟩

/-- the hash-colliding label sets of the Prometheus TSDB tests are different label sets: two
    output series -/
example : (dedupSet true "" ["replica"]
    [([("__name__", "metric"), ("lbl1", "value"), ("lbl2", "l6CQ5y"), ("replica", "a")], [⟨10, 1⟩]),
     ([("__name__", "metric"), ("lbl1", "value"), ("lbl2", "l6CQ5y"), ("replica", "b")], [⟨10, 1⟩]),
     ([("__name__", "metric"), ("lbl1", "value"), ("lbl2", "v7uDlF"), ("replica", "a")], [⟨10, 7⟩])]).map
      (fun o => (o.1, drain o.2))
    = [([("__name__", "metric"), ("lbl1", "value"), ("lbl2", "l6CQ5y")], [⟨10, 1⟩]),
       ([("__name__", "metric"), ("lbl1", "value"), ("lbl2", "v7uDlF")], [⟨10, 7⟩])] := by decide

/-- **C01, single replica.** -/
theorem C01_single (fixed counter : Bool) (r : List Sample) : drain (mk fixed counter r []) = r := by
  show drainN leafOps (r.length + 1) (Leaf.init r) = r
  have hdr : ∀ (n : Nat) (l : List Sample),
      drainN leafOps n { rest := l, started := true } = l.tail.take n := by
    intro n
    induction n with
    | zero => intro l; simp [drainN]
    | succ n ih =>
      intro l
      unfold drainN
      simp only [leafOps_next, leafOps_atS, leafNext, if_true, Leaf.cur]
      cases htl : l.tail with
      | nil => simp
      | cons x tl =>
        have := ih (x :: tl)
        simp only [List.tail_cons] at this
        simp [this]
  unfold drainN
  simp only [leafOps_next, leafOps_atS, leafNext, Leaf.init, Leaf.cur, Bool.false_eq_true, if_false, if_true]
  cases r with
  | nil => simp
  | cons x tl =>
    simp only [List.isEmpty_cons, Bool.not_false, if_true, List.head?_cons, List.length_cons,
      hdr (tl.length + 1) (x :: tl), List.tail_cons]
    rw [List.take_of_length_le (by omega)]

/-- **C01, identical replicas.**  `n + 1` identical replicas come out as that replica. -/
theorem C01_identical (n : Nat) (r : List Sample) (hs : SSorted r) (hl : ∀ x ∈ r, minT < x.t) :
    drain (mk true false r (List.replicate n r)) = r := by
  rw [C01_drain r _ (by
    intro q hq
    have : q = r := by
      rcases List.mem_cons.mp hq with h | h
      · exact h
      · exact (List.mem_replicate.mp h).2
    rw [this]; exact hl)]
  exact pmFold_identical n r hs hl

/-- **C01, replicas that only hold samples of the first one** (shorter replicas, replicas with
    holes, and — for C04 — virtual replicas cut out of the same sequence): the first replica
    comes out unchanged. -/
theorem C01_subreplicas (r : List Sample) (rs : List (List Sample)) (hs : SSorted r)
    (hl : ∀ x ∈ r, minT < x.t) (hsub : ∀ q ∈ rs, q.Sublist r) :
    drain (mk true false r rs) = r := by
  rw [C01_drain r rs (by
    intro q hq x hx
    rcases List.mem_cons.mp hq with rfl | hq
    · exact hl x hx
    · exact hl x ((hsub q hq).subset hx))]
  unfold pmFold
  induction rs with
  | nil => rfl
  | cons q rs ih =>
    simp only [List.foldl_cons]
    rw [pm2_sublist hs (hsub q (by simp)) (fun x hx => by have := hl x (List.mem_of_mem_head? hx); omega)]
    exact ih (fun q' hq' => hsub q' (by simp [hq']))

/-- **C01, seek first** holds for the repaired `Seek`: a reader that first seeks to `t` sees
    exactly the samples from `t` on of what a reader iterating from the start sees. -/
theorem C01_seek_first_fixed : C01_seek_first true := by
  intro r rs t h
  have hlow : ∀ q ∈ r :: rs, ∀ x ∈ q, minT < x.t := fun q hq => (h q hq).2
  rw [C01_drain r rs hlow, seekDrain_good (mk_goodL r rs hlow) t]
  exact (filter_ge_eq_dropLt t
    (pmFold_sorted rs r (h r (by simp)).1 (h r (by simp)).2 (fun q hq => (h q (by simp [hq])).2))).symm

/-! ### every script: the deduplicated iterator is a list iterator over the merged series -/

/-- a trace up to and including the first `ValNone` / panic (calls made after the iterator is
    exhausted are outside the `chunkenc.Iterator` contract) -/
def trunc : List Obs → List Obs
  | .sample x :: r => .sample x :: trunc r
  | o :: _ => [o]
  | [] => []

/-- what a script observes on a list iterator positioned on the head of `L` -/
def specP : List Sample → List Call → List Obs
  | _, [] => []
  | L, .next :: cs =>
    match L.tail with
    | [] => [.none]
    | y :: r => .sample y :: specP (y :: r) cs
  | L, .seek t :: cs =>
    match dropLt t L with
    | [] => [.none]
    | y :: r => .sample y :: specP (y :: r) cs

/-- … and on a fresh list iterator over `L` -/
def specF (L : List Sample) : List Call → List Obs
  | [] => []
  | .next :: cs =>
    match L with
    | [] => [.none]
    | y :: r => .sample y :: specP (y :: r) cs
  | .seek t :: cs =>
    match dropLt t L with
    | [] => [.none]
    | y :: r => .sample y :: specP (y :: r) cs

theorem runCalls_specP {σ : Type} {o : Ops σ} {V : σ → Prop} {abs : σ → List Sample}
    (h : ListLike o V abs) : ∀ (cs : List Call) (s : σ), V s → abs s ≠ [] →
      trunc (runCalls o cs s) = specP (abs s) cs := by
  intro cs
  induction cs with
  | nil => intro s _ _; rfl
  | cons c cs ih =>
    intro s hV hne
    have key : ∀ (r : σ × Bool) (L' : List Sample), V r.1 → abs r.1 = L' → r.2 = !L'.isEmpty →
        trunc (if o.bad r.1 then [Obs.panic] else if r.2 then
          (match o.atS r.1 with
            | some x => Obs.sample x :: runCalls o cs r.1
            | none => [Obs.panic]) else Obs.none :: runCalls o cs r.1) =
        (match L' with
          | [] => [Obs.none]
          | y :: q => Obs.sample y :: specP (y :: q) cs) := by
      intro r L' hV' habs hok
      simp only [h.bad _ hV', Bool.false_eq_true, if_false, hok]
      cases hL : L' with
      | nil => simp [trunc]
      | cons y q =>
        have hne' : abs r.1 ≠ [] := by rw [habs, hL]; simp
        simp only [List.isEmpty_cons, Bool.not_false, if_true]
        rw [h.atS _ hV' hne', habs, hL]
        simp only [List.head?_cons, trunc]
        rw [ih _ hV' hne', habs, hL]
    cases c with
    | next =>
      simp only [runCalls, specP]
      exact key (o.next s) _ (h.nextV s hV hne) (h.nextAbs s hV hne) (h.nextOk s hV hne)
    | seek t =>
      simp only [runCalls, specP]
      exact key (o.seek t s) _ (h.seekV s t hV hne) (h.seekAbs s t hV hne) (h.seekOk s t hV hne)

theorem run_specF {i : AnyIt} {L : List Sample} (hg : GoodL i L) (cs : List Call) :
    trunc (i.run cs) = specF L cs := by
  obtain ⟨V, abs, h, hi⟩ := hg
  cases cs with
  | nil => rfl
  | cons c cs =>
    have key : ∀ (r : i.σ × Bool) (L' : List Sample), V r.1 → abs r.1 = L' → r.2 = !L'.isEmpty →
        trunc (if i.ops.bad r.1 then [Obs.panic] else if r.2 then
          (match i.ops.atS r.1 with
            | some x => Obs.sample x :: runCalls i.ops cs r.1
            | none => [Obs.panic]) else Obs.none :: runCalls i.ops cs r.1) =
        (match L' with
          | [] => [Obs.none]
          | y :: q => Obs.sample y :: specP (y :: q) cs) := by
      intro r L' hV' habs hok
      simp only [h.bad _ hV', Bool.false_eq_true, if_false, hok]
      cases hL : L' with
      | nil => simp [trunc]
      | cons y q =>
        have hne' : abs r.1 ≠ [] := by rw [habs, hL]; simp
        simp only [List.isEmpty_cons, Bool.not_false, if_true]
        rw [h.atS _ hV' hne', habs, hL]
        simp only [List.head?_cons, trunc]
        rw [runCalls_specP h cs _ hV' hne', habs, hL]
    cases c with
    | next =>
      simp only [AnyIt.run, runCalls, specF]
      exact key (i.ops.next i.st) _ hi.nextV hi.nextAbs hi.nextOk
    | seek t =>
      simp only [AnyIt.run, runCalls, specF]
      exact key (i.ops.seek t i.st) _ (hi.seekV t) (hi.seekAbs t) (hi.seekOk t)

/-- **C01, any script** (`node_refines_list` at top level).  For every sequence of `Next`/`Seek`
    calls (any targets, also going back) the deduplicated iterator shows, up to its exhaustion,
    exactly what a plain list iterator over the merged series `pmFold r rs` shows: no panic, no
    sample out of order, no sample repeated or lost by a `Seek`. -/
theorem C01_script (r : List Sample) (rs : List (List Sample)) (cs : List Call)
    (h : ∀ q ∈ r :: rs, ∀ x ∈ q, minT < x.t) :
    trunc ((mk true false r rs).run cs) = specF (pmFold r rs) cs :=
  run_specF (mk_goodL r rs h) cs

/-! ### int64 -/

/-- the value fits Go's `int64` -/
def InInt64 (x : Int) : Prop := -9223372036854775808 ≤ x ∧ x ≤ 9223372036854775807

/-- **no_overflow.**  With all timestamps of magnitude below `2^59` every value
    `dedupSeriesIterator.Next` computes from the last emitted timestamp `lastT` (the sentinel
    `math.MinInt64` or an earlier sample's timestamp) and the chosen sample's timestamp `t` —
    the difference, the penalty `2 * (t - lastT)` or `initialPenalty`, and both `Seek` targets
    `t + 1` and `t + 1 + penalty` — fits `int64`, so the `Int` model and the Go code coincide. -/
theorem C01_no_overflow (lastT t : Int)
    (hl : lastT = minT ∨ (-576460752303423488 < lastT ∧ lastT < 576460752303423488))
    (ht : -576460752303423488 < t ∧ t < 576460752303423488) :
    (lastT ≠ minT → InInt64 (t - lastT)) ∧ InInt64 (pen lastT t) ∧ InInt64 (t + 1) ∧
    InInt64 (t + 1 + pen lastT t) ∧ InInt64 (lastT + 1) := by
  rcases hl with rfl | hl
  · have hp : pen minT t = 5000 := by simp [pen, initialPenalty]
    rw [hp]
    unfold InInt64 minT
    refine ⟨fun h => absurd rfl h, ?_, ?_, ?_, ?_⟩ <;> omega
  · have hne : lastT ≠ minT := by simp only [minT]; omega
    have hp : pen lastT t = 2 * (t - lastT) := by simp [pen, hne]
    rw [hp]
    unfold InInt64
    refine ⟨fun _ => ?_, ?_, ?_, ?_, ?_⟩ <;> omega

/-! ### non-vacuity -/

example : ValidReplicas [⟨10000, 1⟩, ⟨20000, 2⟩, ⟨30000, 3⟩] [[⟨5000, 4⟩, ⟨15000, 5⟩, ⟨25000, 6⟩], [⟨7000, 7⟩, ⟨27000, 9⟩]] := by
  intro q hq
  simp at hq
  rcases hq with rfl | rfl | rfl <;> (constructor <;> simp [SSorted, minT])

/-- three replicas: the penalty window drops close samples, the result mixes replicas -/
example : drain (mk true false [⟨10000, 1⟩, ⟨20000, 2⟩, ⟨30000, 3⟩]
    [[⟨5000, 4⟩, ⟨15000, 5⟩, ⟨25000, 6⟩], [⟨7000, 7⟩, ⟨27000, 9⟩]]) = [⟨5000, 4⟩, ⟨15000, 5⟩, ⟨25000, 6⟩] := by
  decide

/-- the repaired `Seek` on the F01 witness -/
example : seekDrain 1 (mk true false [⟨10000, 1⟩, ⟨20000, 2⟩, ⟨30000, 3⟩] [[⟨5000, 4⟩, ⟨15000, 5⟩, ⟨25000, 6⟩]])
    = [⟨5000, 4⟩, ⟨15000, 5⟩, ⟨25000, 6⟩] := by decide

example : seekDrain 15001 (mk true false [⟨10000, 1⟩, ⟨20000, 2⟩, ⟨30000, 3⟩] [[⟨5000, 4⟩, ⟨15000, 5⟩, ⟨25000, 6⟩]])
    = [⟨25000, 6⟩] := by decide

/-! ### regenerated facts: the source still has the shape the model transliterates -/

/-- the repaired `Seek` starts with one `Next` exactly when nothing has been emitted
    (`nodeSeekFixed`); on the pinned tree this fact is "unknown" and the model with
    `fixed = false` is the faithful one -/
theorem C01_fact_seek_guard : Thanos.Facts.dedupSeekGuard = "it.lastT == math.MinInt64" := by decide

theorem C01_fact_seek_calls :
    Thanos.Facts.dedupSeekCalls = ["it.Next", "it.AtT", "it.a.Seek", "it.b.Seek", "it.Next"] := by decide

/-- `initialPenalty`, the seek targets `lastT + 1 + pen`, the penalties `2 * (t - lastT)` and the
    choice `ta <= tb` of `nodeStep` are the ones in the source -/
theorem C01_fact_next_shape :
    Thanos.Facts.dedupInitialPenalty = "5000" ∧
    Thanos.Facts.dedupSeekArgsA = ["it.lastT + 1 + it.penA"] ∧
    Thanos.Facts.dedupSeekArgsB = ["it.lastT + 1 + it.penB"] ∧
    Thanos.Facts.dedupPenA = ["0", "0", "2 * (tb - it.lastT)", "initialPenalty"] ∧
    Thanos.Facts.dedupPenB = ["0", "2 * (ta - it.lastT)", "initialPenalty", "0"] ∧
    Thanos.Facts.dedupUseA = ["false", "true", "ta <= tb"] := by decide

/-- the set of function names `isCounter` accepts is exactly the model's `counterFuncs`: the
    function is one disjunction of equality tests against these four names and nothing else
    (C01's provenance holds for every other name, C02's monotonicity for these) -/
theorem C01_fact_counter_funcs :
    Thanos.Facts.dedupCounterFuncs = counterFuncs ∧
    Thanos.Facts.dedupCounterReturns =
      ["f == \"increase\" || f == \"rate\" || f == \"irate\" || f == \"resets\""] ∧
    Thanos.Facts.dedupNewSeriesCounter = ["f"] := by decide

/-- `dedupSeriesSet.next` decides "replica of the current series" by EQUALITY of the label sets
    (the model's `groupAdj`), of the label set `Next` took from the first series of the group -/
theorem C01_fact_set_grouping :
    Thanos.Facts.dedupSetNextConds = ["!s.ok", "!labels.Equal(s.lset, nextLset)"] ∧
    Thanos.Facts.dedupSetNextLset = "nextLset := s.peek.Labels()" ∧
    Thanos.Facts.dedupSetCurLset = ["s.peek.Labels()"] := by decide

end Thanos.Dedup
