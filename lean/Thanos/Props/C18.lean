import Thanos.Model.Hashring
import Thanos.Lemmas.Hashring
import Thanos.Lemmas.HashringPerm
import Thanos.Props.C19
import Thanos.Generated.Facts
/-
  C18 — Hashring places each series on distinct, deterministic, zone-balanced nodes.

  ketama: the replicas of a section are computed by the loop of `calculateSectionReplicas`
  (model `loop`, both before and after the F19 repair — the theorems below hold for both);
  `GetN(n)` answers the n-th of them for the section found by the series hash.
  hashmod: `s[(hash + n) % len(s)]` on the address-sorted endpoints, the sum being a uint64.
-/
namespace Thanos.Hashring

/-! ### ketama: distinct replicas -/

/-- Whatever the ring, zones, replication factor and starting section: an answer of the replica
    loop consists of exactly `rf` pairwise distinct endpoints of the ring. -/
theorem C18_distinct (lc : Bool) (ring : List Sec) (zones : List Nat) (rf : Nat) (start : List Sec)
    (reps : List Nat) (hsub : ∀ s ∈ start, s ∈ ring)
    (h : replicasFor lc ring zones rf start = .ok reps) :
    reps.Nodup ∧ reps.length = rf ∧ ∀ e ∈ reps, ∃ s ∈ ring, s.ep = e := by
  obtain ⟨a, b, c⟩ := loop_ok lc ring ring.length zones rf _ start 0 [] reps hsub (inv_nil rf) h
  refine ⟨a, b, fun e he => ?_⟩
  rcases c e he with h | h
  · simp at h
  · exact h

theorem search_mem {v : Nat} : ∀ {ring : List (Sec × List Nat)} {s : Sec × List Nat},
    search v ring = some s → s ∈ ring
  | [], _, h => by simp [search] at h
  | x :: xs, s, h => by
    simp only [search] at h
    split at h
    · injection h with h; simp [h]
    · exact List.mem_cons_of_mem _ (search_mem h)

/-- `GetN` on a built ring: for a series hash `v` the answers for `n = 0 … rf-1` are endpoints,
    pairwise distinct, and valid indices of the endpoint list. -/
theorem C18_getN_distinct (eps : List Ep) (rf : Nat) (secs : List (Sec × List Nat)) (v : Nat)
    (hb : build true eps rf = .ring secs) (hne : secs ≠ []) :
    ∃ row : List Nat, row.length = rf ∧ row.Nodup ∧ (∀ e ∈ row, e < eps.length) ∧
      ∀ n, n < rf → ∃ e, row[n]? = some e ∧ getN eps.length secs v n = .node e := by
  rcases C19_build_total eps rf with ⟨h, _⟩ | ⟨h, _⟩ | ⟨secs', h, hle, _, hu⟩
  · rw [hb] at h; cases h
  · rw [hb] at h; cases h
  · rw [hb] at h
    injection h with h
    subst h
    -- the section GetN looks at
    have key : ∀ s ∈ secs, (∀ n, n < rf → getN eps.length secs v n = (match s.2[n]? with | some e => .node e | none => .panic)) →
        ∃ row : List Nat, row.length = rf ∧ row.Nodup ∧ (∀ e ∈ row, e < eps.length) ∧
          ∀ n, n < rf → ∃ e, row[n]? = some e ∧ getN eps.length secs v n = .node e := by
      intro s hs hget
      obtain ⟨h1, h2, h3⟩ := hu s hs
      refine ⟨s.2, h1, h2, h3, fun n hn => ?_⟩
      have hn' : n < s.2.length := by omega
      refine ⟨s.2[n], by simp [hn'], ?_⟩
      rw [hget n hn]
      simp [hn']
    cases hs : search v secs with
    | some s =>
      apply key s (search_mem hs)
      intro n hn
      have : ¬ eps.length ≤ n := by omega
      simp only [getN, this, if_false, hs]
      cases s.2[n]? <;> rfl
    | none =>
      cases secs with
      | nil => exact absurd rfl hne
      | cons a r =>
        apply key a (by simp)
        intro n hn
        have : ¬ eps.length ≤ n := by omega
        simp only [getN, this, if_false, hs, List.head?_cons]
        cases a.2[n]? <;> rfl

/-! ### ketama: zone balance -/

/-- With at least two configured zones, the chosen replicas are sections of the ring such that
    after every prefix the replica counts of any two configured zones differ by at most one. -/
theorem C18_balance (lc : Bool) (ring : List Sec) (zones : List Nat) (rf : Nat) (start : List Sec)
    (reps : List Nat) (hz : zones.length > 1) (hsub : ∀ s ∈ start, s ∈ ring)
    (h : replicasFor lc ring zones rf start = .ok reps) :
    ∃ chosen : List Sec, reps = chosen.map (·.ep) ∧ (∀ s ∈ chosen, s ∈ ring) ∧
      ∀ k, ∀ z ∈ zones, ∀ z' ∈ zones, cnt z (chosen.take k) ≤ cnt z' (chosen.take k) + 1 := by
  obtain ⟨final, r1, r2, _, r4⟩ :=
    loop_balanced lc ring ring.length zones rf hz _ start 0 [] reps hsub (allBal_nil zones) h
  refine ⟨final, r1, fun s hs => ?_, fun k z hzm z' hzm' => ?_⟩
  · rcases r4 s hs with h | h
    · simp at h
    · exact h
  · have := r2 k z hzm
    have := least_le_of_mem (final.take k) hzm'
    omega

/-- **C18, "whenever the zones can accommodate that".**  If the endpoints-per-zone counts of the
    configuration can take `rf` balanced replicas (`canBalance`, arithmetic on the zone sizes
    only), the ring is built — and by `C18_balance` every row of it is zone balanced; if they
    cannot, construction reports the zone error (`C19_build_stuck_iff`). -/
theorem C18_built_whenever_balanceable (eps : List Ep) (rf : Nat) (hh : ∀ e ∈ eps, e.hashes ≠ [])
    (hb : rf < 2 ^ 63 - 1) (hle : rf ≤ eps.length) (hcan : canBalance (zoneSizesOf eps) rf = true) :
    ∃ secs, build true eps rf = .ring secs ∧ Usable eps.length rf secs := by
  obtain ⟨secs, hs⟩ := (C19_build_stuck_iff eps rf hh hb).2.mpr ⟨hle, hcan⟩
  rcases C19_build_total eps rf with ⟨h, _⟩ | ⟨h, _⟩ | ⟨secs', h, _, _, hu⟩
  · rw [hs] at h; cases h
  · rw [hs] at h; cases h
  · rw [hs] at h; injection h with h; subst h
    exact ⟨secs, hs, hu⟩

/-! ### ketama: the n-th replica does not depend on the replication factor -/

/-- The replicas for a smaller replication factor are the corresponding prefix: which node is
    the n-th replica of a series does not depend on `rf` (so `GetN(n)`, `n < rf`, is well defined,
    and lowering or raising the replication factor never reshuffles the earlier replicas). -/
theorem C18_prefix_stable (ring : List Sec) (zones : List Nat) (rf rf' : Nat) (start : List Sec) (reps : List Nat)
    (hle : rf' ≤ rf) (h : replicasFor true ring zones rf start = .ok reps) :
    replicasFor true ring zones rf' start = .ok (reps.take rf') := by
  unfold replicasFor at h ⊢
  have hp := loop_prefix true ring ring.length zones rf rf' hle _ start 0 [] reps (by simp) h
  -- the smaller loop needs less fuel; more fuel does not change its answer
  have hk : fuelBound ring.length rf = fuelBound ring.length rf' + (fuelBound ring.length rf - fuelBound ring.length rf') := by
    have : fuelBound ring.length rf' ≤ fuelBound ring.length rf := by
      simp only [fuelBound]
      exact Nat.add_le_add_right (Nat.mul_le_mul_right _ (by omega)) 1
    omega
  have hne := replicasFor_repaired_ne_fuelOut ring zones rf' start
  unfold replicasFor at hne
  have hm := loop_fuel_mono true ring ring.length zones rf' (fuelBound ring.length rf') start 0 []
    (fuelBound ring.length rf - fuelBound ring.length rf') hne
  rw [← hk] at hm
  rw [← hm, hp]

/-! ### ketama: the order of the endpoint list does not matter -/

theorem mem_permute (eps : List Ep) (perm : List Nat) (h : IsPermOf perm eps.length) (e : Ep) :
    e ∈ permute eps perm ↔ e ∈ eps := by
  rw [List.mem_iff_getElem?, List.mem_iff_getElem?]
  constructor
  · rintro ⟨j, hj⟩
    rw [permute_getElem? eps perm h] at hj
    cases hp : perm[j]? with
    | none => simp [hp] at hj
    | some i => exact ⟨i, by simpa [hp] using hj⟩
  · rintro ⟨i, hi⟩
    have hlt : i < eps.length := by
      rcases Nat.lt_or_ge i eps.length with h' | h'
      · exact h'
      · rw [List.getElem?_eq_none h'] at hi; cases hi
    have hin : i ∈ perm := h.mem_iff.mpr (List.mem_range.mpr hlt)
    obtain ⟨j, hj, hje⟩ := List.getElem_of_mem hin
    exact ⟨j, by rw [permute_getElem? eps perm h]; simp [List.getElem?_eq_getElem hj, hje, hi]⟩

theorem zonesOf_permute (eps : List Ep) (perm : List Nat) (h : IsPermOf perm eps.length) :
    (zonesOf eps).Perm (zonesOf (permute eps perm)) := by
  apply (List.perm_ext_iff_of_nodup (nodup_dedup _) (nodup_dedup _)).mpr
  intro z
  simp only [zonesOf, mem_dedup, List.mem_map]
  constructor
  · rintro ⟨e, he, rfl⟩; exact ⟨e, (mem_permute eps perm h e).mpr he, rfl⟩
  · rintro ⟨e, he, rfl⟩; exact ⟨e, (mem_permute eps perm h e).mp he, rfl⟩

/-- **C18, order independence (ketama).**  Reordering the endpoint list (any permutation, no two
    sections with the same hash) gives the same ring: the construction of the original list is
    the construction of the reordered list with every endpoint position translated back
    (`permFun perm`: new position ↦ old position) — same sections, same replicas, same errors. -/
theorem C18_ketama_perm (eps : List Ep) (perm : List Nat) (h : IsPermOf perm eps.length) (hnt : NoTies eps) (rf : Nat) :
    build true eps rf = (build true (permute eps perm) rf).map (permFun perm) := by
  unfold build
  rw [length_permute eps perm h]
  by_cases hlt : eps.length < rf
  · simp [hlt, Build.map]
  · simp only [hlt, if_false]
    have hring := mkRing_permute eps perm h hnt
    have hinj := injOn_permFun eps perm h
    rw [← hring, table_zones_perm true _ (zonesOf_permute eps perm h)]
    exact table_ren true (permFun perm) (mkRing (permute eps perm)) _ rf hinj _ (fun _ hs => hs)

/-- … hence `GetN` answers the same endpoint for every series and replica number. -/
theorem C18_ketama_perm_getN (eps : List Ep) (perm : List Nat) (h : IsPermOf perm eps.length) (hnt : NoTies eps)
    (rf : Nat) (secs' : List (Sec × List Nat)) (hb : build true (permute eps perm) rf = .ring secs') :
    ∃ secs, build true eps rf = .ring secs ∧
      ∀ v n, getN eps.length secs v n = (getN (permute eps perm).length secs' v n).map (permFun perm) := by
  have := C18_ketama_perm eps perm h hnt rf
  rw [hb] at this
  refine ⟨_, this, fun v n => ?_⟩
  rw [length_permute eps perm h]
  exact getN_ren (permFun perm) eps.length secs' v n

/-! ### hashmod -/

/-- C18 (distinctness) for hashmod at full strength: for every 64-bit series hash the nodes for
    two different replica numbers below the ring size are different. -/
def C18_hashmod_distinct_full : Prop :=
  ∀ (len v n n' : Nat), v < 2 ^ 64 → n < len → n' < len → n ≠ n' →
    simpleGetN len v n ≠ simpleGetN len v n'

/-- It is false: `hash + n` is a uint64 sum and wraps.  For a series whose hash is 2^64-1 on a
    ring of 3 nodes, replica 0 and replica 1 are the same node (2^64-1 ≡ 0 and 0 ≡ 0 mod 3).
    (Not reproducible on the real code without an xxhash preimage ≥ 2^64 - rf: the probability
    per series is about rf·2^-64; recorded as a model-level finding only.) -/
theorem C18_hashmod_distinct_full_false : ¬ C18_hashmod_distinct_full := by
  intro h
  exact h 3 (2 ^ 64 - 1) 0 1 (by decide) (by decide) (by decide) (by decide) (by decide)

/-- Away from the wrap-around the replicas are distinct, for every ring size. -/
theorem C18_hashmod_distinct_partial (len v n n' : Nat) (hn : n < len) (hn' : n' < len) (hne : n ≠ n')
    (hv : v + len ≤ 2 ^ 64) : simpleGetN len v n ≠ simpleGetN len v n' := by
  have a : ¬ len ≤ n := by omega
  have b : ¬ len ≤ n' := by omega
  have e1 : (v + n) % 2 ^ 64 = v + n := Nat.mod_eq_of_lt (by omega)
  have e2 : (v + n') % 2 ^ 64 = v + n' := Nat.mod_eq_of_lt (by omega)
  simp only [simpleGetN, a, b, if_false, ne_eq, Get.node.injEq, e1, e2]
  intro h
  -- equal residues: `len` divides the difference, which is positive and smaller than `len`
  rcases Nat.lt_or_gt_of_ne hne with hlt | hlt
  · have h0 := Nat.sub_mod_eq_zero_of_mod_eq h.symm
    have h1 : v + n' - (v + n) = n' - n := by omega
    rw [h1, Nat.mod_eq_of_lt (by omega)] at h0
    omega
  · have h0 := Nat.sub_mod_eq_zero_of_mod_eq h
    have h1 : v + n - (v + n') = n - n' := by omega
    rw [h1, Nat.mod_eq_of_lt (by omega)] at h0
    omega

theorem lexLe_total : ∀ a b : List Nat, lexLe a b = true ∨ lexLe b a = true
  | [], _ => by simp [lexLe]
  | _ :: _, [] => by simp [lexLe]
  | a :: as, b :: bs => by
    simp only [lexLe]
    by_cases h1 : a < b
    · simp [h1]
    · by_cases h2 : b < a
      · simp [h2]
      · simp only [h1, h2, if_false]; exact lexLe_total as bs

theorem lexLe_antisymm : ∀ a b : List Nat, lexLe a b = true → lexLe b a = true → a = b
  | [], [], _, _ => rfl
  | [], _ :: _, _, h => by simp [lexLe] at h
  | _ :: _, [], h, _ => by simp [lexLe] at h
  | a :: as, b :: bs, h1, h2 => by
    simp only [lexLe] at h1 h2
    by_cases c1 : a < b
    · have : ¬ b < a := by omega
      simp [c1, this] at h2
    · by_cases c2 : b < a
      · simp [c1, c2] at h1
      · simp only [c1, c2, if_false] at h1 h2
        have : a = b := by omega
        rw [this, lexLe_antisymm as bs h1 h2]

theorem lexLe_trans : ∀ a b c : List Nat, lexLe a b = true → lexLe b c = true → lexLe a c = true
  | [], _, _, _, _ => by simp [lexLe]
  | _ :: _, [], _, h, _ => by simp [lexLe] at h
  | _ :: _, _ :: _, [], _, h => by simp [lexLe] at h
  | a :: as, b :: bs, c :: cs, h1, h2 => by
    simp only [lexLe] at h1 h2 ⊢
    by_cases ab : a < b
    · by_cases bc : b < c
      · have : a < c := by omega
        simp [this]
      · by_cases cb : c < b
        · simp [bc, cb] at h2
        · have : a < c := by omega
          simp [this]
    · by_cases ba : b < a
      · simp [ab, ba] at h1
      · simp only [ab, ba, if_false] at h1
        have hab : a = b := by omega
        subst hab
        by_cases bc : a < c
        · simp [bc]
        · by_cases cb : c < a
          · simp [bc, cb] at h2
          · simp only [bc, cb, if_false] at h2 ⊢
            exact lexLe_trans as bs cs h1 h2

/-- hashmod does not depend on the order in which the endpoints are configured: the sorted ring
    of a permutation of the addresses is the same ring (duplicates included). -/
theorem C18_hashmod_perm (addrs addrs' : List (List Nat)) (h : addrs.Perm addrs') :
    simpleRing addrs = simpleRing addrs' := by
  unfold simpleRing
  have p1 := List.pairwise_mergeSort (le := lexLe) (fun a b c => lexLe_trans a b c)
    (fun a b => by simpa using lexLe_total a b) addrs
  have p2 := List.pairwise_mergeSort (le := lexLe) (fun a b c => lexLe_trans a b c)
    (fun a b => by simpa using lexLe_total a b) addrs'
  have hp : (addrs.mergeSort lexLe).Perm (addrs'.mergeSort lexLe) :=
    ((List.mergeSort_perm addrs lexLe).trans h).trans (List.mergeSort_perm addrs' lexLe).symm
  exact List.Perm.eq_of_pairwise (le := fun a b => lexLe a b = true)
    (fun a b _ _ h1 h2 => lexLe_antisymm a b h1 h2) p1 p2 hp

theorem C18_hashmod_perm_get (addrs addrs' : List (List Nat)) (h : addrs.Perm addrs') (v n : Nat) :
    simpleGet addrs v n = simpleGet addrs' v n := by
  unfold simpleGet
  rw [C18_hashmod_perm addrs addrs' h, h.length_eq]

/-! ### regenerated facts -/

/-- the zone rule of the replica loop is the one `skipAZ` transliterates -/
theorem C18_fact_skip_rule :
    Thanos.Facts.ketamaSkipAZ = "len(azSpread) > 1 && azSpread[rep.az] > 0 && azSpread[rep.az] > sizeOfLeastOccupiedAZ(azSpread)" := by
  decide

/-- `GetN` searches the first section whose hash is `≥ v` and answers `replicas[n]` of it -/
theorem C18_fact_getn :
    Thanos.Facts.ketamaGetN = ["c.sections[i].hash >= v", "i == numSections", "c.sections[i].replicas[n]"] := by decide

/-- hashmod's index expression -/
theorem C18_fact_hashmod :
    Thanos.Facts.simpleGetNIndex = "(labelpb.HashWithPrefix(tenant, ts.Labels) + n) % uint64(len(s))" := by decide

-- non-vacuity
example : IsPermOf [2, 0, 1] 3 := by unfold IsPermOf; decide
example : NoTies [⟨0, [10, 40]⟩, ⟨1, [20]⟩, ⟨1, [30]⟩] := by unfold NoTies; decide
example : permute [(⟨0, [10, 40]⟩ : Ep), ⟨1, [20]⟩, ⟨1, [30]⟩] [2, 0, 1] = [⟨1, [30]⟩, ⟨0, [10, 40]⟩, ⟨1, [20]⟩] := by decide
example : replicasFor true [⟨5, 2, 1⟩, ⟨10, 0, 0⟩, ⟨20, 1, 1⟩, ⟨30, 2, 1⟩, ⟨40, 3, 0⟩] [0, 1] 3 [⟨20, 1, 1⟩, ⟨30, 2, 1⟩, ⟨40, 3, 0⟩]
    = .ok [1, 3, 2] := by decide
example : simpleGetN 3 (2 ^ 64 - 1) 0 = simpleGetN 3 (2 ^ 64 - 1) 1 := by decide
example : simpleGetN 3 17 0 = .node 2 ∧ simpleGetN 3 17 1 = .node 0 ∧ simpleGetN 3 17 2 = .node 1 := by decide
example : simpleRing [[98], [97, 98], [97]] = [[97], [97, 98], [98]] := by
  simp [simpleRing, List.mergeSort, List.MergeSort.Internal.splitInTwo, lexLe]

end Thanos.Hashring
