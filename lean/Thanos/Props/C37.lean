import Thanos.Lemmas.DownsampleCounter
import Thanos.Generated.Facts
/-
  C37 — Downsampled counters preserve the raw counter's increase.
  Model: Model/Downsample.lean (`Agg.add`'s counter, the first/last raw value encoding in
  `floatBatch` / `floatAggrBatch`, `CR.step` / `crChunk` / `crChunks` / `applyResets` =
  ApplyCounterResetsSeriesIterator drained with Next).
-/
namespace Thanos.Downsample

/-- Inside a counter chunk (after its first sample): the aggregated counter samples have strictly
    increasing timestamps and non-decreasing values, so the reader returns each of them with the
    running total advanced by exactly its increase and sees no reset. -/
theorem C37_monotone_stretch (mid : List Pt) (s : CR) (hs : 0 < s.total)
    (ht : (mid.map (·.1)).Pairwise (· < ·)) (hb : ∀ p ∈ mid, s.lastT < p.1)
    (hv : (mid.map (·.2)).Pairwise (· ≤ ·)) (hl : ∀ p ∈ mid, s.lastV ≤ p.2) :
    (crChunk mid s []).1 = mid.map (fun p => (p.1, s.totalV + (p.2 - s.lastV))) :=
  (crChunk_mono mid s hs ht hb hv hl).1

/-- Reading raw samples: every sample comes back with the reset-adjusted running total. -/
theorem C37_raw_stretch (l : List Pt) (s : CR) (hs : 0 < s.total)
    (ht : (l.map (·.1)).Pairwise (· < ·)) (hb : ∀ p ∈ l, s.lastT < p.1) :
    (crChunk l s []).1 = adjScan s.totalV s.lastV l :=
  (crChunk_raw l s hs ht hb).1

/-- the counter aggregate of the k-th window of a batch is the reset-adjusted counter over all
    samples of the batch up to that window -/
theorem C37_window_counter (hist cur : List Int) (h : hist ++ cur ≠ []) :
    (snap hist cur).counter = adjusted (hist ++ cur) := snap_counter hist cur h

/-- Regenerated obligations: reset detection in the aggregator and in the reader, and the
    `Seek(lastT + 1)` at a chunk switch. -/
theorem C37_source_facts :
    Thanos.Facts.dsAggregatorAddConds = ["a.total > 0", "s.v < a.last", "s.v < a.min", "s.v > a.max"] ∧
    Thanos.Facts.dsCounterNextConds = ["it.i >= len(it.chks)", "it.lastValType == chunkenc.ValNone",
      "it.lastValType != chunkenc.ValFloat", "math.IsNaN(v)", "it.total == 0", "t > it.lastT", "v >= it.lastV",
      "t == it.lastT"] ∧
    Thanos.Facts.dsCounterNextSeek = ["it.Seek(it.lastT + 1)"] := by
  decide

-- non-vacuity: TestDownsampleCounterBoundaryReset
example : (applyResets [[(10, 1), (30, 5), (30, 5)], [(50, 1), (70, 10), (70, 10)], [(120, 1), (140, 20), (140, 20)]]).1 =
    [(10, 1), (30, 5), (50, 6), (70, 15), (120, 16), (140, 35)] := by decide
example : adjusted [1, 3, 5, 1, 8, 10, 1, 18, 20] = 35 := by decide

end Thanos.Downsample
