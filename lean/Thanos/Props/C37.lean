import Thanos.Lemmas.DownsampleCounter
import Thanos.Lemmas.DownsampleCounterL1
import Thanos.Lemmas.DownsampleCounterL2
import Thanos.Props.C38
import Thanos.Props.C36
import Thanos.Generated.Facts
/-
  C37 — Downsampled counters preserve the raw counter's increase.
  Model: Model/Downsample.lean (`Agg.add`'s counter, the first/last raw value encoding in
  `floatBatch` / `floatAggrBatch`, `CR.step` / `crChunk` / `crChunks` / `applyResets` =
  ApplyCounterResetsSeriesIterator drained with Next).
-/
namespace Thanos.Downsample

/-- Inside a counter chunk (after its first sample): the aggregated counter samples have strictly
    increasing timestamps and non-decreasing values, so the reader returns each of them with the
    running total advanced by exactly its increase and sees no reset. -/
theorem C37_monotone_stretch (mid : List Pt) (s : CR) (hs : 0 < s.total)
    (ht : (mid.map (·.1)).Pairwise (· < ·)) (hb : ∀ p ∈ mid, s.lastT < p.1)
    (hv : (mid.map (·.2)).Pairwise (· ≤ ·)) (hl : ∀ p ∈ mid, s.lastV ≤ p.2) :
    (crChunk mid s []).1 = mid.map (fun p => (p.1, s.totalV + (p.2 - s.lastV))) :=
  (crChunk_mono mid s hs ht hb hv hl).1

/-- Reading raw samples: every sample comes back with the reset-adjusted running total. -/
theorem C37_raw_stretch (l : List Pt) (s : CR) (hs : 0 < s.total)
    (ht : (l.map (·.1)).Pairwise (· < ·)) (hb : ∀ p ∈ l, s.lastT < p.1) :
    (crChunk l s []).1 = adjScan s.totalV s.lastV l :=
  (crChunk_raw l s hs ht hb).1

/-- the counter aggregate of the k-th window of a batch is the reset-adjusted counter over all
    samples of the batch up to that window -/
theorem C37_window_counter (hist cur : List Int) (h : hist ++ cur ≠ []) :
    (snap hist cur).counter = adjusted (hist ++ cur) := snap_counter hist cur h

/-! ### level 1: raw → DownsampleRaw → read back -/

/-- the segments (batch, emission timestamps) behind the chunks of DownsampleRaw -/
def segsOf (r : Int) (nc : Nat) (data : List Raw) : List (List Pt × List Int) :=
  (batchesOf r nc data).map fun b => (b, batchTs r b (lastT b))

theorem map_of_map_some {α β γ : Type} (f : α → Option β) (proj : β → γ) (G : α → γ) :
    ∀ (bs : List α) (chunks : List β), chunks.map some = bs.map f →
      (∀ b ∈ bs, ∀ c, f b = some c → proj c = G b) → chunks.map proj = bs.map G
  | [], [], _, _ => rfl
  | [], _ :: _, h, _ => by simp at h
  | _ :: _, [], h, _ => by simp at h
  | b :: bs, c :: cs, h, hp => by
    simp only [List.map_cons, List.cons.injEq] at h
    simp only [List.map_cons]
    rw [hp b (by simp) c h.1.symm, map_of_map_some f proj G bs cs h.2 (fun b' hb' => hp b' (List.mem_cons_of_mem _ hb'))]

/-- every raw sample of a batch is covered by one of the batch's emission timestamps, inside the
    sample's own window -/
theorem level1_cover (r : Int) (hr : 0 < r) (b : List Pt) (t0 v0 lt lv : Int) (hh : b.head? = some (t0, v0))
    (hl : b.getLast? = some (lt, lv)) (hs : Sorted b) :
    ∀ u ∈ b, ∃ e ∈ segTs b (batchTs r b lt), u.1 ≤ e ∧ e ≤ currentWindow u.1 r := by
  intro u hu
  have hle : u.1 ≤ lt := by
    obtain ⟨ys, hys⟩ := List.getLast?_eq_some_iff.mp hl
    rw [hys] at hu hs
    rcases List.mem_append.mp hu with h | h
    · exact Int.le_of_lt ((List.pairwise_append.mp hs).2.2 u h (lt, lv) (by simp))
    · simp at h; rw [h]; exact Int.le_refl _
  have ht0 : t0 ≤ u.1 := by
    cases b with
    | nil => simp at hh
    | cons x xs =>
      simp only [List.head?_cons, Option.some.injEq] at hh
      rcases List.mem_cons.mp hu with h | h
      · rw [h, hh]; exact Int.le_refl _
      · have := (List.pairwise_cons.mp hs).1 u h; rw [hh] at this; exact Int.le_of_lt this
  have : u ∈ (runs r b).flatMap (·.2) := by rw [runs_flatten]; exact hu
  obtain ⟨g, hg, hug⟩ := List.mem_flatMap.mp this
  have hw := runs_window r b g hg u hug
  have hcw := currentWindow_ge (t := u.1) hr
  have hmem : min g.1 lt ∈ batchTs r b lt := List.mem_map.mpr ⟨g, hg, rfl⟩
  have hge : u.1 ≤ min g.1 lt := by simp only [Int.min_def]; split <;> omega
  refine ⟨min g.1 lt, ?_, hge, by rw [hw]; simp only [Int.min_def]; split <;> omega⟩
  simp only [segTs, firstT, hh, List.mem_cons]
  by_cases he : min g.1 lt = t0
  · exact Or.inl he
  · exact Or.inr (List.mem_filter.mpr ⟨hmem, by simp; omega⟩)

/-- the level-1 chunks as counter chunks of the batches -/
theorem C37_level1_segs (r : Int) (hr : 0 < r) (data : List Raw) (nc : Nat) (hnc : 0 < nc) (ok : RawOK data)
    (hv : ∀ p ∈ dropNaN data, 0 ≤ p.2) :
    ∃ chunks, downsampleRaw data r nc = some chunks ∧
      chunks.map (·.counter) = (segsOf r nc data).map (fun sg => ctrChunk sg.1 sg.2) ∧
      SegsOK r (segsOf r nc data) ∧ (segsOf r nc data).flatMap (·.1) = dropNaN data := by
  obtain ⟨chunks, hc, hflat, hne, _, hmap⟩ := downsampleRaw_batches r hr data nc hnc ok.sorted
  have hbf := batch_facts (r := r) (nc := nc) ok.toIn hflat hne
  have hshape := chunk_shape hr (nc := nc) ok.toIn hflat hne
  -- counter sub-chunks = ctrChunk of the segments
  have hctr : chunks.map (·.counter) = (segsOf r nc data).map (fun sg => ctrChunk sg.1 sg.2) := by
    simp only [segsOf, List.map_map, Function.comp_def]
    refine map_of_map_some (fun b => floatBatch b r) (·.counter) _ _ _ hmap ?_
    intro b hb c hfc
    obtain ⟨hs, h0, _, _, _, _, lt, lv, _, hl, hlt⟩ := hbf b hb
    rw [hlt]
    exact (floatBatch_counter r hr b lt lv hl h0 hs c hfc).1
  -- every segment is well-formed
  have hseg : ∀ sg ∈ segsOf r nc data, SegOK sg.1 sg.2 := by
    intro sg hsg
    simp only [segsOf, List.mem_map] at hsg
    obtain ⟨b, hb, rfl⟩ := hsg
    obtain ⟨hs, h0, _, _, t0, v0, lt, lv, hh, hl, hlt⟩ := hbf b hb
    obtain ⟨c, hfc⟩ := floatBatch_isSome r b (hne b hb)
    obtain ⟨ts, t0', v0', hh', p1, _, _, _, p5, p6, p7, p8, _⟩ := hshape b hb c hfc
    have hT : batchTs r b (lastT b) = ts := by
      rw [hlt, ← (floatBatch_counter r hr b lt lv hl h0 hs c hfc).2, p1]
    simp only
    rw [hT]
    refine ⟨hs, hne b hb, fun p hp => hv p (hflat ▸ List.mem_flatten.mpr ⟨b, hb, hp⟩), ?_, p5, ?_, ?_⟩
    · intro hc'; rw [hc'] at p8; simp at p8
    · intro t ht f hf
      rw [hh'] at hf
      simp only [Option.some.injEq] at hf
      rw [← hf]; exact (p6 t ht).1
    · intro l hl'
      rw [hl] at hl'
      simp only [Option.some.injEq] at hl'
      rw [← hl', ← hlt]; exact p7
  have hflat' : (segsOf r nc data).flatMap (·.1) = dropNaN data := by
    rw [← hflat]
    simp only [segsOf, List.flatMap_def, List.map_map, Function.comp_def, List.map_id']
    rfl
  refine ⟨chunks, hc, hctr, ⟨hseg, hflat' ▸ sorted_dropNaN ok.sorted, ?_, ?_, ?_⟩, hflat'⟩
  · rw [hflat']; exact nonneg_dropNaN ok.nonneg
  · rw [hflat']; exact hv
  · intro sg hsg
    simp only [segsOf, List.mem_map] at hsg
    obtain ⟨b, hb, rfl⟩ := hsg
    obtain ⟨hs, h0, _, _, t0, v0, lt, lv, hh, hl, hlt⟩ := hbf b hb
    simp only
    rw [hlt]
    exact level1_cover r hr b t0 v0 lt lv hh hl hs

/-- **C37, level 1.**  Reading the counter aggregate of the chunks DownsampleRaw produces (the
    querier's `NewApplyCounterResetsIterator` over the counter sub-chunks) returns, per batch, the
    batch's first raw timestamp and then its later window timestamps, each with the raw counter
    adjusted for all resets up to the last raw sample at or before that timestamp (`adjAt` over the
    non-NaN raw series) — resets inside windows, at window ends and between chunks included. -/
theorem C37_level1 (r : Int) (hr : 0 < r) (data : List Raw) (nc : Nat) (hnc : 0 < nc) (ok : RawOK data)
    (hv : ∀ p ∈ dropNaN data, 0 ≤ p.2) :
    ∃ chunks, downsampleRaw data r nc = some chunks ∧
      (applyResets (chunks.map (·.counter))).1 =
        (segsOf r nc data).flatMap (fun sg => (segTs sg.1 sg.2).map fun t => (t, adjAt (dropNaN data) t)) := by
  obtain ⟨chunks, hc, hctr, hok, hflat'⟩ := C37_level1_segs r hr data nc hnc ok hv
  have hsorted : Sorted ([] ++ (segsOf r nc data).flatMap (·.1)) := by
    rw [List.nil_append]; exact hok.sorted
  obtain ⟨hread, _⟩ := crChunks_segs (segsOf r nc data) [] {} [] hok.segok hsorted (by simp [StateAfter])
  refine ⟨chunks, hc, ?_⟩
  have happly : (applyResets (chunks.map (·.counter))).1 = (crChunks (chunks.map (·.counter)) {} []).1 := by
    simp only [applyResets]
  rw [happly, hctr, hread, readSegs_global _ [] hsorted hok.segok]
  simp only [List.nil_append, hflat']

/-- every sample the reader returns for level-1 data carries the reset-adjusted raw counter at its timestamp -/
theorem C37_level1_pointwise (r : Int) (hr : 0 < r) (data : List Raw) (nc : Nat) (hnc : 0 < nc) (ok : RawOK data)
    (hv : ∀ p ∈ dropNaN data, 0 ≤ p.2) :
    ∃ chunks, downsampleRaw data r nc = some chunks ∧
      ∀ p ∈ (applyResets (chunks.map (·.counter))).1, p.2 = adjAt (dropNaN data) p.1 := by
  obtain ⟨chunks, hc, h⟩ := C37_level1 r hr data nc hnc ok hv
  refine ⟨chunks, hc, ?_⟩
  intro p hp
  rw [h] at hp
  obtain ⟨sg, _, hp⟩ := List.mem_flatMap.mp hp
  obtain ⟨t, _, rfl⟩ := List.mem_map.mp hp
  rfl

/-! ### level 2: raw → DownsampleRaw → downsampleAggrLoop → read back -/

/-- **C37, level 2.**  Raw counter series → DownsampleRaw at resolution `r1` → downsampleAggrLoop
    at a multiple `k * r1` (5m → 1h is `k = 12`), for all chunk counts at both levels: the second
    level is produced, and every sample the reader returns for its counter aggregate carries the
    raw counter adjusted for all resets up to the last raw sample at or before its timestamp; the
    read-back consists, per level-2 chunk, of the chunk's first raw timestamp followed by its
    later window timestamps (`segs2`), whose raw samples partition the series. -/
theorem C37_level2 (r1 k : Int) (hr1 : 0 < r1) (hk : 0 < k) (data : List Raw) (nc1 nc2 : Nat)
    (hn1 : 0 < nc1) (hn2 : 0 < nc2) (ok : RawOK data) (hv : ∀ p ∈ dropNaN data, 0 ≤ p.2) :
    ∃ (l1 l2 : List Chunk) (segs2 : List (List Pt × List Int)), downsampleRaw data r1 nc1 = some l1 ∧ downsampleAggrLoop true l1 (k * r1) nc2 = .ok l2 ∧
      segs2.flatMap (·.1) = dropNaN data ∧
      (applyResets (l2.map (·.counter))).1 =
        segs2.flatMap (fun sg => (segTs sg.1 sg.2).map fun t => (t, adjAt (dropNaN data) t)) ∧
      ∀ p ∈ (applyResets (l2.map (·.counter))).1, p.2 = adjAt (dropNaN data) p.1 := by
  obtain ⟨l1, e1, hctr, hok, hflat⟩ := C37_level1_segs r1 hr1 data nc1 hn1 ok hv
  obtain ⟨l1', e1', hwf⟩ := C36_wellformed r1 hr1 data nc1 hn1 ok
  rw [e1] at e1'; cases e1'
  obtain ⟨l2, e2, _⟩ := C38_conserves (k * r1) (Int.mul_pos hk hr1) l1 nc2 hn2 hwf
  have hnc : nc2 ≠ 0 := by omega
  have e2' : aggrLoop (k * r1) (aggrBatchSize true l1.length nc2) l1.length l1 = .ok l2 := by
    simpa [downsampleAggrLoop, hnc] using e2
  obtain ⟨segs2, hc2, hseg2, hflat2⟩ := aggrLoop_counter r1 k hr1 hk _ (by simp [aggrBatchSize]; omega) _ l1 _ l2 hctr hok e2'
  have hsorted : Sorted ([] ++ segs2.flatMap (·.1)) := by
    rw [List.nil_append, hflat2]; exact hok.sorted
  obtain ⟨hread, _⟩ := crChunks_segs segs2 [] {} [] hseg2 hsorted (by simp [StateAfter])
  have hlist : (applyResets (l2.map (·.counter))).1 =
      segs2.flatMap (fun sg => (segTs sg.1 sg.2).map fun t => (t, adjAt (dropNaN data) t)) := by
    have happly : (applyResets (l2.map (·.counter))).1 = (crChunks (l2.map (·.counter)) {} []).1 := by
      simp only [applyResets]
    rw [happly, hc2, hread, readSegs_global _ [] hsorted hseg2]
    simp only [List.nil_append, hflat2, hflat]
  refine ⟨l1, l2, segs2, e1, e2, by rw [hflat2, hflat], hlist, ?_⟩
  intro p hp
  rw [hlist] at hp
  obtain ⟨sg, _, hp⟩ := List.mem_flatMap.mp hp
  obtain ⟨t, _, rfl⟩ := List.mem_map.mp hp
  rfl

/-! ### the two hypotheses of C37 are needed (both witnesses were run on the real code:
      corpus/C37/outside-domain.ops) -/

/-- values ≥ 0 is needed: with a negative value the aggregator's adjusted counter goes down
    (5, then −3 booked as a reset: 5 + (−3) = 2), the reader takes that decrease inside the chunk
    for another reset and returns 5 + 2 = 7 at t = 60, not the adjusted raw value 2. -/
theorem C37_nonneg_needed :
    (match downsampleRaw [(1, some 5), (60, some (-3))] 50 1 with
      | some l1 => (applyResets (l1.map (·.counter))).1
      | none => []) = [(1, 5), (49, 5), (60, 7)] ∧ adjAt [(1, 5), (60, -3)] 60 = 2 := by decide

/-- the second resolution being a multiple of the first is needed: 50 → 70.  The raw sample at 65
    is emitted by level 1 at its window end 99, which lies beyond the level-2 window end 69, so the
    level-2 sample at 69 carries 1 although the adjusted raw counter at 69 is 4. -/
theorem C37_multiple_needed :
    (match downsampleRaw [(60, some 1), (65, some 4), (120, some 6)] 50 1 with
      | some l1 => (match downsampleAggrLoop true l1 70 1 with
        | .ok l2 => (applyResets (l2.map (·.counter))).1
        | _ => [])
      | none => []) = [(60, 1), (69, 1), (120, 6)] ∧ adjAt [(60, 1), (65, 4), (120, 6)] 69 = 4 := by decide

/-- Regenerated obligations: reset detection in the aggregator and in the reader, and the
    `Seek(lastT + 1)` at a chunk switch. -/
theorem C37_source_facts :
    Thanos.Facts.dsAggregatorAddConds = ["a.total > 0", "s.v < a.last", "s.v < a.min", "s.v > a.max"] ∧
    Thanos.Facts.dsCounterNextConds = ["it.i >= len(it.chks)", "it.lastValType == chunkenc.ValNone",
      "it.lastValType != chunkenc.ValFloat", "math.IsNaN(v)", "it.total == 0", "t > it.lastT", "v >= it.lastV",
      "t == it.lastT"] ∧
    Thanos.Facts.dsCounterNextSeek = ["it.Seek(it.lastT + 1)"] := by
  decide

/-- Regenerated obligations about the entry point: DownsampleRaw hands `downsampleFloatBatch`
    itself to the loop and that function starts every batch with a fresh `&floatAggregator{}` —
    the counter of a chunk is relative to the chunk's own first sample (`floatBatch` starts from
    `Agg.zero`), which is what the first/last raw value encoding relies on. -/
theorem C37_entry_facts :
    Thanos.Facts.dsRawBatchFn = ["downsampleHistogramBatch", "downsampleFloatBatch"] ∧
    Thanos.Facts.dsFloatBatchAggr = ["&floatAggregator{}"] ∧
    Thanos.Facts.dsFloatBatchCalls = ["newAggrChunkBuilder", "Append", "downsampleBatch", "Append", "encode"] := by
  decide

-- non-vacuity: a counter with a reset inside a window (t = 3), one exactly between the two chunks
-- (t = 60) and a NaN; `C37_level1` applies (RawOK, values ≥ 0) and its right-hand side is
example : RawOK [(1, some 5), (2, some 7), (3, some 2), (4, none), (60, some 1), (61, some 4)] :=
  ⟨by simp [SortedRaw], by decide, by decide, by decide⟩
example : (segsOf 50 2 [(1, some 5), (2, some 7), (3, some 2), (4, none), (60, some 1), (61, some 4)]).flatMap
    (fun sg => (segTs sg.1 sg.2).map fun t => (t, adjAt [(1, 5), (2, 7), (3, 2), (60, 1), (61, 4)] t)) =
    [(1, 5), (3, 9), (60, 10), (61, 13)] := by decide
example : ((downsampleRaw [(1, some 5), (2, some 7), (3, some 2), (4, none), (60, some 1), (61, some 4)] 50 2).map
    fun cs => (applyResets (cs.map (·.counter))).1) = some [(1, 5), (3, 9), (60, 10), (61, 13)] := by decide

-- level 2 on the same series (50 → 100, one output chunk): the reset between the two level-1 chunks survives
example : (match downsampleRaw [(1, some 5), (2, some 7), (3, some 2), (4, none), (60, some 1), (61, some 4)] 50 2 with
    | some l1 => (match downsampleAggrLoop true l1 100 1 with
      | .ok l2 => (applyResets (l2.map (·.counter))).1
      | _ => [])
    | none => []) = [(1, 5), (61, 13)] := by decide

-- non-vacuity: TestDownsampleCounterBoundaryReset
example : (applyResets [[(10, 1), (30, 5), (30, 5)], [(50, 1), (70, 10), (70, 10)], [(120, 1), (140, 20), (140, 20)]]).1 =
    [(10, 1), (30, 5), (50, 6), (70, 15), (120, 16), (140, 35)] := by decide
example : adjusted [1, 3, 5, 1, 8, 10, 1, 18, 20] = 35 := by decide

end Thanos.Downsample
