import Thanos.Model.MultiRing
import Thanos.Generated.Facts
/-
  C27 — Tenants are routed to the hashring their configuration selects.

  `route` transliterates the loop of `multiHashring.GetN` over the tenant sets, `getN`/`getNSeq`
  add the cache.  `filepath.Match` results are inputs (`Cfg.glob`), so every theorem holds for
  whatever the library answers.  Hypothesis of the routing theorems: no malformed glob pattern
  (`WellFormed`); with a malformed pattern next to a matching one in the same set the Go map
  iteration order decides between an error and a match (`Route.ringOrErr`, theorem
  `C27_malformed_ambiguous`) — recorded by the harness' malformed stream, not claimed.
-/
namespace Thanos.MultiRing

/-- the configuration accepts the tenant: it has no tenant list (default hashring), or its list
    matches exactly / by glob -/
def Accepts (c : Cfg) (tenant : String) : Prop := c.tenants = [] ∨ setMatch c tenant = .yes

instance (c : Cfg) (tenant : String) : Decidable (Accepts c tenant) := by unfold Accepts; infer_instance

/-- no `filepath.Match` call reports ErrBadPattern -/
def WellFormed (cfgs : List Cfg) : Prop := ∀ c ∈ cfgs, GlobRes.bad ∉ c.glob

/-- what `setMatch = yes` means, spelled out -/
theorem setMatch_yes_iff (c : Cfg) (tenant : String) :
    setMatch c tenant = .yes ↔
      (c.typ = .exact ∧ tenant ∈ c.tenants) ∨ (c.typ = .glob ∧ GlobRes.yes ∈ c.glob ∧ GlobRes.bad ∉ c.glob) := by
  unfold setMatch
  cases h : c.typ with
  | exact => by_cases hm : tenant ∈ c.tenants <;> simp [hm]
  | glob =>
    simp only [globSet]
    by_cases hb : GlobRes.bad ∈ c.glob <;> by_cases hy : GlobRes.yes ∈ c.glob <;> simp [hb, hy]
  | other => simp

theorem setMatch_wf {c : Cfg} (tenant : String) (h : GlobRes.bad ∉ c.glob) :
    setMatch c tenant = .yes ∨ setMatch c tenant = .no := by
  unfold setMatch
  cases c.typ with
  | exact => by_cases hm : tenant ∈ c.tenants <;> simp [hm]
  | glob =>
    simp only [globSet]
    by_cases hy : GlobRes.yes ∈ c.glob <;> simp [h, hy]
  | other => simp

/-- the loop from index `k` on -/
theorem routeFrom_ring_iff (tenant : String) : ∀ (cfgs : List Cfg) (k i : Nat), WellFormed cfgs →
    (routeFrom tenant k cfgs = .ring i ↔
      k ≤ i ∧ (∃ c, cfgs[i - k]? = some c ∧ Accepts c tenant) ∧
        ∀ j, j < i - k → ∀ c, cfgs[j]? = some c → ¬ Accepts c tenant)
  | [], k, i, _ => by simp [routeFrom]
  | c :: cs, k, i, wf => by
    have wf' : WellFormed cs := fun c' h => wf c' (List.mem_cons_of_mem _ h)
    have hc : GlobRes.bad ∉ c.glob := wf c (by simp)
    have ih := routeFrom_ring_iff tenant cs (k + 1) i wf'
    unfold routeFrom
    by_cases he : c.tenants.isEmpty = true
    · have hacc : Accepts c tenant := Or.inl (by simpa using he)
      simp only [he, if_true, Route.ring.injEq]
      constructor
      · rintro rfl
        refine ⟨Nat.le_refl _, ⟨c, by simp, hacc⟩, fun j hj => by omega⟩
      · rintro ⟨hle, _, hall⟩
        by_cases hik : i = k
        · exact hik.symm
        · exact absurd hacc (hall 0 (by omega) c (by simp))
    · have he' : c.tenants.isEmpty = false := by simpa using he
      simp only [he', Bool.false_eq_true, if_false]
      have hne : c.tenants ≠ [] := by simpa using he
      rcases setMatch_wf tenant hc with hy | hn
      · have hacc : Accepts c tenant := Or.inr hy
        simp only [hy, Route.ring.injEq]
        constructor
        · rintro rfl
          refine ⟨Nat.le_refl _, ⟨c, by simp, hacc⟩, fun j hj => by omega⟩
        · rintro ⟨hle, _, hall⟩
          by_cases hik : i = k
          · exact hik.symm
          · exact absurd hacc (hall 0 (by omega) c (by simp))
      · have hnacc : ¬ Accepts c tenant := by
          rintro (h | h)
          · exact hne h
          · rw [hn] at h; cases h
        simp only [hn]
        rw [ih]
        constructor
        · rintro ⟨hle, ⟨c', hget, hacc⟩, hall⟩
          have e : i - k = (i - (k + 1)) + 1 := by omega
          refine ⟨by omega, ⟨c', by rw [e]; simpa using hget, hacc⟩, fun j hj c'' hget'' => ?_⟩
          cases j with
          | zero => simp at hget''; subst hget''; exact hnacc
          | succ j => exact hall j (by omega) c'' (by simpa using hget'')
        · rintro ⟨hle, ⟨c', hget, hacc⟩, hall⟩
          have hik : i ≠ k := by
            rintro rfl
            simp at hget; subst hget; exact hnacc hacc
          have e : i - k = (i - (k + 1)) + 1 := by omega
          rw [e] at hget
          refine ⟨by omega, ⟨c', by simpa using hget, hacc⟩, fun j hj c'' hget'' => ?_⟩
          exact hall (j + 1) (by omega) c'' (by simpa using hget'')

/-- **C27, first match.**  With well-formed patterns the tenant is routed to hashring `i` iff
    configuration `i` accepts it and no earlier configuration does. -/
theorem C27_first_match (tenant : String) (cfgs : List Cfg) (i : Nat) (wf : WellFormed cfgs) :
    route tenant cfgs = .ring i ↔
      (∃ c, cfgs[i]? = some c ∧ Accepts c tenant) ∧
        ∀ j, j < i → ∀ c, cfgs[j]? = some c → ¬ Accepts c tenant := by
  have := routeFrom_ring_iff tenant cfgs 0 i wf
  simpa [route] using this

theorem routeFrom_total (tenant : String) : ∀ (cfgs : List Cfg) (k : Nat), WellFormed cfgs →
    (∃ i, routeFrom tenant k cfgs = .ring i) ∨
      (routeFrom tenant k cfgs = .none ∧ ∀ c ∈ cfgs, ¬ Accepts c tenant)
  | [], _, _ => by simp [routeFrom]
  | c :: cs, k, wf => by
    have wf' : WellFormed cs := fun c' h => wf c' (List.mem_cons_of_mem _ h)
    have hc : GlobRes.bad ∉ c.glob := wf c (by simp)
    unfold routeFrom
    by_cases he : c.tenants.isEmpty = true
    · simp [he]
    · have he' : c.tenants.isEmpty = false := by simpa using he
      simp only [he', Bool.false_eq_true, if_false]
      have hne : c.tenants ≠ [] := by simpa using he
      rcases setMatch_wf tenant hc with hy | hn
      · simp [hy]
      · simp only [hn]
        rcases routeFrom_total tenant cs (k + 1) wf' with h | ⟨h1, h2⟩
        · exact Or.inl h
        · refine Or.inr ⟨h1, fun c' hc' => ?_⟩
          simp only [List.mem_cons] at hc'
          rcases hc' with rfl | hc'
          · rintro (h | h)
            · exact hne h
            · rw [hn] at h; cases h
          · exact h2 c' hc'

/-- With well-formed patterns routing never errs: a hashring, or "no matching hashring" exactly
    when no configuration accepts the tenant. -/
theorem C27_total (tenant : String) (cfgs : List Cfg) (wf : WellFormed cfgs) :
    (∃ i, route tenant cfgs = .ring i) ∨ (route tenant cfgs = .none ∧ ∀ c ∈ cfgs, ¬ Accepts c tenant) :=
  routeFrom_total tenant cfgs 0 wf

/-- **C27, default fallback.**  A hashring without tenant list serves every tenant that no
    earlier configuration accepts. -/
theorem C27_default_fallback (tenant : String) (cfgs : List Cfg) (i : Nat) (c : Cfg)
    (wf : WellFormed cfgs) (hget : cfgs[i]? = some c) (hdef : c.tenants = [])
    (hearlier : ∀ j, j < i → ∀ c', cfgs[j]? = some c' → ¬ Accepts c' tenant) :
    route tenant cfgs = .ring i :=
  (C27_first_match tenant cfgs i wf).mpr ⟨⟨c, hget, Or.inl hdef⟩, hearlier⟩

/-! ### the cache -/

/-- every cached entry is what routing would answer -/
def Sound (view : String → List Cfg) (cache : Cache) : Prop :=
  ∀ t i, cache.get t = some i → route t (view t) = .ring i

theorem sound_nil (view : String → List Cfg) : Sound view [] := by
  intro t i h; simp [Cache.get] at h

theorem getN_sound (view : String → List Cfg) (cache : Cache) (tenant : String) (hs : Sound view cache) :
    (getN view cache tenant).1 = route tenant (view tenant) ∧ Sound view (getN view cache tenant).2 := by
  unfold getN
  cases hg : cache.get tenant with
  | some i => exact ⟨(hs tenant i hg).symm, hs⟩
  | none =>
    cases hr : route tenant (view tenant) with
    | ring i =>
      refine ⟨rfl, ?_⟩
      intro t j h
      simp only [Cache.get] at h
      by_cases ht : tenant = t
      · subst ht
        simp at h; subst h; exact hr
      · simp only [ht, if_false] at h
        exact hs t j h
    | none => exact ⟨rfl, hs⟩
    | err => exact ⟨rfl, hs⟩
    | ringOrErr i => exact ⟨rfl, hs⟩

theorem getNSeq_eq (view : String → List Cfg) : ∀ (ts : List String) (cache : Cache), Sound view cache →
    getNSeq view cache ts = ts.map (fun t => route t (view t))
  | [], _, _ => rfl
  | t :: ts, cache, hs => by
    obtain ⟨h1, h2⟩ := getN_sound view cache t hs
    simp only [getNSeq, List.map_cons]
    rw [h1, getNSeq_eq view ts _ h2]

/-- **C27, cache transparency.**  For every history of requests on a fresh multi hashring, each
    answer (first, repeated, after other tenants) is the uncached routing decision. -/
theorem C27_cache_transparent (view : String → List Cfg) (ts : List String) :
    getNSeq view [] ts = ts.map (fun t => route t (view t)) :=
  getNSeq_eq view ts [] (sound_nil view)

/-! ### replica indices: the selected hashring answers, also when it fails -/

theorem getNSeqN_eq (view : String → List Cfg) (sizes : List Nat) : ∀ (reqs : List (String × Nat)) (cache : Cache),
    Sound view cache → getNSeqN view sizes cache reqs = reqs.map (fun r => answer sizes r.2 (route r.1 (view r.1)))
  | [], _, _ => rfl
  | (t, n) :: ts, cache, hs => by
    obtain ⟨h1, h2⟩ := getN_sound view cache t hs
    simp only [getNSeqN, List.map_cons]
    rw [h1, getNSeqN_eq view sizes ts _ h2]

/-- **C27 with replica indices.**  For every history of `(tenant, n)` requests on a fresh multi
    hashring, each answer is the answer of the hashring that routing selects for the tenant —
    independent of `n`, of earlier requests and of earlier failures: an out-of-range replica index
    gets the selected hashring's error, never a node of a later matching hashring. -/
theorem C27_selected_ring_answers (view : String → List Cfg) (sizes : List Nat) (reqs : List (String × Nat)) :
    getNSeqN view sizes [] reqs = reqs.map (fun r => answer sizes r.2 (route r.1 (view r.1))) :=
  getNSeqN_eq view sizes reqs [] (sound_nil view)

/-- **C27, first match, restated with errors.**  With well-formed patterns: hashring `i` answers
    the request — with a node or with its own "insufficient nodes" error — iff configuration `i`
    accepts the tenant and no earlier configuration does. -/
theorem C27_first_match_errors (tenant : String) (cfgs : List Cfg) (sizes : List Nat) (n i : Nat)
    (wf : WellFormed cfgs) (hi : i < sizes.length) :
    (answer sizes n (route tenant cfgs) = .served i ∨ ∃ s, answer sizes n (route tenant cfgs) = .insufficient i s) ↔
      (∃ c, cfgs[i]? = some c ∧ Accepts c tenant) ∧
        ∀ j, j < i → ∀ c, cfgs[j]? = some c → ¬ Accepts c tenant := by
  rw [← C27_first_match tenant cfgs i wf]
  constructor
  · intro h
    cases hr : route tenant cfgs with
    | ring j =>
      rw [hr] at h
      simp only [answer] at h
      cases hs : sizes[j]? with
      | none => simp [hs] at h
      | some s =>
        simp only [hs] at h
        by_cases hn : n < s
        · simp [hn] at h; rw [h]
        · simp [hn] at h; rw [h]
    | none => rw [hr] at h; simp [answer] at h
    | err => rw [hr] at h; simp [answer] at h
    | ringOrErr j => rw [hr] at h; simp [answer] at h
  · intro h
    rw [h]
    simp only [answer, List.getElem?_eq_getElem hi]
    by_cases hn : n < sizes[i]
    · left; simp [hn]
    · right; exact ⟨sizes[i], by simp [hn]⟩

/-! ### concurrent requests

  `GetN` reads the cache under the read lock, and on a miss routes without any lock and then
  stores under the write lock.  A schedule of several goroutines is a sequence of these two
  kinds of atomic steps in any order; a `store` step for tenant `t` is only ever performed by a
  goroutine that routed `t` itself. -/

inductive Step where
  | read (tenant : String)    -- RLock; h, ok := cache[tenant]; RUnlock  — answers on a hit
  | store (tenant : String)   -- Lock; cache[tenant] = hashrings[route tenant]; Unlock
  deriving Repr

/-- the cache after a store step -/
def applyStore (view : String → List Cfg) (cache : Cache) (tenant : String) : Cache :=
  match route tenant (view tenant) with
  | .ring i => (tenant, i) :: cache
  | _ => cache

/-- the answers of the read steps that hit, along a schedule -/
def runSchedule (view : String → List Cfg) : Cache → List Step → List (String × Nat)
  | _, [] => []
  | cache, .read t :: rest =>
    match cache.get t with
    | some i => (t, i) :: runSchedule view cache rest
    | none => runSchedule view cache rest
  | cache, .store t :: rest => runSchedule view (applyStore view cache t) rest

theorem applyStore_sound (view : String → List Cfg) (cache : Cache) (tenant : String) (hs : Sound view cache) :
    Sound view (applyStore view cache tenant) := by
  unfold applyStore
  cases hr : route tenant (view tenant) with
  | ring i =>
    intro t j h
    simp only [Cache.get] at h
    by_cases ht : tenant = t
    · subst ht; simp at h; subst h; exact hr
    · simp only [ht, if_false] at h; exact hs t j h
  | none => exact hs
  | err => exact hs
  | ringOrErr i => exact hs

/-- **C27, schedules.**  Whatever the interleaving of cache reads and stores of any number of
    goroutines, every cache hit answers the hashring that uncached routing selects (misses
    route themselves), so concurrent requests never see a different choice. -/
theorem C27_concurrent (view : String → List Cfg) : ∀ (steps : List Step) (cache : Cache), Sound view cache →
    ∀ p ∈ runSchedule view cache steps, route p.1 (view p.1) = .ring p.2
  | [], _, _, p, h => by simp [runSchedule] at h
  | .read t :: rest, cache, hs, p, h => by
    simp only [runSchedule] at h
    cases hg : cache.get t with
    | some i =>
      simp only [hg, List.mem_cons] at h
      rcases h with rfl | h
      · exact hs t i hg
      · exact C27_concurrent view rest cache hs p h
    | none =>
      simp only [hg] at h
      exact C27_concurrent view rest cache hs p h
  | .store t :: rest, cache, hs, p, h => by
    simp only [runSchedule] at h
    exact C27_concurrent view rest _ (applyStore_sound view cache t hs) p h

/-! ### malformed patterns: the excluded case is really ambiguous in the model -/

theorem C27_malformed_ambiguous :
    route "a" [⟨.glob, ["[", "a*"], [.bad, .yes]⟩, ⟨.exact, [], []⟩] = .ringOrErr 0 := by decide

/-! ### regenerated facts -/

/-- lock skeleton of `multiHashring.GetN`: read under RLock, store under Lock -/
theorem C27_fact_locks : Thanos.Facts.multiGetNLocks = ["m.mu.RLock", "m.mu.RUnlock", "m.mu.Lock", "m.mu.Unlock"] := by decide

/-- what is stored is the hashring of the matching index, and the same one answers -/
theorem C27_fact_store : Thanos.Facts.multiGetNStore = ["m.cache[tenant] = m.hashrings[i]", "m.hashrings[i].GetN(tenant, ts, n)"] := by decide

/-- exact means "exact" or the empty string -/
theorem C27_fact_exact : Thanos.Facts.isExactMatcherBody = "m == TenantMatcherTypeExact || m == \"\"" := by decide

-- non-vacuity: exact before glob before default; the second configuration wins for "team-b"
-- although the third (default) would accept it too
example : route "team-b" [⟨.exact, ["team-a"], []⟩, ⟨.glob, ["team-*"], [.yes]⟩, ⟨.exact, [], []⟩] = .ring 1 := by decide
example : route "other" [⟨.exact, ["team-a"], []⟩, ⟨.glob, ["team-*"], [.no]⟩, ⟨.exact, [], []⟩] = .ring 2 := by decide
example : route "other" [⟨.exact, ["team-a"], []⟩, ⟨.glob, ["team-*"], [.no]⟩] = .none := by decide
example : WellFormed [⟨.exact, ["team-a"], []⟩, ⟨.glob, ["team-*"], [.yes]⟩, ⟨.exact, [], []⟩] := by
  intro c hc; simp at hc; rcases hc with rfl | rfl | rfl <;> decide
example : getNSeq (fun _ => [⟨.exact, ["a"], []⟩, ⟨.exact, [], []⟩]) [] ["a", "b", "a"] = [.ring 0, .ring 1, .ring 0] := by decide
-- hashring 0 (one node) is selected for "a"; asking it for replica 1 FIRST gives its error, not a node of the
-- default hashring 1 (two nodes), and "a" stays with hashring 0 afterwards
example : getNSeqN (fun _ => [⟨.exact, ["a"], []⟩, ⟨.exact, [], []⟩]) [1, 2] [] [("a", 1), ("a", 0), ("b", 1), ("b", 2)]
    = [.insufficient 0 1, .served 0, .served 1, .insufficient 1 2] := by decide

end Thanos.MultiRing
