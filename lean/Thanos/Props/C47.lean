import Thanos.Model.Reloader
import Thanos.Generated.Facts
/-
  C47 — The config reloader applies the latest configuration.
-/
namespace Thanos.Reloader

/-! ### the retry loop -/

/-- the retry loop stops at the first success; without one it makes as many requests as the
    context allows and reports failure -/
theorem retry_spec (script : List Bool) :
    (retry script).2 = script.any id ∧
    (retry script).1 = (if script.any id then (script.takeWhile (· == false)).length + 1 else script.length) := by
  induction script with
  | nil => simp [retry]
  | cons b rest ih =>
    cases b with
    | true => simp [retry]
    | false =>
      obtain ⟨h1, h2⟩ := ih
      simp only [retry, List.any_cons, id, Bool.false_or]
      refine ⟨h1, ?_⟩
      rw [h2]
      by_cases h : rest.any id <;> simp [h, List.takeWhile]

/-! ### a three-step history on which the code as it was leaves a stale output -/

def wA : File := ⟨"a", "78", some "x"⟩
def wB : File := ⟨"b", "79", some "y"⟩
def wC : File := ⟨"c", "24", some "$(UNSET_VAR)"⟩
def wConf : Conf := ⟨false, false, false, false⟩
def wSnap (fs : List File) : Snap := { cfg := none, dirs := [fs], watched := none, env := [], script := [true] }

/-- run a history -/
def runHistory (c : Conf) (track : Bool) : St → List Snap → St
  | st, [] => st
  | st, s :: rest => runHistory c track (apply c track st s).1 rest

/-- "outputs whose inputs disappeared are removed": after an apply that returns without error the
    output directory of every CfgDir holds exactly the current inputs -/
def C47_removed_full (track : Bool) : Prop :=
  ∀ (c : Conf) (hist : List Snap) (s : Snap) (n : Nat),
    (apply c track (runHistory c track {} hist) s).2 = .ok n →
    ∀ i name v, ((Key.dir i name, v) ∈ (apply c track (runHistory c track {} hist) s).1.out) →
      ∃ d, s.dirs[i]? = some d ∧ ∃ f ∈ d, f.name = name

/-- As the code was, this is false: apply {a}; apply {a, b, c} fails on c (unset variable) after
    writing b; apply {a} succeeds and leaves output b behind, untracked. -/
theorem C47_removed_full_false : ¬ C47_removed_full false := by
  intro h
  have := h wConf [wSnap [wA], wSnap [wA, wB, wC]] (wSnap [wA]) 0 (by decide) 0 "b" "y" (by decide)
  revert this
  decide

/-- Regenerated obligations: whether the entries loop of `apply` tracks every output as soon as it
    is written (selects `Driver/Misc.lean: rlTrack`), and the condition under which `apply` does
    not reload (the one `apply` of the model tests). -/
theorem C47_track_fact : Thanos.Facts.reloaderTracksWrittenOutputs = "yes" := by decide
theorem C47_noreload_fact : Thanos.Facts.reloaderNoReloadCond =
    "!r.forceReload && !cfgDirsChanged && bytes.Equal(r.lastCfgHash, cfgHash) && bytes.Equal(r.lastWatchedDirsHash, watchedDirsHash)" := rfl

end Thanos.Reloader
