import Thanos.Model.Reloader
import Thanos.Model.WatchLoop
import Thanos.Lemmas.Reloader
import Thanos.Generated.Facts
/-
  C47 — The config reloader applies the latest configuration.
-/
namespace Thanos.Reloader

/-! ### the retry loop -/

/-- the retry loop stops at the first success; without one it makes as many requests as the
    context allows and reports failure -/
theorem retry_spec (script : List Bool) :
    (retry script).2 = script.any id ∧
    (retry script).1 = (if script.any id then (script.takeWhile (· == false)).length + 1 else script.length) := by
  induction script with
  | nil => simp [retry]
  | cons b rest ih =>
    cases b with
    | true => simp [retry]
    | false =>
      obtain ⟨h1, h2⟩ := ih
      simp only [retry, List.any_cons, id, Bool.false_or]
      refine ⟨h1, ?_⟩
      rw [h2]
      by_cases h : rest.any id <;> simp [h, List.takeWhile]

/-! ### a three-step history on which the code as it was leaves a stale output -/

def wA : File := { name := "a", raw := "78", plain := some "x" }
def wB : File := { name := "b", raw := "79", plain := some "y" }
def wC : File := { name := "c", raw := "24", plain := some "$(UNSET_VAR)" }
def wConf : Conf := ⟨false, false, false, false⟩
def wSnap (fs : List File) : Snap := { cfg := none, dirs := [fs], watched := none, env := [], script := [true] }

/-- run a history -/
def runHistory (c : Conf) (track : Bool) : St → List Snap → St
  | st, [] => st
  | st, s :: rest => runHistory c track (apply c track st s).1 rest

/-- "outputs whose inputs disappeared are removed": after an apply that returns without error the
    output directory of every CfgDir holds exactly the current inputs -/
def C47_removed_full (track : Bool) : Prop :=
  ∀ (c : Conf) (hist : List Snap) (s : Snap) (n : Nat),
    (∀ s' ∈ hist, s'.dirs.length = s.dirs.length) →   -- the configured directories do not change
    (apply c track (runHistory c track {} hist) s).2 = .ok n →
    ∀ i name, (apply c track (runHistory c track {} hist) s).1.out.get (Key.dir i name) ≠ none →
      ∃ d, s.dirs[i]? = some d ∧ ∃ f ∈ d, f.name = name

/-- As the code was, this is false: apply {a}; apply {a, b, c} fails on c (unset variable) after
    writing b; apply {a} succeeds and leaves output b behind, untracked. -/
theorem C47_removed_full_false : ¬ C47_removed_full false := by
  intro h
  have := h wConf [wSnap [wA], wSnap [wA, wB, wC]] (wSnap [wA]) 0 (by decide) (by decide) 0 "b" (by decide)
  revert this
  decide

/-! ### expandEnv -/

/-- the scan of `expandEnv` always ends: its only errors are unset variables -/
theorem expandEnv_err_is_unset (env : String → Option String) (tol : Bool) (s : String) (e : ExpErr)
    (h : expandEnv env tol s = .error e) : ∃ n, e = .unset n := by
  unfold expandEnv at h
  have h1 := map_error _ _ _ h
  cases e with
  | unset n => exact ⟨n, rfl⟩
  | fuel => exact absurd h1 (expandGo_no_fuel env tol _ _ (by rw [String.length_toList]; omega))

/-- with errors tolerated `expandEnv` never fails (unset references are kept as they are) -/
theorem expandEnv_tolerant (env : String → Option String) (s : String) :
    ∃ v, expandEnv env true s = .ok v := by
  cases h : expandEnv env true s with
  | ok v => exact ⟨v, rfl⟩
  | error e =>
    obtain ⟨n, rfl⟩ := expandEnv_err_is_unset env true s e h
    exfalso
    unfold expandEnv at h
    have h1 := map_error _ _ _ h
    -- no branch of the tolerant scan produces `unset`
    have : ∀ (fuel : Nat) (l : List Char), expandGo env true fuel l ≠ .error (.unset n) := by
      intro fuel
      induction fuel with
      | zero => intro l hh; simp [expandGo] at hh
      | succ f ih =>
        intro l hh
        cases l with
        | nil => simp [expandGo] at hh
        | cons c rest =>
          unfold expandGo at hh
          split at hh
          · split at hh
            · exact ih _ (map_error _ _ _ hh)
            · simp only [if_true] at hh
              exact ih _ (map_error _ _ _ hh)
          · exact ih _ (map_error _ _ _ hh)
    exact this _ _ h1

/-- a text without `$` is copied unchanged -/
theorem expandEnv_plain (env : String → Option String) (tol : Bool) (s : String) (h : ∀ c ∈ s.toList, c ≠ '$') :
    expandEnv env tol s = .ok s := by
  unfold expandEnv
  rw [expandGo_plain env tol s.toList (s.length + 1) (by rw [String.length_toList]; omega) h]
  simp [Except.map]

/-! ### the reload decision, for one `apply` -/

/-- **reload iff**: an `apply` that returns without error calls the reload endpoint exactly when
    the content on disk differs from what was recorded at the last successful reload, or the
    previous reload failed (`force`).  (Watch interval > 0; the endpoint is asked at least once.) -/
theorem C47_reload_iff (c : Conf) (track : Bool) (st : St) (s : Snap) (n : Nat)
    (hok : (apply c track st s).2 = .ok n) (hw : c.watchZero = false) (hlen : LenInv st s)
    (hs : s.script ≠ []) :
    0 < n ↔ (st.force = true ∨ lastOf st ≠ contentOf c s) := by
  obtain ⟨h1, h2⟩ := apply_ok_cases c track st s n hok hw hlen
  constructor
  · intro hn
    apply Classical.byContradiction
    intro hnot
    have := (h1 hnot).1
    omega
  · intro hneeds
    rw [(h2 hneeds).1]
    exact retry_pos s.script hs

/-- **a successful reload is recorded**: afterwards the reloader remembers exactly the content it
    reloaded and no retry is pending -/
theorem C47_success_recorded (c : Conf) (track : Bool) (st : St) (s : Snap) (n : Nat)
    (hok : (apply c track st s).2 = .ok n) (hw : c.watchZero = false) (hlen : LenInv st s)
    (hneeds : st.force = true ∨ lastOf st ≠ contentOf c s) (hsucc : s.script.any id = true) :
    lastOf (apply c track st s).1 = contentOf c s ∧ (apply c track st s).1.force = false := by
  obtain ⟨_, h2⟩ := apply_ok_cases c track st s n hok hw hlen
  exact (h2 hneeds).2.1 (by rw [retry_ok_iff]; exact hsucc)

/-- **retry**: when every request of an `apply` fails, the next `apply` asks again even if nothing
    changed on disk -/
theorem C47_retry (c : Conf) (track : Bool) (st : St) (s s2 : Snap) (n n2 : Nat)
    (hok : (apply c track st s).2 = .ok n) (hw : c.watchZero = false) (hlen : LenInv st s)
    (hneeds : st.force = true ∨ lastOf st ≠ contentOf c s) (hfail : s.script.any id = false)
    (hok2 : (apply c track (apply c track st s).1 s2).2 = .ok n2) (hlen2 : LenInv (apply c track st s).1 s2)
    (hs2 : s2.script ≠ []) :
    (apply c track st s).1.force = true ∧ 0 < n2 := by
  obtain ⟨_, h2⟩ := apply_ok_cases c track st s n hok hw hlen
  have hf := ((h2 hneeds).2.2 (by rw [retry_ok_iff]; exact hfail)).2
  exact ⟨hf, (C47_reload_iff c track _ s2 n2 hok2 hw hlen2 hs2).mpr (Or.inl hf)⟩

/-- **quiescence**: once the recorded content is the content on disk and no retry is pending, an
    `apply` that returns without error makes no request and changes none of the bookkeeping -/
theorem C47_quiescent (c : Conf) (track : Bool) (st : St) (s : Snap) (n : Nat)
    (hok : (apply c track st s).2 = .ok n) (hw : c.watchZero = false)
    (hlast : lastOf st = contentOf c s) (hf : st.force = false) :
    n = 0 ∧ lastOf (apply c track st s).1 = lastOf st ∧ (apply c track st s).1.force = false := by
  have hlen : LenInv st s := by
    right
    have : st.lastDirs = s.dirs.map hashFiles := by
      have := congrArg (fun x => x.2.1) hlast
      simpa [lastOf, contentOf] using this
    rw [this]; simp
  obtain ⟨h1, _⟩ := apply_ok_cases c track st s n hok hw hlen
  have := h1 (by
    rintro (h | h)
    · rw [hf] at h; exact Bool.noConfusion h
    · exact h hlast)
  exact ⟨this.1, this.2.1, by rw [this.2.2]; exact hf⟩

/-- an `apply` that fails leaves the reload bookkeeping alone -/
theorem apply_err_keeps (c : Conf) (track : Bool) (st : St) (s : Snap) (e : Err)
    (herr : (apply c track st s).2 = .err e) :
    lastOf (apply c track st s).1 = lastOf st ∧ (apply c track st s).1.force = st.force := by
  unfold apply at herr ⊢
  cases hcs : cfgStep c st s with
  | error e' => exact ⟨rfl, rfl⟩
  | ok o0 =>
    simp only [hcs] at herr ⊢
    exact (finish_err c st s _ e herr).2

/-- **what is remembered**: an `apply` either leaves the three remembered hashes (config file, every
    config directory, watched directories) exactly as they were, or — and only when the reload
    endpoint answered success during this very apply — replaces all of them by the hashes of what
    is on disk now.  No exit of `apply` (error in a later directory, in the watched directories,
    failed reload) remembers part of the content. -/
theorem apply_last_cases (c : Conf) (track : Bool) (st : St) (s : Snap) :
    lastOf (apply c track st s).1 = lastOf st ∨
    (lastOf (apply c track st s).1 = contentOf c s ∧ s.script.any id = true ∧
      ∃ n, (apply c track st s).2 = .ok n ∧ 0 < n) := by
  unfold apply
  cases hcs : cfgStep c st s with
  | error e => exact Or.inl rfl
  | ok o0 =>
    simp only
    obtain ⟨_, _, wh, _, we⟩ := watchStep_fields s (dirsStep c track st s o0)
    generalize hp : watchStep s (dirsStep c track st s o0) = p at wh we ⊢
    unfold finish
    cases hpe : p.err with
    | some e => exact Or.inl rfl
    | none =>
      simp only
      split
      · exact Or.inl rfl
      · split
        · exact Or.inl rfl
        · cases hr : (retry s.script).2 with
          | false => simp only [Bool.false_eq_true, if_false]; exact Or.inl rfl
          | true =>
            simp only [if_true]
            right
            have hh : p.hashes = s.dirs.map hashFiles := by
              rw [wh]
              unfold dirsStep
              have := passDirs_hashes c track s.env st.lastDirs s.dirs 0 _ o0 [] _ (by
                have := we hpe; unfold dirsStep at this; exact this)
              simpa using this
            refine ⟨by simp [lastOf, contentOf, hh], by rw [← retry_ok_iff]; exact hr, _, rfl, ?_⟩
            have : s.script ≠ [] := by
              intro h0; rw [h0] at hr; simp [retry] at hr
            exact retry_pos s.script this

/-- **invariant**: along every history, what the reloader remembers is the content (per config file,
    per config directory, watched directories) at the last apply whose reload succeeded — or
    nothing, before the first one -/
theorem C47_remembers_last_success (c : Conf) (track : Bool) : ∀ (hist : List Snap) (st : St),
    lastOf (runHistory c track st hist) = lastOf st ∨
    ∃ s ∈ hist, lastOf (runHistory c track st hist) = contentOf c s ∧ s.script.any id = true := by
  intro hist
  induction hist with
  | nil => intro st; exact Or.inl rfl
  | cons s rest ih =>
    intro st
    simp only [runHistory]
    rcases ih (apply c track st s).1 with h | ⟨s', hs', h1, h2⟩
    · rcases apply_last_cases c track st s with h0 | ⟨h0, h3, _⟩
      · exact Or.inl (by rw [h, h0])
      · exact Or.inr ⟨s, by simp, by rw [h, h0], h3⟩
    · exact Or.inr ⟨s', by simp [hs'], h1, h2⟩

/-- the results of a history -/
def results (c : Conf) (track : Bool) : St → List Snap → List Res
  | _, [] => []
  | st, s :: rest => (apply c track st s).2 :: results c track (apply c track st s).1 rest

/-- **eventually**: after a successful reload of content `K` (recorded, no retry pending), as long
    as the files keep showing `K`, no apply requests another reload — every later result is `ok 0`
    or an error of reading/expanding the inputs; in particular exactly one successful reload
    follows the last change. -/
theorem C47_eventually (c : Conf) (track : Bool) (hw : c.watchZero = false)
    (K : Option Hash × List Hash × Option Hash) :
    ∀ (snaps : List Snap) (st : St), lastOf st = K → st.force = false →
      (∀ s ∈ snaps, contentOf c s = K) →
      ∀ r ∈ results c track st snaps, r = .ok 0 ∨ ∃ e, r = .err e := by
  intro snaps
  induction snaps with
  | nil => intro st _ _ _ r hr; simp [results] at hr
  | cons s rest ih =>
    intro st hlast hf hsame r hr
    have hK : lastOf st = contentOf c s := by rw [hlast, hsame s (by simp)]
    simp only [results, List.mem_cons] at hr
    cases hres : (apply c track st s).2 with
    | ok n =>
      obtain ⟨h0, hl, hf'⟩ := C47_quiescent c track st s n hres hw hK hf
      rcases hr with rfl | hr
      · left; rw [hres, h0]
      · exact ih _ (by rw [hl, hlast]) hf' (fun s' hs' => hsame s' (by simp [hs'])) r hr
    | err e =>
      obtain ⟨hl, hf'⟩ := apply_err_keeps c track st s e hres
      rcases hr with rfl | hr
      · right; exact ⟨e, hres⟩
      · exact ih _ (by rw [hl, hlast]) (by rw [hf', hf]) (fun s' hs' => hsame s' (by simp [hs'])) r hr

/-! ### the output files -/

theorem keysOf_start (st : St) (s : Snap) (h : KeysOf 0 st.lastDirFiles) :
    KeysOf 0 (if st.lastDirFiles.isEmpty = true then s.dirs.map (fun _ => none) else st.lastDirFiles) := by
  split
  · intro j l hj; simp at hj
  · exact h

/-- the tracked output lists name outputs of their own directory (an invariant of `apply`) -/
theorem keysOf_apply (c : Conf) (track : Bool) (st : St) (s : Snap) (h : KeysOf 0 st.lastDirFiles) :
    KeysOf 0 (apply c track st s).1.lastDirFiles := by
  unfold apply
  cases hcs : cfgStep c st s with
  | error e => exact h
  | ok o0 =>
    simp only
    rw [(finish_out c st s _).2, (watchStep_fields s _).2.1]
    exact (passDirs_out c track s.env st.lastDirs s.dirs 0 _ o0 [] _ (keysOf_start st s h)).2.1

/-- **outputs**: after an `apply` that returns without error, the config output file and the
    output of every file of every config directory hold the input, gunzipped if needed, with the
    environment variables substituted. -/
theorem C47_outputs (c : Conf) (track : Bool) (st : St) (s : Snap) (n : Nat)
    (hok : (apply c track st s).2 = .ok n) (hinv : KeysOf 0 st.lastDirFiles) :
    (c.hasCfg = true → c.hasOut = true → ∃ f v, s.cfg = some f ∧ expected c s.env f = some v ∧
        (apply c track st s).1.out.get .cfg = some v) ∧
    (∀ i d, s.dirs[i]? = some d → (d.map (·.name)).Nodup → ∀ f ∈ d, ∃ v, expected c s.env f = some v ∧
        (apply c track st s).1.out.get (.dir i f.name) = some v) := by
  unfold apply at hok ⊢
  cases hcs : cfgStep c st s with
  | error e => simp [hcs] at hok
  | ok o0 =>
    simp only [hcs] at hok ⊢
    rw [(finish_out c st s _).1, (watchStep_fields s _).1]
    have hpe := (watchStep_fields s _).2.2.2.2 (finish_ok_err c st s _ n hok)
    obtain ⟨pf, _, pw⟩ := passDirs_out c track s.env st.lastDirs s.dirs 0 _ o0 []
      (st.lastDirs.isEmpty && !s.dirs.isEmpty) (keysOf_start st s hinv)
    constructor
    · intro hc ho
      unfold cfgStep at hcs
      simp only [hc, ho, if_true] at hcs
      cases hcfg : s.cfg with
      | none => simp [hcfg] at hcs
      | some f =>
        simp only [hcfg] at hcs
        obtain ⟨v, hv, ho0⟩ := normalize_ok c s.env f .cfg st.out o0 hcs
        refine ⟨f, v, rfl, hv, ?_⟩
        show (dirsStep c track st s o0).out.get .cfg = some v
        unfold dirsStep
        rw [pf .cfg (fun m nm h => by cases h), ho0, get_set]
        simp
    · intro i d hd hnd f hf
      obtain ⟨v, hv, hg⟩ := pw hpe i d hd hnd f hf
      refine ⟨v, hv, ?_⟩
      show (dirsStep c track st s o0).out.get (.dir i f.name) = some v
      unfold dirsStep
      simpa using hg

/-- the invariant behind "outputs whose inputs disappeared are removed": the tracked lists name
    outputs of their own directory, there is one per directory, and every output present in an
    output directory is tracked -/
def TrackInv (st : St) (n : Nat) : Prop :=
  KeysOf 0 st.lastDirFiles ∧ (st.lastDirFiles = [] ∨ st.lastDirFiles.length = n) ∧
  Tracked 0 (if st.lastDirFiles.isEmpty then List.replicate n none else st.lastDirFiles) st.out

theorem trackInv_init (n : Nat) : TrackInv {} n := by
  refine ⟨fun j l hj => by simp at hj, Or.inl rfl, ?_⟩
  intro m nm _ h
  simp [OutFS.get] at h

theorem map_none_eq (ds : List (List File)) : ds.map (fun _ => (none : Option (List Key))) = List.replicate ds.length none := by
  induction ds with
  | nil => rfl
  | cons _ _ ih => simp [List.replicate_succ, ih]

/-- what the repaired `apply` guarantees about the directory outputs, from a state satisfying the
    invariant: the invariant again (whatever the result), and on success exactly the current files -/
theorem apply_tracked (c : Conf) (st : St) (s : Snap) (h : TrackInv st s.dirs.length) :
    TrackInv (apply c true st s).1 s.dirs.length ∧
    (∀ n, (apply c true st s).2 = .ok n → ∀ i name, (apply c true st s).1.out.get (Key.dir i name) ≠ none →
      ∃ d, s.dirs[i]? = some d ∧ ∃ f ∈ d, f.name = name) := by
  obtain ⟨hk, hlen, ht⟩ := h
  unfold apply
  cases hcs : cfgStep c st s with
  | error e => exact ⟨⟨hk, hlen, ht⟩, fun n hn => by simp at hn⟩
  | ok o0 =>
    simp only
    -- the config-file step does not touch directory outputs
    have ho0 : ∀ m nm, o0.get (Key.dir m nm) = st.out.get (Key.dir m nm) := by
      intro m nm
      unfold cfgStep at hcs
      split at hcs
      · split at hcs
        · cases hcs
        · split at hcs
          · rename_i f _ _
            obtain ⟨v, _, h0⟩ := normalize_ok c s.env f .cfg st.out o0 hcs
            rw [h0, get_set]; simp
          · cases hcs; rfl
      · cases hcs; rfl
    have hlf : (if st.lastDirFiles.isEmpty = true then s.dirs.map (fun _ => none) else st.lastDirFiles).length = s.dirs.length := by
      split
      · simp
      · rename_i hne
        rcases hlen with h | h
        · simp [h] at hne
        · exact h
    have htr : Tracked 0 (if st.lastDirFiles.isEmpty = true then s.dirs.map (fun _ => none) else st.lastDirFiles) o0 := by
      intro m nm hm hne
      rw [ho0] at hne
      have := ht m nm hm hne
      rw [map_none_eq]
      exact this
    obtain ⟨p1, p2, p3⟩ := passDirs_tracked c s.env st.lastDirs s.dirs 0 _ o0 []
      (st.lastDirs.isEmpty && !s.dirs.isEmpty) (keysOf_start st s hk) hlf htr
    have pk := (passDirs_out c true s.env st.lastDirs s.dirs 0 _ o0 [] (st.lastDirs.isEmpty && !s.dirs.isEmpty)
      (keysOf_start st s hk)).2.1
    obtain ⟨fo, ff⟩ := finish_out c st s (watchStep s (dirsStep c true st s o0))
    rw [(watchStep_fields s _).1] at fo
    rw [(watchStep_fields s _).2.1] at ff
    have hd : dirsStep c true st s o0 = passDirs c true s.env st.lastDirs 0 s.dirs
        (if st.lastDirFiles.isEmpty = true then s.dirs.map (fun _ => none) else st.lastDirFiles) o0 []
        (st.lastDirs.isEmpty && !s.dirs.isEmpty) := rfl
    rw [← hd] at p1 p2 p3 pk
    constructor
    · refine ⟨by rw [ff]; exact pk, Or.inr (by rw [ff]; exact p2), ?_⟩
      rw [ff, fo]
      split
      · rename_i he
        have hnil : (dirsStep c true st s o0).files = [] := by simpa using he
        have hz : s.dirs.length = 0 := by rw [← p2, hnil]; rfl
        rw [hz]
        rw [hnil] at p1
        exact p1
      · exact p1
    · intro n hn i name hne
      rw [fo] at hne
      have hpe := (watchStep_fields s _).2.2.2.2 (finish_ok_err c st s _ n hn)
      obtain ⟨l, hl, hmem⟩ := p1 i name (Nat.zero_le _) hne
      simp only [Nat.sub_zero] at hl
      have hi : i < s.dirs.length := by
        rw [← p2]
        exact (List.getElem?_eq_some_iff.mp hl).1
      have hdi : s.dirs[i]? = some s.dirs[i] := List.getElem?_eq_getElem hi
      have := p3 hpe i s.dirs[i] hdi
      rw [this] at hl
      simp only [Option.some.injEq] at hl
      subst hl
      simp only [Nat.zero_add, List.mem_map] at hmem
      obtain ⟨f, hf, hfe⟩ := hmem
      refine ⟨s.dirs[i], hdi, f, hf, ?_⟩
      injection hfe with _ h2

theorem trackInv_history (c : Conf) (n : Nat) : ∀ (hist : List Snap) (st : St), TrackInv st n →
    (∀ s ∈ hist, s.dirs.length = n) → TrackInv (runHistory c true st hist) n := by
  intro hist
  induction hist with
  | nil => intro st h _; exact h
  | cons s rest ih =>
    intro st h hn
    have hs : s.dirs.length = n := hn s (by simp)
    simp only [runHistory]
    apply ih
    · have := (apply_tracked c st s (by rw [hs]; exact h)).1
      rw [hs] at this
      exact this
    · exact fun s' hs' => hn s' (by simp [hs'])

/-- **removed** (the repaired code): along every history of applies — including applies that fail
    half-way through a directory — an apply that returns without error leaves in each output
    directory exactly outputs of files the input directory holds now. -/
theorem C47_removed : C47_removed_full true := by
  intro c hist s n hdirs hok i name hne
  have hinv := trackInv_history c s.dirs.length hist {} (trackInv_init _) hdirs
  exact (apply_tracked c _ s hinv).2 n hok i name hne

/-! ### what the hash framing distinguishes (the model keeps the hashed lists themselves) -/

/-- the bytes `hashFile` feeds to one sha256 state for a list of files: 0xff path 0xff content … -/
def hashFrame (fs : List (List Nat × List Nat)) : List Nat :=
  fs.flatMap fun f => 255 :: f.1 ++ 255 :: f.2

/-- The framing alone does not separate all directory contents: a file whose content contains
    0xff can imitate two files.  (Not reachable with UTF-8 text, which never contains 0xff; the
    model's `Hash` assumes the framing + sha256 injective, i.e. text inputs.) -/
theorem hashFrame_not_injective :
    hashFrame [([97], [120, 255, 98, 255, 121])] = hashFrame [([97], [120]), ([98], [121])] ∧
    [(([97] : List Nat), ([120, 255, 98, 255, 121] : List Nat))] ≠ [([97], [120]), ([98], [121])] := by
  decide

theorem split_at_ff : ∀ (a b x y : List Nat), 255 ∉ a → 255 ∉ b → a ++ 255 :: x = b ++ 255 :: y → a = b ∧ x = y
  | [], [], x, y, _, _, h => by simpa using h
  | [], q :: b, x, y, _, hb, h => by
    simp only [List.nil_append, List.cons_append, List.cons.injEq] at h
    exact absurd (by simp [← h.1]) hb
  | p :: a, [], x, y, ha, _, h => by
    simp only [List.nil_append, List.cons_append, List.cons.injEq] at h
    exact absurd (by simp [h.1]) ha
  | p :: a, q :: b, x, y, ha, hb, h => by
    simp only [List.cons_append, List.cons.injEq] at h
    obtain ⟨h1, h2⟩ := split_at_ff a b x y (fun m => ha (by simp [m])) (fun m => hb (by simp [m])) h.2
    exact ⟨by rw [h.1, h1], h2⟩

def FrameLike (r : List Nat) : Prop := r = [] ∨ ∃ t, r = 255 :: t

theorem split_tail : ∀ (c c' r r' : List Nat), 255 ∉ c → 255 ∉ c' → FrameLike r → FrameLike r' →
    c ++ r = c' ++ r' → c = c' ∧ r = r'
  | [], [], r, r', _, _, _, _, h => by simpa using h
  | [], q :: c', r, r', _, hc', hr, _, h => by
    simp only [List.nil_append, List.cons_append] at h
    rcases hr with rfl | ⟨t, rfl⟩
    · simp at h
    · simp only [List.cons.injEq] at h
      exact absurd (by simp [← h.1]) hc'
  | p :: c, [], r, r', hc, _, _, hr', h => by
    simp only [List.nil_append, List.cons_append] at h
    rcases hr' with rfl | ⟨t, rfl⟩
    · simp at h
    · simp only [List.cons.injEq] at h
      exact absurd (by simp [h.1]) hc
  | p :: c, q :: c', r, r', hc, hc', hr, hr', h => by
    simp only [List.cons_append, List.cons.injEq] at h
    obtain ⟨h1, h2⟩ := split_tail c c' r r' (fun m => hc (by simp [m])) (fun m => hc' (by simp [m])) hr hr' h.2
    exact ⟨by rw [h.1, h1], h2⟩

theorem hashFrame_cons (f : List Nat × List Nat) (fs : List (List Nat × List Nat)) :
    hashFrame (f :: fs) = 255 :: (f.1 ++ 255 :: (f.2 ++ hashFrame fs)) := by
  simp [hashFrame, List.flatMap_cons]

theorem hashFrame_like (fs : List (List Nat × List Nat)) : FrameLike (hashFrame fs) := by
  cases fs with
  | nil => left; rfl
  | cons f fs => right; exact ⟨_, hashFrame_cons f fs⟩

/-- for text (no 0xff byte in paths and contents) the framing is injective: equal hash inputs come
    from equal lists of (path, content) -/
theorem hashFrame_injective : ∀ (fs gs : List (List Nat × List Nat)),
    (∀ f ∈ fs, 255 ∉ f.1 ∧ 255 ∉ f.2) → (∀ g ∈ gs, 255 ∉ g.1 ∧ 255 ∉ g.2) →
    hashFrame fs = hashFrame gs → fs = gs
  | [], [], _, _, _ => rfl
  | [], g :: gs, _, _, h => by rw [hashFrame_cons] at h; simp [hashFrame] at h
  | f :: fs, [], _, _, h => by rw [hashFrame_cons] at h; simp [hashFrame] at h
  | f :: fs, g :: gs, hf, hg, h => by
    rw [hashFrame_cons, hashFrame_cons] at h
    simp only [List.cons.injEq, true_and] at h
    obtain ⟨h1, h2⟩ := split_at_ff f.1 g.1 _ _ (hf f (by simp)).1 (hg g (by simp)).1 h
    obtain ⟨h3, h4⟩ := split_tail f.2 g.2 _ _ (hf f (by simp)).2 (hg g (by simp)).2
      (hashFrame_like fs) (hashFrame_like gs) h2
    have := hashFrame_injective fs gs (fun x hx => hf x (by simp [hx])) (fun x hx => hg x (by simp [hx])) h4
    rw [this]
    congr 1
    exact Prod.ext h1 h3

/-! ### the Watch loop: every change is followed by an apply within one watch interval -/

namespace Watch

/-- **bounded response**: in any run of the loop (timer armed no further than W ahead), if the loop
    is still running at some time ≥ τ (the process was not stopped), then an `apply` starts in
    `[τ, τ + W]`: whatever changed on disk up to τ is read by an apply at most one watch interval
    later — through the file watcher if it notified, through the timer if it did not. -/
theorem apply_within_interval (W : Nat) : ∀ (ws : List Wake) (now deadline τ : Nat),
    Valid W now deadline ws → deadline ≤ now + W → now ≤ τ → (∃ w ∈ ws, τ ≤ w.time) →
    ∃ t ∈ applies ws, τ ≤ t ∧ t ≤ τ + W := by
  intro ws
  induction ws with
  | nil => intro now d τ _ _ _ h; obtain ⟨w, hw, _⟩ := h; simp at hw
  | cons w ws ih =>
    intro now d τ hv hd hn hex
    obtain ⟨h1, h2, _, h4⟩ := hv
    by_cases hτ : τ ≤ w.time
    · exact ⟨w.time, by simp [applies], hτ, by omega⟩
    · obtain ⟨w', hw', hle⟩ := hex
      rcases List.mem_cons.mp hw' with rfl | hw'
      · exact absurd hle hτ
      · obtain ⟨t, ht, hb⟩ := ih w.time (w.time + W) τ h4 (Nat.le_refl _) (by omega) ⟨w', hw', hle⟩
        exact ⟨t, by simp only [applies, List.map_cons, List.mem_cons]; right; exact ht, hb⟩

/-- every wake-up is an apply: the loop never wakes without applying (no early `continue`/`return`
    between the select and the apply other than the cancelled context) -/
theorem one_apply_per_wake (ws : List Wake) : (applies ws).length = ws.length := by simp [applies]

/-- consecutive applies are at most one watch interval apart -/
theorem applies_dense (W : Nat) : ∀ (ws : List Wake) (now deadline : Nat), Valid W now deadline ws →
    deadline ≤ now + W → (applies ws).Pairwise (· ≤ ·) ∧ ∀ t ∈ (applies ws).head?, t ≤ now + W := by
  intro ws
  induction ws with
  | nil => intro _ _ _ _; simp [applies]
  | cons w ws ih =>
    intro now d hv hd
    obtain ⟨h1, h2, _, h4⟩ := hv
    obtain ⟨p, _⟩ := ih w.time (w.time + W) h4 (Nat.le_refl _)
    refine ⟨?_, by simp [applies]; omega⟩
    simp only [applies, List.map_cons, List.pairwise_cons]
    refine ⟨?_, p⟩
    intro t ht
    -- every later wake is no earlier than this one
    clear p ih
    have : ∀ (ws : List Wake) (n d' : Nat), Valid W n d' ws → ∀ t ∈ ws.map (·.time), n ≤ t := by
      intro ws
      induction ws with
      | nil => intro _ _ _ t ht; simp at ht
      | cons v vs ihv =>
        intro n d' hv' t ht
        obtain ⟨g1, _, _, g4⟩ := hv'
        rcases List.mem_cons.mp ht with rfl | ht
        · exact g1
        · exact Nat.le_trans g1 (ihv v.time _ g4 t ht)
    exact this ws w.time _ h4 t ht

-- non-vacuity: W = 10, timer armed at 10; a notify at 3, the timer at 13, a notify at 20
example : Valid 10 0 10 [⟨3, .notify⟩, ⟨13, .tick⟩, ⟨20, .notify⟩] := by
  simp [Valid]
example : applies [⟨3, .notify⟩, ⟨13, .tick⟩, ⟨20, .notify⟩] = [3, 13, 20] := by decide

end Watch

/-- Regenerated obligations: the decision skeleton of the Watch loop — the select over the timer
    and the watcher, the only exit guarded by `ctx.Err() != nil`, then unconditionally: cancel, re-arm
    with `r.watchInterval`, `r.apply`, and `continue` on error (the loop of `Watch.Valid`) — and of
    the retry loop (call, return on success, otherwise wait for the stop channel or the tick). -/
theorem C47_watch_loop_fact : Thanos.Facts.reloaderWatchLoop =
    ["select{recv applyCtx.Done()|recv r.watcher.notify}", "if ctx.Err() != nil", "applyCancel()", "wg.Wait()",
     "return", "applyCancel()", "context.WithTimeout(ctx, r.watchInterval)",
     "if err := r.apply(applyCtx); err != nil", "r.apply(applyCtx)", "continue"] := by decide

theorem C47_retry_loop_fact : Thanos.Facts.retryLoop =
    ["if err = f(); err == nil", "f()", "return", "select{recv stopc|recv tick.C}", "return"] := by decide

/-- Regenerated obligations: whether the entries loop of `apply` tracks every output as soon as it
    is written (selects `Driver/Misc.lean: rlTrack`), and the condition under which `apply` does
    not reload (the one `apply` of the model tests). -/
theorem C47_track_fact : Thanos.Facts.reloaderTracksWrittenOutputs = "yes" := by decide
/-- Regenerated obligation: the three remembered hashes are written in exactly one place each —
    inside the retry closure of `apply`, after `r.triggerReload` returned without error — and
    nowhere else (not while the directories are walked, not in `New`): the model's `finish` commits
    them only on a successful reload, which is what `apply_last_cases` is about. -/
theorem C47_hash_assign_fact : Thanos.Facts.reloaderHashAssignments =
    ["closure after r.triggerReload: r.lastCfgHash = cfgHash",
     "closure after r.triggerReload: r.lastCfgDirsHash = cfgDirsHash",
     "closure after r.triggerReload: r.lastWatchedDirsHash = watchedDirsHash"] := by decide

theorem C47_noreload_fact : Thanos.Facts.reloaderNoReloadCond =
    "!r.forceReload && !cfgDirsChanged && bytes.Equal(r.lastCfgHash, cfgHash) && bytes.Equal(r.lastWatchedDirsHash, watchedDirsHash)" := rfl

-- non-vacuity: the first apply of a one-directory setup reloads once and records the content; a
-- second apply with the same files makes no request; a failed reload sets the retry flag; the
-- hypotheses of the theorems above hold on these
example : (apply wConf true {} (wSnap [wA])).2 = .ok 1 := by decide
example : LenInv {} (wSnap [wA]) := Or.inl rfl
example : lastOf (apply wConf true {} (wSnap [wA])).1 = contentOf wConf (wSnap [wA]) := by decide
example : (apply wConf true (apply wConf true {} (wSnap [wA])).1 (wSnap [wA])).2 = .ok 0 := by decide
example : (apply wConf true {} { wSnap [wA] with script := [false, false] }).1.force = true := by decide
example : (apply wConf true {} { wSnap [wA] with script := [false, false] }).2 = .ok 2 := by decide
example : (apply wConf true (runHistory wConf true {} [wSnap [wA], wSnap [wA, wB, wC]]) (wSnap [wA])).1.out
    = [(Key.dir 0 "a", "x")] := by decide
example : (apply wConf false (runHistory wConf false {} [wSnap [wA], wSnap [wA, wB, wC]]) (wSnap [wA])).1.out
    = [(Key.dir 0 "a", "x"), (Key.dir 0 "b", "y")] := by decide
example : (expandEnv (lookupEnv [("A", "1")]) false "x$(A)$(").toOption = some "x1$(" := by decide
example : (expandEnv (lookupEnv []) false "x$(A)").toOption = none := by decide
example : (expandEnv (lookupEnv []) true "x$(A)").toOption = some "x$(A)" := by decide

end Thanos.Reloader
