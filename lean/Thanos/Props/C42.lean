import Thanos.Model.ResultsCache
import Thanos.Lemmas.ResultsCache
import Thanos.Generated.Facts
/-
  C42 — The results cache never changes query results.

  `history cfg D align splitMs [] reqs` (Model/ResultsCache.lean) is the chain StepAlign →
  SplitByInterval → results cache → downstream `D` run on a history of range requests against
  one fresh cache.  `cfg` selects the code before (`false`) / after (`true`) each of the two
  repairs made for this property (`minAll`: minTime over all series; `gridFix`: partition stays
  on the request's grid after a lower-step extent).
-/
namespace Thanos.ResultsCache

/-- C42 at full strength for the code variant `cfg`: every response of every history of
    step-aligned requests (any steps, any split interval, any data) is the direct answer. -/
def C42_full (cfg : Cfg) : Prop :=
  ∀ (D : Down) (splitMs : Int) (reqs : List Req), D.Sorted → 0 < splitMs → (∀ r ∈ reqs, Aligned r) →
    history cfg D true splitMs [] reqs = reqs.map fun r => some (evalD D r.start r.stop r.step)

/-- F42b witness: series 0 appears at 7800000, series 1 is always there -/
def dLate : Down :=
  { ids := [0, 1], f := fun id t => if id = 0 then (if t ≥ 7800000 then some 7 else none) else some 9 }

/-- F42a witness: one series, value = timestamp in seconds -/
def dLin : Down := { ids := [0], f := fun _ t => some (t / 1000) }

/-- F42b: with `minTime()` looking at the first series only, the fetched part [7200000, 7800000]
    (whose first series starts at 7800000) ties with the cached extent [7800000, 8400000], the
    stable sort keeps "cached, fetched" and `matrixMerge` drops series 1's sample at 7200000. -/
theorem C42_minFirst_false : ¬ C42_full ⟨false, true⟩ := by
  intro h
  have := h dLate 86400000 [⟨7800000, 8400000, 600000⟩, ⟨7200000, 8400000, 600000⟩]
    (by simp [Down.Sorted, dLate, dLin]) (by decide) (by intro r hr; simp at hr; rcases hr with rfl | rfl <;> (unfold Aligned; decide))
  revert this
  decide

/-- F42a: answering a 60 s request from an extent cached under 30 s that ends at 90000 continues
    at 90000: the rest is evaluated at 90000, 150000, 210000 instead of 120000, 180000, 240000. -/
theorem C42_noGridFix_false : ¬ C42_full ⟨true, false⟩ := by
  intro h
  have := h dLin 86400000 [⟨0, 90000, 30000⟩, ⟨0, 240000, 60000⟩]
    (by simp [Down.Sorted, dLate, dLin]) (by decide) (by intro r hr; simp at hr; rcases hr with rfl | rfl <;> (unfold Aligned; decide))
  revert this
  decide

/-- the repaired code answers both witness histories exactly -/
example : history ⟨true, true⟩ dLate true 86400000 []
      [⟨7800000, 8400000, 600000⟩, ⟨7200000, 8400000, 600000⟩] =
    [some (evalD dLate 7800000 8400000 600000), some (evalD dLate 7200000 8400000 600000)] := by decide
example : history ⟨true, true⟩ dLin true 86400000 [] [⟨0, 90000, 30000⟩, ⟨0, 240000, 60000⟩] =
    [some (evalD dLin 0 90000 30000), some (evalD dLin 0 240000 60000)] := by decide


/-! ### MergeResponse after the repair: exact for coherent responses in any order -/

/-- **matrixMerge_spec / MergeResponse ordering.**  Responses that are restrictions of one and
    the same data to their time ranges (`Coherent`: distinct series, ascending non-empty streams,
    samples inside the range, and a sample lying in another response's range is in that
    response) — whatever their number, input order or overlaps: `MergeResponse` with the repaired
    `minTime()` returns a canonical matrix in which every series has exactly the samples of all
    responses, each once, ascending.  (With the first-series `minTime()` this is false:
    `C42_minFirst_false`.) -/
theorem C42_mergeResponse (ps : List Piece) (h : Coherent ps) :
    Canon (mergeResponse true (ps.map (·.m))) ∧
    ∀ id, Asc (look (mergeResponse true (ps.map (·.m))) id) ∧
      ∀ x, x ∈ look (mergeResponse true (ps.map (·.m))) id ↔ ∃ p ∈ ps, x ∈ look p.m id :=
  mergeResponse_spec ps h


/-! ### the whole chain on histories of one step -/

/-- **C42_step** (one request, same-step cache): if every key of the cache is for the request's
    step and every cached extent holds exactly the downstream's data (`GoodCache`), the chain
    StepAlign → SplitByInterval → results cache (hit with any number of extents, partial hits,
    tiny extents, misses) → MergeResponse answers with the direct answer to the step-aligned
    request and leaves a good cache. -/
theorem C42_step (g : Bool) (env : Env) (D : Down) (hD : D.Sorted) (splitMs : Int) (hsp : 0 < splitMs) (c : Cache) (req : Req)
    (hstep : 0 < req.step) (h0 : 0 ≤ req.start) (hle : req.start ≤ req.stop) (hc : GoodCache D req.step c) :
    ∃ c', frontend ⟨true, g⟩ env D true splitMs c req =
        some (evalD D (req.start / req.step * req.step) (req.stop / req.step * req.step) req.step, c') ∧
      GoodCache D req.step c' :=
  frontend_spec g env D hD splitMs hsp c req hstep h0 hle hc

theorem historyE_same_step (g : Bool) (D : Down) (hD : D.Sorted) (splitMs : Int) (hsp : 0 < splitMs) (st : Int) (hst : 0 < st) :
    ∀ (steps : List Step) (c : Cache), GoodCache D st c →
      (∀ s ∈ steps, s.req.step = st ∧ 0 ≤ s.req.start ∧ s.req.start ≤ s.req.stop) →
      historyE ⟨true, g⟩ D true splitMs c steps =
        steps.map fun s => some (evalD D (s.req.start / st * st) (s.req.stop / st * st) st)
  | [], _, _, _ => rfl
  | s :: rs, c, hc, hr => by
    obtain ⟨h1, h2, h3⟩ := hr s (by simp)
    have hc0 : GoodCache D st (evict s.lose c) := fun kv hkv => hc kv (List.mem_filter.mp hkv).1
    obtain ⟨c', hf, hc'⟩ := C42_step g s.env D hD splitMs hsp _ s.req (h1 ▸ hst) h2 h3 (h1 ▸ hc0)
    unfold historyE
    simp only
    rw [hf]
    simp only [List.map_cons]
    rw [historyE_same_step g D hD splitMs hsp st hst rs c' (h1 ▸ hc') (fun r' hr' => hr r' (List.mem_cons_of_mem _ hr'))]
    simp [h1]

/-- **C42 for histories that use one step** (any step, any split interval, any number of
    requests, aligned or not — StepAlign is on —, overlapping / adjacent / disjoint / repeated
    ranges, any data): every response of the repaired chain is the direct answer to the
    step-aligned request. -/
theorem C42_same_step (g : Bool) (D : Down) (hD : D.Sorted) (splitMs : Int) (hsp : 0 < splitMs) (st : Int) (hst : 0 < st)
    (reqs : List Req) (hr : ∀ r ∈ reqs, r.step = st ∧ 0 ≤ r.start ∧ r.start ≤ r.stop) :
    history ⟨true, g⟩ D true splitMs [] reqs =
      reqs.map fun r => some (evalD D (r.start / st * st) (r.stop / st * st) st) :=
  by
  unfold history
  rw [historyE_same_step g D hD splitMs hsp st hst _ [] (by intro kv hkv; simp at hkv) (by
    intro s hs
    obtain ⟨r, hr', rfl⟩ := List.mem_map.mp hs
    exact hr r hr')]
  simp [List.map_map, Function.comp_def]

-- non-vacuity: a three-request history (hit, extension to the right, front piece) meets the hypotheses
example : ∀ r ∈ [(⟨7800000, 8400000, 600000⟩ : Req), ⟨7200000, 9000000, 600000⟩, ⟨6000000, 7800000, 600000⟩],
    r.step = 600000 ∧ 0 ≤ r.start ∧ r.start ≤ r.stop := by
  intro r hr; simp at hr; rcases hr with rfl | rfl | rfl <;> decide


/-! ### the whole chain on arbitrary histories (the repaired code) -/

/-- **C42_alt_step**: a request answered from extents cached under a smaller common step `s'`
    that divides its step (alternative cache keys) gets the direct answer — this needs the grid
    repair (`C42_noGridFix_false`). -/
theorem C42_alt_step (env : Env) (D : Down) (hD : D.Sorted) (req : Req) (hreq : Aligned req) (s' : Int) (hs' : 0 < s')
    (hdvd : req.step % s' = 0) (exts : List Extent) (hgood : ∀ e ∈ exts, GoodExtent D s' e) :
    (handleHit ⟨true, true⟩ env D req exts true).1 = evalD D req.start req.stop req.step :=
  handleHit_resp_m env D hD req hreq s' hs' hdvd exts hgood

/-- **C42 for all histories**: any number of range requests with any positive steps (common
    steps that reuse lower-step extents and others), aligned or not (StepAlign is on), any
    ranges, any split interval, any data that does not change: every response of the repaired
    chain equals the direct answer to the step-aligned request. -/
theorem C42_history (D : Down) (hD : D.Sorted) (splitMs : Int) (hsp : 0 < splitMs) (reqs : List Req)
    (hr : ∀ r ∈ reqs, 0 < r.step ∧ 0 ≤ r.start ∧ r.start ≤ r.stop) :
    history ⟨true, true⟩ D true splitMs [] reqs =
      reqs.map fun r => some (evalD D (r.start / r.step * r.step) (r.stop / r.step * r.step) r.step) :=
  history_spec_m D hD splitMs hsp reqs [] (goodCacheM_nil D) hr


/-- **C42 with the run-time rules**: the same for histories in which every request comes with its
    own environment — any freshness cut-off `maxCacheTime` (requests in the fresh zone bypass the
    cache, extents are truncated by `filterRecentExtents`), any set of responses that
    `shouldCacheResponse` refuses to cache (`Cache-Control: no-store`, `@` beyond the end,
    negative offsets), and a cache that may lose all its entries before any request (eviction,
    restart).  Data that does not change is still the premise: the freshness rule exists because
    recent data does change. -/
theorem C42_history_env (D : Down) (hD : D.Sorted) (splitMs : Int) (hsp : 0 < splitMs) (steps : List Step)
    (hr : ∀ s ∈ steps, 0 < s.req.step ∧ 0 ≤ s.req.start ∧ s.req.start ≤ s.req.stop) :
    historyE ⟨true, true⟩ D true splitMs [] steps =
      steps.map fun s => some (evalD D (s.req.start / s.req.step * s.req.step) (s.req.stop / s.req.step * s.req.step) s.req.step) :=
  historyE_spec D hD splitMs hsp steps [] (goodCacheM_nil D) hr

-- non-vacuity: a request inside the fresh zone, an uncacheable response with a flush, and the loss of
-- single keys in one history
example : ∀ s ∈ [(⟨⟨1000000, fun _ => false⟩, fun _ => false, ⟨600000, 1200000, 60000⟩⟩ : Step),
      ⟨⟨1000000, fun r => r.start ≤ 660000 && 660000 ≤ r.stop⟩, fun _ => true, ⟨0, 900000, 60000⟩⟩,
      ⟨⟨1100000, fun _ => false⟩, fun k => k.idx % 2 == 0, ⟨1080000, 1200000, 60000⟩⟩],
    0 < s.req.step ∧ 0 ≤ s.req.start ∧ s.req.start ≤ s.req.stop := by
  intro s hs; simp at hs; rcases hs with rfl | rfl | rfl <;> decide

/-- **C42** at full strength holds for the repository as it is now (`liveCfg`, both repairs). -/
theorem C42 : C42_full ⟨true, true⟩ := by
  intro D splitMs reqs hD hsp hal
  rw [C42_history D hD splitMs hsp reqs (fun r hr => ⟨(hal r hr).1, (hal r hr).2.1, (hal r hr).2.2.1⟩)]
  apply List.map_congr_left
  intro r hr
  obtain ⟨h1, _, _, h4, h5⟩ := hal r hr
  rw [Int.ediv_mul_cancel (Int.dvd_of_emod_eq_zero h4), Int.ediv_mul_cancel (Int.dvd_of_emod_eq_zero h5)]

example : liveCfg = ⟨true, true⟩ := rfl

/-! ### regenerated obligations -/

/-- the variant the model driver runs (`liveCfg`) is the one the sources show: `minTime()` and the
    repaired `partition` (round down to the request's grid in matching-step mode), i.e. both flags `true` -/
theorem C42_fact_variant :
    liveCfg = ⟨true, true⟩ ∧
    Thanos.Facts.minTimeBody =
      ["minTs := int64(-1)",
       "update := func(ts int64) { if minTs == -1 { minTs = ts return } minTs = minInt64(minTs, ts) }",
       "for _, stream := range resp.Data.Result {",
       "if len(stream.Samples) > 0 {",
       "update(stream.Samples[0].TimestampMs)",
       "}",
       "if len(stream.Histograms) > 0 {",
       "update(stream.Histograms[0].Timestamp)",
       "}",
       "}",
       "return minTs"] ∧
    Thanos.Facts.partitionBody =
      ["var requests []Request",
       "var cachedResponses []Response",
       "start := req.GetStart()",
       "for _, extent := range extents {",
       "if extent.GetEnd() < start || extent.Start > req.GetEnd() {",
       "continue",
       "}",
       "if (req.GetStart() != req.GetEnd()) && (req.GetEnd()-req.GetStart() > s.minCacheExtent) && (extent.End-extent.Start < s.minCacheExtent) {",
       "continue",
       "}",
       "if start < extent.Start {",
       "r := req.WithStartEnd(start, extent.Start)",
       "requests = append(requests, r)",
       "}",
       "res, err := extent.toResponse()",
       "if err != nil {",
       "return nil, nil, err",
       "}",
       "cachedResponses = append(cachedResponses, s.extract(req, start, req.GetEnd(), res, stepExtraction))",
       "start = extent.End",
       "if stepExtraction == extractMatchingStep && req.GetStep() > 0 {",
       "start -= (start - req.GetStart()) % req.GetStep()",
       "}",
       "}",
       "if start < req.GetEnd() {",
       "r := req.WithStartEnd(start, req.GetEnd())",
       "requests = append(requests, r)",
       "}",
       "if req.GetStart() == req.GetEnd() && len(cachedResponses) == 0 {",
       "requests = append(requests, req)",
       "}",
       "return requests, cachedResponses, nil"] :=
  ⟨rfl, rfl, rfl⟩

theorem C42_fact_merge :
    Thanos.Facts.sliceSamplesBody =
      ["if len(samples) <= 0 || minTs < samples[0].TimestampMs {",
       "return samples",
       "}",
       "if len(samples) > 0 && minTs > samples[len(samples)-1].TimestampMs {",
       "return samples[len(samples):]",
       "}",
       "searchResult := sort.Search(len(samples), func(i int) bool { return samples[i].TimestampMs > minTs })",
       "return samples[searchResult:]"] ∧
    Thanos.Facts.atStepBody =
      ["if ts < start || ts > end {",
       "return false",
       "}",
       "return step <= 0 || (ts-start)%step == 0"] ∧
    Thanos.Facts.extentMergeConds =
      ["if accumulator.End+r.GetStep() < extents[i].Start {",
       "if accumulator.End >= extents[i].End {",
       "accumulator.End = extents[i].End"] :=
  ⟨rfl, rfl, rfl⟩

/-- StepAlign comes before SplitByInterval, the cache after both; the lower-step candidates are
    the common steps below the request's step that divide it, kept when they divide the start -/
theorem C42_fact_chain :
    Thanos.Facts.rangeMiddlewareOrder =
      ["NewLimitsMiddleware",
       "StepAlignMiddleware",
       "DownsampledMiddleware",
       "SplitByIntervalMiddleware",
       "PromQLShardingMiddleware",
       "NewResultsCacheMiddleware",
       "NewRetryMiddleware"] ∧
    Thanos.Facts.commonQueryStepsDecl =
      "[]int64{ (12 * time.Hour).Milliseconds(), (6 * time.Hour).Milliseconds(), (3 * time.Hour).Milliseconds(), (2 * time.Hour).Milliseconds(), time.Hour.Milliseconds(), (30 * time.Minute).Milliseconds(), (15 * time.Minute).Milliseconds(), (10 * time.Minute).Milliseconds(), (5 * time.Minute).Milliseconds(), (2 * time.Minute).Milliseconds(), time.Minute.Milliseconds(), (30 * time.Second).Milliseconds(), (20 * time.Second).Milliseconds(), (15 * time.Second).Milliseconds(), (10 * time.Second).Milliseconds(), (5 * time.Second).Milliseconds(), time.Second.Milliseconds(), }" ∧
    Thanos.Facts.lowerStepCandidatesBody =
      ["if !isCommonQueryStep(step) {",
       "return nil",
       "}",
       "candidates := make([]int64, 0, len(commonQuerySteps))",
       "for _, candidate := range commonQuerySteps {",
       "if candidate >= step || step%candidate != 0 {",
       "continue",
       "}",
       "candidates = append(candidates, candidate)",
       "}",
       "return candidates"] ∧
    Thanos.Facts.altKeysStepLines =
      ["steps := lowerStepCacheCandidates(tr.Step)",
       "if len(steps) == 0 {",
       "keys := make([]string, 0, len(steps))",
       "for _, step := range steps {",
       "if tr.Start%step != 0 {",
       "keys = append(keys, t.generateQueryRangeCacheKey(userID, tr, step, splitInterval, currentInterval))"] :=
  ⟨rfl, rfl, rfl, rfl⟩

/-- the run-time rules read as modelled by `Env`: the fresh-zone bypass `r.GetStart() > maxCacheTime`,
    write-back only after a primary hit or a miss, `filterRecentExtents` before `put`, and where
    `shouldCacheResponse` is consulted -/
theorem C42_fact_freshness :
    Thanos.Facts.doFreshnessLines =
      ["var ( key = s.splitter.GenerateCacheKey(tenant.JoinTenantIDs(tenantIDs), r) extents []Extent response Response writeBack = true )",
       "maxCacheTime := int64(model.Now().Add(-maxCacheFreshness))",
       "if r.GetStart() > maxCacheTime {",
       "response, extents, err = s.handleHit(ctx, r, cached, maxCacheTime, extractAnyStep)",
       "response, extents, err = s.handleHit(ctx, r, cached, maxCacheTime, extractMatchingStep)",
       "writeBack = false",
       "response, extents, err = s.handleMiss(ctx, r, maxCacheTime)",
       "if err == nil && writeBack && len(extents) > 0 {",
       "extents, err := s.filterRecentExtents(r, maxCacheFreshness, extents)",
       "s.put(ctx, key, extents)"] ∧
    Thanos.Facts.filterRecentBody =
      ["maxCacheTime := (int64(model.Now().Add(-maxCacheFreshness)) / req.GetStep()) * req.GetStep()",
       "for i := range extents {",
       "if extents[i].End > maxCacheTime {",
       "extents[i].End = maxCacheTime",
       "res, err := extents[i].toResponse()",
       "if err != nil {",
       "return nil, err",
       "}",
       "extracted := s.extractor.Extract(extents[i].Start, maxCacheTime, res)",
       "any, err := types.MarshalAny(extracted)",
       "if err != nil {",
       "return nil, err",
       "}",
       "extents[i].Response = any",
       "}",
       "}",
       "return extents, nil"] ∧
    Thanos.Facts.shouldCacheResponseUses =
      ["handleMiss: if !s.shouldCacheResponse(ctx, r, response, maxCacheTime) {",
       "handleHit: if !s.shouldCacheResponse(ctx, r, reqResp.Response, maxCacheTime) {"] :=
  ⟨rfl, rfl, rfl⟩

end Thanos.ResultsCache
