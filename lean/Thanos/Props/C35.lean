import Thanos.Model.Shipper
import Thanos.Lemmas.Shipper
import Thanos.Props.C28
import Thanos.Generated.Facts
/-
  C35 — The shipper uploads every eligible block completely, at least once.

  Model: Model/Shipper.lean (`Shipper.Sync` over the bucket model of C28).  For every set of
  local blocks (any number, levels, empty ones, any segment files), both settings of
  uploadCompacted / allowOutOfOrderUploads, every fault of every Sync — a crash budget (after k
  mutating bucket calls every call fails) and/or a transient failure (exactly the j-th bucket call
  fails, the others pass) — and every history of Syncs and losses of the shipper file:

   * `C35_record_sound`  the invariant "bucket consistent (C28) ∧ every id in thanos.shipper.json
                         is visible — hence complete — in the bucket" survives every Sync, crashed
                         anywhere; `C35_history` lifts it to all histories;
   * `C35_complete`      a Sync that returns nil leaves every eligible local block recorded and
                         complete in the bucket;
   * `C35_labels`        … with a label version that the labels callback returned DURING that Sync (when
                         the block's upload began), or — for a block that was already in the bucket —
                         the version its meta.json already carried; `C35_labels_const`, `history_labelsOK`;
   * `C35_progress_all`  after any history, a crash-free Sync over pairwise non-overlapping local
                         blocks returns nil, in every configuration (the overlap check included);
                         `C35_progress`: without the overlap check (`allowOutOfOrderUploads` or no
                         compacted uploads) from any state whatsoever, overlapping blocks or not.
-/
namespace Thanos.Shipper
open Thanos.Bucket

/-- the loop invariant of `Sync` -/
structure LoopInv (w : Nat → Block) (hasUploaded : List Nat) (a : Acc) : Prop where
  good : Good w a.bkt
  up : ∀ id ∈ a.uploaded, Visible a.bkt id
  has : ∀ id ∈ hasUploaded, Visible a.bkt id

theorem doUpload_inv {locals : List LBlock} (hl : LocalsOK locals) {hasU : List Nat} (cfg : Cfg)
    {b : LBlock} (hb : b ∈ locals) {a : Acc} (chk : Option (List (Int × Int))) (f : Fault)
    (h : LoopInv (worldOf locals) hasU a) : LoopInv (worldOf locals) hasU (doUpload cfg b a chk f).acc := by
  have hw := wf_worldOf hl
  have hgood : Good (worldOf locals) (uploadF f b.id b.files a.bkt).1.bkt := by
    have := good_uploadF hw f b.id a.bkt h.good
    rwa [worldOf_mem hl.1 hb] at this
  have hkeep : ∀ id, Visible a.bkt id → Visible (uploadF f b.id b.files a.bkt).1.bkt id :=
    fun id hv => upload_keeps _ _ _ _ _ hv
  unfold doUpload
  simp only
  split
  · rename_i hok
    refine ⟨hgood, ?_, fun id hid => hkeep id (h.has id hid)⟩
    intro id hid
    simp only [Step.acc, List.mem_append, List.mem_singleton] at hid
    rcases hid with hid | rfl
    · exact hkeep id (h.up id hid)
    · exact upload_ok_visible _ _ _ _ hok
  · split
    · exact ⟨hgood, fun id hid => hkeep id (h.up id hid), fun id hid => hkeep id (h.has id hid)⟩
    · exact ⟨hgood, fun id hid => hkeep id (h.up id hid), fun id hid => hkeep id (h.has id hid)⟩

theorem step_inv {locals : List LBlock} (hl : LocalsOK locals) {hasU : List Nat} (cfg : Cfg)
    {b : LBlock} (hb : b ∈ locals) {a : Acc} (h : LoopInv (worldOf locals) hasU a) :
    LoopInv (worldOf locals) hasU (stepBlock cfg locals hasU b a).acc := by
  unfold stepBlock
  split
  · rename_i hc
    refine ⟨h.good, ?_, h.has⟩
    intro id hid
    simp only [Step.acc, List.mem_append, List.mem_singleton] at hid
    rcases hid with hid | rfl
    · exact h.up id hid
    · exact h.has _ (by simpa using hc)
  · split
    · exact h
    · split
      · exact h
      · split
        · exact ⟨h.good, h.up, h.has⟩
        · simp only
          split
          · rename_i hex
            refine ⟨h.good, ?_, h.has⟩
            intro id hid
            simp only [Step.acc, List.mem_append, List.mem_singleton] at hid
            rcases hid with hid | rfl
            · exact h.up id hid
            · exact hex
          · split
            · exact ⟨h.good, h.up, h.has⟩
            · exact doUpload_inv hl cfg hb _ _ ⟨h.good, h.up, h.has⟩

theorem loop_inv {locals : List LBlock} (hl : LocalsOK locals) {hasU : List Nat} (cfg : Cfg) :
    ∀ (bs : List LBlock) (a : Acc), (∀ b ∈ bs, b ∈ locals) → LoopInv (worldOf locals) hasU a →
      LoopInv (worldOf locals) hasU (loop cfg locals hasU bs a).acc
  | [], a, _, h => h
  | b :: rest, a, hbs, h => by
    have hs := step_inv hl cfg (hbs b (by simp)) h
    unfold loop
    cases hstep : stepBlock cfg locals hasU b a with
    | abort a' => simpa [hstep, Step.acc] using hs
    | cont a' =>
      simp only
      exact loop_inv hl cfg rest a' (fun b hb => hbs b (List.mem_cons_of_mem _ hb)) (by simpa [hstep, Step.acc] using hs)

/-- the state invariant: the bucket is consistent (C28) and whatever the shipper file lists is
    visible in the bucket (hence complete, by `Good.complete`) -/
def Sound (locals : List LBlock) (st : State) : Prop :=
  Good (worldOf locals) st.bkt ∧ ∀ id ∈ st.file.getD [], Visible st.bkt id

/-- **C35 (record soundness)**: one Sync, cut anywhere, keeps the invariant. -/
theorem C35_record_sound {locals : List LBlock} (hl : LocalsOK locals) (cfg : Cfg) (k : Fault)
    (st : State) (h : Sound locals st) : Sound locals (sync cfg locals k st).st := by
  have hinv := loop_inv hl (hasU := st.file.getD []) cfg locals ⟨k, st.bkt, [], none, 0, [], st.lbl⟩ (fun _ hb => hb)
    ⟨h.1, by intro id hid; simp at hid, h.2⟩
  unfold sync
  simp only
  cases hloop : loop cfg locals (st.file.getD []) locals ⟨k, st.bkt, [], none, 0, [], st.lbl⟩ with
  | abort a =>
    rw [hloop] at hinv
    exact ⟨hinv.good, hinv.has⟩
  | cont a =>
    rw [hloop] at hinv
    exact ⟨hinv.good, by simpa [Step.acc] using hinv.up⟩

/-- histories: Syncs under any fault (crash budget / transient failure), each with its own flags and
    external labels (`Cfg`), and losses of the shipper file, from scratch -/
inductive History (locals : List LBlock) : State → Prop where
  | init : History locals ⟨[], none, []⟩
  | sync (st cfg k) : History locals st → History locals (sync cfg locals k st).st
  | lostFile (st) : History locals st → History locals ⟨st.bkt, none, st.lbl⟩

theorem history_sound {locals : List LBlock} (hl : LocalsOK locals) {st : State}
    (h : History locals st) : Sound locals st := by
  induction h with
  | init => exact ⟨good_empty _, by simp⟩
  | sync st cfg k _ ih => exact C35_record_sound hl cfg k st ih
  | lostFile st _ ih => exact ⟨ih.1, by simp⟩

/-- **C35 (never records an incomplete block)**: in every state of every history, every block
    listed in thanos.shipper.json has its meta.json and all files it lists in the bucket. -/
theorem C35_history {locals : List LBlock} (hl : LocalsOK locals) {st : State}
    (h : History locals st) (id : Nat) (hid : id ∈ st.file.getD []) : Complete st.bkt id :=
  let hs := history_sound hl h
  hs.1.complete id (hs.2 id hid)

-- ---------------------------------------------------------------- completeness of an ok Sync

theorem doUpload_acct (cfg : Cfg) (b : LBlock) (a : Acc) (chk : Option (List (Int × Int))) (f : Fault) (a' : Acc)
    (h : doUpload cfg b a chk f = .cont a') :
    a.uploadErrs ≤ a'.uploadErrs ∧ (∀ id ∈ a.uploaded, id ∈ a'.uploaded) ∧
      (a'.uploadErrs = a.uploadErrs → b.id ∈ a'.uploaded) := by
  unfold doUpload at h
  simp only at h
  split at h
  · cases h
    exact ⟨Nat.le_refl _, fun id hid => List.mem_append_left _ hid, fun _ => by simp⟩
  · split at h
    · cases h
    · cases h
      exact ⟨Nat.le_succ _, fun id hid => hid, fun e => absurd e (Nat.succ_ne_self _)⟩

theorem step_acct (cfg : Cfg) (locals : List LBlock) (hasU : List Nat) (b : LBlock) (a a' : Acc)
    (h : stepBlock cfg locals hasU b a = .cont a') :
    a.uploadErrs ≤ a'.uploadErrs ∧ (∀ id ∈ a.uploaded, id ∈ a'.uploaded) ∧
      (a'.uploadErrs = a.uploadErrs → eligible cfg b = true → b.id ∈ a'.uploaded) := by
  unfold stepBlock at h
  split at h
  · cases h
    exact ⟨Nat.le_refl _, fun id hid => List.mem_append_left _ hid, fun _ _ => by simp⟩
  · split at h
    · rename_i hs
      cases h
      exact ⟨Nat.le_refl _, fun id hid => hid, fun _ he => by simp [eligible, hs] at he⟩
    · split at h
      · rename_i hlv
        cases h
        refine ⟨Nat.le_refl _, fun id hid => hid, fun _ he => ?_⟩
        simp only [eligible, Bool.and_eq_true, Bool.or_eq_true, decide_eq_true_eq] at he
        rcases he.2 with h1 | h1
        · omega
        · rw [hlv.2] at h1; cases h1
      · split at h
        · cases h
        · simp only at h
          split at h
          · cases h
            exact ⟨Nat.le_refl _, fun id hid => List.mem_append_left _ hid, fun _ _ => by simp⟩
          · split at h
            · cases h
            · obtain ⟨h1, h2, h3⟩ := doUpload_acct cfg b _ _ _ a' h
              exact ⟨h1, h2, fun e _ => h3 e⟩

theorem loop_acct (cfg : Cfg) (locals : List LBlock) (hasU : List Nat) : ∀ (bs : List LBlock) (a a' : Acc),
    loop cfg locals hasU bs a = .cont a' →
    a.uploadErrs ≤ a'.uploadErrs ∧ (∀ id ∈ a.uploaded, id ∈ a'.uploaded) ∧
      (a'.uploadErrs = a.uploadErrs → ∀ b ∈ bs, eligible cfg b = true → b.id ∈ a'.uploaded)
  | [], a, a', h => by
    simp only [loop] at h
    cases h
    exact ⟨Nat.le_refl _, fun _ h => h, fun _ b hb => by simp at hb⟩
  | b :: rest, a, a', h => by
    unfold loop at h
    cases hstep : stepBlock cfg locals hasU b a with
    | abort a1 => simp [hstep] at h
    | cont a1 =>
      simp only [hstep] at h
      obtain ⟨s1, s2, s3⟩ := step_acct cfg locals hasU b a a1 hstep
      obtain ⟨l1, l2, l3⟩ := loop_acct cfg locals hasU rest a1 a' h
      refine ⟨Nat.le_trans s1 l1, fun id hid => l2 id (s2 id hid), ?_⟩
      intro e b' hb' he
      have e1 : a1.uploadErrs = a.uploadErrs := by omega
      have e2 : a'.uploadErrs = a1.uploadErrs := by omega
      rcases List.mem_cons.mp hb' with rfl | hb''
      · exact l2 _ (s3 e1 he)
      · exact l3 e2 b' hb'' he

/-- **C35 (completeness)**: after a Sync that returned nil, every eligible local block is
    recorded in the shipper file and is complete in the bucket — whatever crashed before. -/
theorem C35_complete {locals : List LBlock} (hl : LocalsOK locals) (cfg : Cfg) (k : Fault)
    (st : State) (h : Sound locals st) (hok : (sync cfg locals k st).ok = true)
    (b : LBlock) (hb : b ∈ locals) (he : eligible cfg b = true) :
    b.id ∈ (sync cfg locals k st).st.file.getD [] ∧ Complete (sync cfg locals k st).st.bkt b.id := by
  have hsound := C35_record_sound hl cfg k st h
  suffices hrec : b.id ∈ (sync cfg locals k st).st.file.getD [] from
    ⟨hrec, hsound.1.complete _ (hsound.2 _ hrec)⟩
  unfold sync at hok ⊢
  simp only at hok ⊢
  cases hloop : loop cfg locals (st.file.getD []) locals ⟨k, st.bkt, [], none, 0, [], st.lbl⟩ with
  | abort a => simp [hloop] at hok
  | cont a =>
    simp only [hloop, decide_eq_true_eq] at hok ⊢
    obtain ⟨_, _, l3⟩ := loop_acct cfg locals _ locals _ a hloop
    simpa using l3 (by simpa using hok) b hb he

-- ---------------------------------------------------------------- progress

theorem doUpload_nofault (cfg : Cfg) (b : LBlock) (a : Acc) (chk : Option (List (Int × Int))) :
    ∃ a', doUpload cfg b a chk Fault.none = .cont a' ∧ a'.fault = Fault.none ∧ a'.uploadErrs = a.uploadErrs ∧
      a'.bkt = (uploadF Fault.none b.id b.files a.bkt).1.bkt ∧ a'.checker = chk := by
  unfold doUpload
  simp only [(uploadF_none _ _ _).1, (uploadF_none _ _ _).2, if_true]
  exact ⟨_, rfl, rfl, rfl, rfl, rfl⟩

/-- without the overlap check a fault-free step never aborts nor counts an upload error -/
theorem step_nofault (cfg : Cfg) (hcfg : cfg.allowOOO = true ∨ cfg.uploadCompacted = false)
    (locals : List LBlock) (hasU : List Nat) (b : LBlock) (a : Acc) (hb : a.fault = Fault.none) :
    ∃ a', stepBlock cfg locals hasU b a = .cont a' ∧ a'.fault = Fault.none ∧ a'.uploadErrs = a.uploadErrs := by
  unfold stepBlock
  split
  · exact ⟨_, rfl, hb, rfl⟩
  · split
    · exact ⟨_, rfl, hb, rfl⟩
    · split
      · exact ⟨_, rfl, hb, rfl⟩
      · rename_i hlv
        split
        · rename_i hc; simp [hb, fault_none_hit] at hc
        · simp only [hb, fault_none_pass]
          split
          · exact ⟨_, rfl, rfl, rfl⟩
          · have hchk : overlapCheck cfg locals b { a with fault := Fault.none } = some (a.checker, Fault.none) := by
              unfold overlapCheck
              split
              · rename_i hx
                rcases hcfg with h1 | h1
                · rw [h1] at hx; simp at hx
                · exact absurd ⟨hx.1, h1⟩ hlv
              · rfl
            simp only [hchk]
            obtain ⟨a', h1, h2, h3, _, _⟩ := doUpload_nofault cfg b { a with fault := Fault.none } a.checker
            exact ⟨a', h1, h2, h3⟩

theorem loop_nofault (cfg : Cfg) (hcfg : cfg.allowOOO = true ∨ cfg.uploadCompacted = false)
    (locals : List LBlock) (hasU : List Nat) : ∀ (bs : List LBlock) (a : Acc), a.fault = Fault.none →
    ∃ a', loop cfg locals hasU bs a = .cont a' ∧ a'.uploadErrs = a.uploadErrs
  | [], a, _ => ⟨a, rfl, rfl⟩
  | b :: rest, a, hb => by
    obtain ⟨a1, h1, h2, h3⟩ := step_nofault cfg hcfg locals hasU b a hb
    obtain ⟨a2, h4, h5⟩ := loop_nofault cfg hcfg locals hasU rest a1 h2
    exact ⟨a2, by simp [loop, h1, h4], by omega⟩

/-- **C35 (progress)**: with out-of-order uploads allowed, or without compacted uploads (the
    configurations that never run the overlap check), a fault-free Sync returns nil from ANY
    state — so after any history of crashes and transient failures it establishes `C35_complete`. -/
theorem C35_progress (cfg : Cfg) (hcfg : cfg.allowOOO = true ∨ cfg.uploadCompacted = false)
    (locals : List LBlock) (st : State) : (sync cfg locals Fault.none st).ok = true := by
  obtain ⟨a, h1, h2⟩ := loop_nofault cfg hcfg locals (st.file.getD []) locals ⟨Fault.none, st.bkt, [], none, 0, [], st.lbl⟩ rfl
  unfold sync
  simp only [h1]
  simpa using h2

-- ---------------------------------------------------------------- progress with the overlap check

theorem doUpload_keys {locals : List LBlock} (cfg : Cfg) {b : LBlock} (hb : b ∈ locals) (a : Acc)
    (chk : Option (List (Int × Int))) (f : Fault) (h : KeysLocal locals a.bkt) :
    KeysLocal locals (doUpload cfg b a chk f).acc.bkt := by
  have := keysLocal_upload hb f a.bkt h
  unfold doUpload
  simp only
  split
  · exact this
  · split <;> exact this

theorem step_keys {locals : List LBlock} (cfg : Cfg) (hasU : List Nat) {b : LBlock} (hb : b ∈ locals) (a : Acc)
    (h : KeysLocal locals a.bkt) : KeysLocal locals (stepBlock cfg locals hasU b a).acc.bkt := by
  unfold stepBlock
  split
  · exact h
  · split
    · exact h
    · split
      · exact h
      · split
        · exact h
        · simp only
          split
          · exact h
          · split
            · exact h
            · exact doUpload_keys cfg hb _ _ _ h

theorem loop_keys {locals : List LBlock} (cfg : Cfg) (hasU : List Nat) : ∀ (bs : List LBlock) (a : Acc),
    (∀ b ∈ bs, b ∈ locals) → KeysLocal locals a.bkt → KeysLocal locals (loop cfg locals hasU bs a).acc.bkt
  | [], a, _, h => h
  | b :: rest, a, hbs, h => by
    have hs := step_keys cfg hasU (hbs b (by simp)) a h
    unfold loop
    cases hstep : stepBlock cfg locals hasU b a with
    | abort a' => simpa [hstep, Step.acc] using hs
    | cont a' =>
      simp only
      exact loop_keys cfg hasU rest a' (fun b hb => hbs b (List.mem_cons_of_mem _ hb)) (by simpa [hstep, Step.acc] using hs)

theorem sync_keys {locals : List LBlock} (cfg : Cfg) (k : Fault) (st : State)
    (h : KeysLocal locals st.bkt) : KeysLocal locals (sync cfg locals k st).st.bkt := by
  have := loop_keys cfg (st.file.getD []) locals ⟨k, st.bkt, [], none, 0, [], st.lbl⟩ (fun _ hb => hb) h
  unfold sync
  simp only
  cases hloop : loop cfg locals (st.file.getD []) locals ⟨k, st.bkt, [], none, 0, [], st.lbl⟩ with
  | abort a => simpa [hloop, Step.acc] using this
  | cont a => simpa [hloop, Step.acc] using this

theorem history_keys {locals : List LBlock} {st : State} (h : History locals st) :
    KeysLocal locals st.bkt := by
  induction h with
  | init => intro p hp; simp at hp
  | sync st cfg k _ ih => exact sync_keys cfg k st ih
  | lostFile st _ ih => exact ih

/-- the invariant of a fault-free Sync over non-overlapping local blocks -/
structure ProgInv (locals : List LBlock) (a : Acc) : Prop where
  nofault : a.fault = Fault.none
  errs : a.uploadErrs = 0
  keys : KeysLocal locals a.bkt
  chk : ∀ ms, a.checker = some ms → LocalRanges locals ms

theorem overlapCheck_passes {locals : List LBlock} (hno : NoOverlap locals) (cfg : Cfg) {b : LBlock}
    (hb : b ∈ locals) {a : Acc} (h : ProgInv locals a) :
    ∃ c', overlapCheck cfg locals b a = some (c', Fault.none) ∧ ∀ ms, c' = some ms → LocalRanges locals ms := by
  have cons : ∀ ms, LocalRanges locals ms → overlapping ((b.minT, b.maxT) :: ms) = false := by
    intro ms hms
    apply not_overlapping_of_local hno
    intro r hr
    rcases List.mem_cons.mp hr with rfl | hr'
    · exact ⟨b, hb, rfl⟩
    · exact hms r hr'
  unfold overlapCheck
  split
  · cases hc : a.checker with
    | some ms =>
      have hms := h.chk ms hc
      simp only [cons ms hms, h.nofault]
      exact ⟨some ms, by simp, fun ms' e => by cases e; exact hms⟩
    | none =>
      obtain ⟨rs, this, hl⟩ := checkerSyncL_some (lbl := a.lbl) (cur := labelNow cfg a.trace.length) h.keys
      have hp : a.fault.passReads (1 + (dirsOf a.bkt).length) = some Fault.none := by
        rw [h.nofault]; rfl
      simp only [hp, this, cons rs hl]
      exact ⟨some rs, by simp, fun ms' e => by cases e; exact hl⟩
  · exact ⟨a.checker, by rw [h.nofault], h.chk⟩

theorem step_progress {locals : List LBlock} (hno : NoOverlap locals) (cfg : Cfg) (hasU : List Nat)
    {b : LBlock} (hb : b ∈ locals) {a : Acc} (h : ProgInv locals a) :
    ∃ a', stepBlock cfg locals hasU b a = .cont a' ∧ ProgInv locals a' := by
  unfold stepBlock
  split
  · exact ⟨_, rfl, ⟨h.nofault, h.errs, h.keys, h.chk⟩⟩
  · split
    · exact ⟨_, rfl, h⟩
    · split
      · exact ⟨_, rfl, h⟩
      · split
        · rename_i hc; simp [h.nofault, fault_none_hit] at hc
        · simp only [h.nofault, fault_none_pass]
          split
          · exact ⟨_, rfl, ⟨rfl, h.errs, h.keys, h.chk⟩⟩
          · have h1 : ProgInv locals { a with fault := Fault.none } := ⟨rfl, h.errs, h.keys, h.chk⟩
            obtain ⟨c', hc', hl⟩ := overlapCheck_passes hno cfg hb h1
            simp only [hc']
            obtain ⟨a', e1, e2, e3, e4, e5⟩ := doUpload_nofault cfg b { a with fault := Fault.none } c'
            refine ⟨a', e1, ⟨e2, by rw [e3]; exact h.errs, ?_, by rw [e5]; exact hl⟩⟩
            rw [e4]
            exact keysLocal_upload hb Fault.none a.bkt h.keys

theorem loop_progress {locals : List LBlock} (hno : NoOverlap locals) (cfg : Cfg) (hasU : List Nat) :
    ∀ (bs : List LBlock) (a : Acc), (∀ b ∈ bs, b ∈ locals) → ProgInv locals a →
    ∃ a', loop cfg locals hasU bs a = .cont a' ∧ ProgInv locals a'
  | [], a, _, h => ⟨a, rfl, h⟩
  | b :: rest, a, hbs, h => by
    obtain ⟨a1, h1, p1⟩ := step_progress hno cfg hasU (hbs b (by simp)) h
    obtain ⟨a2, h2, p2⟩ := loop_progress hno cfg hasU rest a1 (fun b hb => hbs b (List.mem_cons_of_mem _ hb)) p1
    exact ⟨a2, by simp [loop, h1, h2], p2⟩

/-- Full-strength progress statement (every configuration, overlap check included). -/
def C35_progress_full : Prop :=
  ∀ (cfg : Cfg) (locals : List LBlock), NoOverlap locals →
    ∀ st, History locals st → (sync cfg locals Fault.none st).ok = true

/-- **C35 (progress, every configuration)**: if no two local blocks overlap in time, then after
    ANY history of crashed or transiently failed Syncs and lost shipper files a fault-free Sync returns nil (and so,
    by `C35_complete`, leaves every eligible block recorded and complete).  This is the theorem
    that was false before the repair of the overlap checker (`C35_wedge_before_repair`). -/
theorem C35_progress_all : C35_progress_full := by
  intro cfg locals hno st hist
  have hk := history_keys hist
  obtain ⟨a, h1, p⟩ := loop_progress hno cfg (st.file.getD []) locals ⟨Fault.none, st.bkt, [], none, 0, [], st.lbl⟩
    (fun _ hb => hb) ⟨rfl, rfl, hk, by intro ms h; cases h⟩
  unfold sync
  simp only [h1]
  simpa using p.errs

-- ---------------------------------------------------------------- external labels

theorem lookupL_cons (i v : Nat) (m : List (Nat × Nat)) (id' : Nat) :
    lookupL ((i, v) :: m) id' = if i = id' then some v else lookupL m id' := by
  unfold lookupL
  by_cases e : i = id' <;> simp only [List.find?_cons, e, decide_true, decide_false, if_true, if_false, Option.map_some]

theorem lookupL_filter_ne (id id' : Nat) (h : id' ≠ id) : ∀ m : List (Nat × Nat),
    lookupL (m.filter (·.1 ≠ id)) id' = lookupL m id'
  | [] => rfl
  | (i, v) :: m => by
    have ih := lookupL_filter_ne id id' h m
    by_cases e : i = id
    · have hf : ((i, v) :: m).filter (·.1 ≠ id) = m.filter (·.1 ≠ id) := by
        simp only [List.filter_cons, e, ne_eq, not_true_eq_false, decide_false, Bool.false_eq_true, if_false]
      have : ¬ i = id' := fun e' => h (by rw [← e', e])
      rw [hf, ih, lookupL_cons, if_neg this]
    · have hf : ((i, v) :: m).filter (·.1 ≠ id) = (i, v) :: m.filter (·.1 ≠ id) := by
        simp only [List.filter_cons, e, ne_eq, not_false_eq_true, decide_true, if_true]
      rw [hf, lookupL_cons, lookupL_cons, ih]

theorem lookupL_setL (m : List (Nat × Nat)) (id v id' : Nat) :
    lookupL (setL m id v) id' = if id' = id then some v else lookupL m id' := by
  unfold setL
  rw [lookupL_cons]
  by_cases h : id' = id
  · simp [h]
  · have : ¬ id = id' := fun e => h e.symm
    simp only [this, h, if_false]
    exact lookupL_filter_ne id id' h m

/-- relation between the state at the start of a Sync (`st0`) and the loop state: visibility only
    grows, and the label recorded for a visible block is either untouched (the block was visible
    before: the shipper does not re-upload it) or a value the labels callback had during this Sync -/
structure LblInv (st0 : State) (cfg : Cfg) (a : Acc) : Prop where
  mono : ∀ id, Visible st0.bkt id → Visible a.bkt id
  lab : ∀ id, Visible a.bkt id →
    (Visible st0.bkt id ∧ lookupL a.lbl id = lookupL st0.lbl id) ∨ ∃ n, lookupL a.lbl id = some (labelNow cfg n)

theorem chunk_names_ne_meta {locals : List LBlock} (hl : LocalsOK locals) {b : LBlock} (hb : b ∈ locals) :
    ∀ p ∈ b.files.chunks, p.1 ≠ metaName := by
  intro p hp e
  have := (hl.2 b hb).2 p.1 p.2 (by simp [Block.files, hp])
  rw [e] at this
  exact this (by simp [reserved])

theorem doUpload_lbl {locals : List LBlock} (hl : LocalsOK locals) {st0 : State} (cfg : Cfg) {b : LBlock}
    (hb : b ∈ locals) {a : Acc} (chk : Option (List (Int × Int))) (f : Fault)
    (hinv : ¬ Visible a.bkt b.id) (h : LblInv st0 cfg a) : LblInv st0 cfg (doUpload cfg b a chk f).acc := by
  have hkeep : ∀ id, Visible a.bkt id → Visible (uploadF f b.id b.files a.bkt).1.bkt id :=
    fun id hv => upload_keeps _ _ _ _ _ hv
  have hother : ∀ id, id ≠ b.id → Visible (uploadF f b.id b.files a.bkt).1.bkt id → Visible a.bkt id := by
    intro id hne hv
    unfold Visible at hv ⊢
    rwa [uploadF_other f b.id b.files a.bkt id metaName hne] at hv
  unfold doUpload
  simp only
  split
  · refine ⟨fun id hv => hkeep id (h.mono id hv), ?_⟩
    intro id hv
    simp only [Step.acc] at hv ⊢
    rw [lookupL_setL]
    by_cases e : id = b.id
    · exact Or.inr ⟨a.trace.length, by simp [e]⟩
    · simp only [e, if_false]
      exact h.lab id (hother id e hv)
  · rename_i hfail
    have hfail' : (uploadF f b.id b.files a.bkt).1.ok = false := by simpa using hfail
    have hstill := uploadF_fail_invisible f b.id b.files a.bkt (chunk_names_ne_meta hl hb) hinv hfail'
    have hlab : ∀ id, Visible (uploadF f b.id b.files a.bkt).1.bkt id →
        (Visible st0.bkt id ∧ lookupL a.lbl id = lookupL st0.lbl id) ∨ ∃ n, lookupL a.lbl id = some (labelNow cfg n) := by
      intro id hv
      by_cases e : id = b.id
      · subst e; exact absurd hv hstill
      · exact h.lab id (hother id e hv)
    split
    · exact ⟨fun id hv => hkeep id (h.mono id hv), hlab⟩
    · exact ⟨fun id hv => hkeep id (h.mono id hv), hlab⟩

theorem step_lbl {locals : List LBlock} (hl : LocalsOK locals) {st0 : State} (cfg : Cfg) (hasU : List Nat)
    {b : LBlock} (hb : b ∈ locals) {a : Acc} (h : LblInv st0 cfg a) :
    LblInv st0 cfg (stepBlock cfg locals hasU b a).acc := by
  unfold stepBlock
  split
  · exact ⟨h.mono, h.lab⟩
  · split
    · exact h
    · split
      · exact h
      · split
        · exact ⟨h.mono, h.lab⟩
        · simp only
          split
          · exact ⟨h.mono, h.lab⟩
          · rename_i hnv
            split
            · exact ⟨h.mono, h.lab⟩
            · exact doUpload_lbl hl cfg hb _ _ (by simpa [Visible] using hnv) ⟨h.mono, h.lab⟩

theorem loop_lbl {locals : List LBlock} (hl : LocalsOK locals) {st0 : State} (cfg : Cfg) (hasU : List Nat) :
    ∀ (bs : List LBlock) (a : Acc), (∀ b ∈ bs, b ∈ locals) → LblInv st0 cfg a →
      LblInv st0 cfg (loop cfg locals hasU bs a).acc
  | [], a, _, h => h
  | b :: rest, a, hbs, h => by
    have hs := step_lbl hl cfg hasU (hbs b (by simp)) h
    unfold loop
    cases hstep : stepBlock cfg locals hasU b a with
    | abort a' => simpa [hstep, Step.acc] using hs
    | cont a' =>
      simp only
      exact loop_lbl hl cfg hasU rest a' (fun b hb => hbs b (List.mem_cons_of_mem _ hb)) (by simpa [hstep, Step.acc] using hs)

theorem sync_lbl {locals : List LBlock} (hl : LocalsOK locals) (cfg : Cfg) (k : Fault) (st : State) :
    (∀ id, Visible st.bkt id → Visible (sync cfg locals k st).st.bkt id) ∧
    ∀ id, Visible (sync cfg locals k st).st.bkt id →
      (Visible st.bkt id ∧ lookupL (sync cfg locals k st).st.lbl id = lookupL st.lbl id) ∨
      ∃ n, lookupL (sync cfg locals k st).st.lbl id = some (labelNow cfg n) := by
  have := loop_lbl hl (st0 := st) cfg (st.file.getD []) locals ⟨k, st.bkt, [], none, 0, [], st.lbl⟩ (fun _ hb => hb)
    ⟨fun _ hv => hv, fun id hv => Or.inl ⟨hv, rfl⟩⟩
  unfold sync
  simp only
  cases hloop : loop cfg locals (st.file.getD []) locals ⟨k, st.bkt, [], none, 0, [], st.lbl⟩ with
  | abort a => rw [hloop] at this; exact ⟨this.mono, this.lab⟩
  | cont a => rw [hloop] at this; exact ⟨this.mono, this.lab⟩

/-- every visible block has a recorded label version -/
def LabelsOK (st : State) : Prop := ∀ id, Visible st.bkt id → (lookupL st.lbl id).isSome = true

theorem labelsOK_sync {locals : List LBlock} (hl : LocalsOK locals) (cfg : Cfg) (k : Fault) (st : State)
    (h : LabelsOK st) : LabelsOK (sync cfg locals k st).st := by
  intro id hv
  rcases (sync_lbl hl cfg k st).2 id hv with ⟨hv0, e⟩ | ⟨n, e⟩
  · rw [e]; exact h id hv0
  · rw [e]; rfl

theorem history_labelsOK {locals : List LBlock} (hl : LocalsOK locals) {st : State} (h : History locals st) :
    LabelsOK st := by
  induction h with
  | init => intro id hv; simp [Visible, Bucket.get] at hv
  | sync st cfg k _ ih => exact labelsOK_sync hl cfg k st ih
  | lostFile st _ ih => exact ih

/-- **C35 (external labels)**: after a Sync that returned nil, every eligible local block is in the
    bucket with a label version `v` such that EITHER the block was already visible before this
    Sync and `v` is what its meta.json carried then (the shipper records it through the Exists
    check and never rewrites it), OR `v` is a value the labels callback returned during THIS Sync
    (`labelNow cfg n`: read when the block's upload began) — never a value from an earlier Sync. -/
theorem C35_labels {locals : List LBlock} (hl : LocalsOK locals) (cfg : Cfg) (k : Fault) (st : State)
    (hs : Sound locals st) (hlab : LabelsOK st) (hok : (sync cfg locals k st).ok = true)
    (b : LBlock) (hb : b ∈ locals) (he : eligible cfg b = true) :
    ∃ v, lookupL (sync cfg locals k st).st.lbl b.id = some v ∧
      ((Visible st.bkt b.id ∧ lookupL st.lbl b.id = some v) ∨ ∃ n, v = labelNow cfg n) := by
  obtain ⟨hrec, _⟩ := C35_complete hl cfg k st hs hok b hb he
  have hvis := (C35_record_sound hl cfg k st hs).2 b.id hrec
  rcases (sync_lbl hl cfg k st).2 b.id hvis with ⟨hv0, e⟩ | ⟨n, e⟩
  · have := hlab b.id hv0
    cases hl0 : lookupL st.lbl b.id with
    | none => simp [hl0] at this
    | some v => exact ⟨v, by rw [e, hl0], Or.inl ⟨hv0, rfl⟩⟩
  · exact ⟨_, e, Or.inr ⟨n, rfl⟩⟩

/-- with a constant callback value `v` during the Sync, a block that was not in the bucket before
    ends up with exactly `v` -/
theorem C35_labels_const {locals : List LBlock} (hl : LocalsOK locals) (cfg : Cfg) (hc : cfg.lswitch = none)
    (k : Fault) (st : State) (hs : Sound locals st) (hlab : LabelsOK st)
    (hok : (sync cfg locals k st).ok = true) (b : LBlock) (hb : b ∈ locals) (he : eligible cfg b = true)
    (hnew : ¬ Visible st.bkt b.id) : lookupL (sync cfg locals k st).st.lbl b.id = some cfg.lcur := by
  obtain ⟨v, hv, h | ⟨n, e⟩⟩ := C35_labels hl cfg k st hs hlab hok b hb he
  · exact absurd h.1 hnew
  · rw [hv, e]; simp [labelNow, hc]

-- ---------------------------------------------------------------- the defect that was repaired

/-- Before the repair (`skipPartial = false`) the overlap checker failed on the shipper's own
    partial upload: block 14 (level 2) crashed after its first chunk; the lazy sync of the checker
    then has no answer, so every later Sync aborted ("get all block meta … not found") and the
    block was never shipped.  With the repair the directory is skipped. -/
theorem C35_wedge_before_repair :
    let b : LBlock := ⟨14, 18000, 23000, 2, 19, ⟨[("chunks/000001", 72), ("chunks/000002", 99)], 298⟩⟩
    let s := (sync ⟨true, false, 1, none⟩ [b] ⟨some 1, none⟩ ⟨[], none, []⟩).st
    s.bkt ≠ [] ∧ s.file = none ∧
    checkerSyncWith false [b] s.bkt = none ∧ checkerSyncWith true [b] s.bkt = some [] ∧
    (sync ⟨true, false, 1, none⟩ [b] Fault.none s).ok = true := by decide

-- ---------------------------------------------------------------- regenerated facts

/-- `upload` asks the labels callback itself, every time; `Shipper` has no field that could hold a
    resolved copy; the overlap checker gets the callback too -/
theorem C35_fact_uploadLabels : Thanos.Facts.shipperUploadLabelsExpr = "lset := s.labels()" := by decide
theorem C35_fact_shipperFields : Thanos.Facts.shipperStructFields =
    ["logger", "dir", "metrics", "bucket", "source", "metadataFilePath", "uploadCompacted", "allowOutOfOrderUploads",
     "skipCorruptedBlocks", "hashFunc", "uploadConcurrency", "labels", "mtx"] := by decide
theorem C35_fact_checkerLabels :
    Thanos.Facts.shipperCheckerLabelsArg = "func() labels.Labels { return s.labels() }" := by decide

/-- the overlap checker skips a block directory whose meta.json does not exist -/
theorem C35_fact_checkerSkipsPartial :
    Thanos.Facts.shipperCheckerSkipsPartial =
      (if codeSkipPartial then "c.bucket.IsObjNotFoundErr(errors.Cause(err))" else "unknown") := by decide

/-- in `Sync`: the file is read first, per block Exists → overlap check → upload, file written after the loop -/
theorem C35_fact_syncOrder : Thanos.Facts.shipperSyncOrder =
    ["ReadMetaFile", "s.bucket.Exists", "checker.IsOverlapping", "s.upload", "WriteMetaFile"] := by decide
theorem C35_fact_uploadOrder : Thanos.Facts.shipperUploadOrder =
    ["hardlinkBlock", "meta.WriteToDir", "block.Upload"] := by decide
theorem C35_fact_blockUploadOrder : Thanos.Facts.uploadOrder = codeUploadOrder := by decide

-- ---------------------------------------------------------------- non-vacuity

def exLocals : List LBlock :=
  [⟨1, 0, 1000, 1, 10, ⟨[("chunks/000001", 12)], 40⟩⟩, ⟨2, 1000, 2000, 2, 10, ⟨[], 7⟩⟩, ⟨3, 2000, 3000, 1, 0, ⟨[], 7⟩⟩]

example : LocalsOK exLocals := by
  refine ⟨by decide, ?_⟩
  intro b hb
  simp only [exLocals, List.mem_cons, List.mem_nil_iff, or_false] at hb
  rcases hb with rfl | rfl | rfl <;> exact wfBlock_of_nodup _ (by decide) (by decide)

-- first Sync crashes after 2 of the 3 calls of block 1: nothing recorded, block 1 invisible;
-- the restart uploads both eligible blocks (block 3 is empty) and records them
example : (sync ⟨true, true, 1, none⟩ exLocals ⟨some 2, none⟩ ⟨[], none, []⟩).ok = false := by decide
example : (sync ⟨true, true, 1, none⟩ exLocals ⟨some 2, none⟩ ⟨[], none, []⟩).st.file = none := by decide
example : (sync ⟨true, true, 1, none⟩ exLocals Fault.none (sync ⟨true, true, 1, none⟩ exLocals ⟨some 2, none⟩ ⟨[], none, []⟩).st).st.file = some [1, 2] := by decide
example : (sync ⟨true, true, 1, none⟩ exLocals Fault.none (sync ⟨true, true, 1, none⟩ exLocals ⟨some 2, none⟩ ⟨[], none, []⟩).st).ok = true := by decide

-- the labels callback switches from version 1 to 7 after the 3 calls of block 1: block 1 carries 1, block 2 carries 7
example : (sync ⟨true, true, 1, some (3, 7)⟩ exLocals Fault.none ⟨[], none, []⟩).st.lbl = [(2, 7), (1, 1)] := by decide

-- a transient failure of the 2nd bucket call (the first chunk upload of block 1) with out-of-order uploads allowed:
-- the Sync goes on, ships block 2, WRITES the file without block 1 and reports an error; block 1 stays invisible
example : (sync ⟨true, true, 1, none⟩ exLocals ⟨none, some 1⟩ ⟨[], none, []⟩).ok = false := by decide
example : (sync ⟨true, true, 1, none⟩ exLocals ⟨none, some 1⟩ ⟨[], none, []⟩).st.file = some [2] := by decide
example : get (sync ⟨true, true, 1, none⟩ exLocals ⟨none, some 1⟩ ⟨[], none, []⟩).st.bkt (1, metaName) = none := by decide

end Thanos.Shipper
