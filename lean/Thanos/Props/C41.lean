import Thanos.Model.Split
import Thanos.Lemmas.Split
import Thanos.Generated.Facts
/-
  C41 — Splitting a query by interval evaluates every step exactly once.

  `split` / `splitLabels` / `nib` / `stepAlign` (Model/Split.lean) transliterate `splitQuery`,
  `nextIntervalBoundary` and `stepAlign.Do`.  All theorems are for every `Int` start/end (also
  negative, unaligned, start = end, end < start), every positive step and interval (also
  step > interval, step ∤ interval); no bound on the number of sub-requests.
-/
namespace Thanos.Split

/- `mem_grid`, `grid_nodup` (what the evaluation grid is) live in Lemmas/Split.lean. -/

/-! ### nextIntervalBoundary -/

/-- `nextIntervalBoundary(t, step, interval)` is at or after `t`, a whole number of steps away
    from it, before the boundary `B = (t/interval + 1)·interval`, and it is the last such point. -/
theorem C41_nib {t step iv : Int} (hs : 0 < step) (hi : 0 < iv) :
    ∃ e, nib t step iv = some e ∧ t ≤ e ∧ (e - t) % step = 0 ∧
      e < (t.tdiv iv + 1) * iv ∧ (t.tdiv iv + 1) * iv ≤ e + step := by
  obtain ⟨e, he⟩ := nib_some (t := t) hs hi
  exact ⟨e, he, nib_spec hs hi he⟩

example : nib 1700000003000 15000 3600000 = some 1700002793000 := by decide
example : nib (-7) 3 10 = some 8 := by decide          -- truncation: "next" boundary of −7 is 10
example : nib 5 13 10 = some 5 := by decide            -- step > interval: stays at t

/-! ### int64 -/

/-- every value `nextIntervalBoundary` computes on the way (and the `end + step` of the loop) -/
def nibIntermediates (t step iv : Int) : List Int :=
  let q := t.tdiv iv
  let sONI := (q + 1) * iv
  let r := (sONI - t).tmod step
  let target := sONI - r
  [q, q + 1, sONI, sONI - t, r, target, target - step, target + step, target - step + step]

/-- **no overflow**: for |t| < 2^61 and 0 < step, interval < 2^61 every intermediate value of
    `nextIntervalBoundary` and of the loop increment fits an int64, so the `Int` model and the
    `int64` code agree there. -/
theorem C41_no_overflow (t step iv : Int) (ht : -(2 ^ 61) < t ∧ t < 2 ^ 61) (hs : 0 < step ∧ step < 2 ^ 61)
    (hi : 0 < iv ∧ iv < 2 ^ 61) : ∀ x ∈ nibIntermediates t step iv, -(2 ^ 63) ≤ x ∧ x < 2 ^ 63 := by
  have hq := Int.mul_tdiv_add_tmod t iv
  have hr1 := Int.tmod_lt_of_pos t hi.1
  have hr2 : -iv < t.tmod iv := by
    rcases Int.lt_or_le t 0 with hneg | hpos
    · have := Int.tmod_lt_of_pos (-t) hi.1
      rw [Int.neg_tmod] at this; omega
    · have := Int.tmod_nonneg iv hpos; omega
  -- |q| ≤ |t|
  have hq1 : t.tdiv iv ≤ 2 ^ 61 ∧ -(2 ^ 61) ≤ t.tdiv iv := by
    constructor
    · rcases Int.lt_or_le (2 ^ 61) (t.tdiv iv) with h | h
      · have : iv * (2 ^ 61 + 1) ≤ iv * t.tdiv iv := Int.mul_le_mul_of_nonneg_left (by omega) (by omega)
        have : (2:Int) ^ 61 + 1 ≤ iv * (2 ^ 61 + 1) := by
          have := Int.mul_le_mul_of_nonneg_right (show (1:Int) ≤ iv by omega) (show (0:Int) ≤ 2 ^ 61 + 1 by omega)
          omega
        omega
      · exact h
    · rcases Int.lt_or_le (t.tdiv iv) (-(2 ^ 61)) with h | h
      · have : iv * t.tdiv iv ≤ iv * (-(2 ^ 61) - 1) := Int.mul_le_mul_of_nonneg_left (by omega) (by omega)
        have : iv * (-(2 ^ 61) - 1) ≤ -(2 ^ 61) - 1 := by
          have := Int.mul_le_mul_of_nonneg_right (show (1:Int) ≤ iv by omega) (show (0:Int) ≤ 2 ^ 61 + 1 by omega)
          have e : iv * (-(2 ^ 61) - 1) = -(iv * (2 ^ 61 + 1)) := by
            rw [show (-(2:Int) ^ 61 - 1) = -(2 ^ 61 + 1) by omega, Int.mul_neg]
          omega
        omega
      · exact h
  have hsoni : (t.tdiv iv + 1) * iv = iv * t.tdiv iv + iv := by rw [Int.add_mul, Int.mul_comm]; simp
  have hd0 : 0 < (t.tdiv iv + 1) * iv - t := by omega
  have hd1 : (t.tdiv iv + 1) * iv - t < 2 * iv := by omega
  have hm0 := Int.tmod_nonneg step (show 0 ≤ (t.tdiv iv + 1) * iv - t by omega)
  have hm1 := Int.tmod_lt_of_pos ((t.tdiv iv + 1) * iv - t) hs.1
  intro x hx
  simp only [nibIntermediates, List.mem_cons, List.not_mem_nil, or_false] at hx
  rcases hx with rfl | rfl | rfl | rfl | rfl | rfl | rfl | rfl | rfl <;> omega

example : ∀ x ∈ nibIntermediates 1700000003000 15000 3600000, -(2 ^ 63) ≤ x ∧ x < 2 ^ 63 := by decide

/-! ### range requests -/

/-- **C41 (range queries).**  For every start, end, positive step and positive interval
    `splitQuery` terminates without panic and the sub-requests' evaluation grids, concatenated in
    order, are exactly the grid of the original request — as lists, so every timestamp is
    evaluated exactly once (`grid_nodup`) and none is added; every sub-request starts a whole
    number of steps after the original start (so it evaluates on the original's phase), is
    non-empty and stays inside `[start, end]`; and a request with `start ≤ end` is never split into
    nothing. -/
theorem C41_range (start stop step iv : Int) (hs : 0 < step) (hi : 0 < iv) :
    ∃ l, split start stop step iv = .ok l ∧
      l.flatMap (fun q => grid q.1 q.2 step) = grid start stop step ∧
      (∀ q ∈ l, (q.1 - start) % step = 0 ∧ start ≤ q.1 ∧ q.1 ≤ q.2 ∧ q.2 ≤ stop) ∧
      (start ≤ stop → l ≠ []) := by
  unfold split
  by_cases heq : start = stop
  · subst heq
    refine ⟨[(start, start)], by simp, ?_, ?_, by simp⟩
    · simp
    · intro q hq; simp at hq; subst hq; simp
  · obtain ⟨l, hl, hg, hq⟩ := splitLoop_spec (stop := stop) hs hi (stop - start).toNat start (by omega)
    refine ⟨l, by simp [heq, hl], ?_, ?_, ?_⟩
    · rw [hg]
      by_cases hlt : start < stop
      · simp [hlt]
      · simp [hlt, grid_of_lt (show stop < start by omega)]
    · intro q hq'
      obtain ⟨a1, a2, a3, a4, _⟩ := hq q hq'
      exact ⟨Int.emod_eq_zero_of_dvd a1, a2, a3, a4⟩
    · intro hle hnil
      subst hnil
      have hlt : start < stop := by omega
      have hmem : start ∈ grid start stop step := (mem_grid hs).2 ⟨by omega, by omega, by simp⟩
      simp [hlt] at hg
      rw [hg] at hmem
      simp at hmem

-- non-vacuity: aligned day-sized case, step > interval, unaligned start, start = end
example : split 0 100 10 30 = .ok [(0, 20), (30, 50), (60, 80), (90, 100)] := by decide
example : split 3 40 13 10 = .ok [(3, 3), (16, 16), (29, 40)] := by decide
example : split 7 29 4 10 = .ok [(7, 7), (11, 19), (23, 29)] := by decide
example : split 5 5 10 30 = .ok [(5, 5)] := by decide
example : split 9 2 1 5 = .ok [] := by decide

/-- each timestamp of the original grid is evaluated by the sub-requests exactly once -/
theorem C41_once (start stop step iv : Int) (hs : 0 < step) (hi : 0 < iv) :
    ∃ l, split start stop step iv = .ok l ∧
      (l.flatMap (fun q => grid q.1 q.2 step)).Nodup ∧
      ∀ t, t ∈ l.flatMap (fun q => grid q.1 q.2 step) ↔
        (start ≤ t ∧ t ≤ stop ∧ (t - start) % step = 0) := by
  obtain ⟨l, hl, hg, _⟩ := C41_range start stop step iv hs hi
  exact ⟨l, hl, by rw [hg]; exact grid_nodup hs, fun t => by rw [hg]; exact mem_grid hs⟩

/-- **C41 (work conservation).**  The sub-requests together evaluate exactly as many steps as the
    original request — `(end − start) / step + 1` of them when `start ≤ end` — so splitting neither
    drops nor repeats an evaluation (a counting corollary of `C41_range`, for every size). -/
theorem C41_count (start stop step iv : Int) (hs : 0 < step) (hi : 0 < iv) :
    ∃ l, split start stop step iv = .ok l ∧
      (l.map (fun q => (grid q.1 q.2 step).length)).sum = (grid start stop step).length ∧
      (start ≤ stop → (grid start stop step).length = ((stop - start) / step + 1).toNat) := by
  obtain ⟨l, hl, hg, _⟩ := C41_range start stop step iv hs hi
  refine ⟨l, hl, ?_, ?_⟩
  · rw [← hg, List.length_flatMap]
  · intro hle
    have : ¬ stop < start := by omega
    simp [grid, gridN, this]

-- non-vacuity: step > interval, three sub-requests, three evaluations
example : split 3 40 13 10 = .ok [(3, 3), (16, 16), (29, 40)] ∧
    ([(3, 3), (16, 16), (29, 40)].map (fun q : Int × Int => (grid q.1 q.2 13).length)).sum = 3 := by decide

/-- a zero step or a zero interval makes `nextIntervalBoundary` divide by zero (Go panics; the
    codec rejects `step ≤ 0` before the middleware is reached) -/
theorem C41_zero_step_panics : split 0 10 0 5 = .panic ∧ split 0 10 5 0 = .panic := by decide

/-! ### StepAlign -/

/-- `stepAlign.Do` on non-negative times: both ends become multiples of the step, moved down by
    less than one step. -/
theorem stepAlign_spec {start stop step : Int} (hs : 0 < step) (h0 : 0 ≤ start) (h1 : 0 ≤ stop) :
    ∃ s e, stepAlign start stop step = some (s, e) ∧ s % step = 0 ∧ e % step = 0 ∧
      s ≤ start ∧ start < s + step ∧ e ≤ stop ∧ stop < e + step := by
  have hne : step ≠ 0 := by omega
  refine ⟨start.tdiv step * step, stop.tdiv step * step, by simp [stepAlign, hne], by simp, by simp, ?_⟩
  have a1 := Int.mul_tdiv_add_tmod start step
  have a2 := Int.tmod_lt_of_pos start hs
  have a3 := Int.tmod_nonneg step h0
  have b1 := Int.mul_tdiv_add_tmod stop step
  have b2 := Int.tmod_lt_of_pos stop hs
  have b3 := Int.tmod_nonneg step h1
  rw [Int.mul_comm (start.tdiv step), Int.mul_comm (stop.tdiv step)]
  omega

example : stepAlign 17 99 10 = some (10, 90) := by decide
/-- for negative times Go's truncation rounds *up* (not claimed, only recorded) -/
example : stepAlign (-17) 99 10 = some (-10, 90) := by decide

/-! ### labels / series requests -/

/-- C41 (labels/series) at full strength, for the code with (`true`) or without (`false`) the
    point-range repair: the sub-ranges cover the original range, stay inside it and none is
    longer than the interval. -/
def C41_labels_full (pointRange : Bool) : Prop :=
  ∀ start stop dur : Int, 0 < dur → start ≤ stop →
    ∃ l, splitLabels pointRange start stop dur = .ok l ∧ Covers l start stop ∧
      ∀ q ∈ l, start ≤ q.1 ∧ q.1 ≤ q.2 ∧ q.2 ≤ stop ∧ q.2 - q.1 ≤ dur

/-- for `start < end` (either version): consecutive non-empty sub-ranges, each at most one
    interval long, from `start` exactly to `end`. -/
theorem C41_labels_tiles (pr : Bool) (start stop dur : Int) (hd : 0 < dur) (hlt : start < stop) :
    ∃ l, splitLabels pr start stop dur = .ok l ∧ Tiles dur l start stop ∧ Covers l start stop ∧
      ∀ q ∈ l, start ≤ q.1 ∧ q.1 < q.2 ∧ q.2 ≤ stop ∧ q.2 - q.1 ≤ dur := by
  obtain ⟨l, hl, ht⟩ := labelsLoop_spec (stop := stop) hd (stop - start).toNat start (by omega) hlt
  have hne : ¬ (pr = true ∧ start = stop) := by omega
  exact ⟨l, by simp [splitLabels, hne, hl], ht, ht.covers, ht.bounds⟩

/-- **C41 (labels/series, lengths).**  For `start < end` the consecutive sub-ranges of
    `C41_labels_tiles` have lengths that add up to exactly `end − start` (no time counted twice or left out),
    and there are at least `⌈(end − start)/dur⌉` of them. -/
theorem C41_labels_length (pr : Bool) (start stop dur : Int) (hd : 0 < dur) (hlt : start < stop) :
    ∃ l, splitLabels pr start stop dur = .ok l ∧
      (l.map (fun q => q.2 - q.1)).sum = stop - start ∧ stop - start ≤ dur * l.length := by
  obtain ⟨l, hl, ht, _⟩ := C41_labels_tiles pr start stop dur hd hlt
  exact ⟨l, hl, ht.sum_len⟩
-- non-vacuity
example : splitLabels true 3 40 10 = .ok [(3, 13), (13, 23), (23, 33), (33, 40)] ∧
    ([(3, 13), (13, 23), (23, 33), (33, 40)].map (fun q : Int × Int => q.2 - q.1)).sum = 40 - 3 := by decide

/-- **C41 (labels/series)** for the code as it is now (after the repair): every request with
    `start ≤ end`, point ranges included, is covered by its sub-ranges. -/
theorem C41_labels : C41_labels_full true := by
  intro start stop dur hd hle
  by_cases heq : start = stop
  · subst heq
    refine ⟨[(start, start)], by simp [splitLabels], ?_, ?_⟩
    · intro t h1 h2; exact ⟨(start, start), by simp, h1, h2⟩
    · intro q hq; simp at hq; subst hq; simp; omega
  · obtain ⟨l, hl, _, hc, hb⟩ := C41_labels_tiles true start stop dur hd (by omega)
    exact ⟨l, hl, hc, fun q hq => by have := hb q hq; omega⟩

/-- Before the repair the loop `for start < end` alone produced no sub-request for a point range
    `start = end` (which the codec accepts: only `end < start` is rejected), so the instant was
    not covered and the downstream was never asked. -/
theorem C41_labels_unrepaired_false : ¬ C41_labels_full false := by
  intro h
  obtain ⟨l, hl, hc, _⟩ := h 5 5 10 (by decide) (by decide)
  have : l = [] := by
    have h' : splitLabels false 5 5 10 = .ok [] := by decide
    rw [h'] at hl; injection hl with hl; exact hl.symm
  subst this
  obtain ⟨q, hq, _⟩ := hc 5 (by decide) (by decide)
  simp at hq

example : splitLabels true 3 40 10 = .ok [(3, 13), (13, 23), (23, 33), (33, 40)] := by decide
example : splitLabels true 5 5 10 = .ok [(5, 5)] := by decide
example : splitLabels true 9 2 5 = .ok [] := by decide

/-! ### regenerated obligations: the source still reads as the model transliterates it -/

/-- the range case of `splitQuery`: start = end special case, loop condition `start < end`,
    increment `nextIntervalBoundary(start) + step`, extension test `end+step >= r.GetEnd()` -/
theorem C41_fact_range :
    Thanos.Facts.splitRangeCase =
      ["query, err := queryrange.EvaluateAtModifierFunction(r.GetQuery(), r.GetStart(), r.GetEnd())",
       "if err != nil {", "return nil, err", "}",
       "if start := r.GetStart(); start == r.GetEnd() {",
       "reqs = append(reqs, tr.WithSplitInterval(interval).WithStartEnd(start, start))",
       "} else {",
       "for ; start < r.GetEnd(); start = nextIntervalBoundary(start, r.GetStep(), interval) + r.GetStep() {",
       "end := nextIntervalBoundary(start, r.GetStep(), interval)",
       "if end+r.GetStep() >= r.GetEnd() {", "end = r.GetEnd()", "}",
       "reqs = append(reqs, tr.WithSplitInterval(interval).WithQuery(query).WithStartEnd(start, end))",
       "}", "}"] := by decide

/-- the labels/series case is the repaired one (`splitLabels true`) -/
theorem C41_fact_labels :
    Thanos.Facts.splitLabelsCase =
      ["dur := int64(interval / time.Millisecond)",
       "if start := r.GetStart(); start == r.GetEnd() {",
       "reqs = append(reqs, tr.WithSplitInterval(interval).WithStartEnd(start, start))",
       "}",
       "for start := r.GetStart(); start < r.GetEnd(); start = start + dur {",
       "end := min(start+dur, r.GetEnd())",
       "reqs = append(reqs, tr.WithSplitInterval(interval).WithStartEnd(start, end))",
       "}"] := by decide

theorem C41_fact_nib :
    Thanos.Facts.nextIntervalBoundaryBody =
      ["msPerInterval := int64(interval / time.Millisecond)",
       "startOfNextInterval := ((t / msPerInterval) + 1) * msPerInterval",
       "target := startOfNextInterval - ((startOfNextInterval - t) % step)",
       "if target == startOfNextInterval {", "target -= step", "}",
       "return target"] := by decide

theorem C41_fact_align :
    Thanos.Facts.stepAlignBody =
      ["start := (r.GetStart() / r.GetStep()) * r.GetStep()",
       "end := (r.GetEnd() / r.GetStep()) * r.GetStep()",
       "return s.next.Do(ctx, r.WithStartEnd(start, end))"] := by decide

end Thanos.Split
