/-
  C24 — the remote-write concurrency gate.

  Code: receiveHTTP (pkg/receive/handler.go) and receiveOTLPHTTP (handler_otlp.go):

      err = writeGate.Start(r.Context())        -- wait for a slot, or fail when the context is done
      if err != nil { …500…; return }
      defer writeGate.Done()                    -- before the repair of F24 this line came first (`doneFirst`)
      … the write path …

  pkg/gate wrappers (in-flight gauge: Inc after a successful Start, Dec in Done before the inner
  Done) around Prometheus' gate: a buffered channel of capacity `cap`; Start = select { ctx.Done →
  error; ch <- token → ok }, Done = select { <-ch → ok; default → panic("more operations done
  than started") }.

  Requests are symmetric, so the state counts them: `held` tokens in the channel, `running`
  requests inside the write path, `waiting` requests blocked in Start.  Core Lean only.
-/
namespace Thanos.Gate

structure St where
  cap : Nat           -- write.global.max_concurrency; 0 = no gate is built (gate.NewNoop)
  held : Nat          -- len(ch)
  running : Nat       -- requests between a successful Start and the end of the handler
  waiting : Nat       -- requests blocked in Start
  gauge : Int         -- the in-flight gauge of pkg/gate (InstrumentGateInFlight)
  total : Nat         -- the total counter of pkg/gate (InstrumentGateTotal): Start calls begun
  panics : Nat        -- gate.Done on an empty gate
  maxRunning : Nat    -- high-water mark of `running`
  deriving DecidableEq, Repr

def St.init (cap : Nat) : St := ⟨cap, 0, 0, 0, 0, 0, 0, 0⟩

inductive Ev where
  | arrive            -- a request calls Start with a live context
  | arriveCancelled   -- a request calls Start and the select takes ctx.Done (context already done)
  | acquire           -- a blocked Start puts its token into the channel
  | cancel            -- the context of a blocked Start is cancelled: Start returns the error
  | cancelRunning     -- the client of a running request goes away (its context is cancelled); the
                      -- handler keeps its slot until it returns (the forward runs on a detached context)
  | finish            -- a running request reaches the end of the handler (answered, forward
                      -- timeout, any error path after the gate): the deferred Done runs once
  deriving DecidableEq, Repr

/-- a request enters the write path through the noop gate: nothing is counted -/
def enterNoop (s : St) : St :=
  { s with running := s.running + 1, maxRunning := max s.maxRunning (s.running + 1) }

/-- a successful Start: token in, gauge up, the request runs -/
def enter (s : St) : St :=
  { s with held := s.held + 1, running := s.running + 1, gauge := s.gauge + 1,
           maxRunning := max s.maxRunning (s.running + 1) }

/-- `writeGate.Done()`: gauge down, then take a token out or panic -/
def done (s : St) : St :=
  if s.held > 0 then { s with held := s.held - 1, gauge := s.gauge - 1 }
  else { s with gauge := s.gauge - 1, panics := s.panics + 1 }

/-- one step of the system; `doneFirst` = the deferred `Done` is registered before the error check
    (so it also runs when Start failed).  Events that are not enabled leave the state unchanged.
    With `cap = 0` the limiter keeps `gate.NewNoop()`: Start always succeeds (it does not look at
    the context), Done does nothing, no metric exists. -/
def step (doneFirst : Bool) (s : St) : Ev → St
  | .arrive =>
    if s.cap = 0 then enterNoop s else
    let s := { s with total := s.total + 1 }
    if s.held < s.cap then enter s else { s with waiting := s.waiting + 1 }
  | .arriveCancelled =>
    if s.cap = 0 then enterNoop s else
    let s := { s with total := s.total + 1 }
    if doneFirst then done s else s
  | .acquire => if s.waiting > 0 ∧ s.held < s.cap then enter { s with waiting := s.waiting - 1 } else s
  | .cancel =>
    if s.waiting = 0 then s else
    let s' := { s with waiting := s.waiting - 1 }
    if doneFirst then done s' else s'
  | .cancelRunning => s
  | .finish =>
    if s.running = 0 then s
    else if s.cap = 0 then { s with running := s.running - 1 }
    else done { s with running := s.running - 1 }

def run (doneFirst : Bool) (cap : Nat) (evs : List Ev) : St := evs.foldl (step doneFirst) (St.init cap)

/-- the property at one state: with a gate configured (`cap ≥ 1`) never more than `cap` requests in
    the write path; and never a panic -/
def Safe (s : St) : Prop := (1 ≤ s.cap → s.running ≤ s.cap ∧ s.maxRunning ≤ s.cap) ∧ s.panics = 0

/-! ### what the real runtime does: a freed slot goes to a blocked Start at once -/

/-- blocked Starts take free slots (at most `fuel` of them) -/
def wake (doneFirst : Bool) : Nat → St → St
  | 0, s => s
  | fuel + 1, s => if s.waiting > 0 ∧ s.held < s.cap then wake doneFirst fuel (step doneFirst s .acquire) else s

/-- the script steps of the harness: arrive, arrive with a dead context while the gate is full,
    cancel the oldest waiter, cancel the client of a running request, finish the oldest running
    request — each followed by the wake-ups -/
def scriptStep (doneFirst : Bool) (s : St) (e : Ev) : St :=
  let s' := step doneFirst s e
  wake doneFirst s'.waiting s'

/-- … where a request with a dead context is only sent while the gate is full (otherwise the
    select of Start may take either branch and the step is skipped) -/
def scriptStep' (doneFirst : Bool) (s : St) (e : Ev) : St :=
  if e = .arriveCancelled ∧ s.gauge < (s.cap : Int) then s else scriptStep doneFirst s e

/-- The skeleton of the two entry points as the code has it now (tied to the source by the
    regenerated facts `receiveHTTPGate` / `receiveOTLPHTTPGate`, see Props/C24.lean).  Before the
    repair of F24 both were `true` (`defer writeGate.Done()` in front of the error check);
    `C24_full_false` keeps that behaviour refuted. -/
def codeDoneFirstHTTP : Bool := false
def codeDoneFirstOTLP : Bool := false

end Thanos.Gate
