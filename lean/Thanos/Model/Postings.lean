/-
  C10 — pkg/store/bucket.go : toPostingGroup, postingGroup.mergeKeys, matchersToPostingGroups,
  the group bookkeeping of bucketIndexReader.ExpandedPostings and pkg/store/lazy_postings.go :
  mergeFetchedPostings (without lazy groups).

  Label values are ranks (0 = empty string).  What the code asks of a `labels.Matcher` is an input
  (regex semantics are third-party): its type, whether its pattern is `.*`, `.+` or empty, its value
  (for `=`/`!=`), `SetMatches()`, and its truth table over the values of the case.
-/
namespace Thanos.Postings

structure PMatcher where
  name : Nat
  /-- 0 `=`, 1 `!=`, 2 `=~`, 3 `!~` -/
  typ : Nat
  /-- rank of `m.Value` for `=` / `!=` -/
  value : Nat
  dotStar : Bool
  dotPlus : Bool
  emptyPat : Bool
  /-- `m.SetMatches()` (ranks) -/
  setMatches : List Nat
  /-- accepted values among the values of the case (0 = the empty string) -/
  ok : List Nat
  /-- identity of `m.String()` apart from the name: matchers with equal name, type and pattern are one -/
  pat : String
  deriving Repr

def PMatcher.accepts (m : PMatcher) (v : Nat) : Bool := m.ok.contains v

structure Group where
  name : Nat
  addAll : Bool
  addKeys : List Nat
  removeKeys : List Nat
  deriving Repr, DecidableEq

def insertKey (x : Nat) : List Nat → List Nat
  | [] => [x]
  | y :: ys => if x ≤ y then x :: y :: ys else y :: insertKey x ys

/-- `sort.Strings` on keys (ranks) -/
def sortKeys (xs : List Nat) : List Nat := xs.foldr insertKey []

/-- `toPostingGroup(ctx, lvalsFn, m)` with `vals = lvalsFn(m.Name)` (sorted label values of the block) -/
def toPostingGroup (vals : List Nat) (m : PMatcher) : Group :=
  if m.typ = 2 ∧ m.dotStar then ⟨m.name, true, [], []⟩
  else if m.typ = 3 ∧ m.dotStar then ⟨m.name, false, [], []⟩
  else if m.accepts 0 then
    if m.typ = 3 ∧ !m.setMatches.isEmpty then ⟨m.name, true, [], sortKeys m.setMatches⟩
    else if m.typ = 1 then ⟨m.name, true, [], [m.value]⟩
    else if m.emptyPat ∧ (m.typ = 0 ∨ m.typ = 2) then ⟨m.name, true, [], vals⟩
    else if m.typ = 3 ∧ m.dotPlus then ⟨m.name, true, [], vals⟩
    else ⟨m.name, true, [], vals.filter (fun v => !m.accepts v)⟩
  else if m.typ = 2 ∧ !m.setMatches.isEmpty then ⟨m.name, false, sortKeys m.setMatches, []⟩
  else if m.typ = 0 then ⟨m.name, false, [m.value], []⟩
  else if m.emptyPat ∧ (m.typ = 1 ∨ m.typ = 3) then ⟨m.name, false, vals, []⟩
  else if m.typ = 2 ∧ m.dotPlus then ⟨m.name, false, vals, []⟩
  else ⟨m.name, false, vals.filter (fun v => m.accepts v), []⟩

/-- merge of two sorted key lists without repeating equal heads (the `addAll && addAll` branch).  The Go
    two-index loop, written as recursion on the first list with an inner recursion on the second. -/
def unionKeys : List Nat → List Nat → List Nat
  | [], ys => ys
  | x :: xs, ys => aux x xs (unionKeys xs) ys
where
  aux (x : Nat) (xs : List Nat) (rec : List Nat → List Nat) : List Nat → List Nat
    | [] => x :: xs
    | y :: ys =>
      if x < y then x :: rec (y :: ys)
      else if y < x then y :: aux x xs rec ys
      else x :: rec ys

/-- add keys minus remove keys, both sorted (the mixed branch) -/
def subtractKeys : List Nat → List Nat → List Nat
  | [], _ => []
  | x :: xs, ys => aux x xs (subtractKeys xs) ys
where
  aux (x : Nat) (xs : List Nat) (rec : List Nat → List Nat) : List Nat → List Nat
    | [] => x :: xs
    | y :: ys =>
      if x < y then x :: rec (y :: ys)
      else if y < x then aux x xs rec ys
      else rec ys

/-- common keys of two sorted lists (both groups add) -/
def intersectKeys : List Nat → List Nat → List Nat
  | [], _ => []
  | x :: xs, ys => aux x (intersectKeys xs) ys
where
  aux (x : Nat) (rec : List Nat → List Nat) : List Nat → List Nat
    | [] => []
    | y :: ys =>
      if x = y then x :: rec ys
      else if x < y then rec (y :: ys)
      else aux x rec ys

/-- `pg.mergeKeys(other)` for groups of the same label name -/
def mergeKeys (pg other : Group) : Group :=
  if pg.addAll ∧ other.addAll then
    if pg.removeKeys.isEmpty then { pg with removeKeys := other.removeKeys }
    else if other.removeKeys.isEmpty then pg
    else { pg with removeKeys := unionKeys pg.removeKeys other.removeKeys }
  else if pg.addAll ∨ other.addAll then
    let toRemove := if pg.addAll then pg else other
    let toAdd := if pg.addAll then other else pg
    { pg with addKeys := subtractKeys toAdd.addKeys toRemove.removeKeys, addAll := false, removeKeys := [] }
  else { pg with addKeys := intersectKeys pg.addKeys other.addKeys }

def Group.empty (g : Group) : Bool := !g.addAll && g.addKeys.isEmpty

def mergeStep (acc : Option Group) (pg : Group) : Group :=
  match acc with
  | none => pg
  | some a => mergeKeys a pg

/-- the inner loop of `matchersToPostingGroups` over the matchers of one label name (the Go map is iterated
    in some order: a list); `none` = "this group adds nothing", the whole request has no postings -/
def mergeAll (vals : List Nat) : Option Group → List PMatcher → Option (Option Group)
  | acc, [] => some acc
  | acc, m :: ms =>
    let pg := toPostingGroup vals m
    if pg.empty then none else
    let merged := mergeStep acc pg
    if merged.empty then none else mergeAll vals (some merged) ms

def sameMatcher (a b : PMatcher) : Bool := a.name == b.name && a.typ == b.typ && a.pat == b.pat

/-- `matchersMap[m.Name][m.String()] = m`: identical matchers are one (the later one stays) -/
def dedupMatchers : List PMatcher → List PMatcher
  | [] => []
  | m :: ms => if ms.any (sameMatcher m) then dedupMatchers ms else m :: dedupMatchers ms

def insertGroup (g : Group) : List Group → List Group
  | [] => [g]
  | h :: hs => if g.name ≤ h.name then g :: h :: hs else h :: insertGroup g hs

/-- names in order of first appearance -/
def distinctNames : List PMatcher → List Nat
  | [] => []
  | m :: ms => m.name :: (distinctNames ms).filter (· != m.name)

/-- `matchersToPostingGroups(ctx, lvalsFn, ms)`: one merged group per label name, sorted by name; `none` = no
    postings can match (`nil, nil`) -/
def matchersToPostingGroups (lvals : Nat → List Nat) (ms : List PMatcher) : Option (List Group) :=
  let ms := dedupMatchers ms
  let rec go : List Nat → Option (List Group)
    | [] => some []
    | n :: ns =>
      match mergeAll (lvals n) none (ms.filter (·.name == n)) with
      | some (some g) => (go ns).map (insertGroup g)
      | _ => none
  go (distinctNames ms)

/-! ### which series the groups select (ExpandedPostings + mergeFetchedPostings, nothing lazy) -/

/-- the series with stored labels `get` is in the postings list of `(name, k)`; nothing is stored under an
    empty value -/
def inPostings (get : Nat → Nat) (name k : Nat) : Bool := k != 0 && get name == k

/-- groups that still have keys, whether the special all-postings list is fetched, and the set algebra
    `Without(Intersect(adds…), Merge(removals…))` as a predicate on one series -/
def selects (groups : List Group) (get : Nat → Nat) : Bool :=
  let keyed := groups.filter (fun g => !(g.addKeys.isEmpty && g.removeKeys.isEmpty))
  let allRequested := groups.any (·.addAll)
  let hasAdds := groups.any (fun g => !g.addKeys.isEmpty)
  let adds := keyed.filter (fun g => !g.addKeys.isEmpty)
  let inAdds := adds.all (fun g => g.addKeys.any (inPostings get g.name))
  let removed := keyed.any (fun g => g.removeKeys.any (inPostings get g.name))
  -- without any add group the intersection is over the all-postings list when it was requested, over nothing else
  (if hasAdds then inAdds else allRequested) && !removed

end Thanos.Postings
