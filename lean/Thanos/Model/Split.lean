/-
  C41 — pkg/queryfrontend/split_by_interval.go : splitQuery, nextIntervalBoundary
        internal/cortex/querier/queryrange/step_align.go : stepAlign.Do

  Timestamps, steps and intervals are `Int` (milliseconds); Go's `/` and `%` on int64 are
  `Int.tdiv` / `Int.tmod` (truncation towards zero).  An integer division by zero panics in Go:
  the model answers `panic`.  The `for` loops run on an explicit fuel argument; `fuel` is the
  answer when it runs out (never the case for `split`/`splitLabels`, see Props/C41).
-/
namespace Thanos.Split

/-- result of a Go function that may panic; `fuel` = the model ran out of fuel -/
inductive Res (α : Type) where
  | ok (a : α)
  | panic
  | fuel
  deriving DecidableEq, Repr

/-- `nextIntervalBoundary(t, step, interval)` with `iv = int64(interval / time.Millisecond)`:

      startOfNextInterval := ((t / msPerInterval) + 1) * msPerInterval
      target := startOfNextInterval - ((startOfNextInterval - t) % step)
      if target == startOfNextInterval { target -= step }
-/
def nib (t step iv : Int) : Option Int :=
  if iv = 0 ∨ step = 0 then none else
  let sONI := (t.tdiv iv + 1) * iv
  let target := sONI - (sONI - t).tmod step
  some (if target = sONI then target - step else target)

/-- the loop of the `*ThanosQueryRangeRequest` case:

      for ; start < r.GetEnd(); start = nextIntervalBoundary(start, step, interval) + step {
        end := nextIntervalBoundary(start, step, interval)
        if end+step >= r.GetEnd() { end = r.GetEnd() }
        reqs = append(reqs, …WithStartEnd(start, end))
      }
-/
def splitLoop (stop step iv : Int) : Nat → Int → Res (List (Int × Int))
  | 0, start => if start < stop then .fuel else .ok []
  | fuel + 1, start =>
    if start < stop then
      match nib start step iv with
      | none => .panic
      | some e =>
        match splitLoop stop step iv fuel (e + step) with
        | .ok l => .ok ((start, if e + step ≥ stop then stop else e) :: l)
        | r => r
    else .ok []

/-- `splitQuery` for a range request `(start, stop, step)`: the (start, end) pairs of the
    sub-requests (every other field is copied; `step` stays the same). -/
def split (start stop step iv : Int) : Res (List (Int × Int)) :=
  if start = stop then .ok [(start, start)]
  else splitLoop stop step iv (stop - start).toNat start

/-- the loop of the `SplitRequest` (labels / series) case, `dur = int64(interval / time.Millisecond)`:

      if start := r.GetStart(); start == r.GetEnd() { reqs = append(reqs, …WithStartEnd(start, start)) }   -- since the repair
      for start := r.GetStart(); start < r.GetEnd(); start = start + dur {
        end := min(start+dur, r.GetEnd())
        reqs = append(reqs, …WithStartEnd(start, end))
      }
-/
def labelsLoop (stop dur : Int) : Nat → Int → Res (List (Int × Int))
  | 0, start => if start < stop then .fuel else .ok []
  | fuel + 1, start =>
    if start < stop then
      match labelsLoop stop dur fuel (start + dur) with
      | .ok l => .ok ((start, min (start + dur) stop) :: l)
      | r => r
    else .ok []

/-- the `SplitRequest` case.  `pointRange = true` is the code as repaired (a request with
    `start == end` yields the single sub-request `(start, start)` before the loop), `false` the
    code as it was (the loop alone, which yields nothing for a point range). -/
def splitLabels (pointRange : Bool) (start stop dur : Int) : Res (List (Int × Int)) :=
  if pointRange ∧ start = stop then .ok [(start, start)]
  else labelsLoop stop dur (stop - start).toNat start

/-- `stepAlign.Do`: `start = (start / step) * step`, `end = (end / step) * step` -/
def stepAlign (start stop step : Int) : Option (Int × Int) :=
  if step = 0 then none else some (start.tdiv step * step, stop.tdiv step * step)

/-- the evaluation timestamps of a range query: `start, start+step, … ≤ stop` (`step > 0`);
    closed form so that it can be reasoned about without a loop -/
def gridN (start step : Int) (n : Nat) : List Int :=
  (List.range n).map fun (k : Nat) => start + step * (k : Int)

def grid (start stop step : Int) : List Int :=
  if stop < start then [] else gridN start step ((stop - start) / step + 1).toNat

end Thanos.Split
