/-
  Model/Bucket.lean — an object-store bucket as a finite map and the block procedures of
  pkg/block/block.go (upload, Delete, MarkForDeletion, MarkForNoCompact),
  pkg/shipper/shipper.go (the Exists check + upload of one block) and
  pkg/replicate/scheme.go (ensureBlockIsReplicated / ensureObjectReplicated)
  as *scripts* of bucket calls.  Used by C28 (and by the shipper model of C35).

  A script is the sequence of calls one run of the procedure issues against the bucket, computed
  from the bucket state at the start of the run (one actor at a time: nothing else mutates the
  bucket during a run, so reading at the start and reading in line coincide; the correspondence
  harness compares the recorded call traces of the real code with these scripts).

  Crash = the k-th mutating call is the last one that reaches the bucket; every later call (read
  or write) fails.  `exec (some k)` interprets a script under that regime.
-/
namespace Thanos.Bucket

/-- object key: (block number, object name relative to the block directory) -/
abbrev Key := Nat × String

inductive Obj where
  /-- any object that is not a meta.json: chunk segment, index, marker files -/
  | data (size : Nat)
  /-- a meta.json, abstracted to the files it lists with their recorded sizes; `replica` tells
      a byte-for-byte copy of the origin bucket's meta.json (written by the replicator) from one
      encoded by `block.upload` (fresh `UploadTime`, so never byte-equal to the origin's) -/
  | metaJson (replica : Bool) (files : List (String × Nat))
  deriving DecidableEq, Repr

abbrev Bucket := List (Key × Obj)

def get : Bucket → Key → Option Obj
  | [], _ => none
  | (k', o) :: s, k => if k' = k then some o else get s k

def del (s : Bucket) (k : Key) : Bucket := s.filter (fun p => decide (p.1 ≠ k))

/-- `Upload` overwrites -/
def put (s : Bucket) (k : Key) (o : Obj) : Bucket := (k, o) :: del s k

inductive Op where
  | put (k : Key) (o : Obj)
  | del (k : Key)
  deriving DecidableEq, Repr

def apply (s : Bucket) : Op → Bucket
  | .put k o => put s k o
  | .del k => del s k

def applyAll (s : Bucket) (ops : List Op) : Bucket := ops.foldl apply s

def metaName : String := "meta.json"
def indexName : String := "index"
def markName : String := "deletion-mark.json"
def noCompactName : String := "no-compact-mark.json"

/-- the local block directory: chunk segment files (name relative to the block dir, e.g.
    `chunks/000001`, in directory order) and the index, each with its size -/
structure Block where
  chunks : List (String × Nat)
  index : Nat
  deriving DecidableEq, Repr

/-- data files of a block in upload order: what `GatherFileStats` records in meta.json
    (the `meta.json` entry itself, which has no size, is left out) -/
def Block.files (b : Block) : List (String × Nat) := b.chunks ++ [(indexName, b.index)]

def Block.metaObj (b : Block) (replica : Bool := false) : Obj := .metaJson replica b.files

/-- one call against the bucket -/
inductive Call where
  /-- Exists / Get / Iter / Attributes -/
  | rd
  /-- Upload / Delete whose error aborts the procedure -/
  | mu (op : Op)
  /-- Delete whose error is only logged (directory markers in `block.Delete`) -/
  | muIgn (op : Op)
  deriving DecidableEq, Repr

def muts : List Call → List Op
  | [] => []
  | .rd :: cs => muts cs
  | .mu op :: cs => op :: muts cs
  | .muIgn op :: cs => op :: muts cs

structure Res where
  ok : Bool
  trace : List Op
  bkt : Bucket
  deriving Repr

def crashed : Option Nat → Bool
  | some 0 => true
  | _ => false

def dec : Option Nat → Option Nat
  | some k => some (k - 1)
  | none => none

/-- Interpreter.  `budget = none`: no crash.  `budget = some k`: exactly `k` more mutating calls
    reach the bucket, after that every call fails. -/
def exec (b : Option Nat) : List Call → Bucket → Res
  | [], s => ⟨true, [], s⟩
  | .rd :: cs, s => if crashed b then ⟨false, [], s⟩ else exec b cs s
  | .mu op :: cs, s =>
    if crashed b then ⟨false, [], s⟩ else
    let r := exec (dec b) cs (apply s op)
    ⟨r.ok, op :: r.trace, r.bkt⟩
  | .muIgn op :: cs, s =>
    if crashed b then exec b cs s else
    let r := exec (dec b) cs (apply s op)
    ⟨r.ok, op :: r.trace, r.bkt⟩

-- ---------------------------------------------------------------- block.upload

/-- the order of the three upload phases in `block.upload` as the code has it; the regenerated
    fact `uploadOrder` is compared with this constant in Props/C28.lean -/
def codeUploadOrder : List String := ["chunks", "index", "meta"]

def phaseOps (n : Nat) (b : Block) : String → List Op
  | "chunks" => b.chunks.map fun p => .put (n, p.1) (.data p.2)
  | "index" => [.put (n, indexName) (.data b.index)]
  | "meta" => [.put (n, metaName) b.metaObj]
  | _ => []

def uploadOps (order : List String) (n : Nat) (b : Block) : List Op :=
  order.flatMap (phaseOps n b)

/-- `block.Upload`: no bucket reads at all -/
def uploadScript (order : List String) (n : Nat) (b : Block) : List Call :=
  (uploadOps order n b).map .mu

-- ---------------------------------------------------------------- Shipper (one block)

/-- `Shipper.Sync` for one not-yet-recorded block: `Exists(meta.json)`, then `block.Upload` -/
def shipScript (order : List String) (s : Bucket) (n : Nat) (b : Block) : List Call :=
  .rd :: (if (get s (n, metaName)).isSome then [] else uploadScript order n b)

-- ---------------------------------------------------------------- markers

/-- `block.MarkForDeletion` / `MarkForNoCompact`: Exists, then Upload unless present -/
def markScript (s : Bucket) (n : Nat) (name : String) (size : Nat) : List Call :=
  .rd :: (if (get s (n, name)).isSome then [] else [.mu (.put (n, name) (.data size))])

-- ---------------------------------------------------------------- block.Delete

def codeDeleteOrder : List String := ["meta", "rest", "mark", "dirmarkers"]

def hasSlash (s : String) : Bool := s.toList.contains '/'

/-- names of block `n` in the bucket, first occurrence order, duplicates (impossible after
    `put`, which erases first) kept harmlessly -/
def namesOf (s : Bucket) (n : Nat) : List String :=
  (s.filter (fun p => p.1.1 = n)).map (fun p => p.1.2)

/-- insertion sort (structural, so that `decide` can evaluate it) -/
def insertName (x : String) : List String → List String
  | [] => [x]
  | y :: ys => if x ≤ y then x :: y :: ys else y :: insertName x ys

def sortNames (xs : List String) : List String := xs.foldr insertName []

/-- what `deleteDirRec` visits, in the order of the in-memory bucket's `Iter` (files of a
    directory sorted, then its sub-directories): everything of the block except meta.json and the
    deletion mark -/
def restNames (s : Bucket) (n : Nat) : List String :=
  let xs := (namesOf s n).filter (fun f => f ≠ metaName ∧ f ≠ markName)
  sortNames (xs.filter (fun f => !hasSlash f)) ++ sortNames (xs.filter hasSlash)

def dirMarkerChunks : String := "chunks/"
def dirMarkerBlock : String := ""

def deletePhase (s : Bucket) (n : Nat) : String → List Call
  | "meta" => .rd :: (if (get s (n, metaName)).isSome then [.mu (.del (n, metaName))] else [])
  | "rest" =>
    let r := restNames s n
    -- one Iter of the block directory, one more of chunks/ if it has entries
    .rd :: ((r.filter (fun f => !hasSlash f)).map fun f => .mu (.del (n, f))) ++
      (if (r.filter hasSlash).isEmpty then [] else .rd :: ((r.filter hasSlash).map fun f => .mu (.del (n, f))))
  | "mark" => .rd :: (if (get s (n, markName)).isSome then [.mu (.del (n, markName))] else [])
  | "dirmarkers" => [.muIgn (.del (n, dirMarkerChunks)), .muIgn (.del (n, dirMarkerBlock))]
  | _ => []

def deleteScript (order : List String) (s : Bucket) (n : Nat) : List Call :=
  order.flatMap (deletePhase s n)

-- ---------------------------------------------------------------- replication

/-- `ensureObjectReplicated` over a list of origin objects: Exists, Upload unless present;
    the state is threaded because a skipped name may have been uploaded a moment ago -/
def ensureScript (n : Nat) : Bucket → List (String × Nat) → List Call
  | _, [] => []
  | s, (f, sz) :: rest =>
    if (get s (n, f)).isSome then .rd :: ensureScript n s rest
    else .rd :: .mu (.put (n, f) (.data sz)) :: ensureScript n (put s (n, f) (.data sz)) rest

def codeReplicateOrder : List String := ["chunks", "index", "meta"]

def replicatePhase (s : Bucket) (n : Nat) (b : Block) : String → Bucket × List Call
  | "chunks" =>
    let sc := ensureScript n s b.chunks
    -- one Iter of the ORIGIN bucket (not a call against the target), then per object
    (applyAll s (muts sc), sc)
  | "index" =>
    let sc := ensureScript n s [(indexName, b.index)]
    (applyAll s (muts sc), sc)
  | "meta" => (put s (n, metaName) (b.metaObj true), [.mu (.put (n, metaName) (b.metaObj true))])
  | _ => (s, [])

def replicatePhases (n : Nat) (b : Block) : Bucket → List String → List Call
  | _, [] => []
  | s, ph :: rest =>
    let r := replicatePhase s n b ph
    r.2 ++ replicatePhases n b r.1 rest

/-- `ensureBlockIsReplicated`: Get of the target meta.json; equal to the origin's ⇒ done -/
def replicateScript (order : List String) (s : Bucket) (n : Nat) (b : Block) : List Call :=
  .rd :: (if get s (n, metaName) = some (b.metaObj true) then [] else replicatePhases n b s order)

end Thanos.Bucket
