/-
  C25 — pkg/symboltable/builder.go (Builder.AddEntry), pkg/receive/writecapnp/marshal.go
  (BuildInto, marshalLabels, marshalSymbols, marshalSamples, marshalHistogram, marshalExemplars),
  pkg/receive/writecapnp/write_request.go (NewRequest: the symbols loop; Request.At,
  readHistogram, readExemplar).

  A string is its list of bytes; a float64 its bit pattern.  The Cap'n Proto wire format itself
  (lists, structs, unions, pointers) is trusted: the message is modelled as the record the
  generated accessors read and write.  Core Lean only.
-/
namespace Thanos.Capnp

abbrev Str := List Nat      -- the bytes of a Go string

/-! ### symboltable.Builder -/

structure Entry where
  str : Str
  index : Nat
  start : Nat
  deriving DecidableEq, Repr

/-- `Builder`: the map as an association list in insertion order, and `SymbolsSize` -/
structure Builder where
  entries : List Entry
  size : Nat
  deriving DecidableEq, Repr

def Builder.empty : Builder := ⟨[], 0⟩

def findEntry (s : Str) : List Entry → Option Entry
  | [] => none
  | e :: es => if e.str = s then some e else findEntry s es

/-- `AddEntry`: the index of an interned string, or a new entry with index `len(Table)` and start
    `SymbolsSize` -/
def addEntry (b : Builder) (s : Str) : Builder × Nat :=
  match findEntry s b.entries with
  | some e => (b, e.index)
  | none => (⟨b.entries ++ [⟨s, b.entries.length, b.size⟩], b.size + s.length⟩, b.entries.length)

/-- `marshalSymbols`: offsets[entry.Index] = entry.Start + len(k), data[entry.Start:end] = k.
    (The Go loop ranges over the map in an arbitrary order; the writes touch disjoint parts of the
    two arrays, which is taken as understood here: the model writes in insertion order.) -/
def marshalSymbols (b : Builder) : List Nat × Str :=
  (b.entries.map fun e => e.start + e.str.length, b.entries.flatMap (·.str))

/-- `copy(data[start:start+len(k)], k)` -/
def writeAt (buf : Str) (start : Nat) (s : Str) : Str := buf.take start ++ s ++ buf.drop (start + s.length)

/-- `marshalSymbols` as the Go loop runs it: `order` is the order in which `range builder.Table`
    happens to visit the entries; both arrays start zeroed -/
def marshalSymbolsIn (order : List Entry) (n size : Nat) : List Nat × Str :=
  (order.foldl (fun o e => o.set e.index (e.start + e.str.length)) (List.replicate n 0),
   order.foldl (fun d e => writeAt d e.start e.str) (List.replicate size 0))

/-- the symbols loop of `NewRequest`: `start := 0; for each end { data[start:end]; start = end }` -/
def decodeSymbolsFrom (data : Str) : Nat → List Nat → List Str
  | _, [] => []
  | start, e :: es => ((data.drop start).take (e - start)) :: decodeSymbolsFrom data e es

def decodeSymbols (offsets : List Nat) (data : Str) : List Str := decodeSymbolsFrom data 0 offsets

/-! ### the message -/

/-- a union of the schema: `countInt`/`countFloat`, `zeroCountInt`/`zeroCountFloat` -/
inductive U where
  | int (v : Nat)
  | float (bits : Nat)
  deriving DecidableEq, Repr

/-- the `count` / `zero_count` oneofs of prompb.Histogram -/
inductive Cnt where
  | unset
  | int (v : Nat)
  | float (bits : Nat)
  deriving DecidableEq, Repr

structure Span where
  offset : Int
  length : Nat
  deriving DecidableEq, Repr

/-- prompb.Histogram -/
structure PHist where
  count : Cnt
  sum : Nat
  schema : Int
  zeroThreshold : Nat
  zeroCount : Cnt
  negSpans : List Span
  negDeltas : List Int
  negCounts : List Nat
  posSpans : List Span
  posDeltas : List Int
  posCounts : List Nat
  resetHint : Nat
  timestamp : Int
  customValues : List Nat
  deriving DecidableEq, Repr

/-- the Histogram struct of write_request.capnp: no field for custom values -/
structure CHist where
  count : U
  sum : Nat
  schema : Int
  zeroThreshold : Nat
  zeroCount : U
  negSpans : List Span
  negDeltas : List Int
  negCounts : List Nat
  posSpans : List Span
  posDeltas : List Int
  posCounts : List Nat
  resetHint : Nat
  timestamp : Int
  deriving DecidableEq, Repr

/-- what the peer hands to its appender: histogram.Histogram or histogram.FloatHistogram -/
inductive DHist where
  | int (hint : Nat) (count : Nat) (sum : Nat) (schema : Int) (zth : Nat) (zeroCount : Nat)
        (posSpans negSpans : List Span) (posBuckets negBuckets : List Int) (custom : List Nat) (ts : Int)
  | float (hint : Nat) (count : Nat) (sum : Nat) (schema : Int) (zth : Nat) (zeroCount : Nat)
        (posSpans negSpans : List Span) (posBuckets negBuckets : List Nat) (custom : List Nat) (ts : Int)
  deriving DecidableEq, Repr

structure PExemplar where
  labels : List (Str × Str)
  value : Nat
  ts : Int
  deriving DecidableEq, Repr

/-- prompb.TimeSeries / the decoded writecapnp.Series (labels, samples (value, ts), exemplars) -/
structure PSeries where
  labels : List (Str × Str)
  samples : List (Nat × Int)
  hists : List PHist
  exemplars : List PExemplar
  deriving DecidableEq, Repr

structure CExemplar where
  labels : List (Nat × Nat)
  value : Nat
  ts : Int
  deriving DecidableEq, Repr

structure CSeries where
  labels : List (Nat × Nat)
  samples : List (Nat × Int)
  hists : List CHist
  exemplars : List CExemplar
  deriving DecidableEq, Repr

structure DSeries where
  labels : List (Str × Str)
  samples : List (Nat × Int)
  hists : List DHist
  exemplars : List PExemplar
  deriving DecidableEq, Repr

/-- the encoded request: per tenant the series, and the shared symbol table -/
structure Msg where
  tenants : List (Str × List CSeries)
  offsets : List Nat
  data : Str
  deriving DecidableEq, Repr

/-! ### encoding (marshal.go) -/

/-- `marshalLabels`: name first, then value -/
def marshalLabels (b : Builder) : List (Str × Str) → Builder × List (Nat × Nat)
  | [] => (b, [])
  | (n, v) :: ls =>
    let (b1, i) := addEntry b n
    let (b2, j) := addEntry b1 v
    let (b3, rest) := marshalLabels b2 ls
    (b3, (i, j) :: rest)

/-- `marshalHistogram`: an unset oneof leaves the union at its default, the integer member 0 -/
def marshalU : Cnt → U
  | .unset => .int 0
  | .int v => .int v
  | .float x => .float x

def marshalHistogram (h : PHist) : CHist :=
  ⟨marshalU h.count, h.sum, h.schema, h.zeroThreshold, marshalU h.zeroCount,
   h.negSpans, h.negDeltas, h.negCounts, h.posSpans, h.posDeltas, h.posCounts, h.resetHint, h.timestamp⟩

def marshalExemplars (b : Builder) : List PExemplar → Builder × List CExemplar
  | [] => (b, [])
  | e :: es =>
    let (b1, ls) := marshalLabels b e.labels
    let (b2, rest) := marshalExemplars b1 es
    (b2, ⟨ls, e.value, e.ts⟩ :: rest)

/-- the loop body of `BuildInto`: labels, samples, histograms, exemplars -/
def marshalSeries (b : Builder) (s : PSeries) : Builder × CSeries :=
  let (b1, ls) := marshalLabels b s.labels
  let (b2, es) := marshalExemplars b1 s.exemplars
  (b2, ⟨ls, s.samples, s.hists.map marshalHistogram, es⟩)

def marshalSeriesList (b : Builder) : List PSeries → Builder × List CSeries
  | [] => (b, [])
  | s :: ss =>
    let (b1, c) := marshalSeries b s
    let (b2, rest) := marshalSeriesList b1 ss
    (b2, c :: rest)

def marshalTenants (b : Builder) : List (Str × List PSeries) → Builder × List (Str × List CSeries)
  | [] => (b, [])
  | (t, ss) :: ts =>
    let (b1, cs) := marshalSeriesList b ss
    let (b2, rest) := marshalTenants b1 ts
    (b2, (t, cs) :: rest)

/-- `Build` (one tenant) / `RemoteWriteClient.writeWithReconnect` (several tenants, one builder) -/
def encode (req : List (Str × List PSeries)) : Msg :=
  let (b, ts) := marshalTenants Builder.empty req
  let (offs, data) := marshalSymbols b
  ⟨ts, offs, data⟩

/-! ### decoding (write_request.go) -/

/-- why decoding can fail: a symbol index outside the table (index out of range), or a union
    accessor called on the other member (the generated accessors panic) -/
inductive DErr where
  | symbolOutOfRange
  | wrongUnionMember
  deriving DecidableEq, Repr

def lookupLabels (syms : List Str) : List (Nat × Nat) → Except DErr (List (Str × Str))
  | [] => .ok []
  | (i, j) :: ls =>
    match syms[i]?, syms[j]? with
    | some n, some v =>
      match lookupLabels syms ls with
      | .ok rest => .ok ((n, v) :: rest)
      | .error e => .error e
    | _, _ => .error .symbolOutOfRange

/-- `zeroCountInt` / `zeroCountFloat` of write_request.go: the zero count of the wanted kind, 0 for
    the other member; with `strict = true` the code before the repair, which called the generated
    accessor of the wanted kind directly (it panics on the other member) -/
def zeroCountAs (strict : Bool) (wantFloat : Bool) (z : U) : Except DErr Nat :=
  match wantFloat, z with
  | false, .int v => .ok v
  | true, .float x => .ok x
  | _, _ => if strict then .error .wrongUnionMember else .ok 0

/-- `readHistogram`: the member of `count` decides between an integer and a float histogram -/
def readHistogram (strict : Bool) (h : CHist) : Except DErr DHist :=
  match h.count with
  | .int c =>
    match zeroCountAs strict false h.zeroCount with
    | .ok z => .ok (.int h.resetHint c h.sum h.schema h.zeroThreshold z h.posSpans h.negSpans h.posDeltas h.negDeltas [] h.timestamp)
    | .error e => .error e
  | .float c =>
    match zeroCountAs strict true h.zeroCount with
    | .ok z => .ok (.float h.resetHint c h.sum h.schema h.zeroThreshold z h.posSpans h.negSpans h.posCounts h.negCounts [] h.timestamp)
    | .error e => .error e

def mapE {α β : Type} (f : α → Except DErr β) : List α → Except DErr (List β)
  | [] => .ok []
  | a :: as =>
    match f a with
    | .error e => .error e
    | .ok b =>
      match mapE f as with
      | .error e => .error e
      | .ok bs => .ok (b :: bs)

def readExemplar (syms : List Str) (e : CExemplar) : Except DErr PExemplar :=
  match lookupLabels syms e.labels with
  | .ok ls => .ok ⟨ls, e.value, e.ts⟩
  | .error err => .error err

/-- `Request.At` -/
def readSeries (strict : Bool) (syms : List Str) (s : CSeries) : Except DErr DSeries :=
  match lookupLabels syms s.labels with
  | .error e => .error e
  | .ok ls =>
    match mapE (readHistogram strict) s.hists with
    | .error e => .error e
    | .ok hs =>
      match mapE (readExemplar syms) s.exemplars with
      | .error e => .error e
      | .ok es => .ok ⟨ls, s.samples, hs, es⟩

def decodeTenant (strict : Bool) (syms : List Str) (t : Str × List CSeries) : Except DErr (Str × List DSeries) :=
  match mapE (readSeries strict syms) t.2 with
  | .ok ss => .ok (t.1, ss)
  | .error e => .error e

/-- the peer: `NewRequest` per tenant tuple over the shared symbols, then `Next`/`At` -/
def decode (strict : Bool) (m : Msg) : Except DErr (List (Str × List DSeries)) :=
  mapE (decodeTenant strict (decodeSymbols m.offsets m.data)) m.tenants

/-- The decoder as it is now (after the repair of the union accessors; before it was `true`). -/
def codeStrictUnion : Bool := false

end Thanos.Capnp
