/-
  C47 — pkg/reloader/reloader.go : Reloader.apply, normalize, expandEnv (core Lean only).

  Inputs from third parties: gzip (a file carries its decompressed text, `plain`, or `none` when
  the gzip stream is broken), sha256 (the model keeps the hashed input itself: the list of
  (path, raw bytes) in hashing order — see `hashFrame` in Props/C47.lean for what the framing
  `0xff path 0xff content` distinguishes), the reload endpoint (a script of answers per apply).
-/
namespace Thanos.Reloader

/-! ### expandEnv: `\$\(([a-zA-Z_0-9]+)\)` replaced by the variable's value -/

def isVarChar (c : Char) : Bool :=
  ('a' ≤ c && c ≤ 'z') || ('A' ≤ c && c ≤ 'Z') || ('0' ≤ c && c ≤ '9') || c == '_'

inductive ExpErr where
  | unset (name : String)   -- reference to an unset variable (and errors are not tolerated)
  | fuel                    -- unreachable: the scan consumes a character per turn
  deriving Repr, DecidableEq

/-- does the text after a `$(` continue with `name)` (one or more variable characters, then `)`)?
    Returns the name and what follows the `)`. -/
def matchVar (rest : List Char) : Option (List Char × List Char) :=
  match rest.takeWhile isVarChar, rest.dropWhile isVarChar with
  | n :: ns, ')' :: after => some (n :: ns, after)
  | _, _ => none

/-- a reference `$(name)` at the head of the text: the name and the text after it -/
def refAt : List Char → Option (List Char × List Char)
  | '$' :: '(' :: rest => matchVar rest
  | _ => none

/-- the scan: `fuel` ≥ length of the remaining text + 1 -/
def expandGo (env : String → Option String) (tolerate : Bool) : Nat → List Char → Except ExpErr (List Char)
  | 0, _ => .error .fuel
  | _ + 1, [] => .ok []
  | fuel + 1, c :: rest =>
    match refAt (c :: rest) with
    | some (name, after) =>
      match env (String.ofList name) with
      | some v => (expandGo env tolerate fuel after).map (v.toList ++ ·)
      | none =>
        if tolerate then (expandGo env tolerate fuel after).map (('$' :: '(' :: name ++ [')']) ++ ·)
        else .error (.unset (String.ofList name))
    | none => (expandGo env tolerate fuel rest).map (c :: ·)

/-- `Reloader.expandEnv`.  Go reports the FIRST unset variable; so does the scan. -/
def expandEnv (env : String → Option String) (tolerate : Bool) (s : String) : Except ExpErr String :=
  (expandGo env tolerate (s.length + 1) s.toList).map String.ofList

/-! ### files, hashes, state -/

structure File where
  name : String
  raw : String            -- the raw bytes (hex), what `hashFile` feeds to sha256
  plain : Option String   -- the text after the optional gunzip; `none` = broken gzip stream
  dangling : Bool := false -- a symlink whose target is missing: `os.Stat` fails on it
  deriving Repr, DecidableEq

/-- what one sha256 state was fed: (path, raw) per file, in order -/
abbrev Hash := List (String × String)

def hashFiles (fs : List File) : Hash := fs.map fun f => (f.name, f.raw)

structure Conf where
  hasCfg : Bool           -- cfgFile != ""
  hasOut : Bool           -- cfgOutputFile != ""
  tolerate : Bool         -- tolerateEnvVarExpansionErrors
  watchZero : Bool        -- watchInterval == 0
  deriving Repr, DecidableEq

/-- the inputs of one `apply`: what is on disk, the environment, what the reload endpoint answers
    to the successive requests of this apply (the context expires after the last scripted one) -/
structure Snap where
  cfg : Option File                 -- `none`: the config file is missing
  dirs : List (List File)           -- per CfgDir: its regular files in ReadDir (name) order
  watched : Option (List File)      -- `none`: no watched dirs configured; files in walk order
  env : List (String × String)
  script : List Bool

/-- an output file: the config output file, or file `name` of the output directory of CfgDir `i` -/
inductive Key where
  | cfg
  | dir (i : Nat) (name : String)
  deriving Repr, DecidableEq

abbrev OutFS := List (Key × String)

def OutFS.set (o : OutFS) (p : Key) (v : String) : OutFS := (p, v) :: o.filter (fun e => e.1 != p)
def OutFS.del (o : OutFS) (p : Key) : OutFS := o.filter (fun e => e.1 != p)
def OutFS.get (o : OutFS) (p : Key) : Option String := (o.find? (fun e => e.1 == p)).map (·.2)

structure St where
  lastCfg : Option Hash := none
  lastDirs : List Hash := []
  lastWatched : Option Hash := none
  lastDirFiles : List (Option (List Key)) := []   -- per CfgDir: the outputs the reloader tracks (r.lastCfgDirFiles)
  force : Bool := false
  out : OutFS := []
  deriving Repr, DecidableEq

inductive Err where
  | missing       -- hashing the config file failed (it does not exist)
  | gzip          -- broken gzip stream
  | stat          -- os.Stat fails on a directory entry (dangling symlink)
  | env (name : String)
  deriving Repr, DecidableEq

inductive Res where
  | ok (reloads : Nat)    -- apply returned nil after `reloads` requests to the endpoint
  | err (e : Err)
  deriving Repr, DecidableEq

def lookupEnv (env : List (String × String)) (n : String) : Option String :=
  (env.find? (fun e => e.1 == n)).map (·.2)

/-- `normalize`: gunzip if needed, expand, write tmp + rename (the write is atomic in the model) -/
def normalize (c : Conf) (env : List (String × String)) (f : File) (key : Key) (o : OutFS) :
    Except Err OutFS :=
  -- for a directory entry `os.Stat` comes first: nothing of the entry is hashed or written
  if f.dangling then .error .stat else
  match f.plain with
  | none => .error .gzip
  | some p =>
    match expandEnv (lookupEnv env) c.tolerate p with
    | .ok v => .ok (o.set key v)
    | .error (.unset n) => .error (.env n)
    | .error .fuel => .error (.env "")

/-- the loop over the entries of one CfgDir: every file is normalised into the output dir; an
    error stops the loop with the outputs written so far in place.  Returns the outputs, the keys
    written, and the error. -/
def writeEntries (c : Conf) (env : List (String × String)) (i : Nat) :
    List File → OutFS → List Key → OutFS × List Key × Option Err
  | [], o, w => (o, w, none)
  | f :: fs, o, w =>
    match normalize c env f (.dir i f.name) o with
    | .ok o' => writeEntries c env i fs o' (w ++ [.dir i f.name])
    | .error e => (o, w, some e)

/-- remove the tracked outputs of a directory whose input is gone (`cur` = the outputs of the
    files the directory holds now) -/
def removeStale (lastHere : Option (List Key)) (cur : List Key) (o : OutFS) : OutFS :=
  match lastHere with
  | none => o
  | some last => (last.filter (fun p => !cur.contains p)).foldl OutFS.del o

/-- what the pass over the CfgDirs leaves behind -/
structure Pass where
  out : OutFS
  files : List (Option (List Key))   -- r.lastCfgDirFiles
  hashes : List Hash                 -- cfgDirsHash (of the directories completed)
  changed : Bool                     -- cfgDirsChanged
  err : Option Err

/-- The loop over the CfgDirs.  `track` = does an interrupted pass remember the outputs it has
    already written for the directory it failed in (`true`: the code after the repair; `false`: as
    it was — those outputs were never removed later). -/
def passDirs (c : Conf) (track : Bool) (env : List (String × String)) (lastDirs : List Hash) :
    Nat → List (List File) → List (Option (List Key)) → OutFS → List Hash → Bool → Pass
  | _, [], _, o, hs, ch => { out := o, files := [], hashes := hs, changed := ch, err := none }
  | i, d :: ds, lastFiles, o, hs, ch =>
    let (o1, written, e) := writeEntries c env i d o []
    let lastHere := lastFiles.head?.join
    let restFiles := lastFiles.tail
    match e with
    | some e =>
      let here := if track then some ((match lastHere with | some l => l | none => []) ++ written) else lastHere
      { out := o1, files := here :: restFiles, hashes := hs, changed := ch, err := some e }
    | none =>
      let cur := d.map (fun f => Key.dir i f.name)
      let o2 := removeStale lastHere cur o1
      let h := hashFiles d
      -- `!cfgDirsChanged && !bytes.Equal(r.lastCfgDirsHash[i], cfgDirsHash[i])`
      let ch' := ch || (lastDirs[i]? != some h)
      let r := passDirs c track env lastDirs (i + 1) ds restFiles o2 (hs ++ [h]) ch'
      { r with files := some cur :: r.files }

/-- how many requests the retry loop makes and whether one succeeded: it stops at the first
    success, or when the script (= the context) is exhausted -/
def retry : List Bool → Nat × Bool
  | [] => (0, false)
  | true :: _ => (1, true)
  | false :: rest => let (n, ok) := retry rest; (n + 1, ok)

/-- the three hashes `apply` computes from what is on disk -/
def cfgHashOf (c : Conf) (s : Snap) : Option Hash :=
  if c.hasCfg then s.cfg.map (fun f => [(f.name, f.raw)]) else none

/-- the first part of `apply`: hash the config file and normalize it into the output file -/
def cfgStep (c : Conf) (st : St) (s : Snap) : Except Err OutFS :=
  if c.hasCfg then
    match s.cfg with
    | none => .error .missing
    | some f => if c.hasOut then normalize c s.env f .cfg st.out else .ok st.out
  else .ok st.out

/-- the pass over the config directories as `apply` starts it -/
def dirsStep (c : Conf) (track : Bool) (st : St) (s : Snap) (o0 : OutFS) : Pass :=
  let lastFiles := if st.lastDirFiles.isEmpty then s.dirs.map (fun _ => none) else st.lastDirFiles
  let ch0 := st.lastDirs.isEmpty && !s.dirs.isEmpty
  passDirs c track s.env st.lastDirs 0 s.dirs lastFiles o0 [] ch0

/-- is an entry below the watched directories unreadable for `os.Stat` -/
def watchedBroken (s : Snap) : Bool :=
  match s.watched with
  | some fs => fs.any (·.dangling)
  | none => false

/-- hashing the watched directories (after the config directories): `filepath.Walk` fails on an
    entry `os.Stat` cannot read, and `apply` returns that error — the outputs and the tracked lists of
    the pass stay, nothing is compared or remembered -/
def watchStep (s : Snap) (p : Pass) : Pass :=
  if p.err.isNone && watchedBroken s then { p with err := some .stat } else p

/-- the last part of `apply`: the decision to reload and the retry loop -/
def finish (c : Conf) (st : St) (s : Snap) (p : Pass) : St × Res :=
  let st1 := { st with out := p.out, lastDirFiles := p.files }
  match p.err with
  | some e => (st1, .err e)
  | none =>
    let cfgHash := cfgHashOf c s
    let watchedHash := s.watched.map hashFiles
    if !st.force && !p.changed && st.lastCfg == cfgHash && st.lastWatched == watchedHash then
      (st1, .ok 0)
    else if c.watchZero then (st1, .ok 0)
    else
      let r := retry s.script
      if r.2 then
        ({ st1 with force := false, lastCfg := cfgHash, lastDirs := p.hashes, lastWatched := watchedHash }, .ok r.1)
      else ({ st1 with force := true }, .ok r.1)

/-- `Reloader.apply` -/
def apply (c : Conf) (track : Bool) (st : St) (s : Snap) : St × Res :=
  match cfgStep c st s with
  | .error e => (st, .err e)
  | .ok o0 => finish c st s (watchStep s (dirsStep c track st s o0))

end Thanos.Reloader
