import Thanos.Model.Sharding
/-
  C44 — specification-level evaluation of a PromQL fragment over time-indexed inputs (the engine
  is third-party): selectors, pointwise functions / filters, aggregations `by` / `without` of any
  nesting depth, with any aggregation operator, and vector matching `on` / `ignoring`
  (one-to-one arithmetic, comparison filters, `and`, `unless`, `or`).  Values are `Int` (the harness uses
  integer-valued samples); an aggregation operator is a function of the group's member series (labels
  and values, so that `histogram_quantile` can read `le`) in input order; no commutativity is
  assumed.
-/
namespace Thanos.Sharding

abbrev Series := Labels × Int
abbrev Vec := List Series

/-- first occurrences, in order -/
def nub {α : Type} [DecidableEq α] : List α → List α
  | [] => []
  | x :: xs => x :: (nub xs).filter (· ≠ x)

/-- the evaluable fragment.  `fn g`: a pointwise function or filter (`abs`, `x > 5`, `x * 2`,
    `label_replace` …): each input series yields at most one output series.  `agg key op`: group
    the input by `key`, one output series per group, labelled with the key. -/
inductive VExpr where
  | sel (p : Labels → Bool)
  | fn (g : Labels → Int → Option Series) (e : VExpr)
  | agg (key : Labels → Labels) (op : List Series → Int) (e : VExpr)
  /-- vector matching: every series of the left operand is combined with the series of the right
      operand that has the same signature, if any (`+ on(..)`, comparisons, `and`, `unless`) -/
  | binL (sig : Labels → Labels) (f : Series → Option Series → Option Series) (l r : VExpr)
  /-- concatenation (the two halves of `or`) -/
  | append (l r : VExpr)
  /-- aggregations that return several series per group: `topk` / `bottomk` / `limitk` (a
      selection of the members, with their own labels), `count_values` (one series per distinct
      value); `op k members` are the output series of the group with key `k` -/
  | aggL (key : Labels → Labels) (op : Labels → List Series → List Series) (e : VExpr)
  /-- a function over time — a range function over a matrix selector (`rate(m[5m])`) or over a
      subquery (`max_over_time((e)[1h:1m])`): the inner expression is evaluated at the timestamps
      `ts t`, the results are grouped per series (`key` = identity, or dropping the metric name)
      and every group is reduced by `op` -/
  | overTime (ts : Int → List Int) (key : Labels → Labels) (op : List Series → Int) (e : VExpr)

def groupAgg (key : Labels → Labels) (op : List Series → Int) (v : Vec) : Vec :=
  (nub (v.map fun s => key s.1)).map fun k => (k, op (v.filter fun s => key s.1 = k))

def groupAggL (key : Labels → Labels) (op : Labels → List Series → List Series) (v : Vec) : Vec :=
  (nub (v.map fun s => key s.1)).flatMap fun k => op k (v.filter fun s => key s.1 = k)

/-- the input: the series (with their sample) at every evaluation timestamp -/
abbrev TVec := Int → Vec

/-- evaluation at timestamp `t` -/
def eval : VExpr → TVec → Int → Vec
  | .sel p, s, t => (s t).filter fun x => p x.1
  | .fn g e, s, t => (eval e s t).filterMap fun x => g x.1 x.2
  | .agg key op e, s, t => groupAgg key op (eval e s t)
  | .binL sig f l r, s, t =>
    (eval l s t).filterMap fun x => f x ((eval r s t).find? fun y => sig y.1 = sig x.1)
  | .append l r, s, t => eval l s t ++ eval r s t
  | .overTime ts key op e, s, t => groupAgg key op ((ts t).flatMap fun t' => eval e s t')
  | .aggL key op e, s, t => groupAggL key op (eval e s t)

/-- the series a store hands to shard `i` -/
def shardOf (sh : Labels → Nat) (i : Nat) (v : Vec) : Vec := v.filter fun s => sh s.1 = i

/-- … at every timestamp -/
def shardOfT (sh : Labels → Nat) (i : Nat) (s : TVec) : TVec := fun t => shardOf sh i (s t)

/-- grouping key of `op by (L) (…)`: the labels named in `L` -/
def keyBy (L : List String) (ls : Labels) : Labels := ls.filter fun l => L.contains l.1

/-- grouping key of `op without (L) (…)`: every label not in `L`, the metric name dropped -/
def keyWithout (L : List String) (ls : Labels) : Labels :=
  ls.filter fun l => !(L.contains l.1) && l.1 != "__name__"

/-- `group_left (inc)` / `group_right (inc)`: the labels named in `inc` are taken from the "one"
    side (label order inside a label set is not modelled; the shard projection is a filter, which
    distributes over the concatenation) -/
def withInc (inc : List String) (many one : Labels) : Labels :=
  (many.filter fun l => !inc.contains l.1) ++ one.filter fun l => inc.contains l.1

/-- functions such as `abs`, `rate`, arithmetic with a scalar: the metric name is dropped -/
def dropName (ls : Labels) : Labels := ls.filter fun l => l.1 != "__name__"

end Thanos.Sharding
