import Thanos.Model.Sharding
/-
  C44 — specification-level evaluation of a PromQL fragment at one timestamp (the engine is
  third-party): selectors, pointwise functions / filters, aggregations `by` / `without` of any
  nesting depth, with any aggregation operator, and vector matching `on` / `ignoring`
  (one-to-one arithmetic, comparison filters, `and`, `unless`, `or`).  Values are `Int` (the harness uses
  integer-valued samples); an aggregation operator is a function of the group's member series (labels
  and values, so that `histogram_quantile` can read `le`) in input order; no commutativity is
  assumed.
-/
namespace Thanos.Sharding

abbrev Series := Labels × Int
abbrev Vec := List Series

/-- first occurrences, in order -/
def nub {α : Type} [DecidableEq α] : List α → List α
  | [] => []
  | x :: xs => x :: (nub xs).filter (· ≠ x)

/-- the evaluable fragment.  `fn g`: a pointwise function or filter (`abs`, `x > 5`, `x * 2`,
    `label_replace` …): each input series yields at most one output series.  `agg key op`: group
    the input by `key`, one output series per group, labelled with the key. -/
inductive VExpr where
  | sel (p : Labels → Bool)
  | fn (g : Labels → Int → Option Series) (e : VExpr)
  | agg (key : Labels → Labels) (op : List Series → Int) (e : VExpr)
  /-- vector matching: every series of the left operand is combined with the series of the right
      operand that has the same signature, if any (`+ on(..)`, comparisons, `and`, `unless`) -/
  | binL (sig : Labels → Labels) (f : Series → Option Series → Option Series) (l r : VExpr)
  /-- concatenation (the two halves of `or`) -/
  | append (l r : VExpr)

def groupAgg (key : Labels → Labels) (op : List Series → Int) (v : Vec) : Vec :=
  (nub (v.map fun s => key s.1)).map fun k => (k, op (v.filter fun s => key s.1 = k))

def eval : VExpr → Vec → Vec
  | .sel p, s => s.filter fun x => p x.1
  | .fn g e, s => (eval e s).filterMap fun x => g x.1 x.2
  | .agg key op e, s => groupAgg key op (eval e s)
  | .binL sig f l r, s =>
    (eval l s).filterMap fun x => f x ((eval r s).find? fun y => sig y.1 = sig x.1)
  | .append l r, s => eval l s ++ eval r s

/-- the series a store hands to shard `i` -/
def shardOf (sh : Labels → Nat) (i : Nat) (v : Vec) : Vec := v.filter fun s => sh s.1 = i

/-- grouping key of `op by (L) (…)`: the labels named in `L` -/
def keyBy (L : List String) (ls : Labels) : Labels := ls.filter fun l => L.contains l.1

/-- grouping key of `op without (L) (…)`: every label not in `L`, the metric name dropped -/
def keyWithout (L : List String) (ls : Labels) : Labels :=
  ls.filter fun l => !(L.contains l.1) && l.1 != "__name__"

/-- `group_left (inc)` / `group_right (inc)`: the labels named in `inc` are taken from the "one"
    side (label order inside a label set is not modelled; the shard projection is a filter, which
    distributes over the concatenation) -/
def withInc (inc : List String) (many one : Labels) : Labels :=
  (many.filter fun l => !inc.contains l.1) ++ one.filter fun l => inc.contains l.1

/-- functions such as `abs`, `rate`, arithmetic with a scalar: the metric name is dropped -/
def dropName (ls : Labels) : Labels := ls.filter fun l => l.1 != "__name__"

end Thanos.Sharding
