/-
  C05 — store pruning.  Transliteration of

    pkg/store/proxy.go       storeMatches, storeMatchDebugMetadata, matchersMatchAddress,
                             LabelSetsMatch, ProxyStore.matchingStores (default TSDB selector),
                             the head of ProxyStore.Series up to the fan-out
    pkg/store/prometheus.go  matchesExternalLabels
    pkg/store/labelpb        ExtendSortedLabels (labels.Builder.Set: an empty value deletes)

  Label sets are association lists; `get` of an absent name is "" exactly as `labels.Labels.Get`.
  Regular expressions are third-party semantics: a regex matcher carries its acceptance
  predicate `acc` (supplied by the Go side as a truth table over the values of the case); the
  theorems are for every `acc`.  Core Lean only.
-/
namespace Thanos.Prune

abbrev Labels := List (String × String)

/-- `labels.Labels.Get`: value of the first label called `n`, "" when absent -/
def get : Labels → String → String
  | [], _ => ""
  | (k, v) :: r, n => if k = n then v else get r n

/-- `labels.Labels.Has` -/
def has : Labels → String → Bool
  | [], _ => false
  | (k, _) :: r, n => if k = n then true else has r n

def del (ls : Labels) (n : String) : Labels := ls.filter (fun p => !(p.1 = n))

/-- `labels.Builder.Set` followed by `Labels()`: setting "" deletes the label.  (Order inside the
    result is irrelevant for `get`/`has`, which is all a matcher looks at.) -/
def set (ls : Labels) (n v : String) : Labels :=
  if v = "" then del ls n else (n, v) :: del ls n

/-- `labelpb.ExtendSortedLabels lset extend`: the external labels override -/
def extend (lset ext : Labels) : Labels :=
  ext.foldl (fun acc p => set acc p.1 p.2) lset

inductive MType where
  | eq | neq | re | nre
  deriving DecidableEq, Repr

/-- `labels.Matcher`; `acc` is the acceptance predicate of the compiled (anchored) regex, only
    consulted for `re`/`nre` -/
structure Matcher where
  ty : MType
  name : String
  value : String
  acc : String → Bool

/-- `labels.Matcher.Matches` -/
def Matcher.matches (m : Matcher) (v : String) : Bool :=
  match m.ty with
  | .eq => v = m.value
  | .neq => !(v = m.value)
  | .re => m.acc v
  | .nre => !(m.acc v)

/-- a series with label set `ls` is selected by the matchers (Prometheus semantics: an absent
    label reads as "") -/
def matchAll (ms : List Matcher) (ls : Labels) : Bool :=
  ms.all (fun m => m.matches (get ls m.name))

/-- inner loop of `LabelSetsMatch`: some matcher names a label the set has and rejects its value -/
def lsetRejects (ms : List Matcher) (ls : Labels) : Bool :=
  ms.any (fun m => has ls m.name && !(m.matches (get ls m.name)))

/-- `LabelSetsMatch(matchers, lset...)` -/
def labelSetsMatch (ms : List Matcher) (sets : List Labels) : Bool :=
  sets.isEmpty || sets.any (fun ls => !(lsetRejects ms ls))

/-- a store as the proxy sees it (`store.Client`) -/
structure Client where
  mint : Int
  maxt : Int
  filterOK : Bool      -- Client.Matches(matchers)
  isLocal : Bool
  addr : String
  extSets : List Labels

inductive Reason where
  | ok | time | localStore | addr | extlabels | filter
  deriving DecidableEq, Repr

/-- `matchersMatchAddress` -/
def matchersMatchAddress (ms : List Matcher) (addr : String) : Bool :=
  ms.all (fun m => !(m.name = "__address__") || m.matches addr)

/-- `storeMatchDebugMetadata` -/
def storeMatchDebug (c : Client) (dbg : List (List Matcher)) : Reason :=
  if dbg.isEmpty then .ok
  else if c.isLocal then .localStore
  else if dbg.any (fun sm => matchersMatchAddress sm c.addr) then .ok
  else .addr

/-- `storeMatches`: `.ok` = the store is queried, anything else = skipped for that reason -/
def storeMatches (dbg : List (List Matcher)) (c : Client) (mint maxt : Int) (ms : List Matcher) : Reason :=
  if mint > c.maxt ∨ maxt < c.mint then .time
  else match storeMatchDebug c dbg with
    | .ok =>
      if !(labelSetsMatch ms c.extSets) then .extlabels
      else if !c.filterOK then .filter
      else .ok
    | r => r

/-- loop of `matchesExternalLabels`; `none` = "external label does not match" -/
def extLoop (ext : Labels) : List Matcher → Option (List Matcher)
  | [] => some []
  | tm :: rest =>
    let ev := get ext tm.name
    if ev = "" then (extLoop ext rest).map (tm :: ·)
    else if !(tm.matches ev) then none
    else extLoop ext rest

/-- `matchesExternalLabels(ms, externalLabels)`: `none` ⇔ match = false, `some kept` ⇔ match = true
    with the matchers that are forwarded -/
def matchesExternalLabels (ms : List Matcher) (ext : Labels) : Option (List Matcher) :=
  if ext.isEmpty then some ms else extLoop ext ms

/-- indices of the stores `ProxyStore.matchingStores` keeps (default TSDB selector) -/
def matchingStores (dbg : List (List Matcher)) (cs : List Client) (mint maxt : Int) (ms : List Matcher) : List Nat :=
  go 0 cs
where
  go (i : Nat) : List Client → List Nat
    | [] => []
    | c :: r => if storeMatches dbg c mint maxt ms = .ok then i :: go (i + 1) r else go (i + 1) r

inductive Decision where
  | nomatch                       -- selector labels reject the request: empty answer
  | invalid                       -- "no matchers specified (excluding selector labels)"
  | unavailable                   -- no stores at all and partial response disabled
  | queried (stores : List Nat) (kept : List Matcher)

/-- head of `ProxyStore.Series`: which stores get the request and with which matchers -/
def seriesDecision (sel : Labels) (abort : Bool) (dbg : List (List Matcher)) (cs : List Client)
    (mint maxt : Int) (ms : List Matcher) : Decision :=
  match matchesExternalLabels ms sel with
  | none => .nomatch
  | some kept =>
    if kept.isEmpty then .invalid
    else if cs.isEmpty && abort then .unavailable
    else .queried (matchingStores dbg cs mint maxt kept) kept

/-- what a store serves: every raw series extended by one of its external label sets (the raw
    series itself when the store advertises no label set), with its sample timestamps -/
structure Series where
  lbls : Labels
  ts : List Int

def served (c : Client) (raw : List Series) : List Series :=
  if c.extSets.isEmpty then raw
  else c.extSets.flatMap (fun e => raw.map (fun s => { s with lbls := extend s.lbls e }))

/-- the series is an answer to the query -/
def selects (ms : List Matcher) (mint maxt : Int) (s : Series) : Bool :=
  matchAll ms s.lbls && s.ts.any (fun t => mint ≤ t && t ≤ maxt)

/-! ### TSDB selector (pkg/store/tsdb_selector.go) and its use in `matchingStores` / `Series`

  `relabel.Process` is third-party: the keep/drop decision per label set is an input (`keep`). -/

structure Selector where
  isNil : Bool                 -- `relabelConfig == nil` (the default selector)
  keep : Labels → Bool         -- `relabel.Process(labelSet, cfg...)` keeps the label set

/-- `TSDBSelector.MatchLabelSets`: does the store take part, and which of its label sets are
    matched ([] for "nil": no narrowing information) -/
def matchLabelSets (sel : Selector) (sets : List Labels) : Bool × List Labels :=
  if sel.isNil || sets.isEmpty then (true, [])
  else
    let m := sets.filter sel.keep
    (!m.isEmpty, m)

/-- label names of the given label sets, each once, in order of first appearance -/
def labelNames (sets : List Labels) : List String :=
  (sets.flatMap (fun ls => ls.map (·.1))).eraseDups

def insertStr (x : String) : List String → List String
  | [] => [x]
  | y :: r => if x < y then x :: y :: r else if x = y then y :: r else y :: insertStr x r

/-- sorted, duplicate free -/
def sortDedup (xs : List String) : List String := xs.foldr insertStr []

/-- the values of label `n` in the label sets that have it -/
def valuesOf (sets : List Labels) (n : String) : List String :=
  sets.filterMap (fun ls => if has ls n then some (get ls n) else none)

/-- some label set does not have label `n` -/
def someLacks (sets : List Labels) (n : String) : Bool := sets.any (fun ls => !(has ls n))

/-- `regexp.QuoteMeta` -/
def quoteMeta (s : String) : String :=
  String.ofList (s.toList.flatMap fun c =>
    if c = '\\' || c = '.' || c = '+' || c = '*' || c = '?' || c = '(' || c = ')' || c = '|' ||
       c = '[' || c = ']' || c = '{' || c = '}' || c = '^' || c = '$' then ['\\', c] else [c])

/-- one matcher of `MatchersForLabelSets`: `n =~ "v1|v2|…"`, with `^$` among the alternatives when a
    label set lacks `n`; the values are quoted (`regexp.QuoteMeta`, since the repair).  The
    acceptance predicate is what that regular expression means: one of the values, or empty when
    `^$` is listed (regular-expression semantics are third party; the Go oracle evaluates the real
    forwarded matchers). -/
def selMatcher (sets : List Labels) (n : String) : Matcher :=
  let vals := valuesOf sets n
  let lacks := someLacks sets n
  { ty := .re, name := n,
    value := "|".intercalate (sortDedup (if lacks then "^$" :: vals.map quoteMeta else vals.map quoteMeta)),
    acc := fun x => vals.contains x || (lacks && x = "") }

/-- `MatchersForLabelSets` (the Go code iterates a map: the order of the matchers is unspecified;
    here: order of first appearance of the names) -/
def matchersForLabelSets (sets : List Labels) : List Matcher :=
  (labelNames sets).map (selMatcher sets)

/-- `storesForTSDBSelector` + `matchingStores`: indices of the stores that get the request and the
    union of their matched label sets -/
def selStores (sel : Selector) (dbg : List (List Matcher)) (mint maxt : Int) (ms : List Matcher) :
    Nat → List Client → List Nat × List Labels
  | _, [] => ([], [])
  | i, c :: r =>
    let (m, kept) := matchLabelSets sel c.extSets
    let (idx, u) := selStores sel dbg mint maxt ms (i + 1) r
    if m && decide (storeMatches dbg c mint maxt ms = .ok) then (i :: idx, kept ++ u) else (idx, u)

inductive DecisionSel where
  | nomatch
  | invalid
  | unavailable
  | queried (stores : List Nat) (kept : List Matcher) (extra : List Matcher)

/-- head of `ProxyStore.Series` with a TSDB selector: the stores that get the request, the request's
    own matchers that are forwarded (`kept`) and the matchers added for the selected label sets -/
def seriesDecisionSel (sel : Selector) (selLabels : Labels) (abort : Bool) (dbg : List (List Matcher))
    (cs : List Client) (mint maxt : Int) (ms : List Matcher) : DecisionSel :=
  match matchesExternalLabels ms selLabels with
  | none => .nomatch
  | some kept =>
    if kept.isEmpty then .invalid
    else if cs.isEmpty && abort then .unavailable
    else
      let (idx, union) := selStores sel dbg mint maxt kept 0 cs
      .queried idx kept (matchersForLabelSets union)

end Thanos.Prune
