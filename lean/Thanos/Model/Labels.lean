/-
  C08 (and the store specification of C07/C10) — label sets.

  pkg/store/labelpb/label.go : ExtendSortedLabels
  pkg/store/proxy_merge.go   : rmLabels
  prometheus model/labels (slicelabels build) : Builder.Set / Del / Labels, Labels.Get

  Strings are third-party as far as ordering goes: a label NAME is the rank of the string in byte order
  (the harness sorts the real strings and sends ranks), a label VALUE is an opaque id with `0` = the empty
  string.  So `<` on names is `<` on `Nat`, and "value is empty" is `= 0`.
-/
namespace Thanos.Labels

abbrev Label := Nat × Nat
abbrev Labels := List Label

/-- first label with the name (`Labels.Get` returns its value, `""` when there is none) -/
def lookup : Labels → Nat → Option Nat
  | [], _ => none
  | (m, v) :: r, n => if m = n then some v else lookup r n

/-- `Labels.Get` -/
def get (ls : Labels) (n : Nat) : Nat := (lookup ls n).getD 0

def hasName (ls : Labels) (n : Nat) : Bool := (lookup ls n).isSome

/-- `labels.Builder` -/
structure Builder where
  base : Labels
  del : List Nat
  add : Labels
  deriving Repr

/-- names of labels with an empty value -/
def emptyNames (ls : Labels) : List Nat := (ls.filter (fun l => l.2 == 0)).map (·.1)

/-- `NewBuilder(base)` = `Reset(base)`: base labels with an empty value start out deleted -/
def newBuilder (base : Labels) : Builder := ⟨base, emptyNames base, []⟩

/-- `Builder.Del(n)`: drop `n` from `add` (names in `add` are unique, so the slice surgery of the Go loop
    removes exactly that entry), remember it in `del` -/
def Builder.delete (b : Builder) (n : Nat) : Builder :=
  { b with add := b.add.filter (fun l => l.1 != n), del := b.del ++ [n] }

/-- the `add` part of `Builder.Set`: overwrite the entry with that name or append one -/
def setAdd : Labels → Nat → Nat → Labels
  | [], n, v => [(n, v)]
  | (m, w) :: r, n, v => if m = n then (m, v) :: r else (m, w) :: setAdd r n v

/-- `Builder.Set(n, v)`: an empty value deletes -/
def Builder.set (b : Builder) (n v : Nat) : Builder :=
  if v = 0 then b.delete n else { b with add := setAdd b.add n v }

/-- insertion that keeps the arrival order of equal names (`slices.SortFunc` is not stable; the results
    coincide whenever names are unique, which is the domain of the comparison) -/
def insertByName (x : Label) : Labels → Labels
  | [] => [x]
  | y :: ys => if x.1 ≤ y.1 then x :: y :: ys else y :: insertByName x ys

def sortByName (ls : Labels) : Labels := ls.foldr insertByName []

/-- `Builder.Labels()` -/
def Builder.labels (b : Builder) : Labels :=
  if b.del.isEmpty && b.add.isEmpty then b.base else
  let res := b.base.filter (fun l => !(b.del.contains l.1) && !(hasName b.add l.1))
  if b.add.isEmpty then res else sortByName (res ++ b.add)

/-- `labelpb.ExtendSortedLabels(lset, extend)` -/
def extendSorted (lset ext : Labels) : Labels :=
  if ext.isEmpty then lset else
  (ext.foldl (fun b l => b.set l.1 l.2) (newBuilder lset)).labels

/-- `rmLabels(l, labelsToRemove)`; the Go map is iterated in some order: `rm` is given a list -/
def rm (names : List Nat) (l : Labels) : Labels :=
  (names.foldl Builder.delete (newBuilder l)).labels

/-- what `TSDBStore.Series` serves for a stored label set, `R` = WithoutReplicaLabels:
    `ExtendSortedLabels(rmLabels(series.Labels(), R), rmLabels(ext, R))` -/
def serveTSDB (R : List Nat) (ext raw : Labels) : Labels :=
  extendSorted (rm R raw) (rm R ext)

/-- what `blockSeriesClient.nextBatch` serves: `extLset` is `rmLabels(ext, R)` when the request has replica
    labels, the series gets `ExtendSortedLabels(lset, extLset)` and then `rmLabels(·, R)` -/
def serveBucket (R : List Nat) (ext raw : Labels) : Labels :=
  let e := if R.isEmpty then ext else rm R ext
  let c := extendSorted raw e
  if R.isEmpty then c else rm R c

end Thanos.Labels
