import Thanos.Model.Uvarint
/-
  C12 — pkg/store/postings_codec.go
    diffVarintEncodeNoHeader / diffVarintSnappyStreamedEncode   (the diff+uvarint payload)
    diffVarintPostings.{Next,Seek,Err}                          (codec "dvs": one snappy block)
    streamedDiffVarintPostings.{Next,Seek,readNextChunk}        (codec "dss": framed snappy stream)
  Bytes are naturals (as in Model/Uvarint).  Snappy/s2 (block compression, framing, CRC) is third
  party: the model sees the *decoded payloads* of the data chunks, in order, as `List (List Nat)`;
  any chunk boundaries are allowed (a varint may be split across chunks; chunks may be empty —
  a skippable/padding chunk behaves as an empty one).
-/
namespace Thanos.PostingsCodec
open Thanos.Uvarint

def M64 : Nat := 2 ^ 64

/-- the loop of `diffVarintEncodeNoHeader` / `diffVarintSnappyStreamedEncode`;
    `none` = "postings entries must be in increasing order" (the test is `v < prev`, so equal
    neighbours are accepted) -/
def encodeFrom (prev : Nat) : List Nat → Option (List Nat)
  | [] => some []
  | v :: vs =>
    if v < prev then none else
    match encodeFrom v vs with
    | none => none
    | some bs => some (uvarint (v - prev) ++ bs)

def encode (l : List Nat) : Option (List Nat) := encodeFrom 0 l

/-! ### what the two decoded iterators share: the Seek loop, scripts, draining -/

/-- the state-passing form of a decoded iterator: `next` (with its result), `At()`, and a bound on
    the number of successful `next` calls still possible (used as fuel only) -/
structure IterOps (σ : Type) where
  next : σ → Bool × σ
  cur : σ → Nat
  size : σ → Nat

/-- the loop `for it.Next() { if it.At() >= x { return true } }; return false` of both Seek methods -/
def scanG {σ : Type} (I : IterOps σ) (x : Nat) : Nat → σ → Bool × σ
  | 0, s => (false, s)
  | f + 1, s =>
    match I.next s with
    | (false, s') => (false, s')
    | (true, s') => if I.cur s' ≥ x then (true, s') else scanG I x f s'

/-- `Seek(x)`: both implementations start with `if it.cur >= x { return true }` -/
def seekG {σ : Type} (I : IterOps σ) (x : Nat) (s : σ) : Bool × σ :=
  if I.cur s ≥ x then (true, s) else scanG I x (I.size s + 1) s

inductive Op where
  | next
  | seek (x : Nat)
  deriving Repr, DecidableEq

/-- one observation: the call's result and, when true, `At()` -/
abbrev Obs := Option Nat

def obs (r : Bool) (cur : Nat) : Obs := if r then some cur else none

/-- run a script of Next/Seek calls -/
def runG {σ : Type} (I : IterOps σ) : List Op → σ → List Obs
  | [], _ => []
  | .next :: ops, s => let (r, s') := I.next s; obs r (I.cur s') :: runG I ops s'
  | .seek x :: ops, s => let (r, s') := seekG I x s; obs r (I.cur s') :: runG I ops s'

/-- all values produced by calling Next until it fails -/
def drainG {σ : Type} (I : IterOps σ) : Nat → σ → List Nat × σ
  | 0, s => ([], s)
  | f + 1, s =>
    match I.next s with
    | (false, s') => ([], s')
    | (true, s') => let (vs, s'') := drainG I f s'; (I.cur s' :: vs, s'')

/-! ### codec "dvs": diffVarintPostings over one decoded buffer -/

structure Plain where
  cur : Nat
  buf : List Nat
  err : Bool          -- buf.Err() != nil (sticky ErrInvalidSize of the Decbuf)
  deriving Repr, DecidableEq

/-- diffVarintPostings.Next -/
def Plain.next (s : Plain) : Bool × Plain :=
  if s.err || s.buf.isEmpty then (false, s) else
  let (x, n) := unuvarint s.buf
  if n < 1 then (false, { s with err := true })
  else (true, { s with cur := (s.cur + x) % M64, buf := s.buf.drop n.toNat })

/-- every successful Next consumes at least one byte -/
def plainOps : IterOps Plain := ⟨Plain.next, (·.cur), fun s => s.buf.length⟩

/-! ### codec "dss": streamedDiffVarintPostings over the chunk payloads -/

structure Stream where
  cur : Nat
  buf : List Nat              -- it.db.B
  chunks : List (List Nat)    -- payloads of the data chunks not yet read
  deriving Repr, DecidableEq

/-- streamedDiffVarintPostings.Next: try to read a varint from `db.B`; on failure (`n < 1`:
    buffer empty, varint cut off, or overflow) append the next chunk to what is left and retry;
    no chunk left ⇒ false (normal EOF, whatever is left in the buffer). -/
def streamNext (cur : Nat) : (buf : List Nat) → (chunks : List (List Nat)) → Option Stream
  | buf, [] =>
    let (x, n) := unuvarint buf
    if n < 1 then none else some ⟨(cur + x) % M64, buf.drop n.toNat, []⟩
  | buf, c :: cs =>
    let (x, n) := unuvarint buf
    if n < 1 then streamNext cur (buf ++ c) cs else some ⟨(cur + x) % M64, buf.drop n.toNat, c :: cs⟩

/-- after a failed Next the iterator has consumed every chunk; the buffer keeps the bytes that
    did not form a varint -/
def Stream.exhaust (s : Stream) : Stream := ⟨s.cur, s.buf ++ s.chunks.flatten, []⟩

def Stream.next (s : Stream) : Bool × Stream :=
  match streamNext s.cur s.buf s.chunks with
  | some s' => (true, s')
  | none => (false, s.exhaust)

def Stream.size (s : Stream) : Nat := s.buf.length + s.chunks.flatten.length

def streamOps : IterOps Stream := ⟨Stream.next, (·.cur), Stream.size⟩

/-! ### the reference: an iterator over the original list (the contract of index.Postings as
    implemented by Prometheus' ListPostings while it is not exhausted) -/

structure Ref where
  cur : Nat
  rest : List Nat
  deriving Repr, DecidableEq

def Ref.next (s : Ref) : Bool × Ref :=
  match s.rest with
  | [] => (false, s)
  | v :: r => (true, ⟨v, r⟩)

/-- first element ≥ x of the rest, if any -/
def Ref.scan (x : Nat) (cur : Nat) : List Nat → Bool × Ref
  | [] => (false, ⟨cur, []⟩)
  | v :: r => if v ≥ x then (true, ⟨v, r⟩) else Ref.scan x v r

def Ref.seek (x : Nat) (s : Ref) : Bool × Ref :=
  if s.cur ≥ x then (true, s) else Ref.scan x s.cur s.rest

def Ref.run : List Op → Ref → List Obs
  | [], _ => []
  | .next :: ops, s => let (r, s') := s.next; obs r s'.cur :: Ref.run ops s'
  | .seek x :: ops, s => let (r, s') := s.seek x; obs r s'.cur :: Ref.run ops s'

/-- decode everything: codec "dvs" -/
def decodePlain (bytes : List Nat) : List Nat :=
  (drainG plainOps (bytes.length + 1) ⟨0, bytes, false⟩).1

/-- decode everything: codec "dss", for the given chunk payloads -/
def decodeStream (chunks : List (List Nat)) : List Nat :=
  let s : Stream := ⟨0, [], chunks⟩
  (drainG streamOps (s.size + 1) s).1

end Thanos.PostingsCodec
