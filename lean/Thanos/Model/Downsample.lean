/-
  C36 / C37 / C38 — pkg/compact/downsample/downsample.go (float path) and the two readers in
  pkg/query/iter.go (chunkSeriesIterator) and downsample.go (ApplyCounterResetsSeriesIterator).

  Values are `Int` (the harness generates integer-valued float64 below 2^53, where Go's float
  arithmetic is exact).  A raw sample is `(t, some v)` or `(t, none)` for a NaN (ordinary NaN and
  the stale marker are both dropped by `math.IsNaN` in downsampleRawLoop).  `numChunks`
  (targetChunkCount: float arithmetic) is an input.

  Core Lean only.  Loops are structural recursion or carry an explicit fuel argument.
-/
namespace Thanos.Downsample

abbrev Pt := Int × Int
abbrev Raw := Int × Option Int

/-- math.MaxFloat64 = (2 − 2^−52)·2^1023 = 2^1024 − 2^971, which is an integer (written as a
    literal so that `decide` evaluates it; `maxFloat_eq` in Lemmas/Downsample.lean) -/
def maxFloat : Int := 179769313486231570814527423731704356798070567525844996598917476803157260780028538760589558632766878171540458953514382464234321326889464182768467546703537516986049910576551282076245490090389328944075868508455133942304583236903222948165808559332123348274797826204144723168738177180919299881250404026184124858368
/-- math.MaxInt64, math.MinInt64 -/
def maxInt64 : Int := 9223372036854775807
def minInt64 : Int := -9223372036854775808

/-- currentWindow as written before the repair (F36): Go's `%` truncates towards zero -/
def currentWindowTrunc (t r : Int) : Int := t - Int.tmod t r + r - 1

/-- currentWindow: `m := t % r; if m < 0 { m += r }; return t - m + r - 1` (Go's `%` truncates;
    the shift makes it the floored remainder) -/
def currentWindow (t r : Int) : Int :=
  let m := Int.tmod t r
  t - (if m < 0 then m + r else m) + r - 1

/-! ### floatAggregator -/

structure Agg where
  total : Nat := 0
  count : Nat := 0
  sum : Int := 0
  min : Int := 0
  max : Int := 0
  counter : Int := 0
  resets : Nat := 0
  last : Int := 0
  deriving Repr, DecidableEq

/-- `&floatAggregator{}` -/
def Agg.zero : Agg := {}

def Agg.reset (a : Agg) : Agg :=
  { a with count := 0, sum := 0, min := maxFloat, max := -maxFloat }

def Agg.add (a : Agg) (v : Int) : Agg :=
  { total := a.total + 1
    count := a.count + 1
    sum := a.sum + v
    min := if v < a.min then v else a.min
    max := if v > a.max then v else a.max
    counter := if a.total > 0 then (if v < a.last then a.counter + v else a.counter + (v - a.last)) else v
    resets := if a.total > 0 ∧ v < a.last then a.resets + 1 else a.resets
    last := v }

/-! ### downsampleBatch -/

/-- the `add(nextT, aggr)` calls of downsampleBatch, in order, as (timestamp, snapshot of the
    aggregator); `lastT = data[len(data)-1].t` is fixed by the caller; `nextT` starts at
    math.MinInt64 = "no window started yet" (since the repair of F36; it was −1) -/
def batchEmit (r lastT : Int) : List Pt → Int → Agg → List (Int × Agg)
  | [], nextT, a => if a.total > 0 then [(nextT, a)] else []
  | (t, v) :: rest, nextT, a =>
    if t > nextT then
      (if nextT ≠ minInt64 then [(nextT, a)] else []) ++
        batchEmit r lastT rest (min (currentWindow t r) lastT) (a.reset.add v)
    else batchEmit r lastT rest nextT (a.add v)

/-- the value of `nextT` that downsampleBatch returns -/
def batchNextT (r lastT : Int) : List Pt → Int → Int
  | [], nextT => nextT
  | (t, _) :: rest, nextT =>
    if t > nextT then batchNextT r lastT rest (min (currentWindow t r) lastT)
    else batchNextT r lastT rest nextT

/-- downsampleBatch with a fresh `&floatAggregator{}`; `none` = Go panics (index out of range on
    `data[len(data)-1]`; no caller passes an empty slice) -/
def downsampleBatch (data : List Pt) (r : Int) : Option (List (Int × Agg) × Int) :=
  match data.getLast? with
  | none => none
  | some l => some (batchEmit r l.1 data minInt64 Agg.zero, batchNextT r l.1 data minInt64)

/-! ### aggregate chunks -/

/-- An aggregate chunk as its five decoded sample lists.  `[]` = the aggregate is absent (nil
    sub-chunk); a present sub-chunk always has at least one sample here. -/
structure Chunk where
  mint : Int
  maxt : Int
  count : List Pt
  sum : List Pt
  min : List Pt
  max : List Pt
  counter : List Pt
  deriving Repr, DecidableEq

/-- `if t < b.mint { b.mint = t }` over the emitted timestamps -/
def foldMint (ts : List Int) (m : Int) : Int := ts.foldl (fun m t => if t < m then t else m) m
/-- `if t > b.maxt { b.maxt = t }` over the emitted timestamps -/
def foldMaxt (ts : List Int) (m : Int) : Int := ts.foldl (fun m t => if t > m then t else m) m

/-- downsampleFloatBatch (newAggrChunkBuilder, first raw value, downsampleBatch with `ab.add`,
    last raw value, encode) -/
def floatBatch (batch : List Pt) (r : Int) : Option Chunk :=
  match batch.head?, batch.getLast?, downsampleBatch batch r with
  | some first, some last, some (out, lastT) =>
    let ts := out.map (·.1)
    some { mint := foldMint ts maxInt64
           maxt := foldMaxt ts minInt64
           count := out.map fun e => (e.1, (e.2.count : Int))
           sum := out.map fun e => (e.1, e.2.sum)
           min := out.map fun e => (e.1, e.2.min)
           max := out.map fun e => (e.1, e.2.max)
           counter := first :: (out.map fun e => (e.1, e.2.counter)) ++ [(lastT, last.2)] }
  | _, _, _ => none

/-- the NaN filter of downsampleRawLoop -/
def dropNaN (data : List Raw) : List Pt :=
  data.filterMap fun s => s.2.map fun v => (s.1, v)

/-- the `for len(data) > 0` loop of downsampleRawLoop.  `fuel` bounds the number of iterations
    (every iteration consumes at least one sample when `batchSize ≥ 1`); `none` = Go panics
    (or the fuel ran out, which `rawLoop_fuel` excludes). -/
def rawLoop (r : Int) (batchSize : Nat) : Nat → List Raw → Option (List Chunk)
  | _, [] => some []
  | 0, _ :: _ => none
  | fuel + 1, data =>
    let j := min batchSize data.length
    let head := data.take j
    let tail := data.drop j
    match head.getLast? with
    | none => none                       -- j = 0: data[j-1] panics
    | some l =>
      let curW := currentWindow l.1 r
      let ext := tail.takeWhile fun s => s.1 ≤ curW
      let rest := tail.dropWhile fun s => s.1 ≤ curW
      let batch := dropNaN (head ++ ext)
      if batch = [] then rawLoop r batchSize fuel rest
      else
        match floatBatch batch r, rawLoop r batchSize fuel rest with
        | some c, some cs => some (c :: cs)
        | _, _ => none

/-- downsampleRawLoop on float samples with `numChunks` given (`nc = 0`: integer division by zero) -/
def downsampleRaw (data : List Raw) (r : Int) (nc : Nat) : Option (List Chunk) :=
  if data = [] then some []            -- `if len(data) == 0 { return }` comes first
  else if nc = 0 then none
  else rawLoop r (data.length / nc + 1) data.length data

/-! ### reading back: ApplyCounterResetsSeriesIterator -/

/-- a pending `Seek(x)` returns to its caller once `AtT() ≥ x`; frames are innermost first -/
def popFrames (t : Int) : List Int → List Int
  | [] => []
  | x :: xs => if t ≥ x then popFrames t xs else x :: xs

structure CR where
  total : Nat := 0
  lastT : Int := 0
  lastV : Int := 0
  totalV : Int := 0
  deriving Repr, DecidableEq

/-- the state after `Next` returned ValFloat for the sample `(t, v)` (`none`: the sample is
    consumed without being returned) -/
def CR.step (s : CR) (t v : Int) : CR × Bool :=
  if s.total = 0 then ({ total := 1, lastT := t, lastV := v, totalV := v }, true)
  else if t > s.lastT then
    ({ total := s.total + 1, lastT := t, lastV := v,
       totalV := if v ≥ s.lastV then s.totalV + (v - s.lastV) else s.totalV + v }, true)
  else if t = s.lastT then ({ s with lastV := v }, false)
  else (s, false)

/-- drain the current chunk: samples handed to the outermost caller of `Next`, the iterator
    state and the pending Seek frames when the chunk is exhausted -/
def crChunk : List Pt → CR → List Int → List Pt × CR × List Int
  | [], s, fr => ([], s, fr)
  | (t, v) :: rest, s, fr =>
    let (s', ret) := s.step t v
    if ret then
      let fr' := popFrames s'.lastT fr
      if fr' = [] then
        let (out, s'', fr'') := crChunk rest s' []
        ((s'.lastT, s'.totalV) :: out, s'', fr'')
      else crChunk rest s' fr'
    else crChunk rest s' fr

/-- all chunks: when a chunk is exhausted `Next` does `it.i++; return it.Seek(it.lastT + 1)` -/
def crChunks : List (List Pt) → CR → List Int → List Pt × CR
  | [], s, _ => ([], s)
  | c :: cs, s, fr =>
    let (out, s', fr') := crChunk c s fr
    let (out2, s'') := crChunks cs s' ((s'.lastT + 1) :: fr')
    (out ++ out2, s'')

/-- NewApplyCounterResetsIterator(chks...) drained with Next/At: emitted samples and `it.lastV` -/
def applyResets (chks : List (List Pt)) : List Pt × Int :=
  let (out, s) := crChunks chks {} []
  (out, s.lastV)

/-! ### reading back: query.chunkSeriesIterator -/

def csChunkOut : List Pt → List Int → List Pt
  | [], _ => []
  | (t, v) :: rest, fr =>
    let fr' := popFrames t fr
    if fr' = [] then (t, v) :: csChunkOut rest [] else csChunkOut rest fr'

def csChunkFrames : List Pt → List Int → List Int
  | [], fr => fr
  | (t, _) :: rest, fr => csChunkFrames rest (popFrames t fr)

/-- `AtT()` of the XOR iterator of a sub-chunk once it is exhausted: the last timestamp, or
    math.MinInt64 when nothing was read (`chk.Iterator(nil)` starts there) -/
def chunkAtT (c : List Pt) : Int :=
  match c.getLast? with
  | some p => p.1
  | none => minInt64

/-- chunk switches of chunkSeriesIterator.Next: `it.i++; it.cur = …; return it.Seek(lastT + 1)`
    (`prevT` = `AtT()` of the exhausted chunk's iterator; the fresh iterator's `AtT()` is
    MinInt64, so Seek always goes on to call Next) -/
def csRest : Int → List Int → List (List Pt) → List Pt
  | _, _, [] => []
  | prevT, fr, c :: cs =>
    csChunkOut c ((prevT + 1) :: fr) ++ csRest (chunkAtT c) (csChunkFrames c ((prevT + 1) :: fr)) cs

/-- newChunkSeriesIterator(chunks) drained with Next/At (no chunks: errSeriesIterator) -/
def chunkSeriesIter : List (List Pt) → List Pt
  | [] => []
  | c :: cs => csChunkOut c [] ++ csRest (chunkAtT c) [] cs

/-- dedup.boundedSeriesIterator(it, mint, maxt) drained with Next over the samples `it` yields:
    a sample before `mint` makes it `Seek(mint)` (the inner Seek calls Next until `AtT() ≥ mint`),
    the first sample beyond `maxt` ends the iteration ("once we passed the valid interval, there is
    no going back") -/
def boundedDrain (mint maxt : Int) : List Pt → List Pt
  | [] => []
  | (t, v) :: rest =>
    if t < mint then boundedDrain mint maxt rest
    else if t ≤ maxt then (t, v) :: boundedDrain mint maxt rest
    else []

/-! ### downsampling aggregate chunks -/

/-- expandXorChunkIterator on the samples of one sub-chunk: samples that go back in time are
    skipped (`lastT` starts at 0 for every chunk) -/
def expandXor : List Pt → Int → List Pt
  | [], _ => []
  | (t, v) :: rest, lastT => if t ≥ lastT then (t, v) :: expandXor rest t else expandXor rest lastT

/-- genericAggregate: (mint, maxt, samples of the new sub-chunk) -/
def genericAggregate (sel : Chunk → List Pt) (f : Agg → Int) (part : List Chunk) (r : Int) :
    Int × Int × List Pt :=
  let buf := part.flatMap fun c => expandXor (sel c) 0
  match downsampleBatch buf r with
  | none => (0, 0, [])                 -- len(*buf) == 0: `return 0, 0, nil`
  | some (out, _) =>
    let ts := out.map (·.1)
    (foldMint ts maxInt64, foldMaxt ts minInt64, out.map fun e => (e.1, f e.2))

def lower (a b : Int) : Int := if a < b then a else b
def upper (a b : Int) : Int := if a > b then a else b

/-- downsampleFloatAggrBatch -/
def floatAggrBatch (part : List Chunk) (r : Int) : Chunk :=
  let (m1, x1, cnt) := genericAggregate (·.count) (·.sum) part r
  let (m2, x2, sum) := genericAggregate (·.sum) (·.sum) part r
  let (m3, x3, mn) := genericAggregate (·.min) (·.min) part r
  let (m4, x4, mx) := genericAggregate (·.max) (·.max) part r
  let mint := lower m4 (lower m3 (lower m2 (lower m1 maxInt64)))
  let maxt := upper x4 (upper x3 (upper x2 (upper x1 minInt64)))
  let acs := (part.map (·.counter)).filter (fun c => !c.isEmpty)
  let (crOut, lastV) := applyResets acs
  let buf := expandXor crOut 0
  match buf.head?, downsampleBatch buf r with
  | some first, some (out, lastT) =>
    let ts := out.map (·.1)
    { mint := foldMint ts mint, maxt := foldMaxt ts maxt
      count := cnt, sum := sum, min := mn, max := mx
      counter := first :: (out.map fun e => (e.1, e.2.counter)) ++ [(lastT, lastV)] }
  | _, _ => { mint := mint, maxt := maxt, count := cnt, sum := sum, min := mn, max := mx, counter := [] }

inductive AggrRes where
  | ok (chunks : List Chunk)
  | invalidRange            -- "invalid range for downsampled aggregate chunk"
  | hang                    -- the Go loop does not terminate
  | panic                   -- integer division by zero
  deriving Repr, DecidableEq

/-- `batchSize` as computed by downsampleAggrLoop: `clamp = false` is `len(chks) / numChunks`
    as originally written, `clamp = true` never lets it be 0 -/
def aggrBatchSize (clamp : Bool) (len nc : Nat) : Nat :=
  if clamp then max 1 (len / nc) else len / nc

/-- which of the two the tree under check uses (`max(len(chks)/numChunks, 1)` since the repair;
    regenerated obligation `C38_source_facts`) -/
def aggrClampNow : Bool := true

/-- the `for len(chks) > 0` loop of downsampleAggrLoop; running out of fuel (= number of
    chunks) means that the iterations stopped consuming chunks: the Go loop spins forever -/
def aggrLoop (r : Int) (batchSize : Nat) : Nat → List Chunk → AggrRes
  | _, [] => .ok []
  | 0, _ :: _ => .hang
  | fuel + 1, chks =>
    let j := min batchSize chks.length
    let chk := floatAggrBatch (chks.take j) r
    if chk.mint = maxInt64 ∨ chk.maxt = minInt64 then .invalidRange
    else
      match aggrLoop r batchSize fuel (chks.drop j) with
      | .ok cs => .ok (chk :: cs)
      | e => e

/-- downsampleAggrLoop(chks, …, resolution, numChunks, downsampleFloatAggrBatch) -/
def downsampleAggrLoop (clamp : Bool) (chks : List Chunk) (r : Int) (nc : Nat) : AggrRes :=
  if nc = 0 then .panic else aggrLoop r (aggrBatchSize clamp chks.length nc) chks.length chks

end Thanos.Downsample
