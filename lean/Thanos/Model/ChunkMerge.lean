import Thanos.Model.Iter
/-
  C40 — pkg/dedup/chunk_iter.go: NewChunkSeriesMerger, dedupChunksIterator.Next,
  overlappingMerger (aggregate branch), aggrChunkIterator.Next / toChunk,
  pkg/dedup/iter.go: boundedSeriesIterator.

  A sub-chunk (XOR chunk of one aggregate) is its list of samples (the XOR codec is trusted);
  `chunkenc.xorIterator` is modelled by `xorOps`.  The sample iterators are composed exactly as
  in the code with the `Ops` records of `Model/Iter.lean`.
-/
namespace Thanos.Dedup

/-! ### chunkenc.xorIterator -/

/-- `cur` = `(it.t, it.val)` (zero before the first sample), `started` = `numRead ≠ 0`;
    `done` records that `Next` has returned `ValNone` (`numRead == numTotal` was hit) — no method
    reads it, it only lets the lemmas tell an exhausted iterator from a positioned one -/
structure XorIt where
  rest : List Sample
  cur : Sample
  started : Bool
  done : Bool
deriving DecidableEq, Repr

def XorIt.init (l : List Sample) : XorIt := { rest := l, cur := ⟨0, 0⟩, started := false, done := false }

def xorNext (s : XorIt) : XorIt × Bool :=
  match s.rest with
  | [] => ({ s with done := true }, false)
  | x :: tl => ({ rest := tl, cur := x, started := true, done := false }, true)

/-- `for t > it.t || it.numRead == 0 { if it.Next() == ValNone { return ValNone } }; return ValFloat` -/
def xorSeekLoop (t : Int) : List Sample → Sample → Bool → Bool → XorIt × Bool
  | [], cur, started, done =>
    if t > cur.t || !started then ({ rest := [], cur := cur, started := started, done := true }, false)
    else ({ rest := [], cur := cur, started := started, done := done }, true)
  | x :: tl, cur, started, done =>
    if t > cur.t || !started then xorSeekLoop t tl x true false
    else ({ rest := x :: tl, cur := cur, started := started, done := done }, true)

def xorOps : Ops XorIt where
  next := xorNext
  seek := fun t s => xorSeekLoop t s.rest s.cur s.started s.done
  atS := fun s => some s.cur
  atT := fun s => some s.cur.t
  adjust := fun _ s => s
  bad := fun _ => false
  fuel := fun s => s.rest.length + 1

def xorIt (l : List Sample) : AnyIt := { σ := XorIt, ops := xorOps, st := XorIt.init l }

/-! ### boundedSeriesIterator and aggrChunkIterator.toChunk -/

section bounded
variable {σ : Type} (o : Ops σ) (mint maxt : Int)

/-- `boundedSeriesIterator.Seek` -/
def bSeek (t : Int) (s : σ) : σ × Bool :=
  if t > maxt then (s, false) else o.seek (if t < mint then mint else t) s

/-- `boundedSeriesIterator.Next`; `none` = a call inside panics -/
def bNext (s : σ) : Option (σ × Bool) :=
  let r := o.next s
  if !r.2 then some (r.1, false) else
  match o.atT r.1 with
  | none => none
  | some t =>
    if t < mint then
      let r2 := bSeek o mint maxt mint r.1
      if !r2.2 then some (r2.1, false) else
      match o.atT r2.1 with
      | none => none
      | some t2 => some (r2.1, decide (t2 ≤ maxt))
    else some (r.1, decide (t ≤ maxt))

/-- `for it.Next() != ValNone { lastT, lastV = it.At(); appender.Append(lastT, lastV) }` -/
def toChunkLoop : Nat → σ → Option (σ × List Sample)
  | 0, _ => none
  | n + 1, s =>
    match bNext o mint maxt s with
    | none => none
    | some (s', false) => some (s', [])
    | some (s', true) =>
      match o.atS s' with
      | none => none
      | some x => (toChunkLoop n s').map fun q => (q.1, x :: q.2)

/-- the sample loop of `toChunk` as in the pinned tree: every window starts with `Next` -/
def toChunkOrig (s : σ) : Option (σ × List Sample) :=
  toChunkLoop o mint maxt (o.fuel s + 2) s

/-- the sample loop of `toChunk` after the F40 repair:
    `for vt := it.Seek(minTime); vt != ValNone && it.AtT() <= maxTime; vt = it.Next()` -/
def toChunkFixed (s : σ) : Option (σ × List Sample) :=
  let r := bSeek o mint maxt mint s
  if !r.2 then some (r.1, []) else
  match o.atT r.1, o.atS r.1 with
  | some t, some x =>
    if t ≤ maxt then (toChunkLoop o mint maxt (o.fuel r.1 + 2) r.1).map fun q => (q.1, x :: q.2)
    else some (r.1, [])
  | _, _ => none

end bounded

/-- the end of `toChunk`: `lastT == 0 && lastV == 0` means "no sample in the window" (nil
    chunk); the counter aggregate gets its last sample appended once more -/
def finishChunk (isCounter : Bool) (l : List Sample) : Option (List Sample) :=
  match l.getLast? with
  | none => none
  | some x => if x.t = 0 ∧ x.v = 0 then none else some (if isCounter then l ++ [x] else l)

/-- the chunks of one aggregate, window after window, drawn from one shared iterator;
    outer `none` = panic -/
def toChunksGo {σ : Type} (o : Ops σ) (chunkFixed isCounter : Bool) :
    List (Int × Int) → σ → Option (List (Option (List Sample)))
  | [], _ => some []
  | (mint, maxt) :: ws, s =>
    match (if chunkFixed then toChunkFixed o mint maxt s else toChunkOrig o mint maxt s) with
    | none => none
    | some (s', l) => (toChunksGo o chunkFixed isCounter ws s').map (finishChunk isCounter l :: ·)

def toChunksCol (chunkFixed isCounter : Bool) (wins : List (Int × Int)) :
    Option AnyIt → Option (List (Option (List Sample)))
  | none => some (wins.map fun _ => none)            -- `a.iters[at] == nil`
  | some i => toChunksGo i.ops chunkFixed isCounter wins i.st

/-! ### overlappingMerger.iterator (aggregate branch) and aggrChunkIterator -/

/-- an aggregate chunk: `[count, sum, min, max, counter]`, `none` = aggregate absent -/
structure AggrChk where
  mint : Int
  maxt : Int
  aggr : List (Option (List Sample))
deriving DecidableEq, Repr

def AggrChk.get (c : AggrChk) (i : Nat) : Option (List Sample) := (c.aggr[i]?).join

/-- `o.samplesMergeFunc(acc, chunkIterator)` -/
def mergeStep (seekFixed : Bool) (acc : AnyIt) (b : List Sample) : AnyIt :=
  { σ := Node acc.σ XorIt, ops := nodeOps acc.ops xorOps seekFixed,
    st := nodeNew acc.ops xorOps acc.st (XorIt.init b) }

/-- `o.samplesMergeFunc` folded from the left over the iterators of one aggregate -/
def mergeFold (seekFixed : Bool) : List (List Sample) → Option AnyIt
  | [] => none
  | l :: ls => some (ls.foldl (mergeStep seekFixed) (xorIt l))

/-- the sub-chunks of aggregate `i`: those of the overlapping chunks in `addChunk` order, the
    base chunk's last -/
def aggrLists (ovl : List AggrChk) (base : AggrChk) (i : Nat) : List (List Sample) :=
  ovl.filterMap (·.get i) ++ (base.get i).toList

/-- `seriesToChunkEncoder`: cut every `split` samples (120 in Prometheus) -/
def cutWindows (split : Nat) : Nat → List Sample → List (List Sample)
  | 0, _ => []
  | n + 1, l => if l.isEmpty || split = 0 then [] else l.take split :: cutWindows split n (l.drop split)

def windowBounds (w : List Sample) : Int × Int :=
  match w.head?, w.getLast? with
  | some a, some b => (a.t, b.t)
  | _, _ => (0, 0)

def zip5 : List (List Sample) → List (Option (List Sample)) → List (Option (List Sample)) →
    List (Option (List Sample)) → List (Option (List Sample)) → List AggrChk
  | w :: ws, a :: as, b :: bs, c :: cs, d :: ds =>
    { mint := (windowBounds w).1, maxt := (windowBounds w).2, aggr := [some w, a, b, c, d] } ::
      zip5 ws as bs cs ds
  | _, _, _, _, _ => []

/-- `om.iterator(base)` drained: the chunks `aggrChunkIterator` yields; `none` = panic -/
def aggrOut (seekFixed chunkFixed : Bool) (split : Nat) (ovl : List AggrChk) (base : AggrChk) :
    Option (List AggrChk) :=
  match mergeFold seekFixed (aggrLists ovl base 0) with
  | none => none                                   -- nil count iterator
  | some ci =>
    let count := drain ci
    let wins := cutWindows split count.length count
    let bounds := wins.map windowBounds
    match toChunksCol chunkFixed false bounds (mergeFold seekFixed (aggrLists ovl base 1)),
          toChunksCol chunkFixed false bounds (mergeFold seekFixed (aggrLists ovl base 2)),
          toChunksCol chunkFixed false bounds (mergeFold seekFixed (aggrLists ovl base 3)),
          toChunksCol chunkFixed true bounds (mergeFold seekFixed (aggrLists ovl base 4)) with
    | some a, some b, some c, some d => some (zip5 wins a b c d)
    | _, _, _, _ => none

/-! ### dedupChunksIterator: container/heap of chunk iterators -/

/-- a chunk iterator positioned on its head; the rest are the chunks it will yield -/
abbrev ChunkIt := List AggrChk

def chunkLess (x y : ChunkIt) : Bool :=
  match x.head?, y.head? with
  | some a, some b => if a.mint = b.mint then a.maxt < b.maxt else a.mint < b.mint
  | _, _ => false

def hswap (h : List ChunkIt) (i j : Nat) : List ChunkIt :=
  match h[i]?, h[j]? with
  | some x, some y => (h.set i y).set j x
  | _, _ => h

def hless (h : List ChunkIt) (i j : Nat) : Bool :=
  match h[i]?, h[j]? with
  | some x, some y => chunkLess x y
  | _, _ => false

/-- `heap.up` -/
def hup : Nat → List ChunkIt → Nat → List ChunkIt
  | 0, h, _ => h
  | f + 1, h, j =>
    let i := (j - 1) / 2
    if i = j || !hless h j i then h else hup f (hswap h i j) i

/-- the smaller child in `heap.down` (`j1` = left child) -/
def hchild (h : List ChunkIt) (j1 n : Nat) : Nat :=
  if j1 + 1 < n && hless h (j1 + 1) j1 then j1 + 1 else j1

/-- `heap.down` -/
def hdown : Nat → List ChunkIt → Nat → Nat → List ChunkIt
  | 0, h, _, _ => h
  | f + 1, h, i, n =>
    if 2 * i + 1 ≥ n then h else
    if !hless h (hchild h (2 * i + 1) n) i then h
    else hdown f (hswap h i (hchild h (2 * i + 1) n)) (hchild h (2 * i + 1) n) n

def hpush (h : List ChunkIt) (x : ChunkIt) : List ChunkIt :=
  hup (h.length + 1) (h ++ [x]) h.length

def hpop (h : List ChunkIt) : Option (ChunkIt × List ChunkIt) :=
  if h.isEmpty then none else
  let n := h.length - 1
  let h1 := hdown (h.length + 1) (hswap h 0 n) 0 n
  match h1.getLast? with
  | some x => some (x, h1.dropLast)
  | none => none

/-- advance an iterator taken from the heap and push it back if it has another chunk -/
def hadvance (h : List ChunkIt) (it : ChunkIt) : List ChunkIt :=
  if it.tail.isEmpty then h else hpush h it.tail

/-- the "detect overlaps to compact" loop: collects the chunks given to `om.addChunk` -/
def overlapLoop : Nat → List ChunkIt → List AggrChk → Int → AggrChk → List ChunkIt × List AggrChk
  | 0, h, om, _, _ => (h, om)
  | f + 1, h, om, oMaxTime, prev =>
    match h.head?.bind (·.head?) with
    | none => (h, om)
    | some next =>
      if next.mint > oMaxTime then (h, om) else
      let dup := next.mint = prev.mint ∧ next.maxt = prev.maxt ∧ next.aggr = prev.aggr
      match hpop h with
      | none => (h, om)
      | some (it, h1) =>
        let h2 := hadvance h1 it
        if dup then overlapLoop f h2 om oMaxTime prev
        else overlapLoop f h2 (om ++ [next]) (if next.maxt > oMaxTime then next.maxt else oMaxTime) next

inductive DcRes where
  | done
  | panic
  | chunk (c : AggrChk) (h : List ChunkIt)

def heapChunks (h : List ChunkIt) : Nat := (h.map List.length).sum

/-- one `dedupChunksIterator.Next` (after the heap has been initialised) -/
def dcNext (seekFixed chunkFixed : Bool) (split : Nat) (h : List ChunkIt) : DcRes :=
  match hpop h with
  | none => .done
  | some (it, h1) =>
    match it.head? with
    | none => .panic
    | some curr =>
      let h2 := hadvance h1 it
      let r := overlapLoop (heapChunks h2 + 1) h2 [] curr.maxt curr
      -- `om.empty()`: no overlapping chunk with a count aggregate was added
      if (r.2.filterMap (·.get 0)).isEmpty then .chunk curr r.1 else
      match aggrOut seekFixed chunkFixed split r.2 curr with
      | none => .panic
      | some [] => .panic            -- "unexpected seriesToChunkEncoder lack of iterations"
      | some (c :: rest) => .chunk c (if rest.isEmpty then r.1 else hpush r.1 rest)

/-- all chunks of the merged series; `none` = panic (or the model's fuel ran out) -/
def dcDrain (seekFixed chunkFixed : Bool) (split : Nat) : Nat → List ChunkIt → Option (List AggrChk)
  | 0, _ => none
  | f + 1, h =>
    match dcNext seekFixed chunkFixed split h with
    | .done => some []
    | .panic => none
    | .chunk c h' => (dcDrain seekFixed chunkFixed split f h').map (c :: ·)

def totalSamples (series : List (List AggrChk)) : Nat :=
  ((series.map fun s => (s.map fun c => ((c.aggr.map fun a => (a.map List.length).getD 0).sum)).sum)).sum

/-- `NewChunkSeriesMerger()(series...).Iterator(nil)` drained -/
def chunkMerge (seekFixed chunkFixed : Bool) (split : Nat) (series : List (List AggrChk)) :
    Option (List AggrChk) :=
  let h := series.foldl (fun h s => if s.isEmpty then h else hpush h s) []
  dcDrain seekFixed chunkFixed split (totalSamples series + heapChunks h + 2) h

end Thanos.Dedup
