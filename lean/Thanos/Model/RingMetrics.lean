/-
  pkg/receive/hashring.go — metrics registration done by `NewMultiHashring` (spec-level).

  `newShuffleShardCacheMetrics` registers five collectors per shuffle sharded hashring with
  `promauto.With(reg)` under the constant label `hashring=<name>`; `promauto` calls `MustRegister`,
  which panics when a collector with the same descriptor is registered already.  `Close`
  unregisters them.  A registry is modelled by the list of hashring names whose collectors it
  holds; a hashring configuration by `(name, shuffle sharded?)`.
-/
namespace Thanos.RingMetrics

abbrev Registry := List String

inductive Load where
  | ok (reg : Registry)
  | panic                -- "duplicate metrics collector registration attempted"
  deriving DecidableEq, Repr

/-- the registrations of `NewMultiHashring`, hashring after hashring -/
def load (reg : Registry) : List (String × Bool) → Load
  | [] => .ok reg
  | (name, sharded) :: rest =>
    if sharded then (if reg.contains name then .panic else load (name :: reg) rest)
    else load reg rest

/-- `multiHashring.Close`: every shuffle sharded hashring unregisters its collectors -/
def close (reg : Registry) (cfg : List (String × Bool)) : Registry :=
  reg.filter fun n => !(cfg.any fun c => c.2 && c.1 == n)

/-- a hashring file update (cmd/thanos/receive.go): the new multi hashring is built with the same
    registerer while the old one is installed; `Handler.Hashring` closes the old one afterwards -/
def update (reg : Registry) (old new : List (String × Bool)) : Load :=
  match load reg new with
  | .panic => .panic
  | .ok reg' => .ok (close reg' old)

end Thanos.RingMetrics
