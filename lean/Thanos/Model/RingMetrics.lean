/-
  pkg/receive/hashring.go — metrics registration done by `NewMultiHashring` (spec-level).

  Every shuffle sharded hashring has five cache metrics under the constant label
  `hashring=<name>`.  As it was (`shared = false`): `newShuffleShardCacheMetrics` registered them
  per hashring with `promauto` (`MustRegister` panics when a collector with the same descriptor
  is registered already) and `Close` unregistered them.  Repaired (`shared = true`): hashrings
  with the same registerer and name share one set of collectors, counted by users; the last
  `Close` unregisters.  A registry is the multiset of hashring names in use (one occurrence per
  user); a hashring configuration is `(name, shuffle sharded?)`.
-/
namespace Thanos.RingMetrics

abbrev Registry := List String

inductive Load where
  | ok (reg : Registry)
  | panic                -- "duplicate metrics collector registration attempted"
  deriving DecidableEq, Repr

/-- the registrations of `NewMultiHashring`, hashring after hashring -/
def load (shared : Bool) (reg : Registry) : List (String × Bool) → Load
  | [] => .ok reg
  | (name, sharded) :: rest =>
    if sharded then
      (if !shared && reg.contains name then .panic else load shared (name :: reg) rest)
    else load shared reg rest

/-- the names of the shuffle sharded hashrings of a configuration -/
def shardedNames (cfg : List (String × Bool)) : List String := (cfg.filter (·.2)).map (·.1)

/-- remove one user per listed name -/
def release (reg : Registry) : List String → Registry
  | [] => reg
  | n :: ns => release (reg.erase n) ns

/-- `multiHashring.Close`: every shuffle sharded hashring releases its metrics -/
def close (reg : Registry) (cfg : List (String × Bool)) : Registry := release reg (shardedNames cfg)

/-- a hashring file update (cmd/thanos/receive.go): the new multi hashring is built with the same
    registerer while the old one is installed; `Handler.Hashring` closes the old one afterwards -/
def update (shared : Bool) (reg : Registry) (old new : List (String × Bool)) : Load :=
  match load shared reg new with
  | .panic => .panic
  | .ok reg' => .ok (close reg' old)

end Thanos.RingMetrics
