/-
  C16 — pkg/block/indexheader/reader_pool.go: the set of lazy readers the pool tracks.

    * NewBinaryReader:     a new LazyBinaryReader (not loaded, usedAt = now); if the pool sweeps idle
                           readers (lazyReaderEnabled && lazyReaderIdleTimeout > 0) it is put into
                           the map p.lazyReaders
    * a Reader method:     loads the reader, usedAt = now
    * LazyBinaryReader.Close: unloadIfIdleSince(0), then (deferred) onClosed = onLazyReaderClosed:
                           delete(p.lazyReaders, r)
    * closeIdleReaders:    getIdleReadersSince(now − timeout) = the tracked readers that are loaded
                           and were not used since; unloadIfIdleSince on each of them.  Nothing is
                           removed from the map.
  Readers are numbered in creation order (the map is keyed by pointer: every reader is a new key).
  Time is abstracted to one bit per reader: `recent` = used (or created) within the idle timeout.
  Calls are sequential here; the lock logic of one reader is Model/LazyReader.lean.
-/
namespace Thanos.ReaderPool

structure Rd where
  loaded : Bool
  recent : Bool
  deriving Repr, DecidableEq

structure Pool where
  tracking : Bool            -- lazyReaderEnabled && lazyReaderIdleTimeout > 0
  readers : List Rd          -- every reader handed out, by creation number
  tracked : List Nat         -- the keys of p.lazyReaders
  removals : List Nat        -- the onLazyReaderClosed calls that found their reader in the map
  unloads : Nat              -- unloads that closed a loaded header
  deriving Repr

inductive Op where
  | new                      -- ReaderPool.NewBinaryReader
  | use (i : Nat)            -- any Reader method of reader i
  | age (i : Nat)            -- time passes: reader i was not used within the idle timeout
  | close (i : Nat)          -- LazyBinaryReader.Close of reader i
  | sweep                    -- closeIdleReaders
  deriving Repr, DecidableEq

def init (tracking : Bool) : Pool := ⟨tracking, [], [], [], 0⟩

/-- `m[k] = struct{}{}` -/
def insert (i : Nat) (l : List Nat) : List Nat := if l.contains i then l else i :: l

/-- `delete(m, k)` -/
def delete (i : Nat) (l : List Nat) : List Nat := l.filter (· != i)

def modify (rs : List Rd) (i : Nat) (f : Rd → Rd) : List Rd :=
  match rs[i]? with
  | some r => rs.set i (f r)
  | none => rs

/-- which readers a sweep unloads: tracked, loaded, not used recently -/
def idle (p : Pool) (j : Nat) (r : Rd) : Bool := p.tracked.contains j && r.loaded && !r.recent

def sweepFrom (p : Pool) : Nat → List Rd → List Rd
  | _, [] => []
  | j, r :: rs => (if idle p j r then { r with loaded := false } else r) :: sweepFrom p (j + 1) rs

def countIdle (p : Pool) : Nat → List Rd → Nat
  | _, [] => 0
  | j, r :: rs => (if idle p j r then 1 else 0) + countIdle p (j + 1) rs

def step (p : Pool) : Op → Pool
  | .new =>
    { p with readers := p.readers ++ [⟨false, true⟩],
             tracked := if p.tracking then insert p.readers.length p.tracked else p.tracked }
  | .use i => { p with readers := modify p.readers i fun _ => ⟨true, true⟩ }
  | .age i => { p with readers := modify p.readers i fun r => { r with recent := false } }
  | .close i =>
    match p.readers[i]? with
    | none => p
    | some r =>
      { p with readers := p.readers.set i { r with loaded := false },
               unloads := if r.loaded then p.unloads + 1 else p.unloads,
               tracked := delete i p.tracked,
               removals := if p.tracked.contains i then p.removals ++ [i] else p.removals }
  | .sweep => { p with readers := sweepFrom p 0 p.readers, unloads := p.unloads + countIdle p 0 p.readers }

def run (p : Pool) : List Op → Pool
  | [] => p
  | o :: os => run (step p o) os

end Thanos.ReaderPool
