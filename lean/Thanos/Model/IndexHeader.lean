import Thanos.Model.Uvarint
/-
  C11 — pkg/block/indexheader/binary_reader.go
    BinaryReader.init (sampling of the postings offset table), postingsOffset (multi-value
    lookup), LabelValues.
  The postings offset table of ONE label name is `tbl : List (Nat × Nat)`: (value, offset of the
  posting list in the index file), in table order.  Label values are compared only with
  `<`, `==` (Go string comparison): the harness maps the strings of a case to their ranks, so a
  value is a `Nat` here and the theorems hold for any strictly increasing table.
  A `Decbuf` positioned in the table is the list of the entries not yet read (`tbl.drop tableOff`,
  with `tableOff` counted in entries instead of bytes).
-/
namespace Thanos.IndexHeader

/-- index.Range; `NotFoundRange = {-1, -1}` -/
structure Rng where
  start : Int
  stop : Int
  deriving Repr, DecidableEq

def notFound : Rng := ⟨-1, -1⟩

/-- one sampled entry: (label value, position of its entry in the table) -/
abbrev Sampled := Nat × Nat

/-- `BinaryReader.init`, for one label name: keep the entries whose index is a multiple of `n`
    (`(valueCount-1) % n == 0`), and the last one if it was not kept already. -/
def sampleFrom (n : Nat) : Nat → List (Nat × Nat) → List Sampled
  | _, [] => []
  | i, [(v, _)] => [(v, i)]                                   -- the last value is always kept
  | i, (v, _) :: rest => if i % n = 0 then (v, i) :: sampleFrom n (i + 1) rest else sampleFrom n (i + 1) rest

def sample (n : Nat) (tbl : List (Nat × Nat)) : List Sampled := sampleFrom n 0 tbl

inductive Err where
  | decode       -- d.Err() != nil: reading past the end of the table
  | index        -- an index-out-of-range panic
  | fuel
  deriving Repr, DecidableEq

/-- `sort.Search(len(offsets), func(i) bool { return offsets[i].value >= wanted })` -/
def searchGE (offsets : List Sampled) (wanted : Nat) : Nat :=
  (offsets.takeWhile fun o => o.1 < wanted).length

/-- set the end of every pending range -/
def closeAll (pending : List Rng) (stop : Int) : List Rng := pending.map fun r => ⟨r.start, stop⟩

/-- result of the inner `for string(value) >= wantedValue` loop -/
inductive Inner where
  | done (rngs : List Rng) (pending : List Rng) (vi : Nat)      -- fell out of the loop / `break`
  | breakIter (rngs : List Rng) (vi : Nat)                       -- `break Iter`
  deriving Repr

/-- the inner loop: consume every wanted value ≤ the current table value -/
def inner (offsets : List Sampled) (i : Nat) (value postingOffset : Nat) :
    (values : List Nat) → (rngs pending : List Rng) → (vi : Nat) → Inner
  | [], rngs, pending, vi => .done rngs pending vi          -- unreachable: called with vi < len
  | wanted :: rest, rngs, pending, vi =>
    if value ≥ wanted then
      let (rngs, pending) :=
        if value = wanted then (rngs, pending ++ [⟨(postingOffset : Int) + 4, 0⟩])
        else (rngs ++ [notFound], pending)
      let vi := vi + 1
      match rest with
      | [] => .done rngs pending vi                                  -- valueIndex == len(values)
      | wanted' :: _ =>
        if pending.isEmpty && decide (i + 1 < offsets.length) &&
            (match offsets[i + 1]? with | some o => decide (wanted' ≥ o.1) | none => false) then
          .breakIter rngs vi
        else inner offsets i value postingOffset rest rngs pending vi
    else .done rngs pending vi

/-- nothing wanted in this stretch any more: pending ranges end where the next posting list
    starts (`skipNAndName; UvarintBytes; Uvarint64` on the entry that follows) -/
def finish (rest : List (Nat × Nat)) (rngs pending : List Rng) (vi : Nat) : Except Err (List Rng × Nat) :=
  if pending.isEmpty then .ok (rngs, vi) else
  match rest with
  | [] => .error .decode
  | (_, postingOffset) :: _ => .ok (rngs ++ closeAll pending ((postingOffset : Int) - 4), vi)

/-- the `Iter` loop; `rest` = the table entries from the Decbuf position on; returns the ranges so
    far and the new valueIndex.  `values` is the whole list of wanted values. -/
def iterLoop (offsets : List Sampled) (lastValOffset : Int) (values : List Nat) :
    (rest : List (Nat × Nat)) → (i : Nat) → (rngs pending : List Rng) → (vi : Nat) → Except Err (List Rng × Nat)
  | [], _, _, _, _ => .error .decode
  | (value, postingOffset) :: rest, i, rngs, pending, vi =>
    -- ranges added in the previous iteration end where this posting list starts
    let rngs := rngs ++ closeAll pending ((postingOffset : Int) - 4)
    match inner offsets i value postingOffset (values.drop vi) rngs [] vi with
    | .breakIter rngs vi => .ok (rngs, vi)
    | .done rngs pending vi =>
      if i + 1 = offsets.length then
        -- no more offsets for this name
        .ok (rngs ++ closeAll pending lastValOffset, vi)
      else
        match offsets[i + 1]? with
        | none => .error .index
        | some next =>
          match values[vi]? with
          | some wanted =>
            if wanted ≤ next.1 then
              iterLoop offsets lastValOffset values rest (if wanted = next.1 then i + 1 else i) rngs pending vi
            else finish rest rngs pending vi
          | none => finish rest rngs pending vi

/-- the outer loop of `postingsOffset` -/
def outer (offsets : List Sampled) (tbl : List (Nat × Nat)) (lastValOffset : Int) (values : List Nat) :
    (fuel : Nat) → (rngs : List Rng) → (vi : Nat) → Except Err (List Rng)
  | 0, _, _ => .error .fuel
  | fuel + 1, rngs, vi =>
    match values[vi]? with
    | none => .ok rngs
    | some wanted =>
      let i := searchGE offsets wanted
      if i = offsets.length then
        -- past the end: everything left is not found
        .ok (rngs ++ List.replicate (values.length - rngs.length) notFound)
      else
        match offsets[i]? with
        | none => .error .index
        | some o =>
          let i := if i > 0 ∧ o.1 ≠ wanted then i - 1 else i
          match offsets[i]? with
          | none => .error .index
          | some oi =>
            match iterLoop offsets lastValOffset values (tbl.drop oi.2) i rngs [] vi with
            | .error e => .error e
            | .ok (rngs, vi) => outer offsets tbl lastValOffset values fuel rngs vi

/-- `BinaryReader.postingsOffset(name, values...)` for an existing name of a v2 index -/
def lookup (offsets : List Sampled) (tbl : List (Nat × Nat)) (lastValOffset : Int) (values : List Nat) :
    Except Err (List Rng) :=
  if values.isEmpty then .ok [] else
  match offsets with
  | [] => .error .index                         -- e.offsets[0]
  | first :: _ =>
    -- discard values before the start
    let before := (values.takeWhile fun v => v < first.1).length
    outer offsets tbl lastValOffset values (values.length + 1) (List.replicate before notFound) before

/-- `BinaryReader.LabelValues(name)`: scan the table from the first sampled entry until the value of
    the last sampled entry has been appended -/
def labelValues (offsets : List Sampled) (tbl : List (Nat × Nat)) : Except Err (List Nat) :=
  match offsets, offsets.getLast? with
  | first :: _, some last => go last.1 (tbl.drop first.2)
  | _, _ => .ok []
where
  go (lastVal : Nat) : List (Nat × Nat) → Except Err (List Nat)
    | [] => .error .decode
    | (v, _) :: rest => if v = lastVal then .ok [v] else (go lastVal rest).map (v :: ·)

/-- what the full index answers for one value: the posting list of entry `k` starts 4 bytes after
    its offset (length field) and ends 4 bytes (CRC) before the next posting list starts -/
def specOne (lastValOffset : Int) : List (Nat × Nat) → Nat → Rng
  | [], _ => notFound
  | [(v, p)], w => if v = w then ⟨(p : Int) + 4, lastValOffset⟩ else notFound
  | (v, p) :: (v', p') :: rest, w =>
    if v = w then ⟨(p : Int) + 4, (p' : Int) - 4⟩ else specOne lastValOffset ((v', p') :: rest) w

/-- … and for a list of wanted values -/
def specLookup (tbl : List (Nat × Nat)) (lastValOffset : Int) (values : List Nat) : List Rng :=
  values.map (specOne lastValOffset tbl)

/-! ### label names -/

/-- `BinaryReader.LabelNames`: the keys of the postings map — one per run of equal names in the
    (name-sorted) postings offset table — without the name of the all-postings key ("", rank
    `emptyName`), sorted.  Names are ranks; the table lists them in increasing order. -/
def labelNames (emptyName : Option Nat) : List Nat → List Nat
  | [] => []
  | [a] => if some a = emptyName then [] else [a]
  | a :: b :: rest =>
    if a = b then labelNames emptyName (b :: rest)
    else (if some a = emptyName then [] else [a]) ++ labelNames emptyName (b :: rest)

/-! ### index format v1: the whole table is kept in memory -/

/-- one entry of a v1 postings offset table (not sorted): (name, value, offset) -/
abbrev EntryV1 := Nat × Nat × Nat

/-- `init` for FormatV1: the range of every entry ends 4 bytes before the next entry's posting
    list (whatever its name), the last one before `lastEnd`.  The very last entry is only kept if
    its name is not the empty string (`if string(lastName) != ""`; `emptyName` is the rank of "") -/
def rangesV1 (emptyName lastEnd : Nat) : List EntryV1 → List ((Nat × Nat) × Rng)
  | [] => []
  | [(n, v, off)] => if n = emptyName then [] else [((n, v), ⟨(off : Int) + 4, (lastEnd : Int) - 4⟩)]
  | (n, v, off) :: (n', v', off') :: rest =>
    ((n, v), ⟨(off : Int) + 4, (off' : Int) - 4⟩) :: rangesV1 emptyName lastEnd ((n', v', off') :: rest)

/-- `postingsOffset` for FormatV1.  `omitMissing = true` is the code as it was before /repo 99c10b762
    (a value that does not exist is skipped: `continue`), `false` the repaired code (NotFoundRange
    is appended), which is what the driver runs. -/
def lookupV1 (omitMissing : Bool) (emptyName lastEnd : Nat) (tbl : List EntryV1) (name : Nat) (values : List Nat) : List Rng :=
  if !(tbl.any fun e => e.1 = name) then [] else      -- unknown name: nil, nil
  let m := rangesV1 emptyName lastEnd tbl
  -- a Go map: were a (name, value) pair listed twice, the later entry would win
  if omitMissing then values.filterMap fun v => m.reverse.lookup (name, v)
  else values.map fun v => (m.reverse.lookup (name, v)).getD notFound

/-! ### symbols -/

/-- the header's direct-mapped cache of value symbols: slot ↦ (symbol reference, symbol);
    slots never written hold (0, "") -/
abbrev SymCache := List (Nat × Nat × List Nat)

def SymCache.get (c : SymCache) (slot : Nat) : Nat × List Nat := (c.lookup slot).getD (0, [])

/-- `BinaryReader.LookupSymbol`.  `table` = index.Symbols.Lookup (third party), `names` = the
    nameSymbols map (reference ↦ label name), `size` = valueSymbolsCacheSize, `shift` = the v1
    reference adjustment (0 for v2; references are uint32, the addition wraps).  Returns the symbol
    (none = error) and the new cache. -/
def lookupSymbol (table : Nat → Option (List Nat)) (names : List (Nat × List Nat)) (size shift : Nat)
    (o : Nat) (c : SymCache) : Option (List Nat) × SymCache :=
  let o := (o + shift) % 4294967296
  match names.lookup o with
  | some s => (some s, c)
  | none =>
    let slot := o % size
    let cached := c.get slot
    if cached.1 = o ∧ cached.2 ≠ [] then (some cached.2, c)
    else
      match table o with
      | none => (none, c)
      | some s => (some s, (slot, o, s) :: c)

def lookupSymbols (table : Nat → Option (List Nat)) (names : List (Nat × List Nat)) (size shift : Nat) :
    List Nat → SymCache → List (Option (List Nat))
  | [], _ => []
  | o :: os, c =>
    let (r, c') := lookupSymbol table names size shift o c
    r :: lookupSymbols table names size shift os c'

/-! ### the bytes of a table entry: how `postingsOffset` gets past key count and label name -/

open Thanos.Uvarint in
/-- one entry of the v2 postings offset table: key count 2, label name, label value, offset -/
def entryBytes (name value : List Nat) (off : Nat) : List Nat :=
  uvarint 2 ++ (uvarint name.length ++ name) ++ ((uvarint value.length ++ value) ++ uvarint off)

open Thanos.Uvarint in
/-- Decbuf.Uvarint on the unread bytes (well-formed input; errors are the business of `lookup`) -/
def decUvarint (d : List Nat) : Nat × List Nat := ((unuvarint d).1, d.drop (unuvarint d).2.toNat)

/-- Decbuf.UvarintBytes -/
def decUvarintBytes (d : List Nat) : List Nat × List Nat :=
  (((decUvarint d).2).take (decUvarint d).1, ((decUvarint d).2).drop (decUvarint d).1)

/-- `skipNAndName(&d, &buf)`: with `buf = 0` decode key count and label name and remember how many
    bytes that took (`*buf = d.Len(); …; *buf -= d.Len()`), otherwise skip `buf` bytes.
    Returns the unread bytes and the new `buf`. -/
def skipNAndName (d : List Nat) (buf : Nat) : List Nat × Nat :=
  if buf = 0 then
    let d2 := (decUvarintBytes (decUvarint d).2).2
    (d2, d.length - d2.length)
  else (d.drop buf, buf)

open Thanos.Uvarint in
/-- the number of bytes key count and label name take in every entry of a label name -/
def nameSkipLen (name : List Nat) : Nat := 1 + (uvarint name.length).length + name.length

end Thanos.IndexHeader
