/-
  C47 — pkg/reloader/reloader.go : the endless loop of Reloader.Watch (core Lean only).

      applyCtx, applyCancel := context.WithTimeout(ctx, r.watchInterval)
      for {
          select {
          case <-applyCtx.Done(): if ctx.Err() != nil { …; return nil }
          case <-r.watcher.notify:
          }
          applyCancel(); applyCtx, applyCancel = context.WithTimeout(ctx, r.watchInterval)
          if err := r.apply(applyCtx); err != nil { …; continue }
      }

  The loop sleeps with a timer armed for `deadline`.  It wakes either because the timer fired or
  because the file watcher notified; unless the outer context is cancelled, EVERY wake-up re-arms
  the timer (`wake time + watchInterval`) and calls `apply` — also after a failed apply (`continue`).
  A closed `Done()` channel stays readable, so the loop cannot sleep past its deadline: a wake-up
  happens no later than the deadline.  Time is in arbitrary integer units.
-/
namespace Thanos.Reloader.Watch

inductive Cause where
  | tick      -- <-applyCtx.Done(): the watch interval elapsed
  | notify    -- <-r.watcher.notify: a file-system event (after the delay interval)
  deriving Repr, DecidableEq

structure Wake where
  time : Nat
  cause : Cause
  deriving Repr, DecidableEq

/-- a run of the loop from the state "it is `now`, the timer is armed for `deadline`": wake-ups in
    order, none later than the deadline in force, a timer wake-up exactly at it; each one re-arms
    the timer for its own time + W and starts an apply at that time -/
def Valid (W : Nat) : Nat → Nat → List Wake → Prop
  | _, _, [] => True
  | now, deadline, w :: ws =>
    now ≤ w.time ∧ w.time ≤ deadline ∧ (w.cause = .tick → w.time = deadline) ∧ Valid W w.time (w.time + W) ws

/-- the times at which `apply` starts: one per wake-up -/
def applies (ws : List Wake) : List Nat := ws.map (·.time)

end Thanos.Reloader.Watch
