/-
  C49 — pkg/cacheutil/jump_hash.go (jumpHash) and memcached_server_selector.go
  (SetServers / PickServer / PickServerForKeys), core Lean only.

  Inputs from third parties: xxhash of a key (a `UInt64` per key) and the order natsort.Sort puts
  the servers in (the driver receives the sorted list).  The float step of jumpHash is a parameter
  `step` of the loop; the driver instantiates it with `realStep` (Lean `Float` = IEEE double, to
  reproduce Go's numbers), the theorems hold for every `step` that moves forward.
-/
namespace Thanos.Memcached

/-- the loop of `jumpHash`: `b` last accepted bucket, `j` candidate; one unit of fuel per turn -/
def jumpGo (step : UInt64 → Int → UInt64 × Int) (n : Int) : Nat → UInt64 → Int → Int → Option Int
  | 0, _, b, j => if j < n then none else some b
  | fuel + 1, key, b, j =>
    if j < n then
      let r := step key j
      jumpGo step n fuel r.1 j r.2
    else some b

/-- `jumpHash(key, n)`; `none` = the loop did not finish within n+1 turns (impossible for a step
    that moves forward, see `jump_range`) -/
def jumpHashWith (step : UInt64 → Int → UInt64 × Int) (key : UInt64) (n : Nat) : Option Int :=
  jumpGo step n (n + 1) key (-1) 0

/-- `key = key*2862933555777941757 + 1; j = int64(float64(b+1) * (float64(1<<31) / float64((key>>33)+1)))` -/
def realStep (key : UInt64) (b : Int) : UInt64 × Int :=
  let key' := key * 2862933555777941757 + 1
  let j := (Float.ofInt (b + 1) * (Float.ofNat (2 ^ 31) / Float.ofNat ((key' >>> 33).toNat + 1))).toInt64.toInt
  (key', j)

/-- the same step over the rationals (floor) — what the float formula approximates -/
def ratStep (key : UInt64) (b : Int) : UInt64 × Int :=
  let key' := key * 2862933555777941757 + 1
  let d : Int := Int.ofNat (key' >>> 33).toNat + 1
  (key', ((b + 1) * 2147483648) / d)

/-- index picked by `PickServer` among `n` servers: error for 0, 0 for 1, jump hash otherwise -/
def pickIdx (step : UInt64 → Int → UInt64 × Int) (n : Nat) (h : UInt64) : Option Nat :=
  if n = 0 then none
  else if n = 1 then some 0
  else (jumpHashWith step h n).map Int.toNat

/-- `PickServer` on the sorted address list; `none` = ErrNoServers (or an index out of range,
    which `pick_some` excludes) -/
def pickServer (step : UInt64 → Int → UInt64 × Int) (sorted : List String) (h : UInt64) : Option String :=
  match pickIdx step sorted.length h with
  | none => none
  | some i => sorted[i]?

/-- `m[picked] = append(m[picked], key)` on an association list in insertion order -/
def addKey (m : List (String × List κ)) (s : String) (k : κ) : List (String × List κ) :=
  match m with
  | [] => [(s, [k])]
  | (s', ks) :: rest => if s' == s then (s', ks ++ [k]) :: rest else (s', ks) :: addKey rest s k

/-- the loop of `PickServerForKeys` for ≥ 2 servers; a key whose pick fails is skipped (cannot
    happen, see `pick_some`) -/
def groupKeys (pick : κ → Option String) (keys : List κ) : List (String × List κ) :=
  keys.foldl (fun m k => match pick k with | some s => addKey m s k | none => m) []

/-- `PickServerForKeys`: `none` = ErrNoServers; one server gets all keys (also none at all) -/
def pickForKeys (step : UInt64 → Int → UInt64 × Int) (sorted : List String) (keys : List (String × UInt64)) :
    Option (List (String × List (String × UInt64))) :=
  match sorted with
  | [] => none
  | [s] => some [(s, keys)]
  | _ => some (groupKeys (fun k => pickServer step sorted k.2) keys)

/-- `sort.Strings`: the canonical (byte-wise lexical) order `SetServers` starts from -/
def canon (l : List String) : List String := l.mergeSort (fun a b => (compare a b).isLE)

/-- `SetServers`: `sort.Strings`, then `natsort.Sort` — a third-party procedure, here any function
    on lists (the driver receives the rearrangement it makes of the canonical list) -/
def setServers (nat : List String → List String) (listed : List String) : List String := nat (canon listed)

/-- the rearrangement natsort makes, given as indices into the canonical list -/
def applyPerm (perm : List Nat) (l : List String) : Option (List String) :=
  if perm.length = l.length ∧ (List.range l.length).all (fun i => perm.count i == 1) then
    perm.mapM (fun i => l[i]?)
  else none

/-- one call of `SetServers` in a history: `ok sorted` — every name resolved, `sorted` is the list
    `sort.Strings` + natsort produce; `fail` — some name did not resolve: the call returns the error
    and, as documented ("If any error occurs, no changes are made to the internal server list"),
    leaves the selector as it was -/
inductive SetCall where
  | ok (sorted : List String)
  | fail
  deriving Repr, DecidableEq

/-- the selector's address list after a call -/
def setCall (cur : List String) : SetCall → List String
  | .ok sorted => sorted
  | .fail => cur

/-- … and after a history of calls (the selector starts empty) -/
def runCalls (cur : List String) (calls : List SetCall) : List String := calls.foldl setCall cur

/-- insert `x` so that it ends up at index `p` (the place natsort gives a new server) -/
def insertAt (l : List String) (p : Nat) (x : String) : List String := l.take p ++ x :: l.drop p

end Thanos.Memcached
