import Thanos.Model.Gate
/-
  C24 — the gate is an object with identity, created by the limiter (pkg/receive/limiter.go).

      NewLimiter:            writeGate: gate.NewNoop()
      loadConfig:            l.Lock(); …; if maxWriteConcurrency > 0 { l.writeGate = gate.New(…) }     -- `lazy = false`
      WriteGate():           l.RLock(); defer l.RUnlock(); return l.writeGate

  `lazy = true` is the other way to write it, which is NOT what the code does: loadConfig only
  records the number and clears the field, WriteGate() builds a gate when it finds none, outside
  of the lock, stores it and returns the gate it has just built.

  Every request asks the limiter for the gate (`arrive`) and then runs the handler skeleton of
  Model/Gate.lean on THAT gate.  A configuration epoch is the time between two loadConfig calls.
  Core Lean only.
-/
namespace Thanos.Gate

/-- a gate that was built: the configuration epoch in which it was built, and its counters -/
structure GateRec where
  epoch : Nat
  st : St
  deriving DecidableEq, Repr

structure Lim where
  cap : Nat                 -- write.global.max_concurrency of the loaded configuration (≥ 1 here)
  epoch : Nat               -- number of loadConfig calls so far
  stored : Option Nat       -- Limiter.writeGate: index of the stored gate in `gates`, none = nil
  builders : Nat            -- requests inside WriteGate() that found no gate and are about to build one (lazy only)
  gates : List GateRec      -- every gate built so far
  deriving DecidableEq, Repr

def Lim.init (cap : Nat) : Lim := ⟨cap, 0, none, 0, []⟩

inductive LEv where
  | load                      -- loadConfig (start-up, or the limits file changed)
  | arrive                    -- a request calls Limiter.WriteGate() and then Start on what it got
  | build                     -- a request that found no gate builds one, stores it, and uses its own (lazy only)
  | on (g : Nat) (e : Ev)     -- any other event of the handler skeleton, on gate `g`
  deriving DecidableEq, Repr

def stepGate (doneFirst : Bool) (gs : List GateRec) (g : Nat) (e : Ev) : List GateRec :=
  match gs[g]? with
  | none => gs
  | some r => gs.set g { r with st := step doneFirst r.st e }

def lstep (lazy doneFirst : Bool) (l : Lim) : LEv → Lim
  | .load =>
    let l := { l with epoch := l.epoch + 1 }
    if lazy then { l with stored := none }
    else { l with gates := l.gates ++ [⟨l.epoch, St.init l.cap⟩], stored := some l.gates.length }
  | .arrive =>
    match l.stored with
    | some g => { l with gates := stepGate doneFirst l.gates g .arrive }
    | none => if lazy then { l with builders := l.builders + 1 } else l
  | .build =>
    if lazy ∧ l.builders > 0 then
      { l with builders := l.builders - 1,
               gates := l.gates ++ [⟨l.epoch, step doneFirst (St.init l.cap) .arrive⟩],
               stored := some l.gates.length }
    else l
  | .on g e =>
    -- arrivals come through the limiter only
    if e = .arrive ∨ e = .arriveCancelled then l else { l with gates := stepGate doneFirst l.gates g e }

def lrun (lazy doneFirst : Bool) (cap : Nat) (evs : List LEv) : Lim := evs.foldl (lstep lazy doneFirst) (Lim.init cap)

/-- requests inside the write path that were admitted under configuration epoch `ep` -/
def runningIn (l : Lim) (ep : Nat) : Nat := (l.gates.map fun r => if r.epoch = ep then r.st.running else 0).sum

/-- how the limiter hands out the gate in the code as it is (tied to the source by the regenerated
    facts `limiterGateBuiltIn` / `limiterWriteGateBody`, see Props/C24.lean) -/
def codeLazyGate : Bool := false

end Thanos.Gate
