import Thanos.Model.Gate
/-
  C24 — the gate is an object with identity, created by the limiter (pkg/receive/limiter.go).

      NewLimiter:            writeGate: gate.NewNoop()
      loadConfig:            l.Lock(); …; if maxWriteConcurrency > 0 { l.writeGate = gate.New(…) }     -- `lazy = false`
      WriteGate():           l.RLock(); defer l.RUnlock(); return l.writeGate

  `lazy = true` is the other way to write it, which is NOT what the code does: loadConfig only
  records the number and clears the field, WriteGate() builds a gate when it finds none, outside
  of the lock, stores it and returns the gate it has just built.

  Every request asks the limiter for the gate (`arrive`) and then runs the handler skeleton of
  Model/Gate.lean on THAT gate.  A configuration epoch is the time between two loadConfig calls.
  Core Lean only.
-/
namespace Thanos.Gate

/-- a gate that was built: the configuration epoch in which it was built, and its counters -/
structure GateRec where
  epoch : Nat
  st : St
  deriving DecidableEq, Repr

structure Lim where
  cap : Nat                 -- write.global.max_concurrency of the loaded configuration (≥ 1 here)
  epoch : Nat               -- number of loadConfig calls so far
  stored : Option Nat       -- Limiter.writeGate: index of the stored gate in `gates`, none = nil
  builders : Nat            -- requests inside WriteGate() that found no gate and are about to build one (lazy only)
  gates : List GateRec      -- every gate built so far
  deriving DecidableEq, Repr

def Lim.init (cap : Nat) : Lim := ⟨cap, 0, none, 0, []⟩

inductive LEv where
  | load                      -- loadConfig (start-up, or the limits file changed: a NEW gate object every time)
  | arrive                    -- a request calls Limiter.WriteGate() and then Start on what it got
  | arriveDead                -- the same with a context that is already done (Start fails)
  | build                     -- a request that found no gate builds one, stores it, and uses its own (lazy only)
  | on (g : Nat) (e : Ev)     -- any other event of the handler skeleton, on gate `g`
  deriving DecidableEq, Repr

def stepGate (doneFirst : Bool) (gs : List GateRec) (g : Nat) (e : Ev) : List GateRec :=
  match gs[g]? with
  | none => gs
  | some r => gs.set g { r with st := step doneFirst r.st e }

/-- a running request of gate `g` reaches the end of its handler, but its deferred closure looks
    the gate up AGAIN (`h.Limiter.WriteGate().Done()`) and so releases a slot of the gate that is
    stored now — not what the code does (`relookup = false`), kept to refute it -/
def finishRelookup (gs : List GateRec) (g : Nat) (stored : Option Nat) : List GateRec :=
  match gs[g]? with
  | none => gs
  | some r =>
    if r.st.running = 0 then gs else
    let gs1 := gs.set g { r with st := { r.st with running := r.st.running - 1 } }
    match stored with
    | none => gs1
    | some s =>
      match gs1[s]? with
      | none => gs1
      | some t => gs1.set s { t with st := done t.st }

/-- `relookup = false`: a request keeps the gate it was handed (`writeGate := h.Limiter.WriteGate()`
    once, `Start` and the deferred `Done` on that value): all `on g` events of one request carry the
    gate it arrived at -/
def lstep (lazy doneFirst relookup : Bool) (l : Lim) : LEv → Lim
  | .load =>
    let l := { l with epoch := l.epoch + 1 }
    if lazy then { l with stored := none }
    else { l with gates := l.gates ++ [⟨l.epoch, St.init l.cap⟩], stored := some l.gates.length }
  | .arrive =>
    match l.stored with
    | some g => { l with gates := stepGate doneFirst l.gates g .arrive }
    | none => if lazy then { l with builders := l.builders + 1 } else l
  | .arriveDead =>
    match l.stored with
    | some g => { l with gates := stepGate doneFirst l.gates g .arriveCancelled }
    | none => l
  | .build =>
    if lazy ∧ l.builders > 0 then
      { l with builders := l.builders - 1,
               gates := l.gates ++ [⟨l.epoch, step doneFirst (St.init l.cap) .arrive⟩],
               stored := some l.gates.length }
    else l
  | .on g e =>
    -- arrivals come through the limiter only
    if e = .arrive ∨ e = .arriveCancelled then l
    else if relookup ∧ e = .finish then { l with gates := finishRelookup l.gates g l.stored }
    else { l with gates := stepGate doneFirst l.gates g e }

def lrun (lazy doneFirst relookup : Bool) (cap : Nat) (evs : List LEv) : Lim :=
  evs.foldl (lstep lazy doneFirst relookup) (Lim.init cap)

/-- requests inside the write path that were admitted under configuration epoch `ep` -/
def runningIn (l : Lim) (ep : Nat) : Nat := (l.gates.map fun r => if r.epoch = ep then r.st.running else 0).sum

/-! ### the scripted runs of the harness over a limiter that may be reloaded -/

/-- in every gate the blocked Starts take the free slots -/
def wakeAll (doneFirst : Bool) (gs : List GateRec) : List GateRec :=
  gs.map fun r => { r with st := wake doneFirst r.st.waiting r.st }

def firstGate (p : St → Bool) : List GateRec → Nat → Option Nat
  | [], _ => none
  | r :: rs, i => if p r.st then some i else firstGate p rs (i + 1)

/-- the steps of the `gate` op: a arrive, x arrive with a dead context (only while the stored gate is
    full), c cancel the oldest blocked request, k the client of a running request goes away,
    f the oldest running request completes, r the limits are reloaded -/
inductive SEv where
  | a | x | c | k | f | r
  deriving DecidableEq, Repr

def lscriptStep (lazy doneFirst relookup : Bool) (l : Lim) (e : SEv) : Lim :=
  let l' : Lim :=
    match e with
    | .a => lstep lazy doneFirst relookup l .arrive
    | .x =>
      match l.stored.bind (fun g => l.gates[g]?) with
      | some r => if r.st.gauge < (r.st.cap : Int) then l else lstep lazy doneFirst relookup l .arriveDead
      | none => l
    | .c =>
      match firstGate (fun s => decide (s.waiting > 0)) l.gates 0 with
      | some g => lstep lazy doneFirst relookup l (.on g .cancel)
      | none => l
    | .k => l
    | .f =>
      match firstGate (fun s => decide (s.running > 0)) l.gates 0 with
      | some g => lstep lazy doneFirst relookup l (.on g .finish)
      | none => l
    | .r => lstep lazy doneFirst relookup l .load
  { l' with gates := wakeAll doneFirst l'.gates }

/-- does the handler look the gate up once and keep it (the code as it is), or again at the end? -/
def codeRelookupHTTP : Bool := false
def codeRelookupOTLP : Bool := false

/-- how the limiter hands out the gate in the code as it is (tied to the source by the regenerated
    facts `limiterGateBuiltIn` / `limiterWriteGateBody`, see Props/C24.lean) -/
def codeLazyGate : Bool := false

end Thanos.Gate
