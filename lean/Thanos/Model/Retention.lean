/-
  Model/Retention.lean — C32: pkg/compact/retention.go (ApplyRetentionPolicyByResolution),
  pkg/compact/blocks_cleaner.go (BlocksCleaner.DeleteMarkedBlocks), pkg/compact/clean.go
  (BestEffortCleanAbortedPartialUploads, getOldestModifiedTime).

  One integer clock in nanoseconds since the epoch (`now`).  Block times (`MaxTime`, object
  modification times, ULID times) are milliseconds, deletion marks carry whole seconds, durations
  are nanoseconds (Go `time.Duration`).
-/
namespace Thanos.Retention

def nsPerMs : Int := 1000000
def nsPerSec : Int := 1000000000

-- ---------------------------------------------------------------- retention

structure RBlock where
  id : Nat
  res : Int          -- Thanos.Downsample.Resolution
  maxTime : Int      -- ms, exclusive upper bound of the block's samples
  deriving DecidableEq, Repr

/-- `retentionByResolution[ResolutionLevel(res)]` — a missing key is the zero duration -/
def retentionFor : List (Int × Int) → Int → Int
  | [], _ => 0
  | (r, d) :: rest, res => if r = res then d else retentionFor rest res

/-- the instant the code compares against, in ns.
    `msPrecision = false`: `time.Unix(m.MaxTime/1000, 0)` — Go's `/` truncates toward zero and the
    sub-second part of MaxTime is dropped (the code before the repair, F32);
    `msPrecision = true`:  `time.UnixMilli(m.MaxTime)` (the repaired code). -/
def maxTimeNs (msPrecision : Bool) (maxTimeMs : Int) : Int :=
  if msPrecision then maxTimeMs * nsPerMs else (Int.tdiv maxTimeMs 1000) * nsPerSec

/-- `retentionDuration.Seconds() == 0 → continue; time.Now().After(maxTime.Add(retention))` -/
def marks (msPrecision : Bool) (now : Int) (ret : List (Int × Int)) (b : RBlock) : Bool :=
  let r := retentionFor ret b.res
  if r = 0 then false else decide (now > maxTimeNs msPrecision b.maxTime + r)

def retentionMarked (msPrecision : Bool) (now : Int) (ret : List (Int × Int)) (bs : List RBlock) : List Nat :=
  (bs.filter (marks msPrecision now ret)).map (·.id)

/-- the precision the code has now (switched by the `fix:` commit; the regenerated fact
    `retentionMaxTimeExpr` is compared with it in Props/C32.lean) -/
def codeMsPrecision : Bool := true

-- ---------------------------------------------------------------- cleaner

structure Mark where
  id : Nat
  deletionTime : Int   -- DeletionMark.DeletionTime, unix seconds
  deriving DecidableEq, Repr

/-- `time.Since(time.Unix(DeletionTime, 0)).Seconds() > deleteDelay.Seconds()`.
    (Float seconds are monotone in the nanosecond count, so the code deletes only if the exact
    comparison below holds; it may keep a block whose age exceeds the delay by less than the
    float resolution — conservative, and outside the compared domain.) -/
def cleans (now delay : Int) (m : Mark) : Bool := decide (now - m.deletionTime * nsPerSec > delay)

def cleanerDeletes (now delay : Int) (ms : List Mark) : List Nat := (ms.filter (cleans now delay)).map (·.id)

-- ---------------------------------------------------------------- aborted partial uploads

/-- `PartialUploadThresholdAge = 2 * 24 * time.Hour` -/
def partialThresholdNs : Int := 2 * 24 * 3600 * nsPerSec

structure Partial where
  id : Nat
  ulidTime : Int              -- ms encoded in the ULID (fallback)
  modified : List Int         -- LastModified of the objects under the block directory, ms
  iterFails : Bool            -- the listing with attributes fails
  deriving DecidableEq, Repr

def maxOf : List Int → Option Int
  | [] => none
  | x :: xs => match maxOf xs with
    | none => some x
    | some m => some (if x > m then x else m)

/-- `getOldestModifiedTime` (despite its name: the LATEST modification time under the block
    directory; the ULID time when the listing fails or yields nothing) -/
def lastModifiedMs (p : Partial) : Int :=
  if p.iterFails then p.ulidTime else
  match maxOf p.modified with
  | none => p.ulidTime
  | some m => m

/-- skip if marked for deletion; skip if `time.Since(lastModified) <= threshold`; else delete -/
def cleansPartial (now : Int) (marked : List Nat) (p : Partial) : Bool :=
  if marked.contains p.id then false
  else decide (now - lastModifiedMs p * nsPerMs > partialThresholdNs)

def partialDeletes (now : Int) (marked : List Nat) (ps : List Partial) : List Nat :=
  (ps.filter (cleansPartial now marked)).map (·.id)

end Thanos.Retention
