/-
  C44 — pkg/querysharding/analyzer.go : QueryAnalyzer.Analyze
        pkg/querysharding/analysis.go : scopeToLabels, intersect, union, without, IsShardable
        pkg/store/storepb/shard_info.go : ShardMatcher.MatchesZLabels, shardByLabel
        pkg/queryfrontend/shard_query.go : shardQuery (one request per shard index)

  The PromQL parser, the engine and xxhash are third-party: expression trees arrive parsed (the
  harness renders them to text for the real analyzer), the hash of a projection is an input.
  Label sets that Go builds by ranging over maps are lists here; both sides print them sorted
  and without duplicates.
-/
namespace Thanos.Sharding

inductive Mode where
  | none | by_ | without
  deriving DecidableEq, Repr

inductive Match where
  | none | on | ignoring
  deriving DecidableEq, Repr

/-- the parsed expression, as far as the analyzer looks at it -/
inductive Expr where
  | sel (text : String)
  | mat (text rng : String)
  | num (text : String)
  | str (s : String)
  | par (e : Expr)
  | sub (e : Expr) (rng : String)
  | agg (op : String) (mode : Mode) (labels : List String) (param : Option Expr) (e : Expr)
  | bin (op : String) (m : Match) (labels : List String) (l r : Expr)
  | call (name : String) (args : List Expr)
  deriving Repr

/-- the current analysis: `labels = none` is Go's nil slice -/
structure Analysis where
  labels : Option (List String)
  by_ : Bool
  deriving DecidableEq, Repr

def nonShardable : Analysis := ⟨none, false⟩

/-- intersect(a, b) -/
def intersect (a b : List String) : List String :=
  if a.isEmpty ∨ b.isEmpty then [] else (a.filter fun x => b.contains x).eraseDups

/-- without(a, b) for non-nil `a` -/
def withoutL (a b : List String) : List String :=
  if a.isEmpty then [] else if b.isEmpty then a else (a.filter fun x => !b.contains x).eraseDups

/-- union(a, b) -/
def unionL (a b : List String) : List String :=
  if a.isEmpty ∧ b.isEmpty then [] else if a.isEmpty then b else if b.isEmpty then a else (a ++ b).eraseDups

/-- QueryAnalysis.scopeToLabels -/
def scopeToLabels (q : Analysis) (labels : List String) (by_ : Bool) : Analysis :=
  match q.labels with
  | none => ⟨some labels, by_⟩
  | some ql =>
    if q.by_ ∧ by_ then ⟨some (intersect ql labels), true⟩
    else if ¬ q.by_ ∧ ¬ by_ then ⟨some (unionL ql labels), false⟩
    else
      let (lb, lw) := if q.by_ then (ql, labels) else (labels, ql)
      ⟨some (withoutL lb lw), true⟩

/-- expression type as far as `VectorMatching != nil` depends on it: the parser keeps vector
    matching only when both operands are instant vectors -/
def isScalar : Expr → Bool
  | .num _ => true
  | .par e => isScalar e
  | .bin _ _ _ l r => isScalar l && isScalar r
  | .call name _ => name = "scalar" || name = "time" || name = "pi"
  | _ => false

/-- first string-literal argument position 1 of label_replace / label_join (`stringFromArg(n.Args[1])`) -/
def dstLabel : List Expr → Option String
  | _ :: .str s :: _ => some s
  | _ :: .par (.str s) :: _ => some s
  | _ => none

/-- walker state: analysis so far, dynamic labels, still shardable; `cv` = the code variant:
    `true` (the repository now) treats the label written by `count_values` as dynamic, `false` is
    the analyzer as found -/
structure St where
  an : Analysis
  dyn : List String
  ok : Bool
  cv : Bool
  deriving Repr

/-- `stringFromArg(n.Param)` -/
def paramLabel : Option Expr → Option String
  | some (.str s) => some s
  | some (.par (.str s)) => some s
  | _ => none

mutual
/-- the callback of `parser.Inspect` applied in pre-order; once `errNotShardable` is returned the
    walk stops (`ok = false`) -/
def walk (st : St) : Expr → St
  | .sel _ => st
  | .mat _ _ => st
  | .num _ => st
  | .str _ => st
  | .par e => if st.ok then walk st e else st
  | .sub e _ => if st.ok then walk st e else st
  | .agg op mode labels param e =>
    if ¬ st.ok then st else
    let st := { st with an := scopeToLabels st.an labels (mode != .without) }
    let st := if st.cv ∧ op = "count_values" then
        (match paramLabel param with
         | some d => { st with dyn := st.dyn ++ [d] }
         | none => { st with ok := false })     -- Go would panic on the type assertion; the parser rules it out
      else st
    let st := walk st e
    match param with
    | some p => if st.ok then walk st p else st
    | none => st
  | .bin _ m labels l r =>
    if ¬ st.ok then st else
    let st :=
      if isScalar l || isScalar r then st
      else
        let on := m == .on
        let ls := if on then labels else labels ++ ["__name__"]
        { st with an := scopeToLabels st.an ls on }
    let st := walk st l
    if st.ok then walk st r else st
  | .call name args =>
    if ¬ st.ok then st else
    if name = "label_join" ∨ name = "label_replace" then
      match dstLabel args with
      | some d => walkList { st with dyn := st.dyn ++ [d] } args
      | none => { st with ok := false }       -- Go would panic on the type assertion; never generated
    else if name = "absent_over_time" ∨ name = "absent" ∨ name = "scalar" then { st with ok := false }
    else if name = "histogram_quantile" then
      walkList { st with an := scopeToLabels st.an ["le"] false } args
    else walkList st args

def walkList (st : St) : List Expr → St
  | [] => st
  | e :: es => if st.ok then walkList (walk st e) es else st
end

/-- `QueryAnalyzer.Analyze` on a parsed expression, variant `cv` -/
def analyzeWith (cv : Bool) (e : Expr) : Analysis :=
  let st := walk ⟨⟨none, false⟩, [], true, cv⟩ e
  if ¬ st.ok then nonShardable
  else if st.dyn.isEmpty then st.an
  else scopeToLabels st.an st.dyn false

/-- the analyzer of the repository as it is now (tied by `C44_fact_analyzer`) -/
def analyze (e : Expr) : Analysis := analyzeWith true e

/-- `IsShardable()` -/
def isShardable (a : Analysis) : Bool :=
  match a.labels with
  | some (_ :: _) => true
  | _ => false

/-! ### ShardMatcher -/

abbrev Labels := List (String × String)

/-- `shardByLabel` -/
def shardByLabel (shardLabels : List String) (name : String) (by_ : Bool) : Bool :=
  let has := shardLabels.contains name
  if by_ && has then true else if !by_ && !has then true else false

/-- the labels written to the hash buffer, in series order -/
def projection (shardLabels : List String) (by_ : Bool) (ls : Labels) : Labels :=
  ls.filter fun l => shardByLabel shardLabels l.1 by_

/-- `MatchesZLabels` for a sharded matcher (`totalShards ≥ 1`): `hash` is xxhash over the buffer
    `name 0xff value 0xff …` of the projection -/
def shardMatches (hash : Labels → Nat) (total idx : Nat) (shardLabels : List String) (by_ : Bool) (ls : Labels) : Bool :=
  hash (projection shardLabels by_ ls) % total == idx

/-- `shardQuery`: the shard indices a query is sent to -/
def shardIndices (n : Nat) : List Nat := List.range n

end Thanos.Sharding
