import Thanos.Model.LoserTree
/-
  C03 / C06 — the StoreAPI fan-out of `ProxyStore.Series`.  Transliteration of

    pkg/store/proxy_merge.go   lazyRespSet / eagerRespSet receive loops (batch unpacking, proxy-side
                               sharding, Recv errors → warning frame, frame timeout), rmLabels,
                               sortWithoutLabels, the loser-tree `less`, responseDeduplicator.Next,
                               chainSeriesAndRemIdenticalChunks
    pkg/store/storepb          AggrChunk.Compare, Chunk.Compare, labels.Compare (slicelabels)
    pkg/store/batchable.go     batchableServer.Send / Flush
    pkg/store/proxy.go         the fan-out loop (open errors), the response loop (Limit, abort on
                               warning), the final Flush

  Strings are byte lists.  Hashes (`xxhash`), error texts and the proxy-side shard decision are
  inputs.  A store is the list of frames it will send plus its failure point.  Core Lean only.
-/
namespace Thanos.Merge

abbrev Bytes := List Nat

/-- `bytes.Compare` / Go string comparison -/
def cmpBytes : Bytes → Bytes → Ordering
  | [], [] => .eq
  | [], _ :: _ => .lt
  | _ :: _, [] => .gt
  | a :: as, b :: bs => if a < b then .lt else if b < a then .gt else cmpBytes as bs

abbrev Labels := List (Bytes × Bytes)

/-- `labels.Compare` (slicelabels build) -/
def cmpLabels : Labels → Labels → Ordering
  | [], [] => .eq
  | [], _ :: _ => .lt
  | _ :: _, [] => .gt
  | (an, av) :: as, (bn, bv) :: bs =>
    match cmpBytes an bn with
    | .eq =>
      match cmpBytes av bv with
      | .eq => cmpLabels as bs
      | o => o
    | o => o

/-- `storepb.Chunk` with the hash the deduplicator will use (`Hash`, or xxhash of the data when 0) -/
structure Field where
  ty : Nat
  data : Bytes
  hash : Nat
  deriving DecidableEq, Repr

/-- `storepb.AggrChunk` -/
structure Chunk where
  mint : Int
  maxt : Int
  raw : Option Field
  count : Option Field
  sum : Option Field
  min : Option Field
  max : Option Field
  counter : Option Field
  deriving DecidableEq, Repr

/-- `(*Chunk).Compare` -/
def cmpField : Option Field → Option Field → Int
  | none, none => 0
  | some _, none => 1
  | none, some _ => -1
  | some m, some b =>
    if m.ty < b.ty then 1 else if m.ty > b.ty then -1
    else match cmpBytes m.data b.data with
      | .lt => -1 | .eq => 0 | .gt => 1

def firstNonZero : List Int → Int
  | [] => 0
  | x :: r => if x = 0 then firstNonZero r else x

/-- `AggrChunk.Compare`: 1 = "m is smaller" -/
def cmpChunk (m b : Chunk) : Int :=
  if m.mint < b.mint then 1 else if m.mint > b.mint then -1
  else if m.maxt < b.maxt then 1 else if m.maxt > b.maxt then -1
  else firstNonZero [cmpField m.raw b.raw, cmpField m.count b.count, cmpField m.sum b.sum,
                     cmpField m.min b.min, cmpField m.max b.max, cmpField m.counter b.counter]

/-- the `less` given to `sort.Slice` in `chainSeriesAndRemIdenticalChunks` -/
def chunkBefore (a b : Chunk) : Bool := cmpChunk a b > 0

def insertChunk (c : Chunk) : List Chunk → List Chunk
  | [] => [c]
  | d :: r => if chunkBefore d c then d :: insertChunk c r else c :: d :: r

/-- a sort by `chunkBefore` (which one is irrelevant: distinct chunks never compare equal) -/
def sortChunks (cs : List Chunk) : List Chunk := cs.foldr insertChunk []

/-- populated fields in the order the deduplicator looks at them (Raw, Count, Max, Min, Sum,
    Counter), each with its position -/
def dedupFields (c : Chunk) : List (Nat × Field) :=
  [(0, c.raw), (1, c.count), (2, c.max), (3, c.min), (4, c.sum), (5, c.counter)].filterMap
    (fun p => p.2.map (fun f => (p.1, f)))

/-- a key of `chunkDedupMap`.  Before the repair: the hash of one field (`[(0, h)]`, position not
    part of the key).  After the repair: the hashes of all populated fields with their positions
    (the code hashes that list once more with xxhash — assumed injective on it). -/
abbrev Key := List (Nat × Nat)

/-- the unrepaired inner loop over the fields of one chunk: insert under the first field hash
    that is not yet a key (the `break` is inside the `!ok` branch) -/
def insertByField (c : Chunk) : List (Nat × Field) → List (Key × Chunk) → List (Key × Chunk)
  | [], m => m
  | (_, f) :: r, m =>
    if m.any (fun e => e.1 = [(0, f.hash)]) then insertByField c r m else m ++ [([(0, f.hash)], c)]

/-- the repaired loop body: one key per chunk, made of all populated fields; a chunk without any
    populated field is skipped (as before) -/
def insertByAllFields (c : Chunk) (m : List (Key × Chunk)) : List (Key × Chunk) :=
  let key : Key := (dedupFields c).map (fun p => (p.1, p.2.hash))
  if key.isEmpty then m
  else if m.any (fun e => e.1 = key) then m else m ++ [(key, c)]

/-- `chunkDedupMap` after the loops over all series and chunks (`fixed` selects the repaired code) -/
def dedupMap (fixed : Bool) (chunks : List Chunk) : List (Key × Chunk) :=
  chunks.foldl (fun m c => if fixed then insertByAllFields c m else insertByField c (dedupFields c) m) []

structure Series where
  lbls : Labels
  chunks : List Chunk
  deriving DecidableEq, Repr

/-- `chainSeriesAndRemIdenticalChunks` (the argument is never empty) -/
def chain (fixed : Bool) (first : Series) (rest : List Series) : Series :=
  let m := dedupMap fixed ((first :: rest).flatMap (·.chunks))
  if m.isEmpty then first else { lbls := first.lbls, chunks := sortChunks (m.map (·.2)) }

inductive Frame where
  | series (s : Series)
  | warning (msg : Bytes)
  | hints (payload : Bytes)
  | batch (ss : List Series)
  deriving DecidableEq, Repr

def Frame.isSeries : Frame → Bool
  | .series _ => true
  | _ => false

def seriesOf (fs : List Frame) : List Series :=
  fs.filterMap (fun f => match f with | .series s => some s | _ => none)

/-- the series a client of the proxy reads out of the response frames (batches unpacked) -/
def flatten (fs : List Frame) : List Series :=
  fs.flatMap fun f => match f with | .series s => [s] | .batch ss => ss | _ => []

/-! ### the per-store receivers -/

inductive Failure where
  | none
  | recvErr (after : Nat)      -- the Recv after `after` delivered frames fails
  | hang (after : Nat)         -- … blocks until the frame timeout cancels the stream
  deriving DecidableEq, Repr

/-- The error value a failing `Recv` returns, as far as the receivers could tell errors apart:
    `isEOF` — it *is* io.EOF (`err == io.EOF`); `chainEOF` — io.EOF is in its cause chain or its
    `Is(io.EOF)` method says so (`errors.Is(err, io.EOF)`; true for io.EOF itself).  A plain error, a
    gRPC status error, context.DeadlineExceeded and io.ErrUnexpectedEOF have neither; `fmt.Errorf("…: %w", io.EOF)`
    and an error type with `Is(io.EOF) = true` have only `chainEOF`. -/
structure RecvError where
  isEOF : Bool := false
  chainEOF : Bool := false
  deriving DecidableEq, Repr

structure Store where
  supportsSharding : Bool
  supportsWithout : Bool
  openErr : Bool
  failure : Failure
  frames : List (Frame × Bool)  -- frame, and `shardMatcher.MatchesZLabels` of it (consulted for series frames only)
  recvMsg : Bytes             -- text of the warning for a Recv error
  timeoutMsg : Bytes          -- … for a frame timeout
  openMsg : Bytes             -- … for a failing `Series()` call
  recvError : RecvError := {} -- which error the failing Recv (`recvErr k`) returns
  deriving Repr

/-- the stream-end predicate of both receivers (`handleRecvResponse` of `newLazyRespSet` and
    `newEagerRespSet`): `err == io.EOF` — identity with io.EOF, nothing else ends a stream cleanly -/
def isEnd (e : RecvError) : Bool := e.isEOF

/-- What the receivers see of a store, given a stream-end predicate: a `Recv` "failure" that the
    predicate accepts is the end of the stream (the frames before it were delivered, nothing is
    reported); any other error is the failure `failAt` turns into a warning.  -/
def Store.seenWith (endTest : RecvError → Bool) (st : Store) : Store :=
  match st.failure with
  | .recvErr k => if endTest st.recvError then { st with failure := .none, frames := st.frames.take k } else st
  | _ => st

def Store.seen (st : Store) : Store := st.seenWith isEnd

/-- does the Recv after `i` delivered frames fail, and with which warning -/
def failAt (st : Store) (i : Nat) : Option Frame :=
  if st.failure = .hang i then some (.warning st.timeoutMsg)
  else if st.failure = .recvErr i then some (.warning st.recvMsg)
  else none

/-- `handleRecvResponse` in a loop: what one store contributes, in arrival order
    (`i` = frames delivered so far) -/
def recvLoop (applySharding : Bool) (st : Store) : (i : Nat) → List (Frame × Bool) → List Frame
  | i, [] => (failAt st i).toList
  | i, (f, keep) :: rest =>
    match failAt st i with
    | some w => [w]
    | none =>
      let tail := recvLoop applySharding st (i + 1) rest
      match f with
      | .series _ => if applySharding && !keep then tail else f :: tail
      | .batch ss => ss.map Frame.series ++ tail
      | _ => f :: tail

/-- `rmLabels` -/
def rmLabels (l : Labels) (names : List Bytes) : Labels := l.filter (fun p => !(names.contains p.1))

/-- the comparator `sortWithoutLabels` hands to `sort.Slice`: `less(i, j)` with `a = set[i]`,
    `b = set[j]` (a non-series response is "less" than anything, also than another non-series) -/
def sortLess (a b : Frame) : Bool :=
  match a with
  | .series sa =>
    match b with
    | .series sb => cmpLabels sa.lbls sb.lbls = .lt
    | _ => false
  | _ => true

/-- inner loop of Go's `insertionSort_func`: `x` travels left through the (reversed) sorted
    prefix while `less(x, previous)` -/
def insLoop (x : Frame) : List Frame → List Frame → List Frame
  | [], passed => x :: passed
  | p :: ps, passed => if sortLess x p then insLoop x ps (p :: passed) else (p :: ps).reverse ++ x :: passed

/-- `sort.Slice` for slices of at most 12 elements is this insertion sort (longer slices go through
    pdqsort, which is not modelled: results are compared after deduplication, where the order among
    equal label sets no longer matters unless two different chunks share a key) -/
def goInsertionSort (fs : List Frame) : List Frame :=
  fs.foldl (fun pre x => insLoop x pre.reverse []) []

/-- `sortWithoutLabels`: replica labels removed, then `sort.Slice` with `sortLess` — non-series
    responses end up in front, series sorted by labels -/
def sortWithoutLabels (fs : List Frame) (names : List Bytes) : List Frame :=
  goInsertionSort (fs.map (fun f => match f with
    | .series s => if names.isEmpty then f else .series { s with lbls := rmLabels s.lbls names }
    | _ => f))

/-- what the merge sees of one store: `lazyRespSet` / `eagerRespSet` (a store that cannot strip
    replica labels itself is always read eagerly and re-sorted) -/
def respSet (lazy : Bool) (sharded : Bool) (without : List Bytes) (st : Store) : List Frame :=
  let applySharding := sharded && !st.supportsSharding
  let got := recvLoop applySharding st 0 st.frames
  let mustResort := !st.supportsWithout && !without.isEmpty
  if lazy && !mustResort then got
  else sortWithoutLabels got (if mustResort then without else [])

/-! ### k-way merge -/

/-- `less` of `NewProxyResponseLoserTree`; `none` is `maxVal` -/
def lessResp : Option Frame → Option Frame → Bool
  | none, some _ => false
  | some _, none => true
  | none, none => true
  | some a, some b =>
    match a, b with
    | .series x, .series y => cmpLabels x.lbls y.lbls = .lt
    | .series _, _ => false
    | _, .series _ => true
    | .warning x, .warning y => !x.isEmpty && !y.isEmpty && x.length < y.length
    | _, _ => false

def treeMerge (streams : List (List Frame)) : List Frame :=
  (LoserTree.merge (streams.map (·.map some)) none lessResp).filterMap id

/-! ### responseDeduplicator -/

/-- `responseDeduplicator.Next/At` unrolled over the merged stream: `same` is
    `bufferedSameSeries`, `pending` the non-series responses met while collecting it -/
def dedupGo (fixed : Bool) : Option (Series × List Series) → List Frame → List Frame → List Frame
  | same, pending, [] =>
    pending ++ (match same with | none => [] | some (f, r) => [.series (chain fixed f r)])
  | same, pending, .series s :: rest =>
    match same with
    | none => dedupGo fixed (some (s, [])) pending rest
    | some (f, r) =>
      if cmpLabels f.lbls s.lbls = .eq then dedupGo fixed (some (f, r ++ [s])) pending rest
      else pending ++ .series (chain fixed f r) :: dedupGo fixed (some (s, [])) [] rest
  | same, pending, x :: rest => dedupGo fixed same (pending ++ [x]) rest

def dedup (fixed : Bool) (merged : List Frame) : List Frame := dedupGo fixed none [] merged

/-! ### the response loop and the batching server -/

inductive Status where
  | ok | aborted
  deriving DecidableEq, Repr

/-- the `for respHeap.Next()` loop: what is handed to `srv.Send`, and how the loop ended -/
def respLoop (limit : Nat) (abort : Bool) : (i : Nat) → List Frame → List Frame × Status
  | _, [] => ([], .ok)
  | i, f :: rest =>
    if limit > 0 && i + 1 > limit then ([], .ok)
    else match f with
      | .warning msg =>
        if abort && !msg.isEmpty then ([], .aborted)
        else let (xs, st) := respLoop limit abort (i + 1) rest; (f :: xs, st)
      | _ => let (xs, st) := respLoop limit abort (i + 1) rest; (f :: xs, st)

/-- `batchableServer.Send` over a list of responses followed by `Flush` (when `flush`).  `pend` is
    `b.series`. -/
def rebatch (n : Nat) (flush : Bool) : List Series → List Frame → List Frame
  | pend, [] => if flush && !pend.isEmpty then [.batch pend] else []
  | pend, .series s :: rest =>
    let pend' := pend ++ [s]
    if pend'.length ≥ n then .batch pend' :: rebatch n flush [] rest else rebatch n flush pend' rest
  | pend, x :: rest =>
    (if pend.isEmpty then [] else [.batch pend]) ++ x :: rebatch n flush [] rest

/-- `newBatchableServer`: sizes 0 and 1 pass everything through -/
def serverOut (batchSize : Nat) (flush : Bool) (sent : List Frame) : List Frame :=
  if batchSize ≤ 1 then sent else rebatch batchSize flush [] sent

structure Request where
  fixedDedup : Bool        -- which `chainSeriesAndRemIdenticalChunks` (before / after the repair)
  lazy : Bool
  batchSize : Nat
  limit : Nat
  abort : Bool
  dedup : Bool
  sharded : Bool
  without : List Bytes
  deriving Repr

inductive Outcome where
  | ok | aborted | openFailed | noStores
  deriving DecidableEq, Repr

/-- the fan-out loop: response sets of the stores that opened, warnings sent for those that did
    not (warn strategy), or the index of the store whose failure ends the request (abort) -/
def fanOut (rq : Request) : List Store → List Frame × List (List Frame) × Bool
  | [] => ([], [], false)
  | st :: rest =>
    if st.openErr then
      if rq.abort then ([], [], true)
      else let (w, sets, failed) := fanOut rq rest; (.warning st.openMsg :: w, sets, failed)
    else
      let (w, sets, failed) := fanOut rq rest
      (w, respSet rq.lazy rq.sharded rq.without st :: sets, failed)

/-- `ProxyStore.Series` after store selection, with the k-way merge as a parameter: what the
    client's `Store_SeriesServer` receives and how the call ends -/
def proxySeriesWith (merge : List (List Frame) → List Frame) (rq : Request) (stores : List Store) :
    List Frame × Outcome :=
  -- "There are no stores registered at all and partial results are disabled"
  if stores.isEmpty && rq.abort then ([], .noStores) else
  let (openWarnings, sets, failed) := fanOut rq stores
  -- warnings of stores that failed to open go through `srv.Send` first
  if failed then (serverOut rq.batchSize false openWarnings, .openFailed)
  else
    let merged := merge sets
    let resps := if rq.dedup then dedup rq.fixedDedup merged else merged
    let (sent, st) := respLoop rq.limit rq.abort 0 resps
    match st with
    | .ok => (serverOut rq.batchSize true (openWarnings ++ sent), .ok)
    | .aborted => (serverOut rq.batchSize false (openWarnings ++ sent), .aborted)

/-- … with the loser tree of pkg/losertree as the merge: the model the driver runs -/
def proxySeries (rq : Request) (stores : List Store) : List Frame × Outcome :=
  proxySeriesWith treeMerge rq stores

/-- … with the error kinds of the failing Recvs taken into account: the model the driver runs -/
def proxySeriesSeen (rq : Request) (stores : List Store) : List Frame × Outcome :=
  proxySeries rq (stores.map Store.seen)

/-! ### one level up: `querier.selectFn` (pkg/query/querier.go)

  `seriesServer.Send` collects the proxy's answer (warnings with a non-empty text become
  annotations, series / batches are appended, anything else is skipped); `selectFn` returns an error
  when `proxy.Series` failed, otherwise a series set that carries the collected warnings
  (`NewPromSeriesSet(…, warns)`, through `dedup.NewSeriesSet` when replica deduplication is on).
  What happens to the samples afterwards (chunk iterators, penalty deduplication) is C04's subject;
  here only the status, the warnings and whether there is any series at all are modelled. -/

/-- `seriesServer.Send` over the whole answer: the series set and the warnings -/
def collectAnswer (fs : List Frame) : List Series × List Bytes :=
  (flatten fs, fs.filterMap fun f => match f with | .warning m => if m.isEmpty then none else some m | _ => none)

structure SelectResult where
  failed : Bool                -- `Select(...).Err() != nil`
  series : List Series         -- `resp.seriesSet`
  warnings : List Bytes        -- `Select(...).Warnings()` (a set; kept as the list of arrivals)
  deriving Repr

/-- `selectFn`.  `dropWhenEmpty = true` is a *hypothetical* variant (a "fast path" returning
    `storage.EmptySeriesSet()` before the warnings are read when no series came back) — the code in
    /repo is `false`; see `C06_querier_fastpath_false` and the fact `selectFnSuccessReturns`. -/
def selectFnWith (dropWhenEmpty : Bool) (merge : List (List Frame) → List Frame) (rq : Request)
    (stores : List Store) : SelectResult :=
  match proxySeriesWith merge rq stores with
  | (out, .ok) =>
    let (ss, ws) := collectAnswer out
    if dropWhenEmpty && ss.isEmpty then { failed := false, series := [], warnings := [] }
    else { failed := false, series := ss, warnings := ws }
  | (_, _) => { failed := true, series := [], warnings := [] }

def selectFn (rq : Request) (stores : List Store) : SelectResult := selectFnWith false treeMerge rq stores

def selectFnSeen (rq : Request) (stores : List Store) : SelectResult := selectFn rq (stores.map Store.seen)

end Thanos.Merge
