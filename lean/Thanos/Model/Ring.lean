/-
  C03 / C06 — `ringBuffer` of `lazyRespSet` (pkg/store/proxy_merge.go): newRingBuffer, append, pop,
  isEmpty, isFull.  `append` on a full buffer blocks in the Go code (condition variable); in the
  model it is simply not enabled (`none`).  Core Lean only.
-/
namespace Thanos.Ring

structure Ring (α : Type) where
  buf : List (Option α)      -- bufferedResponses, fixedBufferSize = maxBuffered + 1 slots
  head : Nat
  tail : Nat

variable {α : Type}

/-- `newRingBuffer(fixedBufferSize)` -/
def Ring.new (n : Nat) : Ring α := { buf := List.replicate (n + 1) none, head := 0, tail := 0 }

def Ring.size (r : Ring α) : Nat := r.buf.length
def Ring.isEmpty (r : Ring α) : Bool := r.head = r.tail
def Ring.isFull (r : Ring α) : Bool := (r.tail + 1) % r.size = r.head

/-- `append` when there is a slot; `none` = the producer has to wait -/
def Ring.append (r : Ring α) (x : α) : Option (Ring α) :=
  if r.isFull then none
  else some { r with buf := r.buf.set r.tail (some x), tail := (r.tail + 1) % r.size }

/-- `pop` (the consumer only pops a non-empty buffer): the slot content and the new state -/
def Ring.pop (r : Ring α) : Option α × Ring α :=
  (r.buf[r.head]?.join, { r with head := (r.head + 1) % r.size })

inductive Op (α : Type) where
  | app (x : α)
  | pop

/-- run a script; an `app` on a full buffer and a `pop` on an empty one are skipped (not enabled).
    Result: what the pops returned, and the final state. -/
def run : Ring α → List (Op α) → List (Option α) × Ring α
  | r, [] => ([], r)
  | r, .app x :: ops =>
    match r.append x with
    | some r' => run r' ops
    | none => run r ops
  | r, .pop :: ops =>
    if r.isEmpty then run r ops
    else
      let (v, r') := r.pop
      let (vs, rf) := run r' ops
      (v :: vs, rf)

end Thanos.Ring
