/-
  C17 — pooled buffers.

  (a) ownership of the shard-matcher buffers of `ProxyStore` (`sync.Pool` of `*[]byte`):
      pkg/store/storepb/shard_info.go  ShardInfo.Matcher (pool.Get), ShardMatcher.Close (pool.Put)
      pkg/store/proxy_merge.go         lazyRespSet.Close / eagerRespSet.Close → shardMatcher.Close
      pkg/store/proxy.go               `defer respSet.Close()` + loser-tree close callback
      A `sync.Pool` is a multiset of buffer ids; `Get` hands out *some* pooled buffer or a fresh
      one (the choice is an argument, theorems quantify over it).
  (b) `pool.BucketedPool` accounting (pkg/pool/pool.go Get / Put / usedTotal).  The per-bucket
      `sync.Pool`s are multisets of capacities; which pooled slice a `Get` returns is an argument.

  Core Lean only.
-/
namespace Thanos.Pool

/-! ### (a) shard-matcher buffers -/

/-- one `ShardMatcher` that took a buffer: its id, the buffer id, and whether `Close` already ran -/
structure Held where
  matcher : Nat
  buf : Nat
  closed : Bool
  deriving DecidableEq, Repr

structure PState where
  free : List Nat          -- buffers inside the sync.Pool (a multiset: a duplicate is the defect)
  next : Nat               -- next fresh buffer id (`New`)
  held : List Held
  deriving DecidableEq, Repr

def PState.init : PState := { free := [], next := 0, held := [] }

inductive Ev where
  /-- `ShardInfo.Matcher(buffers)`: `pick = some k` takes the k-th pooled buffer (if there is one),
      `none` allocates -/
  | opn (matcher : Nat) (pick : Option Nat)
  /-- `ShardMatcher.Close()` -/
  | cls (matcher : Nat)
  deriving DecidableEq, Repr

/-- `Close` on the entry of matcher `m`.  `idem = true` is the code after the repair
    (`s.buffers = nil` after the `Put`), `false` the code as it was (every `Close` puts). -/
def closeHeld (idem : Bool) (m : Nat) : List Held → List Held × List Nat
  | [] => ([], [])
  | h :: r =>
    if h.matcher = m then
      if idem && h.closed then (h :: r, []) else ({ h with closed := true } :: r, [h.buf])
    else
      let (r', put) := closeHeld idem m r
      (h :: r', put)

def step (idem : Bool) (s : PState) : Ev → PState
  | .opn m pick =>
    match pick with
    | some k =>
      match s.free[k]? with
      | some b => { s with free := s.free.eraseIdx k, held := ⟨m, b, false⟩ :: s.held }
      | none => { s with next := s.next + 1, held := ⟨m, s.next, false⟩ :: s.held }
    | none => { s with next := s.next + 1, held := ⟨m, s.next, false⟩ :: s.held }
  | .cls m =>
    let (held', put) := closeHeld idem m s.held
    { s with free := put ++ s.free, held := held' }

def run (idem : Bool) (s : PState) (evs : List Ev) : PState := evs.foldl (step idem) s

/-- buffers of matchers that are still in use (opened, `Close` not yet called) -/
def liveBufs (s : PState) : List Nat := (s.held.filter (fun h => !h.closed)).map (·.buf)

/-- how many times the buffer of matcher `m` was put back, given the number of `Close` calls -/
def putsOf (idem : Bool) (closes : Nat) : Nat := if idem then min closes 1 else closes

/-! ### (b) BucketedPool -/

structure BPool where
  buckets : List (Nat × List Nat)   -- (bucket size, capacities of the slices parked in its sync.Pool)
  maxTotal : Nat
  used : Nat
  deriving DecidableEq, Repr

def BPool.sizes (p : BPool) : List Nat := p.buckets.map (·.1)

/-- the constructor's loop `for s := minSize; s <= maxSize; s = int(float64(s) * factor)` with
    `factor = num/den`; `none` = the loop does not terminate within `fuel` rounds -/
def sizesFrom : (fuel : Nat) → (s max num den : Nat) → Option (List Nat)
  | 0, _, _, _, _ => none
  | f + 1, s, max, num, den =>
    if s ≤ max then (sizesFrom f (s * num / den) max num den).map (s :: ·) else some []

def BPool.new (min max num den maxTotal : Nat) : Option BPool :=
  (sizesFrom (max + 2) min max num den).map fun sizes =>
    { buckets := sizes.map (fun s => (s, [])), maxTotal := maxTotal, used := 0 }

/-- the first bucket that fits `sz` (`if sz > bktSize { continue }`): index, size, parked slices -/
def findBucket : List (Nat × List Nat) → Nat → Option (Nat × Nat × List Nat)
  | [], _ => none
  | (b, parked) :: r, sz =>
    if sz > b then (findBucket r sz).map (fun x => (x.1 + 1, x.2)) else some (0, b, parked)

def setParked : List (Nat × List Nat) → Nat → List Nat → List (Nat × List Nat)
  | [], _, _ => []
  | (b, _) :: r, 0, parked => (b, parked) :: r
  | x :: r, i + 1, parked => x :: setParked r i parked

inductive GetRes where
  | ok (cap : Nat)
  | exhausted
  | badChoice          -- the op line names a pooled capacity the bucket does not contain
  deriving DecidableEq, Repr

def overBudget (p : BPool) (charge : Nat) : Bool :=
  decide (p.maxTotal > 0) && decide (p.used + charge > p.maxTotal)

/-- `BucketedPool.Get(sz)`.  `fixed = false`: the budget is tested with the requested size before
    the bucket is known (the code as it was); `fixed = true`: with the bucket size that can be
    charged (the repaired code).  `choice = some c`: the bucket's sync.Pool hands back a parked
    slice of capacity `c`; `none`: it is empty / allocates. -/
def BPool.get (fixed : Bool) (p : BPool) (sz : Nat) (choice : Option Nat) : BPool × GetRes :=
  if !fixed && overBudget p sz then (p, .exhausted)
  else match findBucket p.buckets sz with
    | some (i, bkt, parked) =>
      if fixed && overBudget p bkt then (p, .exhausted)
      else match choice with
        | none => ({ p with used := p.used + bkt }, .ok bkt)
        | some c =>
          if parked.contains c then
            ({ p with used := p.used + c, buckets := setParked p.buckets i (parked.erase c) }, .ok c)
          else (p, .badChoice)
    | none =>
      if fixed && overBudget p sz then (p, .exhausted)
      else ({ p with used := p.used + sz }, .ok sz)

/-- `BucketedPool.Put(b)` with `cap(*b) = c` -/
def BPool.put (p : BPool) (c : Nat) : BPool :=
  let buckets := match findBucket p.buckets c with
    | some (i, _, parked) => setParked p.buckets i (c :: parked)
    | none => p.buckets
  { p with buckets := buckets, used := if c ≥ p.used then 0 else p.used - c }

inductive BOp where
  | get (sz : Nat) (choice : Option Nat)
  | putGot (k : Nat)        -- put back, unchanged, what the k-th `get` of the script returned
  | putCap (c : Nat)        -- put a slice of capacity `c` (grown by `append`, or foreign)
  deriving DecidableEq, Repr

inductive BAns where
  | got (r : GetRes) (used : Nat)
  | put (used : Nat)
  deriving DecidableEq, Repr

/-- run a script; `got` collects what each `get` returned (`none` for a failed one: `Put(nil)`
    is a no-op) -/
def BPool.runScript (fixed : Bool) : BPool → List (Option Nat) → List BOp → List BAns
  | _, _, [] => []
  | p, got, .get sz ch :: r =>
    let (p', res) := p.get fixed sz ch
    let g := match res with | .ok c => some c | _ => none
    .got res p'.used :: runScript fixed p' (got ++ [g]) r
  | p, got, .putGot k :: r =>
    match got[k]? with
    | some (some c) => let p' := p.put c; .put p'.used :: runScript fixed p' got r
    | _ => .put p.used :: runScript fixed p got r
  | p, got, .putCap c :: r =>
    let p' := p.put c
    .put p'.used :: runScript fixed p' got r

end Thanos.Pool
