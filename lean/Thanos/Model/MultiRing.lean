/-
  pkg/receive/hashring.go — `multiHashring.GetN` (cache, first matching tenant set),
  `tenantSet.match`, `isExactMatcher` (config.go).  Property C27.

  Conventions
  * A tenant name is an opaque token (`String`); exact matching is token equality.
  * `filepath.Match` is an INPUT: for the routed tenant every hashring configuration carries the
    results `yes | no | bad` (ErrBadPattern) of its patterns, in the order of its tenant list.
  * Go iterates the patterns of a glob set in map order.  With a malformed pattern AND a
    matching pattern in one set the outcome depends on that order; the model answers
    `SetRes.yesOrErr` / `Route.ringOrErr` for exactly that case.
  * The sub-hashrings are opaque: routing answers the index of the chosen one.
-/
namespace Thanos.MultiRing

inductive MType where
  | exact      -- "exact" or "" (isExactMatcher)
  | glob       -- "glob"
  | other      -- any other string: `default: continue`, never matches
  deriving DecidableEq, Repr

inductive GlobRes where
  | yes | no | bad
  deriving DecidableEq, Repr

/-- one entry of the hashring configuration list, seen from one tenant -/
structure Cfg where
  typ : MType
  tenants : List String      -- the `tenants` field; `[]` = default hashring (tenantSet is nil)
  glob : List GlobRes        -- filepath.Match(pattern, tenant) for every pattern (read for glob sets only)
  deriving DecidableEq, Repr

inductive SetRes where
  | yes | no | err | yesOrErr
  deriving DecidableEq, Repr

/-- `tenantSet.match` for a glob set: the loop returns at the first `yes` or `bad` it meets, in map order -/
def globSet (tab : List GlobRes) : SetRes :=
  if tab.contains .bad then (if tab.contains .yes then .yesOrErr else .err)
  else if tab.contains .yes then .yes else .no

/-- does the tenant set of a configuration accept the tenant?  (`t == nil` is handled by the caller) -/
def setMatch (c : Cfg) (tenant : String) : SetRes :=
  match c.typ with
  | .exact => if c.tenants.contains tenant then .yes else .no
  | .glob => globSet c.glob
  | .other => .no

inductive Route where
  | ring (i : Nat)
  | none                 -- "no matching hashring to handle tenant"
  | err                  -- "error matching tenant pattern"
  | ringOrErr (i : Nat)  -- map-order dependent: a malformed and a matching pattern in the same set
  deriving DecidableEq, Repr

/-- the loop over `m.tenantSets` of `multiHashring.GetN`, `i` = index of the head of `cfgs` -/
def routeFrom (tenant : String) : Nat → List Cfg → Route
  | _, [] => .none
  | i, c :: cs =>
    if c.tenants.isEmpty then .ring i
    else
      match setMatch c tenant with
      | .yes => .ring i
      | .no => routeFrom tenant (i + 1) cs
      | .err => .err
      | .yesOrErr => .ringOrErr i

/-- uncached routing of one tenant -/
def route (tenant : String) (cfgs : List Cfg) : Route := routeFrom tenant 0 cfgs

/-- the cache: tenant ↦ index of the hashring -/
abbrev Cache := List (String × Nat)

def Cache.get (c : Cache) (tenant : String) : Option Nat :=
  match c with
  | [] => none
  | (t, i) :: rest => if t = tenant then some i else Cache.get rest tenant

/-- `multiHashring.GetN` with its cache: a hit answers the cached ring; a miss routes and, when a
    ring is found, stores it.  `view tenant` is the configuration list as seen from that tenant. -/
def getN (view : String → List Cfg) (cache : Cache) (tenant : String) : Route × Cache :=
  match cache.get tenant with
  | some i => (.ring i, cache)
  | none =>
    match route tenant (view tenant) with
    | .ring i => (.ring i, (tenant, i) :: cache)
    | r => (r, cache)

/-- a history of requests on one multi hashring -/
def getNSeq (view : String → List Cfg) : Cache → List String → List Route
  | _, [] => []
  | cache, t :: ts =>
    let (r, cache') := getN view cache t
    r :: getNSeq view cache' ts

/-! ### replica indices and errors of the selected hashring

  `multiHashring.GetN(tenant, ts, n)` selects the hashring by the tenant alone, stores it in the
  cache and then returns whatever `hashrings[i].GetN(tenant, ts, n)` returns — also its error
  (hashmod rings have no minimum size: `n ≥ len` gives "insufficient nodes; have len, want n+1").
  The sub-hashrings are modelled by their sizes. -/

inductive Ans where
  | served (i : Nat)                   -- a node of hashring `i`
  | insufficient (i : Nat) (size : Nat) -- hashring `i` was selected and has only `size` nodes
  | noRing                             -- "no matching hashring to handle tenant"
  | matchErr                           -- "error matching tenant pattern"
  | servedOrErr (i : Nat)              -- map-order dependent (malformed pattern), not claimed
  deriving DecidableEq, Repr

/-- what the selected hashring answers for replica index `n` -/
def answer (sizes : List Nat) (n : Nat) : Route → Ans
  | .ring i =>
    match sizes[i]? with
    | some s => if n < s then .served i else .insufficient i s
    | none => .noRing
  | .none => .noRing
  | .err => .matchErr
  | .ringOrErr i => .servedOrErr i

/-- a history of `(tenant, n)` requests on one multi hashring: routing and cache as in `getN`
    (the selected ring is cached whether or not it can serve `n`) -/
def getNSeqN (view : String → List Cfg) (sizes : List Nat) : Cache → List (String × Nat) → List Ans
  | _, [] => []
  | cache, (t, n) :: ts =>
    let (r, cache') := getN view cache t
    answer sizes n r :: getNSeqN view sizes cache' ts

end Thanos.MultiRing
