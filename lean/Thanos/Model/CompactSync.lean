/-
  Model/CompactSync.lean — C33: what a compactor iteration does with the outcomes of the reads of
  its metadata sync (pkg/block/fetcher.go fetchMetadata / fetch / the marker filters,
  pkg/compact/compact.go Syncer.SyncMetas / BucketCompactor.Compact).

  Specification level: a sync is the list of its read outcomes; an iteration is `sync`, then —
  only if the sync did not fail — the writes the compactor derives from the view.
-/
namespace Thanos.CompactSync

/-- which read of the sync -/
inductive ReadKind where
  | listing          -- Iter of the bucket root (block ids)
  | existsMeta       -- Exists(<id>/meta.json) of the concurrent lister
  | getMeta          -- Get(<id>/meta.json) in loadMeta
  | getDeletionMark  -- Get(<id>/deletion-mark.json) in IgnoreDeletionMarkFilter
  | getNoCompactMark -- Get(<id>/no-compact-mark.json) in GatherNoCompactionMarkFilter
  deriving DecidableEq, Repr

/-- how the read ends -/
inductive Outcome where
  | ok
  | notFound        -- the object does not exist (IsObjNotFoundErr)
  | corrupt         -- the object is there but is not valid JSON
  | badVersion      -- valid JSON with an unsupported version
  | failed          -- any other error: transient failure of the read
  | bodyError       -- the call succeeds, then the returned reader breaks while the body is read
  deriving DecidableEq, Repr

/-- what the code makes of one read: does it leave the view incomplete (the sync fails)? -/
def breaksSync : ReadKind → Outcome → Bool
  | _, .ok => false
  | _, .bodyError => true                    -- io.ReadAll fails BEFORE anything is decoded: "read meta file" /
                                             -- "read file" errors are plain errors, never "corrupted" / "unmarshal"
  | .listing, _ => true                      -- "BaseFetcher: iter bucket"
  | .existsMeta, _ => true                   -- "meta.json file exists: …" (Exists has no not-found error)
  | .getMeta, .notFound => false             -- ErrorSyncMetaNotFound: partial block
  | .getMeta, .corrupt => false              -- ErrorSyncMetaCorrupted: partial block
  | .getMeta, .badVersion => true            -- "unexpected meta file version": metaErrs ⇒ incomplete view
  | .getMeta, .failed => true                -- metaErrs ⇒ "incomplete view"
  | .getDeletionMark, .notFound => false     -- ErrorMarkerNotFound: not marked
  | .getDeletionMark, .corrupt => false      -- ErrorUnmarshalMarker: warned about, treated as not marked
  | .getDeletionMark, .badVersion => true
  | .getDeletionMark, .failed => true        -- "filter blocks marked for deletion"
  | .getNoCompactMark, .notFound => false
  | .getNoCompactMark, .corrupt => false
  | .getNoCompactMark, .badVersion => true
  | .getNoCompactMark, .failed => true       -- "filter blocks marked for no compaction"

/-- a read FAILED in the sense of the property (as opposed to "answered: there is no such
    object / it is a partial upload") -/
def readFailed : ReadKind → Outcome → Bool
  | _, .failed => true
  | _, .bodyError => true
  | _, _ => false

def syncFails (reads : List (ReadKind × Outcome)) : Bool := reads.any fun r => breaksSync r.1 r.2

/-- one iteration of `BucketCompactor.Compact`: returns (error?, mutating bucket calls);
    `writes` is whatever cleaning / garbage collection / compaction would do on the view -/
def iteration {W : Type} (reads : List (ReadKind × Outcome)) (writes : List W) : Bool × List W :=
  if syncFails reads then (true, []) else (false, writes)

end Thanos.CompactSync
