/-
  Protocol-level model of compactor / store-gateway interplay (C34, C29).

  Anchors: pkg/compact/compact.go (BucketCompactor.Compact, Group.compact, Syncer.GarbageCollect),
  pkg/compact/blocks_cleaner.go (DeleteMarkedBlocks), pkg/block/fetcher.go
  (IgnoreDeletionMarkFilter, DefaultDeduplicateFilter), cmd/thanos/compact.go (deleteDelay/2),
  cmd/thanos/store.go (ignoreDeletionMarksDelay).

  A block is what the filters read of its meta.json and deletion-mark.json: id (ULID order =
  creation order), compaction level, the set of source blocks it was compacted from, and the
  time it was marked for deletion.  The *samples* of a block are identified with its sources
  (TSDB's merge is trusted here and checked by C29's oracle on real blocks): a level-1 block `i`
  holds sample `i`, a compacted block holds the samples of everything it was compacted from.
  One compaction group (the filters and the compactor treat groups independently).
  Only complete blocks are in the bucket list: a partially uploaded block has no meta.json and is
  invisible to every fetcher (C28), a block under deletion loses its meta.json first.
  Time is in whole seconds.  Core Lean only.
-/
namespace Thanos.CompactProto

structure Blk where
  id      : Nat
  level   : Nat
  sources : List Nat
  mark    : Option Nat        -- DeletionTime of deletion-mark.json
deriving DecidableEq, Repr, Inhabited

/-- `contains(parentSources, childSources)` of fetcher.go: every source of `c` is a source of `u` -/
def covers (u c : Blk) : Bool := c.sources.all (fun x => u.sources.contains x)

/-- The sort order of `DefaultDeduplicateFilter.filterGroup`: `u` comes before `c`.
    More sources first; among equally many, `levelTie = true` puts the higher compaction level
    first (the repaired order), then the smaller ULID; `levelTie = false` is the order as
    originally written (ULID only). -/
def beats (levelTie : Bool) (u c : Blk) : Bool :=
  u.sources.length > c.sources.length ||
  (u.sources.length == c.sources.length &&
    (if levelTie then (u.level > c.level || (u.level == c.level && u.id < c.id)) else u.id < c.id))

/-- `IgnoreDeletionMarkFilter`: a marked block stays in the view while
    `time.Since(DeletionTime) > delay` is false -/
def markOk (delay now : Nat) (b : Blk) : Bool :=
  match b.mark with
  | none => true
  | some t => !(now - t > delay)

/-- `DefaultDeduplicateFilter`, as a specification: a block of the view is filtered out iff a block
    that comes earlier in the sort order contains all its sources (equivalent to the covering-set
    fold of `filterGroup` — that equivalence is C31's; here it is validated against the real
    filter on every run). -/
def hiddenIn (levelTie : Bool) (V : List Blk) (c : Blk) : Bool :=
  V.any (fun u => beats levelTie u c && covers u c)

/-- the blocks that pass the mark filter -/
def markView (delay now : Nat) (blocks : List Blk) : List Blk := blocks.filter (markOk delay now)

/-- the filter chain `IgnoreDeletionMarkFilter(delay)` then `DefaultDeduplicateFilter` -/
def filterChain (levelTie : Bool) (delay now : Nat) (blocks : List Blk) : List Blk :=
  let V := markView delay now blocks
  V.filter (fun c => !hiddenIn levelTie V c)

/-- `DuplicateIDs()` after that chain -/
def duplicates (levelTie : Bool) (delay now : Nat) (blocks : List Blk) : List Blk :=
  let V := markView delay now blocks
  V.filter (fun c => hiddenIn levelTie V c)

/-! ### the transition system -/

structure Params where
  deleteDelay : Nat      -- compactor --delete-delay
  divisor     : Nat      -- the compactor ignores marks older than deleteDelay / divisor
  ignoreDelay : Nat      -- store gateway --ignore-deletion-marks-delay
  lag         : Nat      -- upper bound on the time between two syncs of a store gateway
  levelTie    : Bool     -- the tie rule of the duplicate filter's sort
deriving Repr

/-- a store gateway: the blocks it loaded at its last sync -/
structure Gw where
  loaded   : List Nat    -- ids
  lastSync : Nat
  known    : List Nat    -- the samples that were in the bucket at the last sync
  stale    : List Nat := []  -- loaded earlier, gone from the view of the sync in progress, not dropped yet
deriving Repr, DecidableEq

structure State where
  now    : Nat
  blocks : List Blk
  gws    : List Gw
  nextId : Nat
deriving Repr, DecidableEq

inductive Action where
  | ship                               -- a sidecar/receiver uploads a new level-1 block
  | compact (ids : List Nat)           -- Group.compact up to and including the upload of the result
  | markSource (b r : Nat)             -- Group.compact marks a source `b` of the uploaded result `r`
  | gc (b : Nat)                       -- Syncer.GarbageCollect marks one duplicate
  | clean (b : Nat)                    -- BlocksCleaner deletes one block marked long enough ago
  | sync (g : Nat)                     -- store gateway `g` syncs
  | tick (d : Nat)                     -- time passes
  | failedUpload                       -- a compaction whose result never became visible (upload failed before
                                       -- meta.json): a ULID is used up, the bucket shows no new block
  | syncLoad (g : Nat)                 -- first half of BucketStore.SyncBlocks: fetch the view, load its new blocks
  | syncDrop (g : Nat)                 -- second half: drop the loaded blocks that are not in that view
  | readFault                          -- a read of meta.json / a marker fails during a sync: at most the
                                       -- iteration is aborted, the bucket is not touched (C33: an incomplete view
                                       -- never leads to a write)
deriving Repr

def findBlk (blocks : List Blk) (i : Nat) : Option Blk := blocks.find? (fun b => b.id == i)

def setMark (i t : Nat) (blocks : List Blk) : List Blk :=
  blocks.map (fun b => if b.id = i then { b with mark := some t } else b)

/-- sorted union without repetition (Compaction.Sources of tsdb.CompactBlockMetas) -/
def insertSrc (x : Nat) : List Nat → List Nat
  | [] => [x]
  | y :: ys => if x < y then x :: y :: ys else if x = y then y :: ys else y :: insertSrc x ys

def unionSrc (a b : List Nat) : List Nat := a.foldl (fun acc x => insertSrc x acc) b

def allSources (blocks : List Blk) : List Nat := blocks.foldl (fun acc b => unionSrc b.sources acc) []

def maxLevel (bs : List Blk) : Nat := bs.foldl (fun a b => if b.level > a then b.level else a) 0

/-- the compactor's view: marks older than deleteDelay/divisor are ignored, duplicates hidden -/
def compactorView (P : Params) (s : State) : List Blk :=
  filterChain P.levelTie (P.deleteDelay / P.divisor) s.now s.blocks

def gwOk (P : Params) (now : Nat) (g : Gw) : Bool := now ≤ g.lastSync + P.lag

def step (P : Params) (s : State) : Action → Option State
  | .ship =>
    some { s with blocks := s.blocks ++ [{ id := s.nextId, level := 1, sources := [s.nextId], mark := none }],
                  nextId := s.nextId + 1 }
  | .compact ids =>
    let view := compactorView P s
    match (if ids.Nodup then ids.mapM (findBlk view) else none) with
    | none => none                                   -- only (distinct) blocks of the compactor's view can be planned
    | some [] => none
    | some plan =>
      let r : Blk := { id := s.nextId, level := maxLevel plan + 1,
                       sources := plan.foldl (fun acc b => unionSrc b.sources acc) [], mark := none }
      some { s with blocks := s.blocks ++ [r], nextId := s.nextId + 1 }
  | .markSource b r =>
    match findBlk s.blocks b, findBlk s.blocks r with
    | some bb, some rr =>
      -- what Group.compact knows: `rr` is the fresh result of a plan that contained `bb`
      if rr.mark.isNone && covers rr bb && rr.level > bb.level && bb.mark.isNone then
        some { s with blocks := setMark b s.now s.blocks }
      else none
    | _, _ => none
  | .gc b =>
    match findBlk (duplicates P.levelTie (P.deleteDelay / P.divisor) s.now s.blocks) b with
    | some bb => if bb.mark.isNone then some { s with blocks := setMark b s.now s.blocks } else none
    | none => none
  | .clean b =>
    match findBlk s.blocks b with
    | some bb =>
      match bb.mark with
      | some t => if s.now - t > P.deleteDelay then some { s with blocks := s.blocks.filter (fun c => c.id != b) } else none
      | none => none
    | none => none
  | .sync g =>
    if g < s.gws.length then
      let loaded := (filterChain P.levelTie P.ignoreDelay s.now s.blocks).map (·.id)
      some { s with gws := s.gws.set g { loaded := loaded, lastSync := s.now, known := allSources s.blocks } }
    else none
  | .tick d =>
    if s.gws.all (gwOk P (s.now + d)) then some { s with now := s.now + d } else none
  | .failedUpload => some { s with nextId := s.nextId + 1 }
  | .readFault => some s
  | .syncLoad g =>
    match s.gws[g]? with
    | some gw =>
      let view := (filterChain P.levelTie P.ignoreDelay s.now s.blocks).map (·.id)
      some { s with gws := s.gws.set g { loaded := view, lastSync := s.now, known := allSources s.blocks,
                                         stale := (gw.loaded ++ gw.stale).filter (fun i => !view.contains i) } }
    | none => none
  | .syncDrop g =>
    match s.gws[g]? with
    | some gw => some { s with gws := s.gws.set g { gw with stale := [] } }
    | none => none

def run (P : Params) : State → List Action → Option State
  | s, [] => some s
  | s, a :: as => match step P s a with
    | some s' => run P s' as
    | none => none

/-- start: an empty bucket, `k` store gateways that have just synced -/
def init (k : Nat) : State :=
  { now := 0, blocks := [], gws := List.replicate k { loaded := [], lastSync := 0, known := [] }, nextId := 1 }

/-- gateway `g` serves sample `x`: one of its loaded blocks holds it and is still in the bucket -/
def serves (s : State) (g : Gw) (x : Nat) : Bool :=
  s.blocks.any (fun b => (g.loaded.contains b.id || g.stale.contains b.id) && b.sources.contains x)

/-- NOT a step of the model — the order a careless gateway could use: drop what left the view before
    the new blocks are loaded (state in the middle of such a sync) -/
def dropOutdatedFirst (P : Params) (s : State) (g : Nat) : State :=
  match s.gws[g]? with
  | some gw =>
    let view := (filterChain P.levelTie P.ignoreDelay s.now s.blocks).map (·.id)
    { s with gws := s.gws.set g { gw with loaded := gw.loaded.filter (fun i => view.contains i) } }
  | none => s

/-- NOT a step of the model — a sync in which the blocks `failed` of the view could not be loaded
    (index-header download failed, …) and the outdated blocks were dropped all the same -/
def syncWithFailedLoads (P : Params) (s : State) (g : Nat) (failed : List Nat) : State :=
  match s.gws[g]? with
  | some gw =>
    let view := (filterChain P.levelTie P.ignoreDelay s.now s.blocks).map (·.id)
    let gw' : Gw := { loaded := view.filter (fun i => gw.loaded.contains i || !failed.contains i),
                      lastSync := s.now, known := allSources s.blocks, stale := gw.stale }
    { s with gws := s.gws.set g gw' }
  | none => s

end Thanos.CompactProto
