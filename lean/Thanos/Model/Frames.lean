/-
  C08 — pkg/store/tsdb.go : TSDBStore.Series, splitting one series over frames of at most
  `maxBytesPerFrame` bytes ("we are fine with minor inaccuracy … max of full chunk size").

  A chunk is `(id, size)` with `size = AggrChunk.Size()` (protobuf arithmetic is third-party: sizes are
  inputs).  `budget = maxBytesPerFrame − Σ label sizes` may be zero or negative.
-/
namespace Thanos.Frames

abbrev Chunk := Nat × Int

/-- the `for isNext { … }` loop: remaining chunks, `frameBytesLeft`, `seriesChunks` -/
def splitLoop (budget : Int) : List Chunk → Int → List Chunk → List (List Chunk)
  | [], _, _ => []
  | c :: rest, left, acc =>
    let left' := left - c.2
    let acc' := acc ++ [c]
    if left' > 0 ∧ !rest.isEmpty then splitLoop budget rest left' acc'
    else acc' :: splitLoop budget rest budget []

/-- `bytesLeftForChunks` -/
def budgetOf (maxBytes : Int) (labelSizes : List Int) : Int := maxBytes - labelSizes.foldl (· + ·) 0

/-- frames sent for one series -/
def splitFrames (maxBytes : Int) (labelSizes : List Int) (chunks : List Chunk) : List (List Chunk) :=
  splitLoop (budgetOf maxBytes labelSizes) chunks (budgetOf maxBytes labelSizes) []

def size (f : List Chunk) : Int := (f.map (·.2)).foldl (· + ·) 0

end Thanos.Frames
