/-
  C43 — pkg/queryfrontend/cache.go : thanosCacheKeyGenerator.GenerateCacheKey,
        generateQueryRangeCacheKey, generateShardInfoKey, writeCacheKey*;
        internal/cortex/tenant/resolver.go : SingleResolver.TenantID / containsUnsafePathSegments;
        pkg/queryfrontend/roundtrip.go : shouldCache.

  Strings are `List Char`.  `strconv.AppendInt(·, 10)` is `showInt` (`Nat.toDigits 10`),
  `sort.Strings` is an insertion sort by code point (the same order as Go's byte order on valid
  UTF-8).  The text `fmt.Sprintf("%s", [][]*labels.Matcher)` of the labels/series keys is an
  input (`matchers`) computed by the Go side.

  PURITY ASSUMPTION.  The model makes the key a pure function of (tenant, request): `rangeKey`,
  `labelsKey`, `seriesKey` take nothing else.  For the Go code this means that `GenerateCacheKey`
  keeps no state between or across calls: the ONE generator value of a frontend is shared by all
  in-flight requests, so no field of `thanosCacheKeyGenerator` may be written, sliced, appended
  to or handed out as scratch space (a value receiver copies slice headers only, the backing
  array stays shared), and the pooled buffer is owned by one call between `Get` and `Put` with the
  key copied out by `String()` before it goes back.  Tied by the regenerated obligation
  `C43_fact_generator_pure` (Props/C43.lean) and exercised by the concurrent stream `o.key.conc`
  of the harness (one shared generator, several goroutines, oracle: every key equals the key
  computed sequentially).
-/
namespace Thanos.CacheKey

abbrev Str := List Char

def showNat (n : Nat) : Str := Nat.toDigits 10 n

/-- strconv.AppendInt(_, v, 10) -/
def showInt : Int → Str
  | .ofNat n => showNat n
  | .negSucc n => '-' :: showNat (n + 1)

/-- strconv.AppendBool -/
def showBool : Bool → Str
  | true => ['t', 'r', 'u', 'e']
  | false => ['f', 'a', 'l', 's', 'e']

/-- `buf.WriteByte(':'); buf.Write(x)` -/
def col (a x : Str) : Str := a ++ ':' :: x

/-- lexicographic `≤` by code point -/
def leStr : Str → Str → Bool
  | [], _ => true
  | _ :: _, [] => false
  | a :: as, b :: bs => if a.toNat < b.toNat then true else if b.toNat < a.toNat then false else leStr as bs

def insertS (x : Str) : List Str → List Str
  | [] => [x]
  | y :: l => if leStr x y then x :: y :: l else y :: insertS x l

/-- sort.Strings -/
def sortS : List Str → List Str
  | [] => []
  | x :: l => insertS x (sortS l)

/-- writeCacheKeyReplicaLabels: comma separated -/
def joinComma : List Str → Str
  | [] => []
  | [x] => x
  | x :: y :: l => x ++ ',' :: joinComma (y :: l)

structure ShardInfo where
  total : Int
  index : Int
  by_ : Bool
  labels : List Str
  deriving DecidableEq, Repr

/-- a cacheable `ThanosQueryRangeRequest` (Dedup = true, no store matchers, caching not
    disabled) together with the tenant: the fields that can change the answer -/
structure RangeReq where
  tenant : Str
  query : Str
  start : Int
  step : Int
  splitMs : Int            -- SplitInterval.Milliseconds()
  msr : Int                -- MaxSourceResolution
  shard : Option ShardInfo
  lookback : Int
  engine : Str
  partialResp : Bool
  replicas : List Str
  analyze : Bool
  deriving DecidableEq, Repr

/-- the loop `for ; i < len(resolutions) && resolutions[i] > MaxSourceResolution; i++` over
    `[ResLevel2 = 1h, ResLevel1 = 5m, ResLevel0 = 0]` -/
def bucketOf (msr : Int) : Nat :=
  if 3600000 > msr then (if 300000 > msr then (if 0 > msr then 3 else 2) else 1) else 0

/-- generateShardInfoKey -/
def shardKey : Option ShardInfo → Str
  | none => ['-']
  | some s => showInt s.total ++ ':' :: showInt s.index

/-- generateQueryRangeCacheKey(userID, tr, step, splitInterval, currentInterval) -/
def rangeKeyWith (r : RangeReq) (step cur : Int) : Str :=
  let b : Str := ['f', 'e', ':'] ++ r.tenant
  let b := col b r.query
  let b := col b (showInt step)
  let b := col b (showInt r.splitMs)
  let b := col b (showInt cur)
  let b := col b (showNat (bucketOf r.msr))
  let b := col b (shardKey r.shard)
  let b := col b (showInt r.lookback)
  let b := col b r.engine
  let b := col b (showBool r.partialResp)
  let b := col b (joinComma (sortS r.replicas))
  col b (showBool r.analyze)

/-- GenerateCacheKey for a range request; `none` = integer division by zero (SplitInterval 0) -/
def rangeKey (r : RangeReq) : Option Str :=
  if r.splitMs = 0 then none else some (rangeKeyWith r r.step (r.start.tdiv r.splitMs))

/-- a cacheable `ThanosLabelsRequest` -/
structure LabelsReq where
  tenant : Str
  label : Str
  matchers : Str           -- fmt.Sprintf("%s", tr.Matchers)
  start : Int
  splitMs : Int
  partialResp : Bool
  deriving DecidableEq, Repr

/-- fmt.Sprintf("fe:%s:%s:%s:%d:%d", userID, tr.Label, tr.Matchers, splitInterval, currentInterval) -/
def labelsKey (r : LabelsReq) : Option Str :=
  if r.splitMs = 0 then none else
  some (col (col (col (col (['f', 'e', ':'] ++ r.tenant) r.label) r.matchers) (showInt r.splitMs))
    (showInt (r.start.tdiv r.splitMs)))

/-- a cacheable `ThanosSeriesRequest` (Dedup = true) -/
structure SeriesReq where
  tenant : Str
  matchers : Str
  start : Int
  splitMs : Int
  partialResp : Bool
  replicas : List Str
  deriving DecidableEq, Repr

/-- the series key.  `full = true` (the repository now):
    fmt.Sprintf("fe:%s:%s:%d:%d:%t:%s", userID, tr.Matchers, splitInterval, currentInterval,
                tr.PartialResponse, strings.Join(sortedReplicaLabels, ","));
    `full = false` (as found): fmt.Sprintf("fe:%s:%s:%d:%d", userID, tr.Matchers, splitInterval, currentInterval) -/
def seriesKeyWith (full : Bool) (r : SeriesReq) : Option Str :=
  if r.splitMs = 0 then none else
  let k := col (col (col (['f', 'e', ':'] ++ r.tenant) r.matchers) (showInt r.splitMs))
    (showInt (r.start.tdiv r.splitMs))
  some (if full then col (col k (showBool r.partialResp)) (joinComma (sortS r.replicas)) else k)

def seriesKey (r : SeriesReq) : Option Str := seriesKeyWith true r

/-- containsUnsafePathSegments + SingleResolver.TenantID: which tenant ids the frontend accepts -/
def tenantAccepted (t : Str) : Bool :=
  !(t = ['.'] || t = ['.', '.'] || t.contains '\\' || t.contains '/')

/-- `shouldCache`: no store matchers, deduplication not switched off (`dedup = none` for request
    types without the flag: labels requests), caching not disabled by `Cache-Control: no-store` -/
def shouldCache (dedup : Option Bool) (storeMatchers : Nat) (disabled : Bool) : Bool :=
  if storeMatchers > 0 then false
  else if dedup = some false then false
  else !disabled

end Thanos.CacheKey
