/-
  C43 — pkg/queryfrontend/cache.go : thanosCacheKeyGenerator.GenerateCacheKey,
        generateQueryRangeCacheKey, generateShardInfoKey, writeCacheKey*;
        internal/cortex/tenant/resolver.go : SingleResolver.TenantID / containsUnsafePathSegments;
        pkg/queryfrontend/roundtrip.go : shouldCache.

  Strings are `List Char`.  `strconv.AppendInt(·, 10)` is `showInt` (`Nat.toDigits 10`),
  `sort.Strings` is an insertion sort by code point (the same order as Go's byte order on valid
  UTF-8).  The text `fmt.Sprintf("%s", [][]*labels.Matcher)` of the labels/series keys is an
  input (`matchers`) computed by the Go side.

  PURITY ASSUMPTION.  The model makes the key a pure function of (tenant, request): `rangeKey`,
  `labelsKey`, `seriesKey` take nothing else.  For the Go code this means that `GenerateCacheKey`
  keeps no state between or across calls: the ONE generator value of a frontend is shared by all
  in-flight requests, so no field of `thanosCacheKeyGenerator` may be written, sliced, appended
  to or handed out as scratch space (a value receiver copies slice headers only, the backing
  array stays shared), and the pooled buffer is owned by one call between `Get` and `Put` with the
  key copied out by `String()` before it goes back.  Tied by the regenerated obligation
  `C43_fact_generator_pure` (Props/C43.lean) and exercised by the concurrent stream `o.key.conc`
  of the harness (one shared generator, several goroutines, oracle: every key equals the key
  computed sequentially).
-/
namespace Thanos.CacheKey

abbrev Str := List Char

def showNat (n : Nat) : Str := Nat.toDigits 10 n

/-- strconv.AppendInt(_, v, 10) -/
def showInt : Int → Str
  | .ofNat n => showNat n
  | .negSucc n => '-' :: showNat (n + 1)

/-- strconv.AppendBool -/
def showBool : Bool → Str
  | true => ['t', 'r', 'u', 'e']
  | false => ['f', 'a', 'l', 's', 'e']

/-- `buf.WriteByte(':'); buf.Write(x)` -/
def col (a x : Str) : Str := a ++ ':' :: x

/-- lexicographic `≤` by code point -/
def leStr : Str → Str → Bool
  | [], _ => true
  | _ :: _, [] => false
  | a :: as, b :: bs => if a.toNat < b.toNat then true else if b.toNat < a.toNat then false else leStr as bs

def insertS (x : Str) : List Str → List Str
  | [] => [x]
  | y :: l => if leStr x y then x :: y :: l else y :: insertS x l

/-- sort.Strings -/
def sortS : List Str → List Str
  | [] => []
  | x :: l => insertS x (sortS l)

/-- writeCacheKeyReplicaLabels: comma separated -/
def joinComma : List Str → Str
  | [] => []
  | [x] => x
  | x :: y :: l => x ++ ',' :: joinComma (y :: l)

structure ShardInfo where
  total : Int
  index : Int
  by_ : Bool
  labels : List Str
  deriving DecidableEq, Repr

/-- a cacheable `ThanosQueryRangeRequest` (Dedup = true, no store matchers, caching not
    disabled) together with the tenant: the fields that can change the answer -/
structure RangeReq where
  tenant : Str
  query : Str
  start : Int
  step : Int
  splitMs : Int            -- SplitInterval.Milliseconds()
  msr : Int                -- MaxSourceResolution
  shard : Option ShardInfo
  lookback : Int
  engine : Str
  partialResp : Bool
  replicas : List Str
  analyze : Bool
  deriving DecidableEq, Repr

/-- the loop `for ; i < len(resolutions) && resolutions[i] > MaxSourceResolution; i++` over
    `[ResLevel2 = 1h, ResLevel1 = 5m, ResLevel0 = 0]` -/
def bucketOf (msr : Int) : Nat :=
  if 3600000 > msr then (if 300000 > msr then (if 0 > msr then 3 else 2) else 1) else 0

/-- generateShardInfoKey -/
def shardKey : Option ShardInfo → Str
  | none => ['-']
  | some s => showInt s.total ++ ':' :: showInt s.index

/-- generateQueryRangeCacheKey(userID, tr, step, splitInterval, currentInterval) -/
def rangeKeyWith (r : RangeReq) (step cur : Int) : Str :=
  let b : Str := ['f', 'e', ':'] ++ r.tenant
  let b := col b r.query
  let b := col b (showInt step)
  let b := col b (showInt r.splitMs)
  let b := col b (showInt cur)
  let b := col b (showNat (bucketOf r.msr))
  let b := col b (shardKey r.shard)
  let b := col b (showInt r.lookback)
  let b := col b r.engine
  let b := col b (showBool r.partialResp)
  let b := col b (joinComma (sortS r.replicas))
  col b (showBool r.analyze)

/-- GenerateCacheKey for a range request; `none` = integer division by zero (SplitInterval 0) -/
def rangeKey (r : RangeReq) : Option Str :=
  if r.splitMs = 0 then none else some (rangeKeyWith r r.step (r.start.tdiv r.splitMs))

/-- a cacheable `ThanosLabelsRequest` -/
structure LabelsReq where
  tenant : Str
  label : Str
  matchers : Str           -- fmt.Sprintf("%s", tr.Matchers)
  start : Int
  splitMs : Int
  partialResp : Bool
  deriving DecidableEq, Repr

/-- fmt.Sprintf("fe:%s:%s:%s:%d:%d", userID, tr.Label, tr.Matchers, splitInterval, currentInterval) -/
def labelsKey (r : LabelsReq) : Option Str :=
  if r.splitMs = 0 then none else
  some (col (col (col (col (['f', 'e', ':'] ++ r.tenant) r.label) r.matchers) (showInt r.splitMs))
    (showInt (r.start.tdiv r.splitMs)))

/-- a cacheable `ThanosSeriesRequest` (Dedup = true) -/
structure SeriesReq where
  tenant : Str
  matchers : Str
  start : Int
  splitMs : Int
  partialResp : Bool
  replicas : List Str
  deriving DecidableEq, Repr

/-- the series key.  `full = true` (the repository now):
    fmt.Sprintf("fe:%s:%s:%d:%d:%t:%s", userID, tr.Matchers, splitInterval, currentInterval,
                tr.PartialResponse, strings.Join(sortedReplicaLabels, ","));
    `full = false` (as found): fmt.Sprintf("fe:%s:%s:%d:%d", userID, tr.Matchers, splitInterval, currentInterval) -/
def seriesKeyWith (full : Bool) (r : SeriesReq) : Option Str :=
  if r.splitMs = 0 then none else
  let k := col (col (col (['f', 'e', ':'] ++ r.tenant) r.matchers) (showInt r.splitMs))
    (showInt (r.start.tdiv r.splitMs))
  some (if full then col (col k (showBool r.partialResp)) (joinComma (sortS r.replicas)) else k)

def seriesKey (r : SeriesReq) : Option Str := seriesKeyWith true r

/-! ### the matcher text

  `matchers` above is `fmt.Sprintf("%s", [][]*labels.Matcher)`: `[[m m …] [m …] …]`, one matcher
  rendered by `(*labels.Matcher).String()` as `name op "value"` with `strconv.Quote` for the value
  (and for a name that is not a legacy identifier).  The key theorems give "equal keys ⇒ equal
  matcher TEXT"; that the text determines the matcher SETS is a hypothesis about the rendering
  (the quoted value is a prefix code: a `"` or `\` inside a value is escaped).  It is stated as
  `Rendered text sets` := the decoder `unrender` reads the sets back from the text, and it is
  checked for every generated request against the real rendering (the driver answers
  `render-mismatch` when it fails). -/

/-- a matcher as the request carries it; `op`: 0 `=`, 1 `!=`, 2 `=~`, 3 `!~` -/
structure Matcher where
  name : Str
  op : Nat
  value : Str
  deriving DecidableEq, Repr

def hexVal (c : Char) : Option Nat :=
  if '0' ≤ c ∧ c ≤ '9' then some (c.toNat - '0'.toNat)
  else if 'a' ≤ c ∧ c ≤ 'f' then some (c.toNat - 'a'.toNat + 10)
  else if 'A' ≤ c ∧ c ≤ 'F' then some (c.toNat - 'A'.toNat + 10)
  else none

/-- exactly `n` hex digits -/
def takeHex : Nat → Nat → Str → Option (Nat × Str)
  | 0, acc, s => some (acc, s)
  | _ + 1, _, [] => none
  | n + 1, acc, c :: s => match hexVal c with
    | some v => takeHex n (acc * 16 + v) s
    | none => none

/-- the inverse of `strconv.Quote` after the opening quote: content up to the closing quote, and
    what follows it (escapes `\a \b \f \n \r \t \v \\ \" \xHH \uHHHH \UHHHHHHHH`, anything else verbatim) -/
def unquoteBody : Nat → Str → Str → Option (Str × Str)
  | 0, _, _ => none
  | _ + 1, _, [] => none
  | fuel + 1, acc, c :: s =>
    if c = '"' then some (acc.reverse, s)
    else if c = '\\' then
      match s with
      | [] => none
      | e :: s' =>
        if e = 'a' then unquoteBody fuel (Char.ofNat 7 :: acc) s'
        else if e = 'b' then unquoteBody fuel (Char.ofNat 8 :: acc) s'
        else if e = 'f' then unquoteBody fuel (Char.ofNat 12 :: acc) s'
        else if e = 'n' then unquoteBody fuel ('\n' :: acc) s'
        else if e = 'r' then unquoteBody fuel ('\r' :: acc) s'
        else if e = 't' then unquoteBody fuel ('\t' :: acc) s'
        else if e = 'v' then unquoteBody fuel (Char.ofNat 11 :: acc) s'
        else if e = '\\' then unquoteBody fuel ('\\' :: acc) s'
        else if e = '"' then unquoteBody fuel ('"' :: acc) s'
        else
          let n := if e = 'x' then 2 else if e = 'u' then 4 else if e = 'U' then 8 else 0
          if n = 0 then none else
          match takeHex n 0 s' with
          | some (v, s'') => unquoteBody fuel (Char.ofNat v :: acc) s''
          | none => none
    else unquoteBody fuel (c :: acc) s

def isIdentChar (c : Char) : Bool :=
  ('a' ≤ c ∧ c ≤ 'z') || ('A' ≤ c ∧ c ≤ 'Z') || ('0' ≤ c ∧ c ≤ '9') || c = '_'

/-- one matcher `name op "value"` and what follows it -/
def unrenderMatcher (s : Str) : Option (Matcher × Str) := do
  let (name, s) ← match s with
    | '"' :: r => unquoteBody (r.length + 1) [] r
    | _ => some (s.span isIdentChar)
  let (op, s) ← match s with
    | '=' :: '~' :: r => some (2, r)
    | '=' :: r => some (0, r)
    | '!' :: '=' :: r => some (1, r)
    | '!' :: '~' :: r => some (3, r)
    | _ => none
  match s with
  | '"' :: r =>
    let (value, s) ← unquoteBody (r.length + 1) [] r
    pure (⟨name, op, value⟩, s)
  | _ => none

/-- the matchers of one selector after `[`, up to and including `]` -/
def unrenderSet : Nat → Str → Option (List Matcher × Str)
  | 0, _ => none
  | _ + 1, ']' :: r => some ([], r)
  | fuel + 1, s =>
    match unrenderMatcher s with
    | some (m, ' ' :: r) => (unrenderSet fuel r).bind fun (ms, r') => if ms.isEmpty then none else some (m :: ms, r')
    | some (m, ']' :: r) => some ([m], r)
    | _ => none

/-- the selectors after the outer `[`, up to and including the outer `]` -/
def unrenderSets : Nat → Str → Option (List (List Matcher) × Str)
  | 0, _ => none
  | _ + 1, ']' :: r => some ([], r)
  | fuel + 1, '[' :: s =>
    match unrenderSet (s.length + 1) s with
    | some (ms, ' ' :: r) => (unrenderSets fuel r).bind fun (l, r') => if l.isEmpty then none else some (ms :: l, r')
    | some (ms, ']' :: r) => some ([ms], r)
    | _ => none
  | _ + 1, _ => none

/-- the decoder of the matcher text -/
def unrender (text : Str) : Option (List (List Matcher)) :=
  match text with
  | '[' :: s =>
    match unrenderSets (s.length + 1) s with
    | some (l, []) => some l
    | _ => none
  | _ => none

/-- the hypothesis about the rendering, per request: the text reads back as the matcher sets -/
def Rendered (text : Str) (sets : List (List Matcher)) : Prop := unrender text = some sets

instance (text : Str) (sets : List (List Matcher)) : Decidable (Rendered text sets) := by
  unfold Rendered; infer_instance

def opText : Nat → Str
  | 0 => ['=']
  | 1 => ['!', '=']
  | 2 => ['=', '~']
  | _ => ['!', '~']

def joinSp : List Str → Str
  | [] => []
  | [x] => x
  | x :: y :: l => x ++ ' ' :: joinSp (y :: l)

/-- `[[m m] [m]]` with the given way of writing a value between quotes (names written verbatim) -/
def renderWith (q : Str → Str) (sets : List (List Matcher)) : Str :=
  let rm := fun (m : Matcher) => m.name ++ opText m.op ++ '"' :: q m.value ++ ['"']
  let rs := fun (ms : List Matcher) => '[' :: joinSp (ms.map rm) ++ [']']
  '[' :: joinSp (sets.map rs) ++ [']']

/-- escaping `"` and `\` only (what `strconv.Quote` does to printable ASCII) -/
def quoteMin : Str → Str
  | [] => []
  | c :: s => if c = '"' ∨ c = '\\' then '\\' :: c :: quoteMin s else c :: quoteMin s

/-- containsUnsafePathSegments + SingleResolver.TenantID: which tenant ids the frontend accepts -/
def tenantAccepted (t : Str) : Bool :=
  !(t = ['.'] || t = ['.', '.'] || t.contains '\\' || t.contains '/')

/-- `shouldCache`: no store matchers, deduplication not switched off (`dedup = none` for request
    types without the flag: labels requests), caching not disabled by `Cache-Control: no-store` -/
def shouldCache (dedup : Option Bool) (storeMatchers : Nat) (disabled : Bool) : Bool :=
  if storeMatchers > 0 then false
  else if dedup = some false then false
  else !disabled

end Thanos.CacheKey
