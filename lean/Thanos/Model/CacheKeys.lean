/-
  C13 — cache keys.
    pkg/store/cache/cache.go          CacheKey.String (P: / EP: / S:), LabelMatchersToString
    pkg/store/cache/matchers_cache.go cacheKey (matchers conversion cache)
    prometheus model/labels           Matcher.String, shouldQuoteName, MatchType.String
  A Go string is a byte sequence: `Str = List Nat` (bytes as naturals, as in Model/Uvarint).
  Third-party functions are parameters: `hash` = base64url(blake2b-256(·)), `quote` = strconv.Quote.
-/
namespace Thanos.CacheKeys

abbrev Str := List Nat

def cColon : Nat := 58      -- ':'
def cSemi : Nat := 59       -- ';'
def cEq : Nat := 61         -- '='
def cBang : Nat := 33       -- '!'
def cTilde : Nat := 126     -- '~'
def cQuote : Nat := 34      -- '"'

/-- strconv.FormatUint(n, 10) / strconv.Itoa for n ≥ 0; fuel as in `uvarintF` -/
def decimalF : Nat → Nat → Str
  | 0, n => [48 + n % 10]
  | f + 1, n => if n < 10 then [48 + n] else decimalF f (n / 10) ++ [48 + n % 10]

def decimal (n : Nat) : Str := decimalF n n

/-- labels.MatchType -/
inductive MatchType where
  | eq | neq | re | nre
  deriving DecidableEq, Repr

/-- MatchType.String -/
def MatchType.str : MatchType → Str
  | .eq => [cEq]
  | .neq => [cBang, cEq]
  | .re => [cEq, cTilde]
  | .nre => [cBang, cTilde]

structure Matcher where
  type : MatchType
  name : Str
  value : Str
  deriving DecidableEq, Repr

/-- the characters `shouldQuoteName` lets through: `_`, letters, and digits except in first position.
    (The Go loop ranges over runes; every byte of a multi-byte rune and every invalid byte is ≥ 0x80
    and therefore not let through, so the byte-wise test is the same predicate.) -/
def legacyChar (first : Bool) (c : Nat) : Bool :=
  c = 95 || (97 ≤ c && c ≤ 122) || (65 ≤ c && c ≤ 90) || (!first && 48 ≤ c && c ≤ 57)

/-- all bytes after the first position are legacy characters -/
def legacyTail : Str → Bool
  | [] => true
  | c :: cs => legacyChar false c && legacyTail cs

/-- Matcher.shouldQuoteName -/
def shouldQuoteName : Str → Bool
  | [] => true
  | c :: cs => !(legacyChar true c && legacyTail cs)

/-- Matcher.String -/
def matcherString (quote : Str → Str) (m : Matcher) : Str :=
  (if shouldQuoteName m.name then quote m.name else m.name) ++ m.type.str ++ quote m.value

/-- LabelMatchersToString: matchers joined by ';' (no trailing separator) -/
def labelMatchersToString (quote : Str → Str) : List Matcher → Str
  | [] => []
  | [m] => matcherString quote m
  | m :: ms => matcherString quote m ++ cSemi :: labelMatchersToString quote ms

/-- what a cache entry is about -/
inductive Item where
  | postings (name value : Str)          -- CacheKeyPostings(labels.Label)
  | expanded (ms : List Matcher)         -- CacheKeyExpandedPostings(LabelMatchersToString(ms))
  | series (id : Nat)                    -- CacheKeySeries
  deriving DecidableEq, Repr

structure CacheKey where
  block : Str
  item : Item
  compression : Str
  deriving DecidableEq, Repr

def compSuffix (c : Str) : Str := if c = [] then [] else cColon :: c

/-- CacheKey.String.  "P:" = [80,58], "EP:" = [69,80,58], "S:" = [83,58].
    (Series keys ignore the compression field.) -/
def keyString (hash quote : Str → Str) (k : CacheKey) : Str :=
  match k.item with
  | .postings n v =>
    [80, cColon] ++ k.block ++ cColon :: hash (n ++ cColon :: v) ++ compSuffix k.compression
  | .expanded ms =>
    [69, 80, cColon] ++ k.block ++ cColon :: hash (labelMatchersToString quote ms) ++ compSuffix k.compression
  | .series id =>
    [83, cColon] ++ k.block ++ cColon :: decimal id

/-- matchers_cache.go cacheKey as it was before the repair: name ++ type ++ value -/
def matcherKeyOld (m : Matcher) : Str := m.name ++ m.type.str ++ m.value

/-- matchers_cache.go cacheKey (repaired): the length of the name, ':', the name, the operator,
    ':' and the value -/
def matcherKey (m : Matcher) : Str :=
  decimal m.name.length ++ cColon :: m.name ++ m.type.str ++ cColon :: m.value

/-! ### LruMatchersCache.GetOrSet: two keys decide whose result a caller gets

  `GetOrSet(m, newItem)` runs `c.sf.Do(sfKey m, f)` where `f` looks `lruKey m` up in the LRU cache and,
  on a miss, converts `m` and adds the result under `lruKey m`.  singleflight hands the result of
  the call that is in flight for the same `sfKey` to every caller that arrives meanwhile.  So a
  caller `m` is answered with the result computed for some caller `l` (the leader of the flight,
  possibly `m` itself) with `sfKey l = sfKey m`; which one depends on the schedule.  The converted
  matcher of `m` is represented by `m` itself. -/

/-- the LRU cache: key ↦ converted matcher; evictions remove entries, nothing else does -/
abbrev MCache := List (Str × Matcher)

/-- what the function passed to singleflight computes for the leader `l`: answer and new cache -/
def leaderResult (lruKey : Matcher → Str) (cache : MCache) (l : Matcher) : Matcher × MCache :=
  match cache.lookup (lruKey l) with
  | some x => (x, cache)
  | none => (l, (lruKey l, l) :: cache)

/-- one flight: the leader `l` computes, every caller of `followers` (all with the leader's
    singleflight key) receives the leader's result.  Returns (request, answer) pairs. -/
def flight (lruKey : Matcher → Str) (cache : MCache) (l : Matcher) (followers : List Matcher) :
    List (Matcher × Matcher) × MCache :=
  let r := leaderResult lruKey cache l
  ((l :: followers).map fun m => (m, r.1), r.2)

/-- a history: flights one after the other (flights for different singleflight keys that overlap
    in time commute: each only reads and adds its own LRU key), with evictions in between -/
inductive MEvent where
  | flight (l : Matcher) (followers : List Matcher)
  | evict (k : Str)

def runFlights (lruKey : Matcher → Str) : MCache → List MEvent → List (Matcher × Matcher)
  | _, [] => []
  | c, .flight l fs :: es => let r := flight lruKey c l fs; r.1 ++ runFlights lruKey r.2 es
  | c, .evict k :: es => runFlights lruKey (c.filter fun e => e.1 != k) es

/-- the events are possible under `sfKey`: followers share the leader's singleflight key -/
def FlightsOK (sfKey : Matcher → Str) : List MEvent → Prop
  | [] => True
  | .flight l fs :: es => (∀ m ∈ fs, sfKey m = sfKey l) ∧ FlightsOK sfKey es
  | .evict _ :: es => FlightsOK sfKey es

end Thanos.CacheKeys
