/-
  pkg/receive/hashring.go — ketama ring construction (`newKetamaHashring`,
  `calculateSectionReplicas`), `ketamaHashring.GetN`, `simpleHashring.GetN` (hashmod).
  Properties C18, C19, C20 (and the sub-rings of C21).

  Conventions
  * Hash values (xxhash of "addr:i", `labelpb.HashWithPrefix`) are INPUTS: an endpoint is its
    availability zone and the list of hashes of its sections; a series is its hash `v`.
  * Availability zones are natural numbers (only equality of zone names is ever used).
  * `Sec.ep` is the endpoint index (position in the endpoint list given to `newKetamaHashring`).
  * The cyclic cursor `j = (j + 1) % len(ringSections)` is a suffix of the ring (`rest`); an
    exhausted suffix wraps to the whole ring.  `rest = ring.drop i` is section `i`'s start.
  * The loop `for len(replicas) < rf` has no bound in Go, so the model takes fuel;
    `Res.fuelOut` means "still spinning when the fuel ran out".
-/
namespace Thanos.Hashring

structure Sec where
  hash : Nat
  ep : Nat
  az : Nat
  deriving DecidableEq, Repr

/-- `azSpread[z]`: how many of the chosen replicas live in zone `z` -/
def cnt (z : Nat) (chosen : List Sec) : Nat := chosen.countP (fun s => s.az == z)

/-- `sizeOfLeastOccupiedAZ(azSpread)` (the map has one entry per configured zone) -/
def least (chosen : List Sec) : List Nat → Nat
  | [] => 2 ^ 63 - 1
  | z :: zs => min (cnt z chosen) (least chosen zs)

/-- `_, ok := replicas[rep.endpointIndex]` -/
def taken (chosen : List Sec) (e : Nat) : Bool := chosen.any (fun s => s.ep == e)

/-- `len(azSpread) > 1 && azSpread[rep.az] > 0 && azSpread[rep.az] > sizeOfLeastOccupiedAZ(azSpread)` -/
def skipAZ (zones : List Nat) (chosen : List Sec) (rep : Sec) : Bool :=
  decide (zones.length > 1) && decide (cnt rep.az chosen > 0) &&
    decide (cnt rep.az chosen > least chosen zones)

inductive Res where
  | ok (reps : List Nat)
  | stuck      -- repaired code only: a full lap without progress, reported as a configuration error
  | fuelOut    -- the Go loop is still running when the model's fuel is used up
  | oob        -- index out of range / modulo zero (empty ring): a Go panic
  deriving DecidableEq, Repr

/-- the section under the cursor and the cursor after `j = (j + 1) % len(ringSections)` -/
def cursor (ring rest : List Sec) : Option (Sec × List Sec) :=
  match rest with
  | rep :: r => some (rep, r)
  | [] =>
    match ring with
    | rep :: r => some (rep, r)
    | [] => none

/-- The inner loop of `calculateSectionReplicas` for one section.
    `lapCheck = false`: the loop as it was (F19: may spin forever);
    `lapCheck = true`: the repaired loop, which gives up after `n = len(ringSections)`
    consecutive skipped sections.  `skipped` counts the consecutive skips. -/
def loop (lapCheck : Bool) (ring : List Sec) (n : Nat) (zones : List Nat) (rf : Nat) :
    Nat → List Sec → Nat → List Sec → Res
  | 0, _, _, _ => .fuelOut
  | fuel + 1, rest, skipped, chosen =>
    if rf ≤ chosen.length then .ok (chosen.map (·.ep))
    else if lapCheck && skipped == n then .stuck
    else
      match cursor ring rest with
      | none => .oob
      | some (rep, rest') =>
        if taken chosen rep.ep then loop lapCheck ring n zones rf fuel rest' (skipped + 1) chosen
        else if skipAZ zones chosen rep then loop lapCheck ring n zones rf fuel rest' (skipped + 1) chosen
        else loop lapCheck ring n zones rf fuel rest' 0 (chosen ++ [rep])

/-- enough fuel for the repaired loop, whatever the ring (theorem `C19_terminates`) -/
def fuelBound (n rf : Nat) : Nat := (rf + 1) * (n + 1) + 1

/-- replicas of the section at which the suffix `start` begins -/
def replicasFor (lapCheck : Bool) (ring : List Sec) (zones : List Nat) (rf : Nat) (start : List Sec) : Res :=
  loop lapCheck ring ring.length zones rf (fuelBound ring.length rf) start 0 []

inductive Build where
  | ring (secs : List (Sec × List Nat))   -- sections in ring order, each with its replicas
  | tooFew                                 -- "amount of endpoints needs to be larger than replication factor"
  | stuck                                  -- repaired code: zones cannot be balanced
  | hang                                   -- unrepaired code: never returns
  | panic
  deriving DecidableEq, Repr

/-- `calculateSectionReplicas`: one section after the other, first failure wins -/
def table (lapCheck : Bool) (ring : List Sec) (zones : List Nat) (rf : Nat) : List Sec → Build
  | [] => .ring []
  | s :: rest =>
    match replicasFor lapCheck ring zones rf (s :: rest) with
    | .ok r =>
      match table lapCheck ring zones rf rest with
      | .ring t => .ring ((s, r) :: t)
      | e => e
    | .stuck => .stuck
    | .fuelOut => .hang
    | .oob => .panic

structure Ep where
  az : Nat
  hashes : List Nat
  deriving DecidableEq, Repr

/-- the sections of the endpoints, endpoint `i` gets index `i` -/
def sectionsFrom : Nat → List Ep → List Sec
  | _, [] => []
  | i, e :: es => e.hashes.map (fun h => { hash := h, ep := i, az := e.az }) ++ sectionsFrom (i + 1) es

def hashLe (a b : Sec) : Bool := decide (a.hash ≤ b.hash)

/-- `sort.Sort(ringSections)` (by hash; the result is unique when no two hashes are equal) -/
def mkRing (eps : List Ep) : List Sec := (sectionsFrom 0 eps).mergeSort hashLe

/-- the distinct elements of a list (structural, so that `decide` can run it) -/
def dedup : List Nat → List Nat
  | [] => []
  | a :: as => if as.contains a then dedup as else a :: dedup as

/-- the keys of the `availabilityZones` map (the order is irrelevant: only their number and the
    minimum over them are used) -/
def zonesOf (eps : List Ep) : List Nat := dedup (eps.map (·.az))

/-- `newKetamaHashring(endpoints, sectionsPerNode, replicationFactor)` -/
def build (lapCheck : Bool) (eps : List Ep) (rf : Nat) : Build :=
  if eps.length < rf then .tooFew
  else
    let ring := mkRing eps
    table lapCheck ring (zonesOf eps) rf ring

/-- `sort.Search(len(sections), hash >= v)`, wrapped: first section whose hash is `≥ v`, else the first -/
def search (v : Nat) : List (Sec × List Nat) → Option (Sec × List Nat)
  | [] => none
  | x :: xs => if v ≤ x.1.hash then some x else search v xs

inductive Get where
  | node (ep : Nat)
  | insufficient       -- insufficientNodesError
  | panic              -- `replicas[n]` out of range (rf ≤ n < numEndpoints), or empty ring
  deriving DecidableEq, Repr

/-- `ketamaHashring.GetN` for a series with hash `v` -/
def getN (numEndpoints : Nat) (ring : List (Sec × List Nat)) (v n : Nat) : Get :=
  if numEndpoints ≤ n then .insufficient
  else
    let s := match search v ring with
      | some s => some s
      | none => ring.head?
    match s with
    | none => .panic
    | some s =>
      match s.2[n]? with
      | some e => .node e
      | none => .panic

/-- `simpleHashring.GetN`: `s[(hash+n) % len(s)]` on the endpoints sorted by address; the sum is a
    uint64 and wraps.  The answer is a position in the sorted endpoint list. -/
def simpleGetN (len v n : Nat) : Get :=
  if len ≤ n then .insufficient else .node (((v + n) % 2 ^ 64) % len)

/-- the smallest element (0 for the empty list) -/
def listMin : List Nat → Nat
  | [] => 0
  | [a] => a
  | a :: b :: l => min a (listMin (b :: l))

/-- Can `rf` replicas be placed zone-balanced on zones of the given sizes (numbers of distinct
    endpoints)?  With at most one zone the zone rule is off: `rf ≤ n`.  Otherwise the loop fills
    the zones evenly until the smallest zone (size `m`) is exhausted, after which every other
    zone can take one more replica: `rf ≤ Σ min(size, m+1)`.
    Theorem `C19_stuck_iff` (Props/C19.lean): exactly then the repaired loop answers replicas. -/
def canBalance (sizes : List Nat) (rf : Nat) : Bool :=
  if sizes.length ≤ 1 then decide (rf ≤ sizes.sum)
  else decide (rf ≤ (sizes.map fun s => min s (listMin sizes + 1)).sum)

/-- where `GetN` starts for a series with hash `v`: the suffix of the ring beginning at the first
    section whose hash is `≥ v`, the whole ring when there is none (`i == numSections → i = 0`) -/
def searchSuffix (v : Nat) (ring : List Sec) : List Sec :=
  match ring.dropWhile (fun s => decide (s.hash < v)) with
  | [] => ring
  | s :: l => s :: l

/-- all replicas of a series: the precomputed row of the section `GetN` finds -/
def replicasOfSeries (lapCheck : Bool) (ring : List Sec) (zones : List Nat) (rf v : Nat) : Res :=
  replicasFor lapCheck ring zones rf (searchSuffix v ring)

/-- Specification of the walk when the zone rule is off (at most one configured zone): scan a
    finite list of sections, keep the first `rf` sections with pairwise different endpoints. -/
def pick (rf : Nat) : List Sec → List Sec → List Sec
  | [], chosen => chosen
  | s :: l, chosen =>
    if rf ≤ chosen.length then chosen
    else if taken chosen s.ep then pick rf l chosen
    else pick rf l (chosen ++ [s])

/-- `strings.Compare(a.Address, b.Address) <= 0` on the bytes of the addresses -/
def lexLe : List Nat → List Nat → Bool
  | [], _ => true
  | _ :: _, [] => false
  | a :: as, b :: bs => if a < b then true else if b < a then false else lexLe as bs

/-- `newSimpleHashring`: the endpoints (their addresses, as byte strings) sorted by address -/
def simpleRing (addrs : List (List Nat)) : List (List Nat) := addrs.mergeSort lexLe

/-- the address `simpleHashring.GetN` answers with -/
def simpleGet (addrs : List (List Nat)) (v n : Nat) : Option (List Nat) :=
  match simpleGetN addrs.length v n with
  | .node i => (simpleRing addrs)[i]?
  | _ => none

/-- endpoint list in another order: `perm` lists, for every new position, the old position -/
def permute {α : Type} (xs : List α) (perm : List Nat) : List α := perm.filterMap (xs[·]?)

end Thanos.Hashring
