import Thanos.Model.CacheKeys
/-
  C14 — pkg/store/cache/cachekey/cachekey.go: BucketCacheKey.String
  (the keys under which the caching bucket stores subranges, contents, attributes, existence and
  listings).  Strings are byte lists as in Model/CacheKeys.
-/
namespace Thanos.CacheKeys

inductive Verb where
  | exists_ | content | iter | iterRecursive | attrs | subrange
  deriving Repr, DecidableEq

/-- the verb constants: "exists" "content" "iter" "iter-recursive" "attrs" "subrange" -/
def Verb.str : Verb → Str
  | .exists_ => [101, 120, 105, 115, 116, 115]
  | .content => [99, 111, 110, 116, 101, 110, 116]
  | .iter => [105, 116, 101, 114]
  | .iterRecursive => [105, 116, 101, 114, 45, 114, 101, 99, 117, 114, 115, 105, 118, 101]
  | .attrs => [97, 116, 116, 114, 115]
  | .subrange => [115, 117, 98, 114, 97, 110, 103, 101]

structure BucketKey where
  verb : Verb
  name : Str
  start : Nat
  stop : Nat
  hash : Str          -- ObjectStorageConfigHash
  deriving Repr, DecidableEq

/-- BucketCacheKey.String -/
def bucketKeyString (k : BucketKey) : Str :=
  if k.start = 0 ∧ k.stop = 0 then
    if k.verb = .iter ∨ k.verb = .iterRecursive then k.verb.str ++ cColon :: k.name ++ cColon :: k.hash
    else k.verb.str ++ cColon :: k.name
  else k.verb.str ++ cColon :: k.name ++ cColon :: decimal k.start ++ cColon :: decimal k.stop

end Thanos.CacheKeys
