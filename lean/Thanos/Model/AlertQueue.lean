/-
  C46 — pkg/alert/alert.go : Queue.Push / Queue.Pop (core Lean only).

  The queue's state is the slice `queue` and the one-slot channel `morec` (`token`).  `Push` runs
  under the mutex and is one atomic step; `Pop` is two steps: `take` (the channel receive, outside
  the mutex; blocks while there is no token) and `pop` (the body under the mutex).  `holding`
  counts the poppers between the two.  Relabelling is an arbitrary keep-predicate, already
  applied: a push carries the list of alerts that survive it (`kept`).

  Ghost state for the theorems: `hist` = every kept alert ever pushed, in push order; `out` = the
  concatenation of all popped batches, in the order the pop bodies ran.
-/
namespace Thanos.AlertQueue

structure Cfg where
  cap : Nat
  maxBatch : Nat
  deriving Repr, DecidableEq

structure State (α : Type) where
  queue : List α
  token : Bool
  holding : Nat
  hist : List α
  out : List α
  deriving Repr, DecidableEq

def init {α : Type} : State α := { queue := [], token := false, holding := 0, hist := [], out := [] }

/-- the two truncation rules of `Push` and the append -/
def pushQueue (cap : Nat) (queue kept : List α) : List α :=
  -- if d := len(alerts) - capacity; d > 0 { alerts = alerts[d:] }
  let alerts := if kept.length > cap then kept.drop (kept.length - cap) else kept
  -- if d := len(queue) + len(alerts) - capacity; d > 0 { queue = queue[d:] }
  let queue := if queue.length + alerts.length > cap then queue.drop (queue.length + alerts.length - cap) else queue
  queue ++ alerts

/-- `Push` after relabelling left `kept`: nothing happens for an empty list (no token either) -/
def push (c : Cfg) (s : State α) (kept : List α) : State α :=
  if kept.isEmpty then s else
  { s with queue := pushQueue c.cap s.queue kept, token := true, hist := s.hist ++ kept }

/-- the channel receive of `Pop`; `none` = it blocks -/
def take (s : State α) : Option (State α) :=
  if s.token then some { s with token := false, holding := s.holding + 1 } else none

/-- the body of `Pop` (for a popper that holds a token): the batch and the new state -/
def pop (c : Cfg) (s : State α) : Option (List α × State α) :=
  if s.holding = 0 then none else
  let batch := s.queue.take c.maxBatch
  let rest := s.queue.drop c.maxBatch
  some (batch, { s with queue := rest, holding := s.holding - 1, out := s.out ++ batch,
                        token := if rest.isEmpty then s.token else true })

/-- the states reachable by ANY interleaving of any number of pushers and poppers: pushes with
    whatever relabelling kept, channel receives when a token is there, pop bodies of poppers that
    received -/
inductive Reach (c : Cfg) : State α → Prop where
  | init : Reach c init
  | push {s : State α} (kept : List α) : Reach c s → Reach c (push c s kept)
  | take {s s' : State α} : Reach c s → take s = some s' → Reach c s'
  | pop {s s' : State α} {b : List α} : Reach c s → pop c s = some (b, s') → Reach c s'

end Thanos.AlertQueue
