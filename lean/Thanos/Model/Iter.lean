/-
  Sample iterators of pkg/dedup/iter.go (C01, C02; reused by C40 and C04).

  The Go code composes values of the interface `adjustableSeriesIterator`
  (`chunkenc.Iterator` + `adjustAtValue`).  The model does the same: an iterator is a state
  type `σ` together with a record `Ops σ` of its methods; `nodeOps oa ob` is
  `dedupSeriesIterator` over two arbitrary iterators, `ctrOps o` is
  `counterErrAdjustSeriesIterator` over an arbitrary iterator, `leafOps` is Prometheus'
  `listSeriesIterator` (the replica iterator of `storage.NewListSeries`).

  Conventions
  * a sample is `(t, v)` with `v : Int` (integer-valued float64 below 2^53, exact in Go);
    only float samples are modelled (`ValFloat` = `true`, `ValNone` = `false`);
  * a Go call that panics (`At` on an unpositioned list iterator) is `none` for `at/atT`; a
    method that would panic *inside* sets the sticky flag `bad` of its state (the driver prints
    `panic`); running out of loop fuel also sets `bad` (proved unreachable);
  * `minT` is `math.MinInt64`, used literally as the "nothing emitted yet" sentinel as in the code.
-/
namespace Thanos.Dedup

structure Sample where
  t : Int
  v : Int
deriving DecidableEq, Repr, Inhabited

/-- `math.MinInt64` -/
def minT : Int := -9223372036854775808

/-- `const initialPenalty = 5000` in `dedupSeriesIterator.Next` -/
def initialPenalty : Int := 5000

/-- the methods of `adjustableSeriesIterator` on a state type `σ` -/
structure Ops (σ : Type) where
  /-- `Next()`: new state, `true` = `ValFloat`, `false` = `ValNone` -/
  next : σ → σ × Bool
  /-- `Seek(t)` -/
  seek : Int → σ → σ × Bool
  /-- `At()`; `none` = the call panics -/
  atS : σ → Option Sample
  /-- `AtT()`; `none` = the call panics -/
  atT : σ → Option Int
  /-- `adjustAtValue(lastFloatValue)` -/
  adjust : Int → σ → σ
  /-- a method panicked (or the model ran out of loop fuel) -/
  bad : σ → Bool
  /-- an upper bound on the number of `Next` calls that can still return a sample -/
  fuel : σ → Nat

/-! ### listSeriesIterator (prometheus/storage/series.go) -/

/-- `rest` = `samples[max idx 0 :]`, `started` = `idx ≠ -1`.  `Seek`'s binary search is modelled
    as `dropWhile`, which is what it computes on time-sorted samples (assumption of the tie). -/
structure Leaf where
  rest : List Sample
  started : Bool
deriving DecidableEq, Repr

def Leaf.init (l : List Sample) : Leaf := { rest := l, started := false }

def Leaf.cur (l : Leaf) : Option Sample := if l.started then l.rest.head? else none

def leafNext (l : Leaf) : Leaf × Bool :=
  let r := if l.started then l.rest.tail else l.rest
  ({ rest := r, started := true }, !r.isEmpty)

def leafSeek (t : Int) (l : Leaf) : Leaf × Bool :=
  let r := l.rest.dropWhile (fun s => s.t < t)
  ({ rest := r, started := true }, !r.isEmpty)

/-- `noopAdjustableSeriesIterator{listSeriesIterator}` -/
def leafOps : Ops Leaf where
  next := leafNext
  seek := leafSeek
  atS := Leaf.cur
  atT := fun l => l.cur.map (·.t)
  adjust := fun _ l => l
  bad := fun _ => false
  fuel := fun l => l.rest.length

/-! ### counterErrAdjustSeriesIterator -/

structure Ctr (σ : Type) where
  inner : σ
  errAdjust : Int
  bad : Bool

def Ctr.init {σ : Type} (s : σ) : Ctr σ := { inner := s, errAdjust := 0, bad := false }

def ctrOps {σ : Type} (o : Ops σ) : Ops (Ctr σ) where
  next := fun s => ({ s with inner := (o.next s.inner).1 }, (o.next s.inner).2)
  seek := fun t s => ({ s with inner := (o.seek t s.inner).1 }, (o.seek t s.inner).2)
  atS := fun s => (o.atS s.inner).map fun x => { t := x.t, v := x.v + s.errAdjust }
  atT := fun s => o.atT s.inner
  adjust := fun last s =>
    match o.atS s.inner with
    | none => { s with bad := true }
    | some x =>
      if last > x.v + s.errAdjust then { s with errAdjust := s.errAdjust + (last - (x.v + s.errAdjust)) }
      else s
  bad := fun s => s.bad || o.bad s.inner
  fuel := fun s => o.fuel s.inner

/-! ### dedupSeriesIterator -/

structure Node (α β : Type) where
  a : α
  b : β
  aval : Bool
  bval : Bool
  lastT : Int
  /-- `lastIter == a` -/
  lastIsA : Bool
  penA : Int
  penB : Int
  useA : Bool
  bad : Bool

section node
variable {α β : Type} (oa : Ops α) (ob : Ops β)

/-- `newDedupSeriesIterator(a, b)` (calls `a.Next()` and `b.Next()`) -/
def nodeNew (a : α) (b : β) : Node α β :=
  { a := (oa.next a).1, b := (ob.next b).1, aval := (oa.next a).2, bval := (ob.next b).2,
    lastT := minT, lastIsA := true, penA := 0, penB := 0, useA := true, bad := false }

def nodeAt (s : Node α β) : Option Sample := if s.lastIsA then oa.atS s.a else ob.atS s.b

def nodeAtT (s : Node α β) : Option Int := if s.useA then oa.atT s.a else ob.atT s.b

/-- `dedupSeriesIterator.adjustAtValue` -/
def nodeAdjust (last : Int) (s : Node α β) : Node α β :=
  let s1 := if s.aval then { s with a := oa.adjust last s.a } else s
  if s1.bval then { s1 with b := ob.adjust last s1.b } else s1

/-- the deferred function of `Next`: adjust after a replica switch -/
def nodeFinish (lastUseA : Bool) (lastVal : Option Int) (s : Node α β) : Node α β :=
  match lastVal with
  | some v => if s.useA != lastUseA then nodeAdjust oa ob v s else s
  | none => s

/-- `if it.aval != ValNone { it.aval = it.a.Seek(it.lastT + 1 + it.penA) }` -/
def stepA (s : Node α β) : α × Bool :=
  if s.aval then oa.seek (s.lastT + 1 + s.penA) s.a else (s.a, false)

/-- `if it.bval != ValNone { it.bval = it.b.Seek(it.lastT + 1 + it.penB) }` -/
def stepB (s : Node α β) : β × Bool :=
  if s.bval then ob.seek (s.lastT + 1 + s.penB) s.b else (s.b, false)

/-- the rest of `Next` once both sides have been advanced: pick the side to emit -/
def nodeChoose (s1 : Node α β) : Node α β × Bool :=
  if !s1.aval then
    if s1.bval then
      match ob.atT s1.b with
      | some tb => ({ s1 with useA := false, lastT := tb, lastIsA := false, penB := 0 }, true)
      | none => ({ s1 with bad := true }, false)
    else ({ s1 with useA := false }, false)
  else if !s1.bval then
    match oa.atT s1.a with
    | some ta => ({ s1 with useA := true, lastT := ta, lastIsA := true, penA := 0 }, true)
    | none => ({ s1 with bad := true }, false)
  else
    match oa.atT s1.a, ob.atT s1.b with
    | some ta, some tb =>
      if ta ≤ tb then
        ({ s1 with useA := true,
                   penB := if s1.lastT ≠ minT then 2 * (ta - s1.lastT) else initialPenalty,
                   penA := 0, lastT := ta, lastIsA := true }, true)
      else
        ({ s1 with useA := false,
                   penA := if s1.lastT ≠ minT then 2 * (tb - s1.lastT) else initialPenalty,
                   penB := 0, lastT := tb, lastIsA := false }, true)
    | _, _ => ({ s1 with bad := true }, false)

/-- the body of `Next` after `lastFloatVal()` has been read -/
def nodeStep (s : Node α β) : Node α β × Bool :=
  nodeChoose oa ob { s with a := (stepA oa s).1, b := (stepB ob s).1,
                            aval := (stepA oa s).2, bval := (stepB ob s).2 }

/-- `dedupSeriesIterator.Next` -/
def nodeNext (s : Node α β) : Node α β × Bool :=
  -- lastFloatVal(): reads lastIter.At() when the side in use returned a float last time
  if (s.useA && s.aval) || (!s.useA && s.bval) then
    match nodeAt oa ob s with
    | none => ({ s with bad := true }, false)
    | some x =>
      let r := nodeStep oa ob s
      (nodeFinish oa ob s.useA (some x.v) r.1, r.2)
  else
    nodeStep oa ob s

/-- The loop of `dedupSeriesIterator.Seek` (iterate `Next` until `AtT() ≥ t`); the fuel is an
    upper bound on the number of iterations, running out of it sets `bad`. -/
def nodeSeekLoop (t : Int) : Nat → Node α β → Node α β × Bool
  | 0, s => ({ s with bad := true }, false)
  | n + 1, s =>
    match nodeAtT oa ob s with
    | none => ({ s with bad := true }, false)
    | some ts =>
      if ts ≥ t then
        if s.useA then ({ s with a := (oa.seek ts s.a).1 }, (oa.seek ts s.a).2)
        else ({ s with b := (ob.seek ts s.b).1 }, (ob.seek ts s.b).2)
      else
        let r := nodeNext oa ob s
        if r.2 then nodeSeekLoop t n r.1 else (r.1, false)

def nodeFuel (s : Node α β) : Nat := oa.fuel s.a + ob.fuel s.b + 1

/-- `dedupSeriesIterator.Seek` as in the pinned tree (no special case for "nothing emitted yet") -/
def nodeSeekOrig (t : Int) (s : Node α β) : Node α β × Bool :=
  nodeSeekLoop oa ob t (nodeFuel oa ob s + 1) s

/-- `dedupSeriesIterator.Seek` after the F01 repair: when nothing has been emitted yet
    (`lastT == math.MinInt64`) the iterator is first positioned with `Next` -/
def nodeSeekFixed (t : Int) (s : Node α β) : Node α β × Bool :=
  if s.lastT = minT then
    let r := nodeNext oa ob s
    if r.2 then nodeSeekLoop oa ob t (nodeFuel oa ob r.1 + 1) r.1 else (r.1, false)
  else nodeSeekLoop oa ob t (nodeFuel oa ob s + 1) s

def nodeOps (fixed : Bool) : Ops (Node α β) where
  next := nodeNext oa ob
  seek := if fixed then nodeSeekFixed oa ob else nodeSeekOrig oa ob
  atS := nodeAt oa ob
  atT := nodeAtT oa ob
  adjust := nodeAdjust oa ob
  bad := fun s => s.bad || oa.bad s.a || ob.bad s.b
  fuel := nodeFuel oa ob

end node

/-! ### dedupSeries.Iterator: the left fold over the replicas -/

/-- an iterator of any state type -/
structure AnyIt where
  σ : Type
  ops : Ops σ
  st : σ

def AnyIt.next (i : AnyIt) : AnyIt × Bool := ({ i with st := (i.ops.next i.st).1 }, (i.ops.next i.st).2)
def AnyIt.seek (t : Int) (i : AnyIt) : AnyIt × Bool := ({ i with st := (i.ops.seek t i.st).1 }, (i.ops.seek t i.st).2)
def AnyIt.atS (i : AnyIt) : Option Sample := i.ops.atS i.st
def AnyIt.atT (i : AnyIt) : Option Int := i.ops.atT i.st
def AnyIt.bad (i : AnyIt) : Bool := i.ops.bad i.st
def AnyIt.fuel (i : AnyIt) : Nat := i.ops.fuel i.st

/-- a replica iterator as `dedupSeries.Iterator` wraps it -/
def replicaIt (counter : Bool) (r : List Sample) : AnyIt :=
  if counter then { σ := Ctr Leaf, ops := ctrOps leafOps, st := Ctr.init (Leaf.init r) }
  else { σ := Leaf, ops := leafOps, st := Leaf.init r }

def foldNode (fixed counter : Bool) (acc : AnyIt) (r : List Sample) : AnyIt :=
  let b := replicaIt counter r
  { σ := Node acc.σ b.σ, ops := nodeOps acc.ops b.ops fixed, st := nodeNew acc.ops b.ops acc.st b.st }

/-- `dedupSeriesSet.At().Iterator(nil)` for the replicas `r :: rs` of one series: a single
    replica is returned as it is (`seriesWithLabels`), otherwise `dedupSeries.Iterator` -/
def mk (fixed counter : Bool) (r : List Sample) (rs : List (List Sample)) : AnyIt :=
  match rs with
  | [] => { σ := Leaf, ops := leafOps, st := Leaf.init r }
  | _ => rs.foldl (foldNode fixed counter) (replicaIt counter r)

/-- the PromQL function names (`SelectHints.Func`) that `isCounter` (pkg/dedup/iter.go) accepts —
    the exact set is a regenerated fact (`dedupCounterFuncs`, tied in `Props/C01.lean`) -/
def counterFuncs : List String := ["increase", "rate", "irate", "resets"]

/-- `isCounter(f)` -/
def isCounter (f : String) : Bool := counterFuncs.contains f

/-- `dedup.NewSeries(lset, replicas, f).Iterator(nil)`: the function name of the select hints
    decides whether the replicas are wrapped in `counterErrAdjustSeriesIterator` -/
def mkF (fixed : Bool) (f : String) (r : List Sample) (rs : List (List Sample)) : AnyIt :=
  mk fixed (isCounter f) r rs

/-! ### driving an iterator -/

/-- samples returned by repeated `Next` (at most `n` of them) -/
def drainN (o : Ops σ) : Nat → σ → List Sample
  | 0, _ => []
  | n + 1, s =>
    let r := o.next s
    if r.2 then
      match o.atS r.1 with
      | some x => x :: drainN o n r.1
      | none => []
    else []

def drain (i : AnyIt) : List Sample := drainN i.ops (i.fuel + 1) i.st

inductive Call where
  | next
  | seek (t : Int)
deriving DecidableEq, Repr

inductive Obs where
  | sample (s : Sample)
  | none
  | panic
deriving DecidableEq, Repr

/-- the observable trace of a call sequence: after every successful call `At()` is read; the
    trace ends at the first panic -/
def runCalls (o : Ops σ) : List Call → σ → List Obs
  | [], _ => []
  | c :: cs, s =>
    let r := match c with
      | .next => o.next s
      | .seek t => o.seek t s
    if o.bad r.1 then [.panic]
    else if r.2 then
      match o.atS r.1 with
      | some x => .sample x :: runCalls o cs r.1
      | none => [.panic]
    else .none :: runCalls o cs r.1

def AnyIt.run (i : AnyIt) (cs : List Call) : List Obs := runCalls i.ops cs i.st

end Thanos.Dedup
