/-
  Model of the compaction planner — pkg/compact/planner.go (C30).

  A transliteration of `tsdbBasedPlanner.plan`, `selectMetas`, `splitByRange`,
  `selectOverlappingMetas`, `largeTotalIndexSizeFilter.plan` and
  `verticalCompactionDownsampleFilter.Plan`, plus the plan/apply iteration that `Group.compact`
  (and `CompactionProgressCalculator.ProgressCalculate`) perform: the planned blocks are replaced by
  one block spanning their hull (`tsdb.CompactBlockMetas`: MinTime = least MinTime, MaxTime =
  greatest MaxTime; a compaction drops tombstones).

  Core Lean only.  Times are `Int` (the int64 code and the model coincide while magnitudes stay
  below 2^61); Go's `/` is `Int.tdiv`.  Places where the Go code panics (index out of range on an
  empty meta list or an empty range list, integer division by a zero range) answer `none`.
-/
namespace Thanos.Planner

/-- what the planner reads of a `metadata.Meta` -/
structure Meta where
  id     : Nat          -- stands for the ULID
  min    : Int          -- MinTime
  max    : Int          -- MaxTime
  failed : Bool         -- Compaction.Failed
  tomb   : Nat          -- Stats.NumTombstones
  series : Nat          -- Stats.NumSeries
  isize  : Int          -- size of the index file (Thanos.Files / bucket attributes)
  res    : Nat          -- Thanos.Downsample.Resolution
deriving DecidableEq, Repr, Inhabited

/-- `noCompactMarked[id]` -/
abbrev Excl := Nat → Bool

/-! ### selectOverlappingMetas -/

/-- the loop of `selectOverlappingMetas`: `gmax` is `globalMaxt`, `prev` is `metasByMinTime[i]` (the
    block just before the current one), `started` is `len(overlappingMetas) > 0` -/
def overlapGo (gmax : Int) (prev : Meta) (started : Bool) : List Meta → List Meta
  | [] => []
  | m :: rest =>
    let gmax' := if m.max > gmax then m.max else gmax
    if m.min < gmax then
      (if started then [m] else [prev, m]) ++ overlapGo gmax' m true rest
    else if started then []
    else overlapGo gmax' m false rest

def selectOverlapping : List Meta → List Meta
  | [] => []
  | m0 :: rest => overlapGo m0.max m0 false rest      -- `len < 2` gives [] here as well

/-! ### splitByRange -/

/-- start of the aligned range of size `tr` that contains `mint` (both branches of the Go code) -/
def rangeStart (tr mint : Int) : Int :=
  if mint ≥ 0 then tr * (Int.tdiv mint tr) else tr * (Int.tdiv (mint - tr + 1) tr)

/-- The two nested loops of `splitByRange` as one structural recursion.  State: `some hi` while a
    group with upper bound `hi = t0 + tr` is open.  Result: (the blocks that continue the open
    group, the groups formed afterwards). -/
def split (tr : Int) : Option Int → List Meta → List Meta × List (List Meta)
  | _, [] => ([], [])
  | st, m :: rest =>
    let fresh : List Meta × List (List Meta) :=
      let t0 := rangeStart tr m.min
      if m.max > t0 + tr then ([], (split tr none rest).2)       -- block does not fit its range: skipped
      else
        let r := split tr (some (t0 + tr)) rest
        ([], (m :: r.1) :: r.2)
    match st with
    | some hi =>
      if m.max > hi then fresh                                    -- group closed, `m` is looked at afresh
      else
        let r := split tr (some hi) rest
        (m :: r.1, r.2)
    | none => fresh

def splitByRange (ms : List Meta) (tr : Int) : List (List Meta) := (split tr none ms).2

/-! ### selectMetas -/

/-- the exclusion scan at the end of `selectMetas`: (the run of not-excluded blocks at the front,
    the first later run longer than one) -/
def scan (excl : Excl) : List Meta → List Meta × Option (List Meta)
  | [] => ([], none)
  | m :: rest =>
    let r := scan excl rest
    if excl m.id then ([], if r.1.length > 1 then some r.1 else r.2)
    else (m :: r.1, r.2)

/-- first maximal run of not-excluded blocks that has more than one element -/
def exclScan (excl : Excl) (p : List Meta) : Option (List Meta) :=
  let r := scan excl p
  if r.1.length > 1 then some r.1 else r.2

/-- the loop over the parts of one range -/
def pickPart (excl : Excl) (highTime iv : Int) : List (List Meta) → Option (List Meta)
  | [] => none
  | p :: ps =>
    if p.any (·.failed) then pickPart excl highTime iv ps
    else if p.length < 2 then pickPart excl highTime iv ps
    else
      match p.head?, p.getLast? with
      | some f, some l =>
        if (l.max - f.min != iv) && (l.max > highTime) then pickPart excl highTime iv ps
        else
          match exclScan excl p with
          | some r => some r
          | none => pickPart excl highTime iv ps
      | _, _ => pickPart excl highTime iv ps

/-- the loop over `ranges[1:]`; `none` = division by zero -/
def pickRange (excl : Excl) (highTime : Int) (ms : List Meta) : List Int → Option (List Meta)
  | [] => some []
  | iv :: ivs =>
    if iv = 0 then none
    else
      match pickPart excl highTime iv (splitByRange ms iv) with
      | some r => some r
      | none => pickRange excl highTime ms ivs

def selectMetas (ranges : List Int) (excl : Excl) (ms : List Meta) : Option (List Meta) :=
  if ranges.length < 2 then some []
  else
    match ms.getLast? with
    | none => some []
    | some l => pickRange excl l.min ms ranges.tail

/-! ### tsdbBasedPlanner.plan -/

/-- `float64(NumTombstones)/float64(NumSeries+1) > 0.05`, exact for counts below 2^40 -/
def manyTombstones (m : Meta) : Bool := 20 * m.tomb > m.series + 1

/-- the tombstone loop (over the not-excluded blocks, newest first); `none` = `p.ranges[len/2]` out of range -/
def tombScan (ranges : List Int) : List Meta → Option (List Meta)
  | [] => some []
  | m :: rest =>
    match ranges[ranges.length / 2]? with
    | none => none
    | some r =>
      if m.max - m.min < r then some []
      else if manyTombstones m then some [m]
      else tombScan ranges rest

def notExcluded (excl : Excl) (ms : List Meta) : List Meta := ms.filter (fun m => !excl m.id)

/-- `tsdbBasedPlanner.plan`; `none` = the Go code panics -/
def plan (ranges : List Int) (excl : Excl) (ms : List Meta) : Option (List Meta) :=
  let ne := notExcluded excl ms
  let ov := selectOverlapping ne
  if !ov.isEmpty then some ov
  else
    match ms.getLast? with
    | none => none
    | some last =>
      let ne' := if excl last.id then ne else ne.dropLast
      match selectMetas ranges excl ms.dropLast with
      | none => none
      | some r =>
        if !r.isEmpty then some r
        else tombScan ranges ne'.reverse

/-! ### plan / apply -/

def minOf : List Meta → Int → Int
  | [], a => a
  | m :: ms, a => minOf ms (if m.min < a then m.min else a)

def maxOf : List Meta → Int → Int
  | [], a => a
  | m :: ms, a => maxOf ms (if m.max > a then m.max else a)

/-- the block a compaction of `p` produces (`tsdb.CompactBlockMetas`); `p` is not empty -/
def hull (newId : Nat) (p : List Meta) : Meta :=
  match p with
  | [] => { id := newId, min := 0, max := 0, failed := false, tomb := 0, series := 0, isize := 0, res := 0 }
  | m :: ms => { id := newId, min := minOf ms m.min, max := maxOf ms m.max, failed := false,
                 tomb := 0, series := 0, isize := 0, res := m.res }

/-- insert keeping the order by `min` (after the blocks with an equal `min`) -/
def insertByMin (b : Meta) : List Meta → List Meta
  | [] => [b]
  | m :: ms => if b.min < m.min then b :: m :: ms else m :: insertByMin b ms

/-- replace the planned blocks (by id) by the compacted one -/
def applyPlan (newId : Nat) (p : List Meta) (ms : List Meta) : List Meta :=
  insertByMin (hull newId p) (ms.filter (fun m => !(p.any (fun q => q.id = m.id))))

inductive Outcome where
  | fixpoint (plans : List (List Meta)) (final : List Meta)
  | panic (plans : List (List Meta))
  | outOfFuel (plans : List (List Meta)) (final : List Meta)
deriving Repr

/-- plan, apply, repeat; ids of new blocks count up from `newId` -/
def iterate (ranges : List Int) (excl : Excl) : Nat → Nat → List Meta → Outcome
  | 0, _, ms => .outOfFuel [] ms
  | fuel + 1, newId, ms =>
    match plan ranges excl ms with
    | none => .panic []
    | some [] => .fixpoint [] ms
    | some p =>
      match iterate ranges excl fuel (newId + 1) (applyPlan newId p ms) with
      | .fixpoint ps f => .fixpoint (p :: ps) f
      | .panic ps => .panic (p :: ps)
      | .outOfFuel ps f => .outOfFuel (p :: ps) f

/-! ### largeTotalIndexSizeFilter.plan -/

/-- the size loop over one plan: `some id` = the block to mark (`plan[biggestIndex]`) -/
def sizeScan (limit : Int) : List Meta → (total : Int) → (maxSize : Option Int) → (biggest : Option Meta) → Option Meta
  | [], _, _, _ => none
  | m :: rest, total, maxSize, biggest =>
    let (maxSize', biggest') :=
      match maxSize with
      | none => (some m.isize, some m)
      | some s => if s < m.isize then (some m.isize, some m) else (maxSize, biggest)
    let total' := total + m.isize
    if total' ≥ limit then biggest' else sizeScan limit rest total' maxSize' biggest'

inductive SizeOutcome where
  | ok (plan : List Meta) (marked : List Nat)
  | panic (marked : List Nat)
  | outOfFuel
deriving Repr, DecidableEq

/-- `largeTotalIndexSizeFilter.plan`; `limit` is `int64(float64(totalMaxIndexSizeBytes)*0.85)`,
    `marked` accumulates the ids marked for no compaction in this call (in order) -/
def sizePlan (ranges : List Int) (limit : Int) : Nat → Excl → List Nat → List Meta → SizeOutcome
  | 0, _, _, _ => .outOfFuel
  | fuel + 1, excl, marked, ms =>
    match plan ranges excl ms with
    | none => .panic marked
    | some p =>
      match sizeScan limit p 0 none none with
      | none => .ok p marked
      | some b => sizePlan ranges limit fuel (fun i => i = b.id || excl i) (marked ++ [b.id]) ms

/-! ### verticalCompactionDownsampleFilter.Plan -/

/-- The outer loop: plans that contain overlapping blocks must not contain downsampled blocks.
    `extra` is the loop's own mark set (`noCompactMarked`, handed to the size filter as
    `extraNoCompactMarked`), `base` the marks known to the planner (`noCompBlocksFunc`), `marked`
    everything marked in the bucket by this call.  `carry = true` is the repaired code: the size
    filter also records its marks in `extra`, so they survive into the next round; with
    `carry = false` (the code as originally written) each round forgets them. -/
def vertPlan (carry : Bool) (ranges : List Int) (limit : Int) (base : Excl) :
    Nat → List Nat → List Nat → List Meta → SizeOutcome
  | 0, _, _, _ => .outOfFuel
  | fuel + 1, extra, marked, ms =>
    match sizePlan ranges limit (ms.length + 1) (fun i => extra.contains i || base i) [] ms with
    | .outOfFuel => .outOfFuel
    | .panic mk => .panic (marked ++ mk)
    | .ok p mk =>
      let extra' := if carry then extra ++ mk else extra
      if (selectOverlapping p).isEmpty then .ok p (marked ++ mk)
      else
        let down := (p.filter (fun m => m.res != 0)).map (·.id)
        if down.isEmpty then .ok p (marked ++ mk)
        else vertPlan carry ranges limit base fuel (extra' ++ down) (marked ++ mk ++ down) ms

end Thanos.Planner
