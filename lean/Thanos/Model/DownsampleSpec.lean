import Thanos.Model.Downsample
/-
  Specification-level definitions for C36 / C37 / C38: what the downsampler is supposed to
  compute, written without reference to its loops.  Core Lean only (executable, so that the
  non-vacuity examples can run them).
-/
namespace Thanos.Downsample

/-- `runsAux r w cur rest`: `cur` are the samples collected so far for the window that ends at `w` -/
def runsAux (r w : Int) (cur : List Pt) : List Pt → List (Int × List Pt)
  | [] => [(w, cur)]
  | p :: rest =>
    if currentWindow p.1 r = w then runsAux r w (cur ++ [p]) rest
    else (w, cur) :: runsAux r (currentWindow p.1 r) [p] rest

/-- the maximal runs of consecutive samples that share a downsampling window, each with the end
    of its window; for time-ordered samples this is the grouping by window (`runs_eq_filter`) -/
def runs (r : Int) : List Pt → List (Int × List Pt)
  | [] => []
  | p :: rest => runsAux r (currentWindow p.1 r) [p] rest

/-- the reset-adjusted value of a counter after the samples `vs`: the first value, plus every
    later value's increase over its predecessor, or the value itself after a reset -/
def adjStep (s : Int × Int) (v : Int) : Int × Int :=
  (if v < s.2 then s.1 + v else s.1 + (v - s.2), v)

def adjusted : List Int → Int
  | [] => 0
  | v :: vs => (vs.foldl adjStep (v, v)).1

/-- the reset-adjusted raw counter at the last raw sample at or before `t` -/
def adjAt (raw : List Pt) (t : Int) : Int :=
  adjusted ((raw.filter fun p => p.1 ≤ t).map (·.2))

/-- the batches of downsampleRawLoop before the NaN filter: `batchSize` samples, extended by the
    following samples up to the end of the window of the batch's last sample (same control flow
    as `rawLoop`, without the aggregation) -/
def rawBatches (r : Int) (batchSize : Nat) : Nat → List Raw → List (List Raw)
  | _, [] => []
  | 0, _ :: _ => []
  | fuel + 1, data =>
    let j := min batchSize data.length
    let head := data.take j
    let tail := data.drop j
    match head.getLast? with
    | none => []
    | some l =>
      let curW := currentWindow l.1 r
      (head ++ tail.takeWhile fun s => s.1 ≤ curW) ::
        rawBatches r batchSize fuel (tail.dropWhile fun s => s.1 ≤ curW)

/-- timestamps strictly increase -/
def Sorted (l : List Pt) : Prop := l.Pairwise fun a b => a.1 < b.1

def SortedRaw (l : List Raw) : Prop := l.Pairwise fun a b => a.1 < b.1

end Thanos.Downsample
