import Thanos.Model.Split
/-
  C42 — internal/cortex/querier/queryrange/results_cache.go : resultsCache.Do, handleMiss,
        handleHit, partition, extract (Extract / ExtractForStep), extent merge loop;
        internal/cortex/querier/queryrange/query_range.go : MergeResponse, minTime, matrixMerge,
        SliceSamples; pkg/queryfrontend/cache.go : GenerateCacheKey / GenerateCacheKeyAlternatives,
        lowerStepCacheCandidates; middleware order StepAlign → SplitByInterval → results cache.

  A response is its matrix (`List (series id × samples)`); headers, warnings, stats and the
  protobuf/JSON encodings are not modelled.  The downstream ("data that does not change") is a
  function of the evaluation timestamp only.  Tenant and query are fixed, so a cache key is
  `(step, split interval, interval index)`.  The freshness cut-off (`maxCacheTime`,
  `filterRecentExtents`), `shouldCacheResponse` and the loss of cache entries are parameters of
  the run (`Env`, `Step`).

  Two flags select the code before/after the two repairs made for this property:
    `minAll  = false` : `minTime()` looks at the first series only           (as found)
    `minAll  = true`  : `minTime()` is the minimum over all series            (repaired)
    `gridFix = false` : `partition` continues at `extent.End`                 (as found)
    `gridFix = true`  : in matching-step mode it continues at the last point of the request's
                        grid that is `≤ extent.End`                           (repaired)
-/
namespace Thanos.ResultsCache

structure Sample where
  t : Int
  v : Int
  deriving DecidableEq, Repr

abbrev Stream := Nat × List Sample
abbrev Matrix := List Stream

structure Req where
  start : Int
  stop : Int
  step : Int
  deriving DecidableEq, Repr

structure Extent where
  start : Int
  stop : Int
  resp : Matrix
  deriving DecidableEq, Repr

structure Key where
  step : Int
  splitMs : Int
  idx : Int
  deriving DecidableEq, Repr

abbrev Cache := List (Key × List Extent)

/-- the code variant (see the header) -/
structure Cfg where
  minAll : Bool
  gridFix : Bool
  deriving DecidableEq, Repr

/-- the variant the repository has now (tied by `C42_fact_variant`); the model driver runs it -/
def liveCfg : Cfg := { minAll := true, gridFix := true }

/-- the downstream querier: series ids in label order and, per series, the value at an
    evaluation timestamp (or none) -/
structure Down where
  ids : List Nat
  f : Nat → Int → Option Int

/-- what the querier answers to a range query: for every series the samples on the query's grid,
    series without samples omitted -/
def evalD (D : Down) (start stop step : Int) : Matrix :=
  D.ids.filterMap fun id =>
    match (Split.grid start stop step).filterMap (fun t => (D.f id t).map (Sample.mk t)) with
    | [] => none
    | s => some (id, s)

/-! ### MergeResponse -/

/-- `minTime()` -/
def minTime (minAll : Bool) (m : Matrix) : Int :=
  if minAll then
    m.foldl (fun acc s => match s.2 with
      | [] => acc
      | x :: _ => if acc = -1 ∨ x.t < acc then x.t else acc) (-1)
  else
    match m with
    | [] => -1
    | s :: _ => match s.2 with
      | [] => -1
      | x :: _ => x.t

/-- insertion of `x` (which stood before every element of the list) into a sorted list: stable -/
def insertLt {α : Type} (lt : α → α → Bool) (x : α) : List α → List α
  | [] => [x]
  | y :: l => if lt y x then y :: insertLt lt x l else x :: y :: l

/-- `sort.Sort` / `sort.Slice` on at most 12 elements is an insertion sort (stable) -/
def sortLt {α : Type} (lt : α → α → Bool) : List α → List α
  | [] => []
  | x :: l => insertLt lt x (sortLt lt l)

/-- `SliceSamples(samples, minTs)` on ascending samples: the suffix with timestamps `> minTs` -/
def sliceSamples (s : List Sample) (minTs : Int) : List Sample := s.dropWhile (fun x => x.t ≤ minTs)

/-- the body of the inner loop of `matrixMerge` for one series -/
def mergeStream (existing stream : List Sample) : List Sample :=
  match existing.getLast?, stream with
  | some e, x :: rest =>
    if e.t = x.t then existing ++ rest
    else if e.t > x.t then existing ++ sliceSamples stream e.t
    else existing ++ stream
  | _, _ => existing ++ stream

/-- `output[metric]` update -/
def upsert (out : List Stream) (id : Nat) (stream : List Sample) : List Stream :=
  match out with
  | [] => [(id, mergeStream [] stream)]
  | (i, ex) :: rest => if i = id then (i, mergeStream ex stream) :: rest else (i, ex) :: upsert rest id stream

/-- `matrixMerge`: responses in the given order, result sorted by metric -/
def matrixMerge (resps : List Matrix) : Matrix :=
  sortLt (fun a b => a.1 < b.1)
    (resps.foldl (fun out m => m.foldl (fun out s => upsert out s.1 s.2) out) [])

/-- `MergeResponse` -/
def mergeResponse (minAll : Bool) (resps : List Matrix) : Matrix :=
  if resps.isEmpty then [] else
  matrixMerge (sortLt (fun a b => minTime minAll a < minTime minAll b) resps)

/-! ### Extract -/

/-- `isTimestampAtStep` -/
def atStep (start stop step ts : Int) : Bool :=
  if ts < start ∨ ts > stop then false else (step ≤ 0 || (ts - start).tmod step = 0)

/-- `extractMatrix` -/
def extract (start stop step : Int) (m : Matrix) : Matrix :=
  m.filterMap fun s =>
    match s.2.filter (fun x => atStep start stop step x.t) with
    | [] => none
    | l => some (s.1, l)

/-! ### partition -/

def minCacheExtent : Int := 300000

/-- the `for _, extent := range extents` loop of `partition`; state: moving `start`, requests
    and cached responses so far -/
def partitionLoop (cfg : Cfg) (req : Req) (matching : Bool) :
    List Extent → Int → List Req → List Matrix → (Int × List Req × List Matrix)
  | [], start, reqs, cached => (start, reqs, cached)
  | e :: es, start, reqs, cached =>
    if e.stop < start ∨ e.start > req.stop then partitionLoop cfg req matching es start reqs cached
    else if req.start ≠ req.stop ∧ req.stop - req.start > minCacheExtent ∧ e.stop - e.start < minCacheExtent then
      partitionLoop cfg req matching es start reqs cached
    else
      let reqs := if start < e.start then reqs ++ [⟨start, e.start, req.step⟩] else reqs
      let cached := cached ++ [extract start req.stop (if matching then req.step else 0) e.resp]
      let next := if matching ∧ cfg.gridFix ∧ req.step > 0 then e.stop - (e.stop - req.start).tmod req.step else e.stop
      partitionLoop cfg req matching es next reqs cached

def partition (cfg : Cfg) (req : Req) (matching : Bool) (extents : List Extent) : List Req × List Matrix :=
  let (start, reqs, cached) := partitionLoop cfg req matching extents req.start [] []
  let reqs := if start < req.stop then reqs ++ [⟨start, req.stop, req.step⟩] else reqs
  let reqs := if req.start = req.stop ∧ cached.isEmpty then reqs ++ [req] else reqs
  (reqs, cached)

/-! ### handleHit: extent merge loop -/

/-- the loop `for i := 1; i < len(extents); i++` with the accumulator -/
def mergeExtentsLoop (cfg : Cfg) (step : Int) : Extent → List Extent → List Extent
  | acc, [] => [acc]
  | acc, e :: es =>
    if acc.stop + step < e.start then acc :: mergeExtentsLoop cfg step e es
    else if acc.stop ≥ e.stop then mergeExtentsLoop cfg step acc es
    else mergeExtentsLoop cfg step ⟨acc.start, e.stop, mergeResponse cfg.minAll [acc.resp, e.resp]⟩ es

def extentLt (a b : Extent) : Bool := if a.start = b.start then a.stop > b.stop else a.start < b.start

def mergeExtents (cfg : Cfg) (step : Int) (extents : List Extent) : List Extent :=
  match sortLt extentLt extents with
  | [] => []
  | e :: es => mergeExtentsLoop cfg step e es

/-- what the run-time environment decides for one request: `mct` is
    `maxCacheTime = now − maxCacheFreshness` (milliseconds), `noStore r` says that
    `shouldCacheResponse` is false for the response to the (sub-)request `r` (the querier answered
    with `Cache-Control: no-store`, an `@` modifier points beyond the end / the fresh zone, a
    negative offset) -/
structure Env where
  mct : Int
  noStore : Req → Bool

/-- everything is old and cacheable -/
def Env.far : Env := ⟨2 ^ 62, fun _ => false⟩

/-- `handleHit`: the response and, when something was fetched, the extents to write back -/
def handleHit (cfg : Cfg) (env : Env) (D : Down) (req : Req) (extents : List Extent) (matching : Bool) :
    Matrix × Option (List Extent) :=
  let (reqs, cached) := partition cfg req matching extents
  if reqs.isEmpty then (mergeResponse cfg.minAll cached, none) else
  let fetched := reqs.map fun r => (r, evalD D r.start r.stop r.step)
  let responses := cached ++ fetched.map (·.2)
  let all := extents ++ (fetched.filter fun p => !env.noStore p.1).map fun (r, m) => ⟨r.start, r.stop, m⟩
  (mergeResponse cfg.minAll responses, some (mergeExtents cfg req.step all))

/-! ### keys -/

def commonQuerySteps : List Int :=
  [43200000, 21600000, 10800000, 7200000, 3600000, 1800000, 900000, 600000, 300000, 120000,
   60000, 30000, 20000, 15000, 10000, 5000, 1000]

/-- lowerStepCacheCandidates -/
def lowerSteps (step : Int) : List Int :=
  if commonQuerySteps.contains step then
    commonQuerySteps.filter fun c => !(c ≥ step || step.tmod c ≠ 0)
  else []

def cacheGet (c : Cache) (k : Key) : Option (List Extent) := (c.find? (·.1 = k)).map (·.2)

def cachePut (c : Cache) (k : Key) (v : List Extent) : Cache :=
  match c with
  | [] => [(k, v)]
  | (k', v') :: rest => if k' = k then (k, v) :: rest else (k', v') :: cachePut rest k v

/-- `filterRecentExtents`: never cache data of the latest freshness period -/
def filterRecent (env : Env) (step : Int) (extents : List Extent) : List Extent :=
  let mct' := env.mct.tdiv step * step
  extents.map fun e => if e.stop > mct' then ⟨e.start, mct', extract e.start mct' 0 e.resp⟩ else e

/-- `resultsCache.Do` for one (sub-)request of a split interval `splitMs` -/
def doReq (cfg : Cfg) (env : Env) (D : Down) (splitMs : Int) (c : Cache) (req : Req) : Matrix × Cache :=
  if req.start > env.mct then (evalD D req.start req.stop req.step, c) else
  let idx := req.start.tdiv splitMs
  let key : Key := ⟨req.step, splitMs, idx⟩
  match cacheGet c key with
  | some extents =>
    match handleHit cfg env D req extents false with
    | (resp, some ex) => (resp, cachePut c key (filterRecent env req.step ex))
    | (resp, none) => (resp, c)
  | none =>
    let alts := (lowerSteps req.step).filter fun s => req.start.tmod s = 0
    match alts.findSome? fun s => cacheGet c ⟨s, splitMs, idx⟩ with
    | some extents => ((handleHit cfg env D req extents true).1, c)        -- writeBack = false
    | none =>
      let resp := evalD D req.start req.stop req.step
      if env.noStore req then (resp, c)
      else (resp, cachePut c key (filterRecent env req.step [⟨req.start, req.stop, resp⟩]))

/-- the requests `resultsCache.Do` sends downstream for `req` over cache `c` (what `doReq`
    evaluates with `evalD`): used by the driver to compare the caching decisions themselves —
    bypass, partition, lower-step reuse — with the calls the real downstream receives -/
def downReqs (cfg : Cfg) (env : Env) (splitMs : Int) (c : Cache) (req : Req) : List Req :=
  if req.start > env.mct then [req] else
  let idx := req.start.tdiv splitMs
  match cacheGet c ⟨req.step, splitMs, idx⟩ with
  | some extents => (partition cfg req false extents).1
  | none =>
    let alts := (lowerSteps req.step).filter fun s => req.start.tmod s = 0
    match alts.findSome? fun s => cacheGet c ⟨s, splitMs, idx⟩ with
    | some extents => (partition cfg req true extents).1
    | none => [req]

/-! ### the middleware chain -/

/-- StepAlign (optional) → SplitByInterval → results cache, then MergeResponse of the parts.
    `none` where `splitQuery` would panic (zero step / interval). -/
def frontend (cfg : Cfg) (env : Env) (D : Down) (align : Bool) (splitMs : Int) (c : Cache) (req : Req) :
    Option (Matrix × Cache) :=
  if req.step = 0 then none else
  let (s, e) := if align then (req.start.tdiv req.step * req.step, req.stop.tdiv req.step * req.step)
                else (req.start, req.stop)
  match Split.split s e req.step splitMs with
  | .ok parts =>
    let (resps, c') := parts.foldl (fun (acc : List Matrix × Cache) p =>
      let (m, c'') := doReq cfg env D splitMs acc.2 ⟨p.1, p.2, req.step⟩
      (acc.1 ++ [m], c'')) ([], c)
    some (mergeResponse cfg.minAll resps, c')
  | _ => none

/-- one step of a history: the environment of the moment, which cache entries were lost before
    the request (`lose k`: eviction of single keys, `fun _ => true`: restart / flush — the cache
    is honest but lossy), the request -/
structure Step where
  env : Env
  lose : Key → Bool
  req : Req

/-- what is left of the cache after a loss -/
def evict (lose : Key → Bool) (c : Cache) : Cache := c.filter fun kv => !lose kv.1

/-- a whole history against one cache: the responses in order -/
def historyE (cfg : Cfg) (D : Down) (align : Bool) (splitMs : Int) : Cache → List Step → List (Option Matrix)
  | _, [] => []
  | c, s :: rs =>
    let c0 := evict s.lose c
    match frontend cfg s.env D align splitMs c0 s.req with
    | some (m, c') => some m :: historyE cfg D align splitMs c' rs
    | none => none :: historyE cfg D align splitMs c0 rs

/-- a history of old, cacheable requests over a cache that loses nothing -/
def history (cfg : Cfg) (D : Down) (align : Bool) (splitMs : Int) (c : Cache) (reqs : List Req) : List (Option Matrix) :=
  historyE cfg D align splitMs c (reqs.map fun r => ⟨Env.far, fun _ => false, r⟩)

end Thanos.ResultsCache
