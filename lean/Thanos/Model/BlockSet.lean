/-
  C15 — pkg/store/bucket.go : bucketBlockSet.add, bucketBlockSet.getFor

  A block is what `getFor` looks at: its resolution, its half-open time range `[mint, maxt)` and the
  outcome of `matchRelabelLabels(blockMatchers)` (`keep`; regex semantics are third-party, so the
  truth value is an input; `true` when the request carries no block matchers).  `id` stands for the
  pointer identity of the `*bucketBlock`.

  Two switches select the code before / after the two repairs made for C15 (/repo commits 5d7491d6a and
  22ba7b303; the driver runs the current code, `dd = guard = true`; the old behaviour stays provable):
    * `dd`    : `true`  = recursive results are appended with `appendMissing` (repaired code),
                `false` = plain `append` (code before the repair: a finer block that spans a coarser one
                          is returned once per gap).
    * `guard` : `true`  = "no resolution is allowed" returns no blocks (repaired code),
                `false` = `s.blocks[len(s.resolutions)]` is indexed: run-time panic (`none`).
-/
namespace Thanos.BlockSet

structure Block where
  id : Nat
  res : Int
  mint : Int
  maxt : Int
  keep : Bool
  deriving DecidableEq, Repr

/-- `newBucketBlockSet`: available resolutions, high to low (ResLevel2 = 1h, ResLevel1 = 5m, ResLevel0 = raw), ms -/
def resolutions : List Int := [3600000, 300000, 0]

/-- the `less` of `add`'s `sort.Slice`: by min time, then max time -/
def lt (a b : Block) : Bool :=
  if a.mint = b.mint then a.maxt < b.maxt else a.mint < b.mint

/-- `append` + `sort.Slice` on an already sorted slice: the new block goes behind every block that is
    not greater (ties keep arrival order; `sort.Slice` may permute ties, which `getFor` cannot observe
    except through identities — the driver prints ties canonically) -/
def insert (b : Block) : List Block → List Block
  | [] => [b]
  | x :: xs => if lt b x then b :: x :: xs else x :: insert b xs

/-- `bucketBlockSet`: `ress[i]` is the resolution of the blocks in `blocks[i]` -/
structure BSet where
  ress : List Int
  blocks : List (List Block)
  deriving Repr

def empty : BSet := { ress := resolutions, blocks := resolutions.map (fun _ => []) }

/-- insert at `int64index(resolutions, res)`; `none` = "unsupported downsampling resolution" -/
def addAt : List Int → List (List Block) → Block → Option (List (List Block))
  | r :: rs, bs :: bss, b =>
    if r = b.res then some (insert b bs :: bss) else (addAt rs bss b).map (bs :: ·)
  | _, _, _ => none

def add (s : BSet) (b : Block) : Option BSet :=
  (addAt s.ress s.blocks b).map (fun bl => { s with blocks := bl })

/-- add every block in order; a failing `add` leaves the set unchanged (`addBlock` returns the error and
    the block is not loaded).  Returns the set and the number of failed adds. -/
def addAll : BSet → List Block → BSet × Nat
  | s, [] => (s, 0)
  | s, b :: bs =>
    match add s b with
    | some s' => addAll s' bs
    | none => let (s'', n) := addAll s bs; (s'', n + 1)

/-- the inner loop of `remove`: the first block with the id is cut out, the order of the others is kept
    (`append(bs[:j], bs[j+1:]...)`); `none` = no block of this level has the id -/
def removeFirst (id : Nat) : List Block → Option (List Block)
  | [] => none
  | b :: bs => if b.id = id then some bs else (removeFirst id bs).map (b :: ·)

/-- the outer loop of `remove`: levels in order, return after the first hit -/
def removeLevels (id : Nat) : List (List Block) → List (List Block)
  | [] => []
  | l :: ls =>
    match removeFirst id l with
    | some l' => l' :: ls
    | none => l :: removeLevels id ls

/-- `bucketBlockSet.remove(id)` -/
def remove (s : BSet) (id : Nat) : BSet := { s with blocks := removeLevels id s.blocks }

/-- a step of a history of a block set -/
inductive Op where
  | add (b : Block)
  | remove (id : Nat)
  deriving Repr

/-- replay a history; a failing `add` leaves the set unchanged and is counted -/
def run : BSet → List Op → BSet × Nat
  | s, [] => (s, 0)
  | s, .add b :: ops =>
    match add s b with
    | some s' => run s' ops
    | none => let (s'', n) := run s ops; (s'', n + 1)
  | s, .remove id :: ops => run (remove s id) ops

/-- `appendMissing(bs, more...)`: append the blocks of `more` that `bs` does not hold yet -/
def appendMissing : List Block → List Block → List Block
  | acc, [] => acc
  | acc, m :: ms => if m ∈ acc then appendMissing acc ms else appendMissing (acc ++ [m]) ms

def app (dd : Bool) (acc more : List Block) : List Block :=
  if dd then appendMissing acc more else acc ++ more

/-- The loop of `getFor` over `s.blocks[i]`; `rec` is the recursive call on the next resolution
    (`fun _ _ => []` on the last level), `acc` is `bs`. -/
def fill (dd : Bool) (rec : Int → Int → List Block) (mint maxt : Int) :
    List Block → Int → List Block → List Block
  | [], start, acc => app dd acc (rec start maxt)
  | b :: bs, start, acc =>
    if b.maxt ≤ mint then fill dd rec mint maxt bs start acc
    else if b.mint > maxt then app dd acc (rec start maxt)
    else
      let acc1 := app dd acc (rec start (b.mint - 1))
      let acc2 := if b.keep then acc1 ++ [b] else acc1
      fill dd rec mint maxt bs b.maxt acc2

/-- `getFor` on the resolution levels from the current one on.  The Go code passes
    `s.resolutions[i+1]` as the new maximum resolution and searches the level again; for a strictly
    descending resolution list that search ends at `i+1` (`Lemmas/BlockSet.firstIdx_next`, `Props/C15.C15_recursion_level`). -/
def getForL (dd : Bool) : List (List Block) → Int → Int → List Block
  | [], _, _ => []
  | bs :: rest, mint, maxt =>
    if mint > maxt then [] else fill dd (getForL dd rest) mint maxt bs mint []

/-- "Find first matching resolution": number of leading resolutions greater than `maxRes` -/
def firstIdx : List Int → Int → Nat
  | [], _ => 0
  | r :: rs, maxRes => if r > maxRes then firstIdx rs maxRes + 1 else 0

/-- `bucketBlockSet.getFor`; `none` = index-out-of-range panic -/
def getFor (dd guard : Bool) (s : BSet) (mint maxt maxRes : Int) : Option (List Block) :=
  if mint > maxt then some [] else
  let i := firstIdx s.ress maxRes
  if i < s.blocks.length then some (getForL dd (s.blocks.drop i) mint maxt)
  else if guard then some [] else none

end Thanos.BlockSet
