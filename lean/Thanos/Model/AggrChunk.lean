import Thanos.Model.Uvarint
/-
  C39 — pkg/compact/downsample/aggr.go : EncodeAggrChunk, AggrChunk.Get
  A sub-chunk is `(encoding byte, data bytes)`; `none` = nil chunk (aggregate absent).
-/
namespace Thanos.AggrChunk
open Thanos.Uvarint

abbrev Sub := Option (Nat × List Nat)

/-- EncodeAggrChunk (for any number of aggregate slots; the code has 5) -/
def encode : List Sub → List Nat
  | [] => []
  | none :: cs => uvarint 0 ++ encode cs
  | some (e, d) :: cs => uvarint d.length ++ (e :: d) ++ encode cs

inductive Res where
  | ok (enc : Nat) (data : List Nat)
  | badenc
  | notExist
  | invalid
  deriving DecidableEq, Repr

/-- chunkenc.FromData: XOR = 1, Histogram = 2, FloatHistogram = 3 -/
def fromData (x : List Nat) : Res :=
  match x with
  | [] => .invalid        -- unreachable: x always has l+1 ≥ 2 bytes when set
  | e :: d => if e = 1 ∨ e = 2 ∨ e = 3 then .ok e d else .badenc

/-- The size test of `AggrChunk.Get`.  `strict = true` is the test as written before the
    repair (`len(b[n:]) < l+1` also for an explicit zero length), `false` the repaired one. -/
def tooShort (strict : Bool) (l : Nat) (rest : List Nat) : Bool :=
  if strict then rest.length < l + 1 else (l > 0 && rest.length < l + 1)

/-- The loop of `AggrChunk.Get`: `k` = iterations still to run after this one (`t - i`). -/
def getLoop (strict : Bool) : (k : Nat) → (b : List Nat) → Res
  | k, b =>
    let (l, n) := unuvarint b
    if n < 1 then .invalid else
    let rest := b.drop n.toNat
    if tooShort strict l rest then .invalid else
    if l = 0 then
      match k with
      | 0 => .notExist
      | k + 1 => getLoop strict k rest
    else
      match k with
      | 0 => fromData (rest.take (l + 1))
      | k + 1 => getLoop strict k (rest.drop (l + 1))

/-- `AggrChunk.Get(t)` -/
def get (strict : Bool) (c : List Nat) (t : Nat) : Res := getLoop strict t c

end Thanos.AggrChunk
