/-
  Go's encoding/binary unsigned varint (PutUvarint / Uvarint), over bytes as `Nat` (< 256).
  Shared by C39 (aggregate chunks) and C12 (posting codecs).
-/
namespace Thanos.Uvarint

/-- binary.PutUvarint, by structural recursion on a fuel argument (so that `decide` can
    evaluate it); `fuel = n` always suffices because `n / 128 < n` -/
def uvarintF : Nat → Nat → List Nat
  | 0, n => [n]
  | f + 1, n => if n < 128 then [n] else (n % 128 + 128) :: uvarintF f (n / 128)

def uvarint (n : Nat) : List Nat := uvarintF n n

/-- binary.Uvarint: `(value, n)`; `n = 0`: buffer too small, `n < 0`: overflow (more than 64 bits).
    `i` = index of the byte looked at, `x` = value accumulated so far (shift is `7*i`). -/
def unuvarintAux (i : Nat) (x : Nat) : List Nat → Nat × Int
  | [] => (0, 0)
  | b :: bs =>
    if i = 10 then (0, -((i : Int) + 1))
    else if b < 128 then
      if i = 9 ∧ b > 1 then (0, -((i : Int) + 1)) else (x + b * 2 ^ (7 * i), (i : Int) + 1)
    else unuvarintAux (i + 1) (x + (b % 128) * 2 ^ (7 * i)) bs

def unuvarint (bs : List Nat) : Nat × Int := unuvarintAux 0 0 bs

end Thanos.Uvarint
