import Thanos.Model.Iter
import Thanos.Model.ChunkMerge
/-
  C04 — the read path with deduplication, composed at specification level:

    stores (series sorted by labels, chunks filtered by the request's time range)
      → proxy (replica labels removed, k-way merge, series with equal labels chained,
               identical chunks dropped, chunks sorted by MinTime, MaxTime, bytes)      [spec of C03]
      → querier.selectFn: dedup.NewOverlapSplit (first fit on `MaxTime < MinTime`)      [transliterated]
      → query.chunkSeriesIterator over XOR chunk iterators, boundedSeriesIterator       [transliterated]
      → dedup.NewSeriesSet / dedupSeries.Iterator (penalty)                             [Model/Iter.lean]

  A raw chunk is its sample list; the order of the XOR bytes of two chunks with the same time
  range is an input (`rank`, smaller = sorted first).
-/
namespace Thanos.Dedup

/-! ### query.chunkSeriesIterator (pkg/query/iter.go) over XOR chunk iterators -/

/-- `cur` = `it.cur` = `it.chunks[it.i]`, `rest` = `it.chunks[it.i+1:]` -/
structure CS where
  cur : XorIt
  rest : List XorIt
  lastVal : Bool
  bad : Bool

/-- `Next` (mode = false) and `Seek t` (mode = true) call each other; one fuel unit per call -/
def csRun : Nat → Bool → Int → CS → CS × Bool
  | 0, _, _, s => ({ s with bad := true }, false)
  | f + 1, false, _, s =>
    -- Next
    let lastT := s.cur.cur.t
    let r := xorNext s.cur
    if r.2 then ({ s with cur := r.1, lastVal := true }, true)
    else
      match s.rest with
      | [] => ({ s with cur := r.1 }, false)
      | c :: rest => csRun f true (lastT + 1) { s with cur := c, rest := rest }
  | f + 1, true, t, s =>
    -- Seek t
    if s.cur.cur.t ≥ t then (s, s.lastVal)
    else
      let r := csRun f false 0 s
      if r.2 then csRun f true t { r.1 with lastVal := true }
      else ({ r.1 with lastVal := false }, false)

def csFuel (s : CS) : Nat :=
  2 * (s.cur.rest.length + (s.rest.map fun c => c.rest.length + 1).sum) + 4

def csOps : Ops CS where
  next := fun s => csRun (csFuel s) false 0 s
  seek := fun t s => csRun (csFuel s) true t s
  atS := fun s => some s.cur.cur
  atT := fun s => some s.cur.cur.t
  adjust := fun _ s => s
  bad := fun s => s.bad
  fuel := fun s => s.cur.rest.length + (s.rest.map fun c => c.rest.length).sum + 1

/-- `newChunkSeriesIterator(cs)`; `none` for the empty list (`errSeriesIterator`) -/
def CS.init : List (List Sample) → Option CS
  | [] => none
  | c :: cs => some { cur := XorIt.init c, rest := cs.map XorIt.init, lastVal := false, bad := false }

/-! ### boundedSeriesIterator as an iterator (pkg/dedup/iter.go) -/

/-- `stopped` records that `Seek` was called with a target beyond `maxt` (it answers `ValNone`
    without touching the wrapped iterator); no method reads it -/
structure Bnd (σ : Type) where
  inner : σ
  bad : Bool
  stopped : Bool

def bndOps {σ : Type} (o : Ops σ) (mint maxt : Int) : Ops (Bnd σ) where
  next := fun s =>
    match bNext o mint maxt s.inner with
    | some r => ({ s with inner := r.1 }, r.2)
    | none => ({ s with bad := true }, false)
  seek := fun t s =>
    ({ s with inner := (bSeek o mint maxt t s.inner).1, stopped := s.stopped || decide (t > maxt) },
     (bSeek o mint maxt t s.inner).2)
  atS := fun s => o.atS s.inner
  atT := fun s => o.atT s.inner
  adjust := fun _ s => s
  bad := fun s => s.bad || o.bad s.inner
  fuel := fun s => o.fuel s.inner

/-- `chunkSeries.Iterator` for raw chunks: `NewBoundedSeriesIterator(newChunkSeriesIterator(its), mint, maxt)` -/
def chunkSeriesIt (mint maxt : Int) (chunks : List (List Sample)) : Option AnyIt :=
  (CS.init chunks).map fun s =>
    { σ := Bnd CS, ops := bndOps csOps mint maxt, st := { inner := s, bad := false, stopped := false } }

/-! ### stores, proxy (specification) and querier -/

structure RChunk where
  store : Nat
  rank : Nat
  samples : List Sample
deriving DecidableEq, Repr

def RChunk.mint (c : RChunk) : Int := (c.samples.head?.map (·.t)).getD 0
def RChunk.maxt (c : RChunk) : Int := (c.samples.getLast?.map (·.t)).getD 0

structure RReplica where
  rid : Nat
  chunks : List RChunk
deriving Repr

structure RSeries where
  key : Nat
  reps : List RReplica
deriving Repr

/-- a store sends the chunks that overlap the requested range -/
def inRange (qmint qmaxt : Int) (c : RChunk) : Bool := decide (c.maxt ≥ qmint) && decide (c.mint ≤ qmaxt)

/-- `chainSeriesAndRemIdenticalChunks`: identical chunks (same bytes = same samples) are kept once -/
def dedupContent (cs : List RChunk) : List RChunk :=
  cs.foldl (fun acc c => if acc.any (fun d => d.samples == c.samples) then acc else acc ++ [c]) []

/-- `AggrChunk.Compare`: MinTime, MaxTime, then the bytes order (given by `rank`) -/
def chunkLe (a b : RChunk) : Bool :=
  if a.mint ≠ b.mint then decide (a.mint < b.mint)
  else if a.maxt ≠ b.maxt then decide (a.maxt < b.maxt)
  else decide (a.rank ≤ b.rank)

def insertSorted (c : RChunk) : List RChunk → List RChunk
  | [] => [c]
  | d :: ds => if chunkLe c d then c :: d :: ds else d :: insertSorted c ds

def sortChunks (cs : List RChunk) : List RChunk := cs.foldr insertSorted []

/-- what the proxy hands to the querier for one label set -/
def proxyChunks (qmint qmaxt : Int) (cs : List RChunk) : List RChunk :=
  sortChunks (dedupContent (cs.filter (inRange qmint qmaxt)))

/-- `overlapSplitSet.Next`: put the chunk into the first row whose last chunk ends before it starts -/
def splitInsert (c : RChunk) : List (List RChunk) → List (List RChunk)
  | [] => [[c]]
  | row :: rows =>
    match row.getLast? with
    | none => (row ++ [c]) :: rows
    | some l => if l.maxt < c.mint then (row ++ [c]) :: rows else row :: splitInsert c rows

def overlapSplit (cs : List RChunk) : List (List RChunk) := cs.foldl (fun rows c => splitInsert c rows) []

def foldIts (seekFixed : Bool) : List AnyIt → Option AnyIt
  | [] => none
  | i :: is => some (is.foldl (fun acc b =>
      { σ := Node acc.σ b.σ, ops := nodeOps acc.ops b.ops seekFixed,
        st := nodeNew acc.ops b.ops acc.st b.st }) i)

/-- samples of an iterator read with `Next`; `none` = panic -/
def drainChecked (i : AnyIt) : Option (List Sample) :=
  go i.ops (i.fuel + 2) i.st
where
  go {σ : Type} (o : Ops σ) : Nat → σ → Option (List Sample)
    | 0, _ => none
    | n + 1, s =>
      let r := o.next s
      if o.bad r.1 then none
      else if r.2 then
        match o.atS r.1 with
        | some x => (go o n r.1).map (x :: ·)
        | none => none
      else some []

/-- the deduplicated series of one logical series; outer `none` = no chunk in range (series not
    returned), inner `none` = panic -/
def selectDedup (seekFixed : Bool) (qmint qmaxt : Int) (l : RSeries) : Option (Option (List Sample)) :=
  let cs := proxyChunks qmint qmaxt (l.reps.flatMap (·.chunks))
  if cs.isEmpty then none else
  let rows := overlapSplit cs
  match rows.mapM fun row => chunkSeriesIt qmint qmaxt (row.map (·.samples)) with
  | none => some none
  | some its =>
    match foldIts seekFixed its with
    | none => some none
    | some it => some (drainChecked it)

/-- one replica queried without deduplication -/
def selectRaw (qmint qmaxt : Int) (r : RReplica) : Option (Option (List Sample)) :=
  let cs := proxyChunks qmint qmaxt r.chunks
  if cs.isEmpty then none else
  match chunkSeriesIt qmint qmaxt (cs.map (·.samples)) with
  | none => some none
  | some it => some (drainChecked it)

def insertKey (k : Nat × Nat) (v : Option (List Sample)) :
    List ((Nat × Nat) × Option (List Sample)) → List ((Nat × Nat) × Option (List Sample))
  | [] => [(k, v)]
  | (k', v') :: rest =>
    if k.1 < k'.1 ∨ (k.1 = k'.1 ∧ k.2 ≤ k'.2) then (k, v) :: (k', v') :: rest
    else (k', v') :: insertKey k v rest

/-- all series of the answer, in label order.  Keys: dedup ⇒ `(key, 0)`; no dedup ⇒ `(key, rid)`,
    or `(rid, key)` when the replica label sorts before the series label -/
def selectAll (seekFixed dedupOn repFirst : Bool) (qmint qmaxt : Int) (ss : List RSeries) :
    List ((Nat × Nat) × Option (List Sample)) :=
  if dedupOn then
    (ss.filterMap fun l => (selectDedup seekFixed qmint qmaxt l).map fun v => ((l.key, 0), v)).foldr
      (fun kv acc => insertKey kv.1 kv.2 acc) []
  else
    (ss.flatMap fun l => l.reps.filterMap fun r =>
        (selectRaw qmint qmaxt r).map fun v => ((if repFirst then (r.rid, l.key) else (l.key, r.rid)), v)).foldr
      (fun kv acc => insertKey kv.1 kv.2 acc) []

/-! ### label sets: what a store attaches to a series, and the grouping of copies (C04, full path
    over TSDB-backed stores)

  Specification of the store side (proved for the stores themselves in the `stores` family, C08:
  a store asked for `WithoutReplicaLabels` returns no series carrying one of these labels, whether
  the label comes from its external labels or is stored with the series): the store removes EVERY
  requested replica label from BOTH the series' own labels and its external labels, then extends
  the former by the latter (`labelpb.ExtendSortedLabels`: an external label wins over a series
  label of the same name).  The querier itself never removes a replica label: it passes them down
  and `dedup.NewSeriesSet` merges neighbouring series with EQUAL label sets. -/

abbrev Lbl := String × String

/-- `rmLabels` (pkg/store/proxy_merge.go) -/
def rmLabels (rl : List String) (ls : List Lbl) : List Lbl := ls.filter fun l => !rl.contains l.1

def insertLbl (l : Lbl) : List Lbl → List Lbl
  | [] => [l]
  | m :: ms => if l.1 < m.1 then l :: m :: ms else if l.1 = m.1 then l :: ms else m :: insertLbl l ms

/-- `labelpb.ExtendSortedLabels`: `labels.NewBuilder(lset)` + `Set` of every external label; the
    result is sorted by name -/
def extendLabels (ser ext : List Lbl) : List Lbl :=
  ext.foldl (fun acc l => insertLbl l acc) (ser.foldl (fun acc l => insertLbl l acc) [])

/-- the label set `TSDBStore.Series` attaches to a series when asked to strip `rl` -/
def storeLabels (rl : List String) (ext ser : List Lbl) : List Lbl :=
  extendLabels (rmLabels rl ser) (rmLabels rl ext)

def showLbls (ls : List Lbl) : String := ",".intercalate (ls.map fun l => l.1 ++ "=" ++ l.2)

structure TStore where
  ext : List Lbl
  /-- label set and chunks (in time order) of every series of the TSDB -/
  series : List (List Lbl × List (List Sample))

/-- all copies with the label set under which they reach the querier: `(labels, store, samples)` -/
def tsdbCopies (rl : List String) (stores : List TStore) : List (List Lbl × Nat × List (List Sample)) :=
  (stores.zipIdx).flatMap fun (st, i) => st.series.map fun (ls, sm) => (storeLabels rl st.ext ls, i, sm)

/-- group the copies by label set (first appearance order); the fuel is the number of copies -/
def groupCopiesF : Nat → List (List Lbl × Nat × List (List Sample)) → List (List Lbl × List (Nat × List (List Sample)))
  | 0, _ => []
  | _, [] => []
  | n + 1, (ls, i, sm) :: rest =>
    let same := rest.filter fun c => c.1 == ls
    let other := rest.filter fun c => !(c.1 == ls)
    (ls, (i, sm) :: same.map (·.2)) :: groupCopiesF n other

def groupCopies (cs : List (List Lbl × Nat × List (List Sample))) : List (List Lbl × List (Nat × List (List Sample))) :=
  groupCopiesF cs.length cs

def insertByName (kv : String × Option (List Sample)) :
    List (String × Option (List Sample)) → List (String × Option (List Sample))
  | [] => [kv]
  | x :: xs => if kv.1 ≤ x.1 then kv :: x :: xs else x :: insertByName kv xs

/-- the whole read path over TSDB-backed stores.  A series of a store is its list of chunks; HOW the
    store cuts the chunks of one series into response frames is not in the model: the read-path
    specification concatenates the frames of equal label sets (proxy: C03, stores: C08 of the
    `stores` family), so a series reaches the querier with all its chunks whatever the frame size.
    Deduplication on: the requested replica labels are stripped by the stores (or, for stores that
    do not support it, by the proxy — the same specification), copies with equal remaining labels
    form one logical series.  Off: nothing is stripped; copies with equal labels are still one
    series for the proxy. -/
def selectTSDB (seekFixed dedupOn : Bool) (rl : List String) (qmint qmaxt : Int) (stores : List TStore) :
    List (String × Option (List Sample)) :=
  let groups := groupCopies (tsdbCopies (if dedupOn then rl else []) stores)
  (groups.filterMap fun (ls, cps) =>
    let reps : List RReplica := cps.zipIdx.map fun ((st, chs), j) =>
      { rid := j, chunks := (chs.filter (!·.isEmpty)).map fun sm => { store := st, rank := 0, samples := sm } }
    let r := if dedupOn then selectDedup seekFixed qmint qmaxt { key := 0, reps := reps }
             else selectRaw qmint qmaxt { rid := 0, chunks := reps.flatMap (·.chunks) }
    r.map fun v => (showLbls ls, v)).foldr insertByName []

/-! ### the series-SET level of the penalty dedup: `dedupSeriesSet` (pkg/dedup/iter.go)

  `dedup.NewSeriesSet` receives the series of the stores in label order, every replica label
  already removed (stores / proxy specification above), and groups ADJACENT series with EQUAL
  label sets (`labels.Equal(s.lset, nextLset)` — equality of the label sets, not of a digest) into
  one output series: a single one is returned as it is, several go through `newDedupSeries`. -/

/-- a label set as `labels.Labels` holds it: sorted by name -/
def normLbls (ls : List Lbl) : List Lbl := extendLabels ls []

/-- `dedupSeriesSet.Next`/`next`: maximal runs of adjacent series with equal label sets -/
def groupAdj : List (List Lbl × List Sample) → List (List Lbl × List (List Sample))
  | [] => []
  | (ls, sm) :: rest =>
    match groupAdj rest with
    | (ls', reps) :: gs => if ls = ls' then (ls, sm :: reps) :: gs else (ls, [sm]) :: (ls', reps) :: gs
    | [] => [(ls, [sm])]

/-- the label sets under which the input series reach `dedup.NewSeriesSet` -/
def stripAll (rl : List String) (series : List (List Lbl × List Sample)) : List (List Lbl × List Sample) :=
  series.map fun s => (normLbls (rmLabels rl s.1), s.2)

/-- `dedupSeriesSet.At().Iterator(nil)` of one group -/
def groupIt (fixed : Bool) (f : String) (reps : List (List Sample)) : AnyIt :=
  match reps with
  | [] => mkF fixed f [] []
  | r :: rs => mkF fixed f r rs

/-- `dedup.NewSeriesSet(set, f, penalty)` over the given input series: label set and iterator of
    every output series, in order -/
def dedupSet (fixed : Bool) (f : String) (rl : List String) (series : List (List Lbl × List Sample)) :
    List (List Lbl × AnyIt) :=
  (groupAdj (stripAll rl series)).map fun g => (g.1, groupIt fixed f g.2)

end Thanos.Dedup
