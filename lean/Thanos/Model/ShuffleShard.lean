import Thanos.Model.Hashring
import Thanos.Model.MultiRing
/-
  pkg/receive/hashring.go — `shuffleShardHashring`: `getShardSize`, `getTenantShard`,
  `getTenantShardCached`.  Property C21.

  Conventions
  * The base ring is a list of sections (hash, endpoint index, zone), hash-sorted, as in
    `Model/Hashring.lean`.  Endpoint indices identify nodes (distinct endpoints).
  * `math/rand` is an INPUT: for every zone the op supplies the positions
    `rand.New(rand.NewSource(ShuffleShardSeed(tenant, zone))).Uint64()` draws, in order; the
    model reads the first `take` of them.
  * `filepath.Match` is an INPUT (glob tables of the overrides, as in `Model/MultiRing.lean`).
  * Go iterates the zones in map order; the picked node SET does not depend on that order and
    is what the model answers (sorted).
  * The LRU cache (hashicorp/golang-lru) is a bounded list, most recently used first.
-/
namespace Thanos.ShuffleShard
open Thanos.Hashring Thanos.MultiRing

/-- one entry of `ShuffleShardingConfig.Overrides`, seen from one tenant -/
structure Override where
  typ : MType               -- `.exact` = "exact"; `.glob` = "glob"; `.other` = anything else
  size : Nat
  tenants : List String
  glob : List GlobRes       -- filepath.Match(pattern, tenant) per pattern
  deriving DecidableEq, Repr

/-- does the override apply?  exact: `slices.Contains`; glob: some pattern matches (`err == nil && matches`,
    malformed patterns are skipped); any other matcher type: never. -/
def Override.applies (o : Override) (tenant : String) : Bool :=
  match o.typ with
  | .exact => o.tenants.contains tenant
  | .glob => o.glob.contains .yes
  | .other => false

/-- `getShardSize`: the first override that applies, else the default shard size -/
def shardSize (dflt : Nat) : List Override → String → Nat
  | [], _ => dflt
  | o :: os, tenant => if o.applies tenant then o.size else shardSize dflt os tenant

/-- `ShuffleShardExpectedInstancesPerZone`: ⌈shardSize / numZones⌉ -/
def perZone (shardSize numZones : Nat) : Nat :=
  if numZones = 0 then 0 else (shardSize + numZones - 1) / numZones

/-- `sort.Search(len(azSections), hash >= randomPos)`, wrapped to 0 -/
def searchIdx (pos : Nat) (secs : List Sec) : Nat :=
  match secs.findIdx? (fun s => decide (pos ≤ s.hash)) with
  | some i => i
  | none => 0

/-- the sections in the order `idx = (startIdx + j) % len` visits them, `j = 0 … len-1` -/
def scanFrom (secs : List Sec) (i : Nat) : List Sec := secs.drop i ++ secs.take i

/-- one iteration of `for i := 0; i < take; i++`: the endpoint of the first section from the
    random position on whose endpoint is not selected yet (none when all are selected) -/
def pickOne (secs : List Sec) (selected : List Nat) (pos : Nat) : Option Nat :=
  ((scanFrom secs (searchIdx pos secs)).find? (fun s => !selected.contains s.ep)).map (·.ep)

/-- the selection loop of one zone -/
def pickZone (secs : List Sec) : List Nat → List Nat → List Nat
  | [], selected => selected
  | pos :: rest, selected =>
    match pickOne secs selected pos with
    | some e => pickZone secs rest (selected ++ [e])
    | none => pickZone secs rest selected

/-- the nodes (endpoint indices) of a zone, in ring order without repetition -/
def zoneNodes (secs : List Sec) : List Nat := dedup (secs.map (·.ep))

inductive Shard where
  | nodes (eps : List Nat)     -- the selected endpoints, zone after zone
  | tooBig                     -- "shard size … is larger than number of nodes in AZ …"
  deriving DecidableEq, Repr

/-- `getTenantShard` up to the construction of the sub-ring.
    `zones`: the zones to iterate (one pseudo zone when zone awareness is disabled);
    `secsOf z`: the base ring's sections of zone `z`; `positions z`: the random positions of `z`. -/
def selectNodes (take : Nat) (secsOf : Nat → List Sec) (positions : Nat → List Nat) : List Nat → Shard
  | [] => .nodes []
  | z :: zs =>
    if (zoneNodes (secsOf z)).length < take then .tooBig
    else
      match selectNodes take secsOf positions zs with
      | .tooBig => .tooBig
      | .nodes rest => .nodes (pickZone (secsOf z) ((positions z).take take) [] ++ rest)

/-- the whole of `getTenantShard` before `newKetamaHashring`: zone awareness on/off -/
def tenantShard (zoneAware : Bool) (ring : List Sec) (dflt : Nat) (ovs : List Override) (tenant : String)
    (positions : Nat → List Nat) : Shard :=
  let ss := shardSize dflt ovs tenant
  if zoneAware then
    let zones := dedup (ring.map (·.az))
    selectNodes (perZone ss zones.length) (fun z => ring.filter (·.az == z)) positions zones
  else
    -- one group under the zone name "": every section, positions of the pseudo zone 0
    selectNodes ss (fun _ => ring) positions [0]

/-! ### the LRU cache of sub-rings -/

/-- cached sub-rings, most recently used first; values are whatever `compute` returns -/
abbrev Lru (α : Type) := List (String × α)

def Lru.get {α : Type} (c : Lru α) (k : String) : Option α :=
  match c with
  | [] => none
  | (k', v) :: rest => if k' = k then some v else Lru.get rest k

/-- a hit moves the entry to the front -/
def Lru.touch {α : Type} (c : Lru α) (k : String) (v : α) : Lru α := (k, v) :: c.filter (·.1 != k)

/-- `Add`: to the front; the least recently used entry is evicted beyond the capacity -/
def Lru.add {α : Type} (c : Lru α) (cap : Nat) (k : String) (v : α) : Lru α :=
  ((k, v) :: c.filter (·.1 != k)).take cap

/-- `getTenantShardCached`: errors are not cached -/
def getCached {α : Type} (compute : String → Option α) (cap : Nat) (c : Lru α) (tenant : String) :
    Option α × Lru α :=
  match c.get tenant with
  | some v => (some v, c.touch tenant v)
  | none =>
    match compute tenant with
    | some v => (some v, c.add cap tenant v)
    | none => (none, c)

def getCachedSeq {α : Type} (compute : String → Option α) (cap : Nat) : Lru α → List String → List (Option α)
  | _, [] => []
  | c, t :: ts =>
    let (r, c') := getCached compute cap c t
    r :: getCachedSeq compute cap c' ts

/-! ### ring instances and configuration updates

  `newShuffleShardHashring` constructs the LRU itself (`lru.NewWithEvict` in the constructor, stored
  in the `cache` field of the hashring): a ring instance owns its cache, which is empty when the
  instance is built.  A configuration update builds a NEW instance (same registerer and name, the
  old one still open) — only the metrics are shared between the two, never the cache. -/

/-- one shuffle shard hashring: what it computes for a tenant (its base ring and configuration),
    the capacity of its cache and the cache -/
structure Instance (α : Type) where
  compute : String → Option α
  cap : Nat
  cache : Lru α

/-- `newShuffleShardHashring` -/
def Instance.new {α : Type} (compute : String → Option α) (cap : Nat) : Instance α := ⟨compute, cap, []⟩

/-- a history of requests on an instance: the answers and the instance afterwards -/
def Instance.run {α : Type} (i : Instance α) : List String → List (Option α) × Instance α
  | [] => ([], i)
  | t :: ts =>
    let (r, c) := getCached i.compute i.cap i.cache t
    let (rs, i') := Instance.run { i with cache := c } ts
    (r :: rs, i')

/-- a configuration update: requests on the old instance, then the replacement is built (whatever
    the old one has cached) and asked; the old instance is closed in between (closing has no effect on
    the replacement's cache) -/
def update {α : Type} (old : Instance α) (histOld : List String) (computeNew : String → Option α) (capNew : Nat)
    (histNew : List String) : List (Option α) × List (Option α) :=
  let (a, _) := old.run histOld
  let (b, _) := (Instance.new computeNew capNew).run histNew
  (a, b)

end Thanos.ShuffleShard
