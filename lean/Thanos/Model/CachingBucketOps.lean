import Thanos.Model.CachingBucket
import Thanos.Model.BucketKey
/-
  C14 — pkg/store/cache/caching_bucket.go: every verb of the caching bucket over one cache.
    GetRange (cachedAttributes + cachedGetRange), Get (getReader), Exists, Attributes, Iter
    (with and without objstore.WithRecursiveIter).
  The wrapped bucket is a `World`: objects by name, and what `Iter(dir, recursive)` lists (the
  listing semantics of the object store — prefixes, delimiters — is third party: a parameter).
  The cache maps KEY STRINGS (`cachekey.BucketCacheKey.String`, Model/BucketKey.lean) to values;
  what a Fetch returns is a `view` of it (any part of what is stored: entries may be lost, evicted
  or simply not returned).  Every verb computes its keys the way the code does; Iter adjusts the
  verb to `iter-recursive` BEFORE the key is computed.
-/
namespace Thanos.CachingBucket
open Thanos.CacheKeys

inductive Val where
  | bytes (b : Bytes)
  | flag (b : Bool)
  | size (n : Nat)
  | names (l : List Str)
  deriving Repr, DecidableEq

/-- a fetched entry read as the kind of value the verb expects (anything else is a miss) -/
def asBytes : Option Val → Option Bytes
  | some (.bytes b) => some b
  | _ => none
def asFlag : Option Val → Option Bool
  | some (.flag b) => some b
  | _ => none
def asSize : Option Val → Option Nat
  | some (.size n) => some n
  | _ => none
def asNames : Option Val → Option (List Str)
  | some (.names l) => some l
  | _ => none

structure World where
  objs : List (Str × Bytes)
  list : Str → Bool → List Str      -- Iter(dir, recursive) of the wrapped bucket
  hash : Str                        -- ObjectStorageConfigHash of the Iter config

def World.obj (w : World) (name : Str) : Option Bytes := w.objs.lookup name

/-- the cache: key string ↦ value -/
abbrev KCache := List (Str × Val)

def keyOf (verb : Verb) (name : Str) (start stop : Nat) (hash : Str) : Str :=
  bucketKeyString ⟨verb, name, start, stop, hash⟩

inductive Call where
  | attributes (name : Str)
  | getRange (name : Str) (off len : Nat)
  | get (name : Str)
  | exists_ (name : Str)
  | iter (dir : Str) (recursive : Bool)
  deriving Repr, DecidableEq

inductive Ans where
  | data (b : Bytes)
  | notFound
  | bool (b : Bool)
  | size (n : Nat)
  | names (l : List Str)
  | failed
  | panic
  deriving Repr, DecidableEq

/-- how the caller consumes the reader returned by Get -/
inductive ReadMode where
  | full                    -- reads until io.EOF
  | partialRead (n : Nat)   -- reads n bytes, then Close
  | exact                   -- reads exactly size bytes without seeing io.EOF, then Close
  deriving Repr, DecidableEq

def consumed (b : Bytes) : ReadMode → Bytes
  | .full => b
  | .partialRead n => b.take n
  | .exact => b

structure KRes where
  ans : Ans
  calls : List Call                 -- calls that reached the wrapped bucket
  stores : KCache                   -- entries stored into the cache
  deriving Repr

/-- cachedAttributes: the object's size from the cache, or from the wrapped bucket (then stored) -/
def kAttrs (w : World) (name : Str) (view : Str → Option Val) : Option Nat × List Call × KCache :=
  let ak := keyOf .attrs name 0 0 []
  match asSize (view ak) with
  | some n => (some n, [], [])
  | none =>
    match w.obj name with
    | none => (none, [.attributes name], [])            -- errors are not cached
    | some b => (some b.length, [.attributes name], [(ak, .size b.length)])

/-- CachingBucket.Attributes -/
def kAttributes (w : World) (name : Str) (view : Str → Option Val) : KRes :=
  match kAttrs w name view with
  | (some n, calls, st) => ⟨.size n, calls, st⟩
  | (none, calls, st) => ⟨.notFound, calls, st⟩

/-- CachingBucket.GetRange for `off ≥ 0`, `len > 0` -/
def kGetRange (w : World) (S maxSub p : Nat) (name : Str) (off len : Nat) (view : Str → Option Val) : KRes :=
  match kAttrs w name view with
  | (none, calls, st) => ⟨.notFound, calls, st⟩          -- "failed to get object attributes"
  | (some _, calls, st) =>
    match w.obj name with
    | none => ⟨.failed, calls, st⟩       -- a size was cached for an object that is not there
    | some b =>
      let cache := fun (a e : Nat) =>
        if a < e then asBytes (view (keyOf .subrange name a e [])) else none
      let r := getRange true b S maxSub cache p off len
      ⟨match r.out with
        | .ok bs => .data bs
        | .error .panic => .panic
        | .error .failed => .failed,
       calls ++ r.reads.map (fun al => .getRange name al.1 al.2),
       st ++ r.stores.map (fun e => (keyOf .subrange name e.1.1 e.1.2 [], .bytes e.2))⟩

/-- CachingBucket.Get + getReader.Read/Close -/
def kGet (w : World) (maxSize : Nat) (name : Str) (mode : ReadMode) (view : Str → Option Val) : KRes :=
  let ck := keyOf .content name 0 0 []
  let ek := keyOf .exists_ name 0 0 []
  match asBytes (view ck) with
  | some b => ⟨.data (consumed b mode), [], []⟩                          -- served from the cache
  | none =>
    match asFlag (view ek) with
    | some false => ⟨.notFound, [], []⟩                                  -- "we know that file doesn't exist"
    | _ =>
      match w.obj name with
      | none => ⟨.notFound, [.get name], [(ek, .flag false)]⟩
      | some b =>
        -- the content is stored only when the whole object was read (io.EOF seen) and fits
        ⟨.data (consumed b mode), [.get name],
          (ek, .flag true) :: (if mode = .full ∧ b.length ≤ maxSize then [(ck, .bytes b)] else [])⟩

/-- CachingBucket.Exists -/
def kExists (w : World) (name : Str) (view : Str → Option Val) : KRes :=
  let ek := keyOf .exists_ name 0 0 []
  match asFlag (view ek) with
  | some e => ⟨.bool e, [], []⟩
  | none => ⟨.bool (w.obj name).isSome, [.exists_ name], [(ek, .flag (w.obj name).isSome)]⟩

/-- CachingBucket.Iter: the verb is `iter-recursive` for a recursive listing, and the key is
    computed from the adjusted verb -/
def kIter (w : World) (dir : Str) (recursive : Bool) (view : Str → Option Val) : KRes :=
  let key := keyOf (if recursive then .iterRecursive else .iter) dir 0 0 w.hash
  match asNames (view key) with
  | some l => ⟨.names l, [], []⟩
  | none => ⟨.names (w.list dir recursive), [.iter dir recursive], [(key, .names (w.list dir recursive))]⟩

/-! ### what the wrapped bucket itself answers -/

def bGetRange (w : World) (name : Str) (off len : Nat) : Ans :=
  match w.obj name with
  | none => .notFound
  | some b => .data (bucketGetRange b off len)

def bGet (w : World) (name : Str) (mode : ReadMode) : Ans :=
  match w.obj name with
  | none => .notFound
  | some b => .data (consumed b mode)

def bAttributes (w : World) (name : Str) : Ans :=
  match w.obj name with
  | none => .notFound
  | some b => .size b.length

/-! ### histories -/

inductive KOp where
  | getRange (name : Str) (off len p : Nat)
  | get (name : Str) (mode : ReadMode)
  | exists_ (name : Str)
  | attributes (name : Str)
  | iter (dir : Str) (recursive : Bool)
  deriving Repr, DecidableEq

structure Cfg where
  S : Nat
  maxSub : Nat
  maxGet : Nat
  deriving Repr

def kStep (w : World) (cfg : Cfg) (op : KOp) (view : Str → Option Val) : KRes :=
  match op with
  | .getRange name off len p => kGetRange w cfg.S cfg.maxSub p name off len view
  | .get name mode => kGet w cfg.maxGet name mode view
  | .exists_ name => kExists w name view
  | .attributes name => kAttributes w name view
  | .iter dir recursive => kIter w dir recursive view

def bStep (w : World) : KOp → Ans
  | .getRange name off len _ => bGetRange w name off len
  | .get name mode => bGet w name mode
  | .exists_ name => .bool (w.obj name).isSome
  | .attributes name => bAttributes w name
  | .iter dir recursive => .names (w.list dir recursive)

/-- run a history; every op sees its own view of the cache -/
def kRun (w : World) (cfg : Cfg) : List (KOp × (Str → Option Val)) → KCache → List Ans
  | [], _ => []
  | (op, view) :: rest, c =>
    let r := kStep w cfg op view
    r.ans :: kRun w cfg rest (c ++ r.stores)

end Thanos.CachingBucket
