import Thanos.Model.CachingBucket
/-
  C14 — pkg/store/cache/caching_bucket.go: Get (getReader), Exists, Attributes, Iter.
  One object name in a wrapped bucket: `obj = some bytes` (present) or `none` (absent); one
  directory listing `listing` (names as numbers).  The cache holds, per verb, nothing or one
  entry; what a Fetch returns is decided per call by `see…` flags (an entry may be lost, evicted
  or just not returned).  Answers are canonical: `data bytes | notFound | bool | size | names`.
-/
namespace Thanos.CachingBucket

structure OpsCache where
  content : Option Bytes        -- "content:<name>"
  exist : Option Bool           -- "exists:<name>"
  attrs : Option Nat            -- "attrs:<name>" (the size; LastModified is carried along unchanged)
  iter : Option (List Nat)      -- "iter:<dir>:<hash>"
  deriving Repr, DecidableEq

def OpsCache.empty : OpsCache := ⟨none, none, none, none⟩

inductive Ans where
  | data (b : Bytes)
  | notFound
  | bool (b : Bool)
  | size (n : Nat)
  | names (l : List Nat)
  deriving Repr, DecidableEq

/-- how the caller consumes the reader returned by Get -/
inductive ReadMode where
  | full           -- reads until io.EOF
  | partialRead (n : Nat)   -- reads n bytes (n < size), then Close
  | exact          -- reads exactly size bytes without seeing io.EOF, then Close
  deriving Repr, DecidableEq

structure OpRes where
  ans : Ans
  calls : List String           -- calls that reached the wrapped bucket
  cache : OpsCache
  deriving Repr

/-- what the consumer gets out of a reader over `b` -/
def consumed (b : Bytes) : ReadMode → Bytes
  | .full => b
  | .partialRead n => b.take n
  | .exact => b

/-- CachingBucket.Get + getReader.Read/Close.  `seeContent`, `seeExist`: what the Fetch of
    [contentKey, existsKey] returns of the stored entries. -/
def opGet (obj : Option Bytes) (maxSize : Nat) (mode : ReadMode) (seeContent seeExist : Bool) (c : OpsCache) : OpRes :=
  match (if seeContent then c.content else none) with
  | some b => ⟨.data (consumed b mode), [], c⟩               -- served from the cache
  | none =>
    match (if seeExist then c.exist else none) with
    | some false => ⟨.notFound, [], c⟩                       -- "we know that file doesn't exist"
    | _ =>
      match obj with
      | none => ⟨.notFound, ["Get"], { c with exist := some false }⟩
      | some b =>
        let c := { c with exist := some true }
        -- the content is stored only when the whole object was read (io.EOF seen) and fits
        let c := if mode = .full ∧ b.length ≤ maxSize then { c with content := some b } else c
        ⟨.data (consumed b mode), ["Get"], c⟩

/-- CachingBucket.Exists -/
def opExists (obj : Option Bytes) (seeExist : Bool) (c : OpsCache) : OpRes :=
  match (if seeExist then c.exist else none) with
  | some e => ⟨.bool e, [], c⟩
  | none => ⟨.bool obj.isSome, ["Exists"], { c with exist := some obj.isSome }⟩

/-- CachingBucket.Attributes (cachedAttributes) -/
def opAttributes (obj : Option Bytes) (seeAttrs : Bool) (c : OpsCache) : OpRes :=
  match (if seeAttrs then c.attrs else none) with
  | some n => ⟨.size n, [], c⟩
  | none =>
    match obj with
    | none => ⟨.notFound, ["Attributes"], c⟩                 -- errors are not cached
    | some b => ⟨.size b.length, ["Attributes"], { c with attrs := some b.length }⟩

/-- CachingBucket.Iter -/
def opIter (listing : List Nat) (seeIter : Bool) (c : OpsCache) : OpRes :=
  match (if seeIter then c.iter else none) with
  | some l => ⟨.names l, [], c⟩
  | none => ⟨.names listing, ["Iter"], { c with iter := some listing }⟩

/-- what the wrapped bucket itself answers -/
def bucketGet (obj : Option Bytes) (mode : ReadMode) : Ans :=
  match obj with
  | none => .notFound
  | some b => .data (consumed b mode)

def bucketAttributes (obj : Option Bytes) : Ans :=
  match obj with
  | none => .notFound
  | some b => .size b.length

end Thanos.CachingBucket
