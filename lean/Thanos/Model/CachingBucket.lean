/-
  C14 — pkg/store/cache/caching_bucket.go
    cachedGetRange, fetchMissingSubranges, mergeRanges, subrangesReader.Read
  An object is its byte list; the underlying bucket answers `GetRange(off, len)` with
  `obj[off, min(off+len, size))` (the objstore contract, as the in-memory bucket implements it).
  The cache is an arbitrary partial function from subrange keys `(start, end)` to bytes; the
  theorems assume it *honest* (what it returns for a key is the object's slice for that key —
  any subset of what was ever stored, i.e. losses and evictions are allowed).
  Offsets that the Go code keeps in int64 and that can go negative are `Int` here.
-/
namespace Thanos.CachingBucket

abbrev Bytes := List Nat

/-- `obj[a:b]` cut at the end of the object -/
def slice (obj : Bytes) (a b : Nat) : Bytes := (obj.drop a).take (b - a)

/-- the wrapped bucket's GetRange for `length > 0` -/
def bucketGetRange (obj : Bytes) (off len : Nat) : Bytes := slice obj off (min (off + len) obj.length)

structure Rng where
  start : Nat
  stop : Nat
  deriving Repr, DecidableEq

/-- the loop of `mergeRanges`: `cur` is `input[last]` -/
def mergeGo (limit : Nat) : Rng → List Rng → List Rng
  | cur, [] => [cur]
  | cur, r :: rs =>
    if r.start ≤ cur.stop + limit then mergeGo limit ⟨cur.start, r.stop⟩ rs
    else cur :: mergeGo limit r rs

/-- mergeRanges(input, limit) -/
def mergeRanges (limit : Nat) : List Rng → List Rng
  | [] => []
  | r :: rs => mergeGo limit r rs

/-- `for limit := S; maxSub > 0 && len(missing) > maxSub; limit *= 2 { missing = mergeRanges(missing, limit) }`
    (`maxSub = 0` stands for every `MaxSubRequests ≤ 0`: no limit) -/
def mergeUntil (maxSub : Nat) : Nat → Nat → List Rng → List Rng
  | 0, _, m => m
  | f + 1, limit, m =>
    if maxSub > 0 ∧ m.length > maxSub then mergeUntil maxSub f (limit * 2) (mergeRanges limit m) else m

inductive Err where
  | panic        -- a Go run-time panic (negative make, slice bounds)
  | failed       -- an error result
  deriving Repr, DecidableEq

/-- `for off := lo; off < hi; off += S` -/
def offsetsFrom (S : Nat) : Nat → Nat → Nat → List Nat
  | 0, _, _ => []
  | f + 1, lo, hi => if lo < hi then lo :: offsetsFrom S f (lo + S) hi else []

def offsets (S lo hi : Nat) : List Nat := offsetsFrom S (hi - lo) lo hi

/-- the goroutine body of fetchMissingSubranges for one merged range: the subranges it yields -/
def fetchRange (obj : Bytes) (S : Nat) (lastOff : Int) (lastLen : Nat) (m : Rng) :
    Except Err (List (Nat × Bytes)) :=
  let r := bucketGetRange obj m.start (m.stop - m.start)
  let bufSize : Int :=
    if lastOff ≥ m.stop then (m.stop : Int) - m.start else ((m.stop : Int) - m.start) - S + lastLen
  if bufSize < 0 then .error .panic else          -- make([]byte, bufSize)
  if (r.length : Int) < bufSize then .error .failed else   -- io.ReadFull: unexpected EOF
  let buf := r.take bufSize.toNat
  (offsets S m.start m.stop).mapM fun off =>
    let a := off - m.start
    let b := if (off : Int) = lastOff then a + lastLen else a + S
    if b > buf.length then .error .panic        -- slice bounds out of range
    else .ok (off, (buf.drop a).take (b - a))

structure Fetched where
  hits : List (Nat × Bytes)        -- the `hits` map after fetching, keyed by subrange offset
  reads : List (Nat × Nat)         -- GetRange(start, length) calls on the wrapped bucket
  stores : List ((Nat × Nat) × Bytes)   -- subrange keys (start, end) and data stored into the cache
  deriving Repr

/-- the subranges fetched for the merged ranges, in order; only keys not yet in `hits` are kept
    and stored (`if _, ok := hits[key]; !ok`).  The goroutines of the Go code run in parallel;
    the merged ranges are disjoint, so the order does not matter. -/
def fetchAll (obj : Bytes) (S : Nat) (lastOff : Int) (lastLen : Nat) :
    List Rng → Fetched → Except Err Fetched
  | [], acc => .ok acc
  | m :: ms, acc =>
    match fetchRange obj S lastOff lastLen m with
    | .error e => .error e
    | .ok subs =>
      let fresh := subs.filter fun (off, _) => (acc.hits.lookup off).isNone
      fetchAll obj S lastOff lastLen ms
        { hits := acc.hits ++ fresh
          reads := acc.reads ++ [(m.start, m.stop - m.start)]
          stores := acc.stores ++ fresh.map fun (off, d) => ((off, min (off + S) obj.length), d) }

/-- subrangesReader.Read with a buffer of `p` bytes; `remaining : Int` as in the code -/
def readStep (S : Nat) (hits : List (Nat × Bytes)) (p : Nat) (readOffset : Nat) (remaining : Int) :
    Except Err (Option (Bytes × Nat × Int)) :=      -- none = io.EOF
  if remaining ≤ 0 then .ok none else
  let cur := (readOffset / S) * S
  match hits.lookup cur with
  | none => .error .failed                          -- "subrange for offset %d not found"
  | some sub =>
    let offsetIn := readOffset - cur
    if sub.length ≤ offsetIn then .error .failed    -- "no more data left in subrange"
    else
      let toCopy := min (min (sub.length - offsetIn) p) remaining.toNat
      .ok (some ((sub.drop offsetIn).take toCopy, readOffset + toCopy, remaining - toCopy))

/-- read until EOF with buffers of `p ≥ 1` bytes -/
def readAll (S : Nat) (hits : List (Nat × Bytes)) (p : Nat) : Nat → Nat → Int → Except Err Bytes
  | 0, _, _ => .error .failed        -- fuel exhausted (cannot happen: every Read copies ≥ 1 byte)
  | f + 1, readOffset, remaining =>
    match readStep S hits p readOffset remaining with
    | .error e => .error e
    | .ok none => .ok []
    | .ok (some (bs, ro, rem)) =>
      match readAll S hits p f ro rem with
      | .error e => .error e
      | .ok rest => .ok (bs ++ rest)

structure Result where
  out : Except Err Bytes
  reads : List (Nat × Nat)
  stores : List ((Nat × Nat) × Bytes)
  deriving Repr

/-- cachedGetRange (after the attributes lookup, which yields `size = obj.length`), for
    `off ≥ 0`, `len > 0`, subrange size `S ≥ 1`.  `guard = true` is the repaired code (a request
    that starts at or past the end of the object is passed to the wrapped bucket), `false` the
    code as it was. -/
def getRange (guard : Bool) (obj : Bytes) (S maxSub : Nat) (cache : Nat → Nat → Option Bytes)
    (p off len : Nat) : Result :=
  let size := obj.length
  if guard ∧ off ≥ size then ⟨.ok (bucketGetRange obj off len), [(off, len)], []⟩ else
  let endPos := min (off + len) size                 -- offset + (adjusted) length
  let length : Int := (endPos : Int) - off           -- may be negative
  let startRange := (off / S) * S
  let endRange := (endPos / S) * S + (if endPos % S > 0 then S else 0)
  let lastOff : Int := if endRange > size then ((size / S) * S : Nat) else (endRange : Int) - S
  let lastLen : Nat := if endRange > size then size - (size / S) * S else S
  -- numSubranges := (endRange - startRange) / S; make([]string, 0, numSubranges)
  if endRange < startRange then ⟨.error .panic, [], []⟩ else
  let offs := offsets S startRange endRange
  let hits0 : List (Nat × Bytes) := offs.filterMap fun o =>
    (cache o (min (o + S) size)).map fun b => (o, b)
  let fetched : Except Err Fetched :=
    if hits0.length < offs.length then
      let missing := (offs.filter fun o => (hits0.lookup o).isNone).map fun o => (⟨o, o + S⟩ : Rng)
      let merged := mergeUntil maxSub (endRange + 2) S (mergeRanges 0 missing)
      fetchAll obj S lastOff lastLen merged ⟨hits0, [], []⟩
    else .ok ⟨hits0, [], []⟩
  match fetched with
  | .error e => ⟨.error e, [], []⟩
  | .ok f => ⟨readAll S f.hits p (length.toNat + 1) off length, f.reads, f.stores⟩

end Thanos.CachingBucket
