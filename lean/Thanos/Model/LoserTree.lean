/-
  pkg/losertree/tree.go — transliteration (C03).

  A sequence is the list of the elements it still has to deliver; `Next()`/`At()` of a sequence is
  "pop the head".  Nodes live in a list indexed as in the Go slice: leaves at `n … 2n-1`, internal
  nodes `1 … n-1`, node 0 holds the winner.  `index = -1` is the Go sentinel (node 0: "not yet
  initialised", leaf: "exhausted").  The `close` callback is logged in `closed` (leaf positions, in
  call order) because C17 cares about who is closed when.  Core Lean only.
-/
namespace Thanos.LoserTree

structure Node (E : Type) where
  index : Int
  value : E
  items : List E
  deriving Repr

structure Tree (E : Type) where
  maxVal : E
  less : E → E → Bool
  nodes : List (Node E)
  closed : List Nat

variable {E : Type}

def getNode (t : Tree E) (i : Nat) : Node E :=
  match t.nodes[i]? with
  | some n => n
  | none => { index := -1, value := t.maxVal, items := [] }   -- never reached: indices stay < 2n

def setNode (t : Tree E) (i : Nat) (n : Node E) : Tree E := { t with nodes := t.nodes.set i n }

/-- `moveNext(index)` -/
def moveNext (t : Tree E) (i : Nat) : Tree E × Bool :=
  let n := getNode t i
  match n.items with
  | x :: rest => (setNode t i { n with value := x, items := rest }, true)
  | [] => ({ setNode t i { n with value := t.maxVal, index := -1 } with closed := t.closed ++ [i] }, false)

/-- `playGame(pos)`; `fuel` bounds the recursion depth (≤ number of nodes) -/
def playGame : (fuel : Nat) → Tree E → Nat → Tree E × Nat
  | 0, t, pos => (t, pos)
  | fuel + 1, t, pos =>
    if pos ≥ t.nodes.length / 2 then (t, pos)
    else
      let (t1, left) := playGame fuel t (pos * 2)
      let (t2, right) := playGame fuel t1 (pos * 2 + 1)
      let (loser, winner) :=
        if t2.less (getNode t2 left).value (getNode t2 right).value then (right, left) else (left, right)
      let np := getNode t2 pos
      (setNode t2 pos { np with index := (loser : Int), value := (getNode t2 loser).value }, winner)

/-- `initialize()` -/
def initTree (t : Tree E) : Tree E :=
  let (t1, winner) := playGame t.nodes.length t 1
  let n0 := getNode t1 0
  setNode t1 0 { n0 with index := (winner : Int), value := (getNode t1 winner).value }

/-- the loop of `replayGames`: `n` is the current ancestor -/
def replayLoop : (fuel : Nat) → Tree E → (n pos : Nat) → (winning : E) → Tree E × Nat × E
  | 0, t, _, pos, w => (t, pos, w)
  | fuel + 1, t, n, pos, w =>
    if n = 0 then (t, pos, w)
    else
      let node := getNode t n
      if t.less node.value w then
        replayLoop fuel (setNode t n { node with index := (pos : Int), value := w }) (n / 2) node.index.toNat node.value
      else replayLoop fuel t (n / 2) pos w

/-- `replayGames(pos)` -/
def replayGames (t : Tree E) (pos : Nat) : Tree E :=
  let (t1, p, w) := replayLoop t.nodes.length t (pos / 2) pos (getNode t pos).value
  let n0 := getNode t1 0
  setNode t1 0 { n0 with index := (p : Int), value := w }

/-- `New(sequences, maxVal, at, less, close)` -/
def new (seqs : List (List E)) (maxVal : E) (less : E → E → Bool) : Tree E :=
  let n := seqs.length
  let blank : Node E := { index := 0, value := maxVal, items := [] }
  let t0 : Tree E := { maxVal := maxVal, less := less, closed := [],
                       nodes := (List.replicate n blank) ++ seqs.map (fun s => { blank with items := s }) }
  let t1 := (List.range n).foldl (fun t i => (moveNext t (i + n)).1) t0
  if n > 0 then setNode t1 0 { getNode t1 0 with index := -1 } else t1

/-- `Next()` -/
def next (t : Tree E) : Tree E × Bool :=
  if t.nodes.length = 0 then (t, false)
  else if (getNode t 0).index = -1 then
    let t1 := initTree t
    (t1, (getNode t1 (getNode t1 0).index.toNat).index ≠ -1)
  else
    let w := (getNode t 0).index.toNat
    if (getNode t w).index = -1 then (t, false)
    else
      let (t1, _) := moveNext t w
      let t2 := replayGames t1 w
      (t2, (getNode t2 (getNode t2 0).index.toNat).index ≠ -1)

/-- `At()` -/
def cur (t : Tree E) : E := (getNode t 0).value

/-- call `Next` until it says false, collecting `At()`; `fuel` ≥ total number of elements + 1 -/
def drain : (fuel : Nat) → Tree E → List E × Tree E
  | 0, t => ([], t)
  | fuel + 1, t =>
    let (t1, ok) := next t
    if ok then
      let (xs, t2) := drain fuel t1
      (cur t1 :: xs, t2)
    else ([], t1)

/-- the merged sequence the tree produces from `seqs` -/
def merge (seqs : List (List E)) (maxVal : E) (less : E → E → Bool) : List E :=
  (drain ((seqs.map List.length).sum + 1) (new seqs maxVal less)).1

end Thanos.LoserTree
