import Thanos.Model.Labels
import Thanos.Model.BlockSet
/-
  Specification-level model of a store (C07, C08, C10): what `Series`, `LabelNames` and `LabelValues`
  answer, for the local TSDB store (`pkg/store/tsdb.go`) and the object-storage store gateway
  (`pkg/store/bucket.go`), as functions of the stored series.  Nothing of the index/chunk file
  formats, postings, caches, batching, lazy expansion, partitioning or sampling occurs here — that is the
  content of C10: the implementation must answer like this specification whatever those settings are.

  Names are ranks, values are ranks with `0` = empty (see `Model/Labels.lean`).  A matcher is its truth
  table on the values of the case (regex semantics are third-party): `neg = false` accepts exactly the
  listed values, `neg = true` everything else.
-/
namespace Thanos.StoreSpec
open Thanos.Labels

structure Matcher where
  name : Nat
  neg : Bool
  vals : List Nat
  deriving Repr

def Matcher.ok (m : Matcher) (v : Nat) : Bool := if m.neg then !(m.vals.contains v) else m.vals.contains v

structure Chunk where
  mint : Int
  maxt : Int
  id : Nat
  deriving Repr, DecidableEq

structure Series where
  lset : Labels
  chunks : List Chunk
  deriving Repr

/-- a TSDB block with its Thanos external labels (for the TSDB store: the whole database) -/
structure Block where
  ext : Labels
  mint : Int
  maxt : Int
  series : List Series
  /-- downsampling resolution of the block (0 raw, 300000 5m, 3600000 1h) -/
  res : Int
  deriving Repr

structure Req where
  mint : Int
  maxt : Int
  matchers : List Matcher
  without : List Nat
  skipChunks : Bool
  /-- some matcher is `__name__="…"` (`MatchEqual`): LabelValues then adds no `label!=""` matcher -/
  nameEq : Bool
  /-- `MaxResolutionWindow` of a Series request -/
  maxRes : Int
  deriving Repr

/-- `bucketBlockSet.labelMatchers`, `bucketBlock.FilterExtLabelsMatchers`, `matchesExternalLabels`:
    matchers on an external label are answered by the external value (dropped when it is accepted, the
    whole store/block is skipped when not); the others are kept for the stored labels -/
def filterExt (ext : Labels) : List Matcher → Option (List Matcher)
  | [] => some []
  | m :: r =>
    let v := get ext m.name
    if v = 0 then (filterExt ext r).map (m :: ·)
    else if m.ok v then filterExt ext r else none

def matchesAll (ms : List Matcher) (lset : Labels) : Bool := ms.all (fun m => m.ok (get lset m.name))

/-- `decodeSeriesForTime`: chunk metas in index order, stop at the first chunk that starts after the range,
    keep those that end at or after its start -/
def chunksForTime : List Chunk → Int → Int → List Chunk
  | [], _, _ => []
  | c :: cs, mint, maxt =>
    if c.mint > maxt then []
    else if c.maxt ≥ mint then c :: chunksForTime cs mint maxt
    else chunksForTime cs mint maxt

abbrev Entry := Labels × List Chunk

/-- series of one block for the residual matchers `ms` (non-empty), labels completed by `serve` -/
def selectSeries (serve : Labels → Labels) (ms : List Matcher) (series : List Series) (mint maxt : Int) : List Entry :=
  series.filterMap fun s =>
    if matchesAll ms s.lset then
      let cs := chunksForTime s.chunks mint maxt
      if cs.isEmpty then none else some (serve s.lset, cs)
    else none

/-- `blockSeriesClient` over one block: no residual matcher → no postings → no series -/
def blockSeries (R : List Nat) (b : Block) (r : Req) : List Entry :=
  match filterExt b.ext r.matchers with
  | none => []
  | some [] => []
  | some ms => selectSeries (serveBucket R b.ext) ms b.series r.mint r.maxt

/-- blocks `getFor` selects when every block has the same (raw) resolution — C15 — and blocks the label
    calls look at (`overlapsClosedInterval`): the same predicate -/
def blockOverlaps (b : Block) (mint maxt : Int) : Bool := b.mint ≤ maxt ∧ mint < b.maxt

inductive Res (α : Type) where
  | ok (a : α)
  | invalid
  deriving Repr

def distinctLabels : List Labels → List Labels
  | [] => []
  | l :: ls => l :: (distinctLabels ls).filter (· != l)

/-- positions and blocks with the given external labels, as `BlockSet` blocks (the id is the position) -/
def groupBlocks (ext : Labels) : Nat → List Block → List BlockSet.Block
  | _, [] => []
  | i, b :: bs =>
    if b.ext == ext then ⟨i, b.res, b.mint, b.maxt, true⟩ :: groupBlocks ext (i + 1) bs
    else groupBlocks ext (i + 1) bs

/-- what `getFor` selects in the block set of one external label set (C15; the repaired `getFor`) -/
def selectedIn (blocks : List Block) (r : Req) (ext : Labels) : List Block :=
  let set := (BlockSet.addAll BlockSet.empty (groupBlocks ext 0 blocks)).1
  match BlockSet.getFor true true set r.mint r.maxt r.maxRes with
  | some sel => sel.filterMap (fun x => blocks[x.id]?)
  | none => []

/-- the blocks `BucketStore.Series` reads: per set of blocks with equal external labels what `getFor` selects for
    the range and the maximum resolution of the request (nothing for an inverted range; the label calls look
    at every block that overlaps instead) -/
def selected (blocks : List Block) (r : Req) : List Block :=
  (distinctLabels (blocks.map (·.ext))).flatMap (selectedIn blocks r)

/-- `BucketStore.Series` before merging: entries of all selected blocks -/
def bucketSeries (blocks : List Block) (r : Req) : List Entry :=
  (selected blocks r).flatMap (blockSeries r.without · r)

/-- `TSDBStore.Series` -/
def tsdbSeries (db : Block) (r : Req) : Res (List Entry) :=
  match filterExt db.ext r.matchers with
  | none => .ok []
  | some [] => .invalid
  | some ms => .ok (selectSeries (serveTSDB r.without db.ext) ms db.series r.mint r.maxt)

/-! ### sorted lists of ranks -/

def insertNat (x : Nat) : List Nat → List Nat
  | [] => [x]
  | y :: ys => if x < y then x :: y :: ys else if x = y then y :: ys else y :: insertNat x ys

/-- sorted, repeats kept -/
def insertNatDup (x : Nat) : List Nat → List Nat
  | [] => [x]
  | y :: ys => if x ≤ y then x :: y :: ys else y :: insertNatDup x ys

def sortNatsDup (xs : List Nat) : List Nat := xs.foldr insertNatDup []

/-- sorted, without repeats -/
def canonNats (xs : List Nat) : List Nat := xs.foldr insertNat []

/-! ### label names -/

def allNames (series : List Series) : List Nat := series.flatMap (fun s => s.lset.map (·.1))

def extNames (R : List Nat) (ext : Labels) : List Nat := (ext.map (·.1)).filter (fun n => !(R.contains n))

/-- `BucketStore.LabelNames` for one block -/
def blockLabelNames (b : Block) (r : Req) : List Nat :=
  match filterExt b.ext r.matchers with
  | none => []
  | some [] => allNames b.series ++ extNames r.without b.ext
  | some ms => (selectSeries (serveBucket r.without b.ext) ms b.series r.mint r.maxt).flatMap (fun e => e.1.map (·.1))

def bucketLabelNames (blocks : List Block) (r : Req) : List Nat :=
  (blocks.filter (blockOverlaps · r.mint r.maxt)).flatMap (blockLabelNames · r)

/-- `TSDBStore.LabelNames`: the block querier's names — stored names of the series that satisfy the residual
    matchers, whatever their chunks (the querier intersects postings, it does not look at chunk ranges) —
    without repeats, then the external names not asked to be dropped are appended when there is any name at
    all, and the whole is sorted (an external name that is also a stored name appears twice) -/
def tsdbLabelNames (db : Block) (r : Req) : List Nat :=
  match filterExt db.ext r.matchers with
  | none => []
  | some ms =>
    let res := canonNats (allNames (db.series.filter fun s => matchesAll ms s.lset))
    if res.isEmpty then [] else res ++ extNames r.without db.ext

/-! ### label values -/

def allValues (series : List Series) (l : Nat) : List Nat :=
  series.filterMap fun s => lookup s.lset l

def nonEmpty (l : Nat) : Matcher := ⟨l, true, [0]⟩

/-- `BucketStore.LabelValues` for one block -/
def blockLabelValues (b : Block) (r : Req) (l : Nat) : List Nat :=
  match filterExt b.ext r.matchers with
  | none => []
  | some ms0 =>
    let ms := if !r.nameEq && !ms0.isEmpty && !(hasName b.ext l) then ms0 ++ [nonEmpty l] else ms0
    if ms.isEmpty then
      allValues b.series l ++ (if get b.ext l = 0 then [] else [get b.ext l])
    else
      -- blockSeriesClient is built without labels to remove here
      ((selectSeries (serveBucket [] b.ext) ms b.series r.mint r.maxt).map (fun e => get e.1 l)).filter (· != 0)

def bucketLabelValues (blocks : List Block) (r : Req) (l : Nat) : List Nat :=
  if r.without.contains l then [] else
  (blocks.filter (blockOverlaps · r.mint r.maxt)).flatMap (blockLabelValues · r l)

/-- `TSDBStore.LabelValues` (the empty label name is refused before) -/
def tsdbLabelValues (db : Block) (r : Req) (l : Nat) : List Nat :=
  if r.without.contains l then [] else
  match filterExt db.ext r.matchers with
  | none => []
  | some ms =>
    let v := get db.ext l
    if v != 0 then
      if ms.isEmpty then [v]
      else if (db.series.any fun s => matchesAll ms s.lset && !(chunksForTime s.chunks r.mint r.maxt).isEmpty) then [v] else []
    else allValues (db.series.filter fun s => matchesAll ms s.lset) l

/-! ### canonical forms (what both sides print) -/

/-- `labels.Compare` on ranks: lexicographic over (name, value), a proper prefix first -/
def lexLt : Labels → Labels → Bool
  | [], [] => false
  | [], _ :: _ => true
  | _ :: _, [] => false
  | (a, v) :: r, (b, w) :: s =>
    if a < b then true else if b < a then false
    else if v < w then true else if w < v then false
    else lexLt r s

/-- group by label set (sorted by `lexLt`), chunk ids of equal label sets united -/
def insertEntry (l : Labels) (ids : List Nat) : List (Labels × List Nat) → List (Labels × List Nat)
  | [] => [(l, canonNats ids)]
  | (k, js) :: rest =>
    if lexLt l k then (l, canonNats ids) :: (k, js) :: rest
    else if l = k then (k, canonNats (ids ++ js)) :: rest
    else (k, js) :: insertEntry l ids rest

def canonSeries (es : List Entry) : List (Labels × List Nat) :=
  es.foldr (fun e acc => insertEntry e.1 (e.2.map (·.id)) acc) []

end Thanos.StoreSpec

/-! ### request limits (C09): what `BucketStore.Series` reserves, without lazy expanded postings -/

namespace Thanos.StoreSpec
open Thanos.Labels

/-- `blockSeriesClient.ExpandPostings`: the series limiter is charged the number of expanded postings — every
    series of the block that satisfies the residual matchers, whatever its chunks — `0` when there is no
    residual matcher or the block's external labels are contradicted -/
def blockSeriesReserved (b : Block) (r : Req) : Nat :=
  match filterExt b.ext r.matchers with
  | none => 0
  | some [] => 0
  | some ms => (b.series.filter fun s => matchesAll ms s.lset).length

/-- `blockSeriesClient.nextBatch`: the chunks limiter is charged the chunk metas in range of every served series -/
def blockChunksReserved (R : List Nat) (b : Block) (r : Req) : Nat :=
  if r.skipChunks then 0 else ((blockSeries R b r).map (fun e => e.2.length)).sum

def seriesReserved (blocks : List Block) (r : Req) : Nat :=
  ((selected blocks r).map (blockSeriesReserved · r)).sum

def chunksReserved (blocks : List Block) (r : Req) : Nat :=
  ((selected blocks r).map (blockChunksReserved r.without · r)).sum

/-- what the series limiter is charged for one block on either path of `blockSeriesClient`: eagerly
    (`ExpandPostings`) the expanded postings; with lazily expanded postings (`nextBatch`, after every batch,
    whether or not chunks are skipped) the series that were matched and are served -/
def blockSeriesReservedMode (lazy : Bool) (R : List Nat) (b : Block) (r : Req) : Nat :=
  if lazy then (blockSeries R b r).length else blockSeriesReserved b r

/-- `lazy b`: did the optimizer expand the postings of block `b` lazily (it decides per block and request) -/
def seriesReservedMode (lazy : Block → Bool) (blocks : List Block) (r : Req) : Nat :=
  ((selected blocks r).map (fun b => blockSeriesReservedMode (lazy b) r.without b r)).sum

/-- the expanded postings of (block, matchers) — what is cached under a key without time range: every series of
    the block that satisfies the matchers, whatever its chunks -/
def expandedPostings (ms : List Matcher) (series : List Series) : List Series :=
  series.filter (fun s => matchesAll ms s.lset)

inductive Limited (α : Type) where
  | ok (a : α)
  | exhausted
  deriving Repr

/-- the limiters see one reservation per block (series) and per served series (chunks), in some order; the
    request fails iff a reservation is refused, which depends on the sums only (`Props/C09`) -/
def bucketSeriesLimited (seriesLimit chunksLimit : Nat) (blocks : List Block) (r : Req) : Limited (List Entry) :=
  if seriesLimit ≠ 0 ∧ seriesReserved blocks r > seriesLimit then .exhausted
  else if chunksLimit ≠ 0 ∧ chunksReserved blocks r > chunksLimit then .exhausted
  else .ok (bucketSeries blocks r)

def countSeries (es : List Entry) : Nat := (canonSeries es).length
def countChunks (es : List Entry) : Nat := ((canonSeries es).map (fun e => e.2.length)).sum

end Thanos.StoreSpec

/-! ### the proxy in front of several stores (C07): `pkg/store/proxy.go` ProxyStore.Series / LabelNames /
    LabelValues without selector labels and with the default TSDB selector (no extra matchers are added) -/

namespace Thanos.StoreSpec
open Thanos.Labels

/-- a store behind the proxy: what it advertises (label sets, time range) and what it serves -/
structure Client where
  /-- `true`: a TSDBStore over the first block; `false`: a BucketStore over all blocks -/
  tsdb : Bool
  blocks : List Block
  lsets : List Labels
  mint : Int
  maxt : Int
  deriving Repr

/-- `LabelSetsMatch`: some advertised label set is not contradicted by the matchers (a store without label
    sets always matches) -/
def labelSetsMatch (ms : List Matcher) (lsets : List Labels) : Bool :=
  lsets.isEmpty || lsets.any (fun ls => ms.all (fun m => !(hasName ls m.name) || m.ok (get ls m.name)))

/-- `storeMatches`: time ranges overlap and the label sets match -/
def clientMatches (c : Client) (r : Req) : Bool :=
  !(decide (r.mint > c.maxt) || decide (r.maxt < c.mint)) && labelSetsMatch r.matchers c.lsets

def clientSeries (c : Client) (r : Req) : Res (List Entry) :=
  if c.tsdb then
    match c.blocks with
    | db :: _ => tsdbSeries db r
    | [] => .ok []
  else .ok (bucketSeries c.blocks r)

def clientEntries (c : Client) (r : Req) : List Entry :=
  match clientSeries c r with
  | .ok es => es
  | .invalid => []

def clientFails (c : Client) (r : Req) : Bool :=
  match clientSeries c r with
  | .ok _ => false
  | .invalid => true

def clientNames (c : Client) (r : Req) : List Nat :=
  if c.tsdb then
    match c.blocks with
    | db :: _ => tsdbLabelNames db r
    | [] => []
  else bucketLabelNames c.blocks r

def clientValues (c : Client) (r : Req) (l : Nat) : List Nat :=
  if c.tsdb then
    match c.blocks with
    | db :: _ => tsdbLabelValues db r l
    | [] => []
  else bucketLabelValues c.blocks r l

inductive PRes where
  | ok (es : List Entry)
  | invalid
  | aborted
  deriving Repr

/-- `ProxyStore.Series` (partial response strategy ABORT): refuses a request without matchers, asks the matching
    stores, fails when one of them fails, merges the rest -/
def proxySeries (clients : List Client) (r : Req) : PRes :=
  if r.matchers.isEmpty then .invalid else
  let cs := clients.filter (clientMatches · r)
  if cs.any (clientFails · r) then .aborted else .ok (cs.flatMap (clientEntries · r))

/-- `strutil.mergeTwoStringSlices` (no limit): merge of two sorted lists; equal heads are emitted once, repeats
    inside one list stay -/
def mergeTwo : List Nat → List Nat → List Nat
  | [], ys => ys
  | x :: xs, ys => aux x xs (mergeTwo xs) ys
where
  aux (x : Nat) (xs : List Nat) (rec : List Nat → List Nat) : List Nat → List Nat
    | [] => x :: xs
    | y :: ys =>
      if x < y then x :: rec (y :: ys)
      else if y < x then y :: aux x xs rec ys
      else x :: rec ys

/-- `strutil.MergeSlices` (no limit): split in halves, merge the merged halves; `fuel` ≥ number of lists -/
def mergeSlices : Nat → List (List Nat) → List Nat
  | _, [] => []
  | _, [a] => a
  | 0, _ => []
  | fuel + 1, as =>
    let l := as.length / 2
    mergeTwo (mergeSlices fuel (as.take l)) (mergeSlices fuel (as.drop l))

/-- the answer of one store as it arrives at the proxy (sorted; the TSDB store may repeat a name) -/
def clientNamesAnswer (c : Client) (r : Req) : List Nat :=
  if c.tsdb then sortNatsDup (clientNames c r) else canonNats (clientNames c r)

def clientValuesAnswer (c : Client) (r : Req) (l : Nat) : List Nat := canonNats (clientValues c r l)

/-- `ProxyStore.LabelNames`: `MergeUnsortedSlices` of the answers of the matching stores -/
def proxyLabelNames (clients : List Client) (r : Req) : List Nat :=
  let answers := (clients.filter (clientMatches · r)).map (clientNamesAnswer · r)
  mergeSlices answers.length answers

def proxyLabelValues (clients : List Client) (r : Req) (l : Nat) : List Nat :=
  let answers := (clients.filter (clientMatches · r)).map (clientValuesAnswer · r l)
  mergeSlices answers.length answers

def minOf : List Int → Int → Int
  | [], d => d
  | x :: xs, d => minOf xs (if x < d then x else d)

def maxOf : List Int → Int → Int
  | [], d => d
  | x :: xs, d => maxOf xs (if x > d then x else d)

/-- the composition the harness builds: the TSDB store of the first block and the store gateway of all blocks -/
def standardClients (blocks : List Block) : List Client :=
  match blocks with
  | [] => []
  | b :: _ =>
    [⟨true, blocks, [b.ext], b.mint, b.maxt⟩,
     ⟨false, blocks, distinctLabels (blocks.map (·.ext)), minOf (blocks.map (·.mint)) b.mint, maxOf (blocks.map (·.maxt)) b.maxt⟩]

end Thanos.StoreSpec

/-! ### external labels replaced at run time (`TSDBStore.SetExtLset`, done by receive on a hashring reload) -/

namespace Thanos.StoreSpec
open Thanos.Labels

/-- a TSDB store: its data and its CURRENT external labels — the store keeps no other copy of them -/
structure TStore where
  data : Block
  ext : Labels
  deriving Repr

def TStore.new (db : Block) : TStore := ⟨db, db.ext⟩

/-- `SetExtLset` -/
def TStore.setExt (s : TStore) (ext : Labels) : TStore := { s with ext := ext }

/-- the block the three calls see: the data under the current external labels -/
def TStore.view (s : TStore) : Block := { s.data with ext := s.ext }

def TStore.series (s : TStore) (r : Req) : Res (List Entry) := tsdbSeries s.view r
def TStore.labelNames (s : TStore) (r : Req) : List Nat := tsdbLabelNames s.view r
def TStore.labelValues (s : TStore) (r : Req) (l : Nat) : List Nat := tsdbLabelValues s.view r l

end Thanos.StoreSpec
