/-
  C16 — pkg/block/indexheader/lazy_binary_reader.go (+ reader_pool.go closeIdleReaders)
  An interleaving model of the lock logic of LazyBinaryReader.
    * every Reader method:   RLock; load(); use r.reader; (deferred) RUnlock
    * load():                reader != nil ⇒ return; readerErr != nil ⇒ return it; RUnlock; Lock;
                             both tests again; NewBinaryReader; on failure r.readerErr = err and
                             return; r.reader = reader; (deferred) Unlock; RLock; no error and
                             reader == nil ⇒ errUnloadedWhileLoading
    * unloadIfIdleSince(ts): Lock; reader == nil ⇒ return; not idle ⇒ errNotIdle;
                             r.reader.Close(); r.reader = nil; (deferred) Unlock
    * isIdleSince:           RLock; read r.reader; RUnlock
  Each thread repeats the call of its kind for ever; a schedule is a list of thread ids; a step of
  a blocked thread leaves the state unchanged.  `sync.RWMutex` is modelled by its safety
  semantics, derived from the program counters of the threads: RLock is possible when no thread
  holds the write lock, Lock when no thread holds any lock.  A loaded BinaryReader is a
  *generation* number; `Close` puts it into `closed`.  Dereferencing a nil reader or using a
  closed generation sets `bad`.  Which attempts of NewBinaryReader fail is decided by the
  environment: `failAt` lists the attempt numbers (= value of the load counter) that fail.
-/
namespace Thanos.LazyReader

inductive Kind where
  | reader                     -- any Reader method (PostingsOffsets, LabelValues, …)
  | unloader (idle : Bool)     -- unloadIfIdleSince; `idle = false`: the usedAt test says "not idle"
  | probe                      -- isIdleSince
  deriving Repr, DecidableEq

inductive PC where
  | idle                       -- between calls (holds nothing)
  | rl1                        -- holds R: in load(), before the first `r.reader != nil` test
  | fast                       -- holds R: load() returned nil; about to call r.reader.X()
  | wantW                      -- did RUnlock, waits for Lock (holds nothing)
  | w                          -- holds W: before the re-check / NewBinaryReader
  | wDone                      -- holds W: load body done, deferred Unlock pending
  | wantR2                     -- did Unlock, waits for RLock (holds nothing): unload may run here
  | recheck                    -- holds R: `if returnErr == nil && r.reader == nil`
  | wDoneE                     -- as wDone, load body ended with an error (returnErr ≠ nil)
  | wantR2E                    -- as wantR2, with the error
  | recheckE                   -- as recheck, with the error: the method returns it
  | inUse (g : Nat)            -- holds R: inside r.reader.X() on generation g
  | consuming (g : Nat)        -- holds nothing: the caller reads an answer that points into generation g
  | uW                         -- unloader holds W
  | uDone                      -- unloader holds W, body done
  | pR                         -- probe holds R
  deriving Repr, DecidableEq

def holdsR : PC → Bool
  | .rl1 | .fast | .recheck | .recheckE | .inUse _ | .pR => true
  | _ => false

def holdsW : PC → Bool
  | .w | .wDone | .wDoneE | .uW | .uDone => true
  | _ => false

structure Thread where
  kind : Kind
  pc : PC
  deriving Repr, DecidableEq

inductive Event where
  | ok (g : Nat)               -- a Reader method answered from generation g
  | errUnloaded                -- errUnloadedWhileLoading
  | loadErr                    -- the error of a failed NewBinaryReader (this call's or an earlier one's)
  | unloaded (g : Nat)
  | noop                       -- unload of an unloaded reader
  | notIdle
  | probed (loaded : Bool)
  deriving Repr, DecidableEq

structure State where
  reader : Option Nat          -- r.reader (generation), none = nil
  nextGen : Nat
  closed : List Nat            -- generations whose Close() ran
  threads : List Thread
  bad : Bool                   -- a nil / closed reader was dereferenced
  loads : Nat
  unloads : Nat
  log : List (Nat × Event)
  readerErr : Bool := false    -- r.readerErr != nil
  failAt : List Nat := []      -- attempts of NewBinaryReader that fail (environment)
  loadFails : Nat := 0
  deriving Repr

def init (kinds : List Kind) : State :=
  ⟨none, 0, [], kinds.map fun k => ⟨k, .idle⟩, false, 0, 0, [], false, [], 0⟩

/-- … in an environment where the listed load attempts fail -/
def initF (kinds : List Kind) (failAt : List Nat) : State := { init kinds with failAt := failAt }

/-- RLock succeeds: nobody holds the write lock -/
def canR (ts : List Thread) : Bool := ts.all fun t => !holdsW t.pc
/-- Lock succeeds: nobody holds any lock -/
def canW (ts : List Thread) : Bool := ts.all fun t => !holdsW t.pc && !holdsR t.pc

/-- `recheckNil = true` is the code as it is (`load` re-checks `r.reader == nil` after taking the
    read lock again); `false` is the variant without that re-check.
    `alias = true` is a Reader method whose answer points into the loaded header (LabelValues
    before the repair: strings into the mmapped file), so that the caller still touches generation
    `g` after the read lock is released; `false`: answers are values (copies). -/
def step (recheckNil alias : Bool) (s : State) (i : Nat) : State :=
  match s.threads[i]? with
  | none => s
  | some t =>
    let goto (pc : PC) (s : State) : State := { s with threads := s.threads.set i { t with pc := pc } }
    let emit (e : Event) (s : State) : State := { s with log := s.log ++ [(i, e)] }
    match t.kind, t.pc with
    | .reader, .idle => if canR s.threads then goto .rl1 s else s
    | .reader, .rl1 =>
      if s.reader.isSome then goto .fast s
      else if s.readerErr then goto .idle (emit .loadErr s)
      else goto .wantW s
    | .reader, .wantW => if canW s.threads then goto .w s else s
    | .reader, .w =>
      match s.reader with
      | some _ => goto .wDone s
      | none =>
        if s.readerErr then goto .wDoneE s
        else if s.failAt.contains s.loads then
          goto .wDoneE { s with readerErr := true, loads := s.loads + 1, loadFails := s.loadFails + 1 }
        else goto .wDone { s with reader := some s.nextGen, nextGen := s.nextGen + 1, loads := s.loads + 1 }
    | .reader, .wDone => goto .wantR2 s
    | .reader, .wantR2 => if canR s.threads then goto .recheck s else s
    | .reader, .wDoneE => goto .wantR2E s
    | .reader, .wantR2E => if canR s.threads then goto .recheckE s else s
    | .reader, .recheckE => goto .idle (emit .loadErr s)
    | .reader, .recheck =>
      if recheckNil && s.reader.isNone then goto .idle (emit .errUnloaded s) else goto .fast s
    | .reader, .fast =>
      match s.reader with
      | none => goto .idle { s with bad := true }
      | some g => if s.closed.contains g then goto .idle { s with bad := true } else goto (.inUse g) s
    | .reader, .inUse g =>
      if s.closed.contains g || s.reader != some g then goto .idle { s with bad := true }
      else if alias then goto (.consuming g) (emit (.ok g) s)
      else goto .idle (emit (.ok g) s)
    | .reader, .consuming g =>
      if s.closed.contains g then goto .idle { s with bad := true } else goto .idle s
    | .unloader _, .idle => if canW s.threads then goto .uW s else s
    | .unloader idle, .uW =>
      match s.reader with
      | none => goto .uDone (emit .noop s)
      | some g =>
        if idle then
          goto .uDone (emit (.unloaded g) { s with closed := g :: s.closed, reader := none, unloads := s.unloads + 1 })
        else goto .uDone (emit .notIdle s)
    | .unloader _, .uDone => goto .idle s
    | .probe, .idle => if canR s.threads then goto .pR s else s
    | .probe, .pR => goto .idle (emit (.probed s.reader.isSome) s)
    | _, _ => s

def run (recheckNil alias : Bool) (s : State) : List Nat → State
  | [] => s
  | i :: is => run recheckNil alias (step recheckNil alias s i) is

/-- run thread `i` until it is back at `idle` (a whole call, nothing interleaved) -/
def call (recheckNil alias : Bool) : Nat → State → Nat → State
  | 0, s, _ => s
  | f + 1, s, i =>
    let s' := step recheckNil alias s i
    match s'.threads[i]? with
    | some t => if t.pc = .idle then s' else call recheckNil alias f s' i
    | none => s'

end Thanos.LazyReader
