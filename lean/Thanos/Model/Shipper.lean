import Thanos.Model.Bucket
/-
  Model/Shipper.lean — C35: pkg/shipper/shipper.go  Shipper.Sync / Shipper.upload /
  lazyOverlapChecker, on top of the bucket model (block.Upload = `uploadScript`).

  State: the bucket and the shipper meta file (`thanos.shipper.json`: list of uploaded ULIDs, or
  unreadable/absent).  The local TSDB directory is fixed (blocks are immutable): a list of blocks
  sorted by MinTime ("blockMetasFromOldest").  External labels are constant and not modelled
  (the harness's oracle compares the labels in the uploaded meta.json).

  Crash budget as in Model/Bucket.lean: after `k` mutating bucket calls every bucket call fails.
  The local file write cannot fail in the model (local file system faults are out of scope).
-/
namespace Thanos.Shipper
open Thanos.Bucket

structure LBlock where
  id : Nat
  minT : Int
  maxT : Int
  level : Nat          -- Compaction.Level
  samples : Nat        -- Stats.NumSamples
  files : Block
  deriving DecidableEq, Repr

structure Cfg where
  uploadCompacted : Bool
  allowOOO : Bool      -- allowOutOfOrderUploads
  deriving DecidableEq, Repr

/-- does the block take part in uploading at all (not empty, level 1 or compacted uploads on) -/
def eligible (cfg : Cfg) (b : LBlock) : Bool :=
  b.samples != 0 && (b.level ≤ 1 || cfg.uploadCompacted)

/-- block numbers that have at least one object in the bucket, first occurrence order -/
def dirsOf : Bucket → List Nat
  | [] => []
  | ((n, _), _) :: s => n :: (dirsOf s).filter (· ≠ n)

/-- pairwise form of `tsdb.OverlappingBlocks` (on ranges with distinct MinTimes): some range
    starts inside another -/
def overlapping (rs : List (Int × Int)) : Bool :=
  rs.any fun a => rs.any fun b => decide (a ≠ b ∧ a.1 ≤ b.1 ∧ b.1 < a.2)

def rangeOf (locals : List LBlock) (n : Nat) : Option (Int × Int) :=
  (locals.find? (·.id = n)).map fun b => (b.minT, b.maxT)

/-- `lazyOverlapChecker.sync`: list the bucket, download every block's meta.json.
    `skipPartial = true` (the code after the repair): a block directory without meta.json — a
    partial upload — is skipped; `false` (the code before): it makes the whole sync fail. -/
def collectRanges (locals : List LBlock) (s : Bucket) : List Nat → Option (List (Int × Int))
  | [] => some []
  | n :: ns =>
    if (get s (n, metaName)).isSome then
      match rangeOf locals n, collectRanges locals s ns with
      | some r, some rs => some (r :: rs)
      | _, _ => none
    else none

def checkerSyncWith (skipPartial : Bool) (locals : List LBlock) (s : Bucket) : Option (List (Int × Int)) :=
  collectRanges locals s ((dirsOf s).filter fun n => !skipPartial || (get s (n, metaName)).isSome)

/-- what the code does now (switched by the `fix:` commit; fact `shipperCheckerSkipsPartial`) -/
def codeSkipPartial : Bool := true

def checkerSync (locals : List LBlock) (s : Bucket) : Option (List (Int × Int)) :=
  checkerSyncWith codeSkipPartial locals s

structure Acc where
  budget : Option Nat
  bkt : Bucket
  uploaded : List Nat                        -- meta.Uploaded, rebuilt
  checker : Option (List (Int × Int))        -- lazyOverlapChecker.metas once synced
  uploadErrs : Nat
  trace : List Op
  deriving Repr

inductive Step where
  | cont (a : Acc)
  | abort (a : Acc)          -- `return uploaded, err` before the meta file is written
  deriving Repr

def spend (b : Option Nat) (n : Nat) : Option Nat := b.map (· - n)

/-- `checker.IsOverlapping` for a compacted block when out-of-order uploads are not allowed:
    `none` = the check fails (overlap, or the lazy sync of the checker failed),
    `some c` = passed, `c` is the checker's state afterwards -/
def overlapCheck (cfg : Cfg) (locals : List LBlock) (b : LBlock) (a : Acc) : Option (Option (List (Int × Int))) :=
  if b.level > 1 ∧ cfg.allowOOO = false then
    match a.checker with
    | some ms => if overlapping ((b.minT, b.maxT) :: ms) then none else some (some ms)
    | none =>
      match checkerSync locals a.bkt with
      | none => none
      | some ms => if overlapping ((b.minT, b.maxT) :: ms) then none else some (some ms)
  else some a.checker

/-- `s.upload` (= `block.Upload` of the hard-linked copy) and the bookkeeping after it -/
def doUpload (cfg : Cfg) (b : LBlock) (a : Acc) (checker' : Option (List (Int × Int))) : Step :=
  let r := exec a.budget (uploadScript codeUploadOrder b.id b.files) a.bkt
  let a' : Acc := { a with budget := spend a.budget r.trace.length, bkt := r.bkt,
                           trace := a.trace ++ r.trace, checker := checker' }
  if r.ok then .cont { a' with uploaded := a'.uploaded ++ [b.id] }
  else if cfg.allowOOO = false then .abort a'
  else .cont { a' with uploadErrs := a'.uploadErrs + 1 }

/-- one iteration of the loop over local blocks in `Sync` -/
def stepBlock (cfg : Cfg) (locals : List LBlock) (hasUploaded : List Nat) (b : LBlock) (a : Acc) : Step :=
  if hasUploaded.contains b.id then .cont { a with uploaded := a.uploaded ++ [b.id] }
  else if b.samples = 0 then .cont a
  else if b.level > 1 ∧ cfg.uploadCompacted = false then .cont a
  else if crashed a.budget then .abort a                                  -- Exists fails
  else if (get a.bkt (b.id, metaName)).isSome then .cont { a with uploaded := a.uploaded ++ [b.id] }
  else
    match overlapCheck cfg locals b a with
    | none => .abort a
    | some checker' => doUpload cfg b a checker'

def Step.acc : Step → Acc
  | .cont a => a
  | .abort a => a

def loop (cfg : Cfg) (locals : List LBlock) (hasUploaded : List Nat) : List LBlock → Acc → Step
  | [], a => .cont a
  | b :: rest, a =>
    match stepBlock cfg locals hasUploaded b a with
    | .abort a' => .abort a'
    | .cont a' => loop cfg locals hasUploaded rest a'

structure State where
  bkt : Bucket
  file : Option (List Nat)       -- none: no / unreadable thanos.shipper.json
  deriving Repr

structure SyncRes where
  ok : Bool                      -- Sync returned a nil error
  trace : List Op
  st : State
  deriving Repr

/-- `Shipper.Sync` -/
def sync (cfg : Cfg) (locals : List LBlock) (budget : Option Nat) (st : State) : SyncRes :=
  let hasUploaded := st.file.getD []
  match loop cfg locals hasUploaded locals ⟨budget, st.bkt, [], none, 0, []⟩ with
  | .abort a => ⟨false, a.trace, ⟨a.bkt, st.file⟩⟩
  | .cont a => ⟨a.uploadErrs = 0, a.trace, ⟨a.bkt, some a.uploaded⟩⟩

end Thanos.Shipper
