import Thanos.Model.Bucket
/-
  Model/Shipper.lean — C35: pkg/shipper/shipper.go  Shipper.Sync / Shipper.upload /
  lazyOverlapChecker, on top of the bucket model (block.Upload = `uploadScript`).

  State: the bucket and the shipper meta file (`thanos.shipper.json`: list of uploaded ULIDs, or
  unreadable/absent).  The local TSDB directory is fixed (blocks are immutable): a list of blocks
  sorted by MinTime ("blockMetasFromOldest").  External labels are numbers ("label versions"):
  the value of the `WithLabels` callback during one Sync is part of `Cfg` (`lcur`, and optionally a
  switch to another value after a number of mutating bucket calls of that Sync — the callback is
  dynamic in the sidecar); the state records, per block, the label version in its bucket meta.json.

  Faults of the bucket during one Sync (`Fault`): a crash budget as in Model/Bucket.lean (after `k`
  mutating bucket calls every bucket call fails) and/or a transient failure (exactly the `j`-th
  bucket call of the Sync — reads and writes counted from 0 — fails, all others pass).
  The local file write cannot fail in the model (local file system faults are out of scope).
-/
namespace Thanos.Shipper
open Thanos.Bucket

structure LBlock where
  id : Nat
  minT : Int
  maxT : Int
  level : Nat          -- Compaction.Level
  samples : Nat        -- Stats.NumSamples
  files : Block
  deriving DecidableEq, Repr

/-- the configuration of ONE Sync: the two flags and what the external-labels callback returns
    while it runs -/
structure Cfg where
  uploadCompacted : Bool
  allowOOO : Bool      -- allowOutOfOrderUploads
  lcur : Nat                      -- value of the labels callback when the Sync starts
  lswitch : Option (Nat × Nat)    -- some (k, v): after k mutating bucket calls of this Sync it returns v
  deriving DecidableEq, Repr

/-- `s.labels()` called when `n` mutating bucket calls of the Sync have been made -/
def labelNow (cfg : Cfg) (n : Nat) : Nat :=
  match cfg.lswitch with
  | some (k, v) => if k ≤ n then v else cfg.lcur
  | none => cfg.lcur

def lookupL (m : List (Nat × Nat)) (id : Nat) : Option Nat := (m.find? (·.1 = id)).map (·.2)
def setL (m : List (Nat × Nat)) (id v : Nat) : List (Nat × Nat) := (id, v) :: m.filter (·.1 ≠ id)

/-- does the block take part in uploading at all (not empty, level 1 or compacted uploads on) -/
def eligible (cfg : Cfg) (b : LBlock) : Bool :=
  b.samples != 0 && (b.level ≤ 1 || cfg.uploadCompacted)

/-- block numbers that have at least one object in the bucket, first occurrence order -/
def dirsOf : Bucket → List Nat
  | [] => []
  | ((n, _), _) :: s => n :: (dirsOf s).filter (· ≠ n)

/-- pairwise form of `tsdb.OverlappingBlocks` (on ranges with distinct MinTimes): some range
    starts inside another -/
def overlapping (rs : List (Int × Int)) : Bool :=
  rs.any fun a => rs.any fun b => decide (a ≠ b ∧ a.1 ≤ b.1 ∧ b.1 < a.2)

def rangeOf (locals : List LBlock) (n : Nat) : Option (Int × Int) :=
  (locals.find? (·.id = n)).map fun b => (b.minT, b.maxT)

/-- `lazyOverlapChecker.sync`: list the bucket, download every block's meta.json.
    `skipPartial = true` (the code after the repair): a block directory without meta.json — a
    partial upload — is skipped; `false` (the code before): it makes the whole sync fail. -/
def collectRanges (locals : List LBlock) (s : Bucket) : List Nat → Option (List (Int × Int))
  | [] => some []
  | n :: ns =>
    if (get s (n, metaName)).isSome then
      match rangeOf locals n, collectRanges locals s ns with
      | some r, some rs => some (r :: rs)
      | _, _ => none
    else none

def checkerSyncWith (skipPartial : Bool) (locals : List LBlock) (s : Bucket) : Option (List (Int × Int)) :=
  collectRanges locals s ((dirsOf s).filter fun n => !skipPartial || (get s (n, metaName)).isSome)

/-- what the code does now (switched by the `fix:` commit; fact `shipperCheckerSkipsPartial`) -/
def codeSkipPartial : Bool := true

def checkerSync (locals : List LBlock) (s : Bucket) : Option (List (Int × Int)) :=
  checkerSyncWith codeSkipPartial locals s

/-- … and keeps the blocks whose meta.json carries the shipper's current external labels -/
def checkerSyncL (locals : List LBlock) (s : Bucket) (lbl : List (Nat × Nat)) (cur : Nat) : Option (List (Int × Int)) :=
  match checkerSyncWith codeSkipPartial locals s with
  | none => none
  | some _ =>
    collectRanges locals s ((dirsOf s).filter fun n =>
      (!codeSkipPartial || (get s (n, metaName)).isSome) && lookupL lbl n == some cur)

/-- the faults of the bucket during one Sync -/
structure Fault where
  budget : Option Nat      -- crash budget: mutating calls that still reach the bucket (none = no crash)
  trans : Option Nat       -- transient failure: bucket calls that still pass before the one that fails
  deriving DecidableEq, Repr

def Fault.none : Fault := ⟨Option.none, Option.none⟩

/-- does the next bucket call fail? -/
def Fault.hit (f : Fault) : Bool := crashed f.budget || f.trans == some 0
/-- after a call that failed: a transient failure is used up, a crash stays -/
def Fault.afterHit (f : Fault) : Fault := ⟨f.budget, if crashed f.budget then f.trans else Option.none⟩
/-- after a read that passed -/
def Fault.pass (f : Fault) : Fault := ⟨f.budget, f.trans.map (· - 1)⟩
/-- after a mutating call that passed -/
def Fault.passMut (f : Fault) : Fault := ⟨dec f.budget, f.trans.map (· - 1)⟩
/-- `n` reads in a row (the lazy sync of the overlap checker): `none` if one of them fails -/
def Fault.passReads (f : Fault) (n : Nat) : Option Fault :=
  if crashed f.budget then Option.none else
  match f.trans with
  | Option.none => some f
  | some t => if t < n then Option.none else some ⟨f.budget, some (t - n)⟩

/-- the interpreter of call scripts under a `Fault`; returns the fault state afterwards -/
def execF (f : Fault) : List Call → Bucket → Res × Fault
  | [], s => (⟨true, [], s⟩, f)
  | .rd :: cs, s => if f.hit then (⟨false, [], s⟩, f.afterHit) else execF f.pass cs s
  | .mu op :: cs, s =>
    if f.hit then (⟨false, [], s⟩, f.afterHit) else
    let r := execF f.passMut cs (apply s op)
    (⟨r.1.ok, op :: r.1.trace, r.1.bkt⟩, r.2)
  | .muIgn op :: cs, s =>
    if f.hit then execF f.afterHit cs s else
    let r := execF f.passMut cs (apply s op)
    (⟨r.1.ok, op :: r.1.trace, r.1.bkt⟩, r.2)

structure Acc where
  fault : Fault
  bkt : Bucket
  uploaded : List Nat                        -- meta.Uploaded, rebuilt
  checker : Option (List (Int × Int))        -- lazyOverlapChecker.metas once synced
  uploadErrs : Nat
  trace : List Op
  lbl : List (Nat × Nat)                     -- block ↦ label version in its bucket meta.json
  deriving Repr

inductive Step where
  | cont (a : Acc)
  | abort (a : Acc)          -- `return uploaded, err` before the meta file is written
  deriving Repr

/-- `checker.IsOverlapping` for a compacted block when out-of-order uploads are not allowed:
    `none` = the check fails (overlap, or the lazy sync of the checker failed — also because one
    of its reads failed), `some (c, f)` = passed, `c` is the checker's state and `f` the fault state
    afterwards.  The lazy sync issues one listing and one Get per block directory. -/
def overlapCheck (cfg : Cfg) (locals : List LBlock) (b : LBlock) (a : Acc) :
    Option (Option (List (Int × Int)) × Fault) :=
  if b.level > 1 ∧ cfg.allowOOO = false then
    match a.checker with
    | some ms => if overlapping ((b.minT, b.maxT) :: ms) then none else some (some ms, a.fault)
    | none =>
      match a.fault.passReads (1 + (dirsOf a.bkt).length) with
      | none => none
      | some f' =>
        match checkerSyncL locals a.bkt a.lbl (labelNow cfg a.trace.length) with
        | none => none
        | some ms => if overlapping ((b.minT, b.maxT) :: ms) then none else some (some ms, f')
  else some (a.checker, a.fault)

/-- the chunk phase of `block.upload` (`objstore.UploadDir`): every segment file is attempted —
    a failed one does not stop the others (the error surfaces when the directory is done) -/
def chunkCalls (n : Nat) (b : Block) : List Call :=
  b.chunks.map fun p => .muIgn (.put (n, p.1) (.data p.2))

/-- the rest of `block.upload`: index, then meta.json; the first failure aborts -/
def tailCalls (n : Nat) (b : Block) : List Call :=
  [.mu (.put (n, indexName) (.data b.index)), .mu (.put (n, metaName) b.metaObj)]

/-- `block.Upload` under a `Fault`: (ok, calls that reached the bucket, bucket, fault afterwards) -/
def uploadF (f : Fault) (n : Nat) (b : Block) (s : Bucket) : Res × Fault :=
  let r1 := execF f (chunkCalls n b) s
  if r1.1.trace.length < b.chunks.length then (⟨false, r1.1.trace, r1.1.bkt⟩, r1.2)
  else
    let r2 := execF r1.2 (tailCalls n b) r1.1.bkt
    (⟨r2.1.ok, r1.1.trace ++ r2.1.trace, r2.1.bkt⟩, r2.2)

/-- `s.upload` (= `block.Upload` of the hard-linked copy) and the bookkeeping after it -/
def doUpload (cfg : Cfg) (b : LBlock) (a : Acc) (checker' : Option (List (Int × Int))) (f : Fault) : Step :=
  let r := uploadF f b.id b.files a.bkt
  let a' : Acc := { a with fault := r.2, bkt := r.1.bkt, trace := a.trace ++ r.1.trace, checker := checker' }
  -- `upload` attaches `s.labels()` to the meta before block.Upload issues its first call
  if r.1.ok then .cont { a' with uploaded := a'.uploaded ++ [b.id], lbl := setL a.lbl b.id (labelNow cfg a.trace.length) }
  else if cfg.allowOOO = false then .abort a'
  else .cont { a' with uploadErrs := a'.uploadErrs + 1 }

/-- one iteration of the loop over local blocks in `Sync` -/
def stepBlock (cfg : Cfg) (locals : List LBlock) (hasUploaded : List Nat) (b : LBlock) (a : Acc) : Step :=
  if hasUploaded.contains b.id then .cont { a with uploaded := a.uploaded ++ [b.id] }
  else if b.samples = 0 then .cont a
  else if b.level > 1 ∧ cfg.uploadCompacted = false then .cont a
  else if a.fault.hit then .abort { a with fault := a.fault.afterHit }      -- Exists fails
  else
    let a1 : Acc := { a with fault := a.fault.pass }
    if (get a.bkt (b.id, metaName)).isSome then .cont { a1 with uploaded := a.uploaded ++ [b.id] }
    else
      match overlapCheck cfg locals b a1 with
      | none => .abort a1
      | some (checker', f) => doUpload cfg b a1 checker' f

def Step.acc : Step → Acc
  | .cont a => a
  | .abort a => a

def loop (cfg : Cfg) (locals : List LBlock) (hasUploaded : List Nat) : List LBlock → Acc → Step
  | [], a => .cont a
  | b :: rest, a =>
    match stepBlock cfg locals hasUploaded b a with
    | .abort a' => .abort a'
    | .cont a' => loop cfg locals hasUploaded rest a'

structure State where
  bkt : Bucket
  file : Option (List Nat)       -- none: no / unreadable thanos.shipper.json
  lbl : List (Nat × Nat)         -- block ↦ label version in its bucket meta.json
  deriving Repr

structure SyncRes where
  ok : Bool                      -- Sync returned a nil error
  trace : List Op
  st : State
  deriving Repr

/-- `Shipper.Sync` -/
def sync (cfg : Cfg) (locals : List LBlock) (fault : Fault) (st : State) : SyncRes :=
  let hasUploaded := st.file.getD []
  match loop cfg locals hasUploaded locals ⟨fault, st.bkt, [], none, 0, [], st.lbl⟩ with
  | .abort a => ⟨false, a.trace, ⟨a.bkt, st.file, a.lbl⟩⟩
  | .cont a => ⟨a.uploadErrs = 0, a.trace, ⟨a.bkt, some a.uploaded, a.lbl⟩⟩

end Thanos.Shipper
