/-
  C45 — pkg/rules/rules.go : matches, filterRulesByMatchers, removeReplicaLabels, dedupRules,
  dedupGroups and the pipeline of GRPCClient.Rules (core Lean only).

  Third-party semantics are inputs: what Go's text/template parser makes of a label value (`PClass`) and what a matcher answers on a value (`pred`, built by the driver
  from `=`/`!=` natively and from a truth table supplied by Go for `=~`/`!~`).
-/
namespace Thanos.Rules

/-- What Go's `text/template` parser makes of a label value on a FRESH template (an input):
    * `plain`      — non-empty tree that is one text node;
    * `templ`      — non-empty tree of any other shape (actions, text + actions, …);
    * `err`        — parse error;
    * `emptyText`  — a tree `parse.IsEmptyTree` calls empty that is one text node (white space only);
    * `emptyOther` — an empty tree without a text node (`""`, comment only, `{{define}}` only). -/
inductive PClass where
  | plain | templ | err | emptyText | emptyOther
  deriving Repr, DecidableEq

/-- "err == nil && len(Root.Nodes) == 1 && Root.Nodes[0] is text" on a fresh template -/
def PClass.ownText : PClass → Bool
  | .plain | .emptyText => true
  | _ => false

structure Label where
  name : String
  value : String
  cls : PClass
  deriving Repr, DecidableEq

structure Matcher where
  name : String
  pred : String → Bool

abbrev LSet := List (String × String)

/-- `labels.Labels.Get`: value of the first label with that name, `""` if absent -/
def get (l : LSet) (n : String) : String :=
  match l.find? (fun p => p.1 == n) with
  | some p => p.2
  | none => ""

/-- the labels whose value is one text node — the specification's "non-templated labels", and
    what `matches` copies into the builder once every value is parsed on its own template -/
def nonTemplated (l : List Label) : LSet :=
  (l.filter (fun x => x.cls.ownText)).map (fun x => (x.name, x.value))

/-- `matches` before the repair parses every value with ONE shared `template.New("label")`:
    `Parse` does not replace an installed tree by an empty one, so for a value with an empty tree
    the test looks at the tree of an earlier label.  `st` = is the installed tree one text node
    (`none`: nothing installed yet). -/
def nonTemplatedStale : Option Bool → List Label → LSet
  | _, [] => []
  | st, x :: xs =>
    match x.cls with
    | .err => nonTemplatedStale st xs
    | .plain => (x.name, x.value) :: nonTemplatedStale (some true) xs
    | .templ => nonTemplatedStale (some false) xs
    | .emptyText | .emptyOther =>
      let eff := match st with | none => x.cls.ownText | some b => b
      (if eff then [(x.name, x.value)] else []) ++ nonTemplatedStale (some eff) xs

def setMatches (nt : LSet) (s : List Matcher) : Bool := s.all (fun m => m.pred (get nt m.name))

/-- the loop of `matches` before the repair: every matcher of EVERY set has to match. -/
def matchesAnd (sets : List (List Matcher)) (nt : LSet) : Bool :=
  if sets.isEmpty then true else sets.all (setMatches nt)

/-- Prometheus semantics (and the loop after the repair): all matchers of AT LEAST ONE set. -/
def matchesAny (sets : List (List Matcher)) (nt : LSet) : Bool :=
  if sets.isEmpty then true else sets.any (setMatches nt)

/-- the specification: the non-templated labels satisfy all selectors of at least one set -/
def matchesOr (sets : List (List Matcher)) (l : List Label) : Bool := matchesAny sets (nonTemplated l)

/-- `matches` of the code.  `fixedLoop = false`: the loop as it was (return false on the first
    failing matcher of any set); `true`: the repaired loop (return true on the first set whose
    matchers all match).  `freshTmpl = false`: one template shared by all labels of the rule (as it
    was); `true`: a new template per label value. -/
def codeMatches (fixedLoop freshTmpl : Bool) (sets : List (List Matcher)) (l : List Label) : Bool :=
  let nt := if freshTmpl then nonTemplated l else nonTemplatedStale none l
  if fixedLoop then matchesAny sets nt else matchesAnd sets nt

/-! ### rules and groups -/

inductive Kind where
  | alert | recording
  deriving Repr, DecidableEq

structure Rule where
  kind : Kind
  name : String
  query : String
  dur : Int          -- Alert.DurationSeconds (integer valued); 0 for recording rules
  state : Nat        -- AlertState: 0 inactive, 1 pending, 2 firing; 0 for recording rules
  lastEval : Int     -- LastEvaluation, seconds
  labels : List Label
  deriving Repr, DecidableEq

structure Group where
  file : String
  name : String
  rules : List Rule
  deriving Repr, DecidableEq

def Rule.lset (r : Rule) : LSet := r.labels.map (fun x => (x.name, x.value))

/-- the identity of a rule as `Rule.Compare` sees it: type (alerts first), name, labels, query
    and, for alerting rules, the duration -/
abbrev RKey := Nat × String × LSet × String × Int

def Rule.key (r : Rule) : RKey :=
  (match r.kind with | .alert => 0 | .recording => 1, r.name, r.lset, r.query,
   match r.kind with | .alert => r.dur | .recording => 0)

attribute [local instance] lexOrd in
/-- `Rule.Compare`: lexicographic on the key (`labels.Compare` is the lexicographic order on
    (name, value) pairs, shorter first) -/
def ruleCmp (a b : Rule) : Ordering := compareOn Rule.key a b

def ruleLe (a b : Rule) : Bool := (ruleCmp a b).isLE

/-- `Alert.Compare` / `RecordingRule.Compare` > 0: `a` is worse than `b` (less critical state, or
    same state and evaluated earlier) -/
def worse (a b : Rule) : Bool :=
  match a.kind with
  | .alert => decide (a.state < b.state) || (a.state == b.state && decide (a.lastEval < b.lastEval))
  | .recording => decide (a.lastEval < b.lastEval)

/-- `removeReplicaLabels` -/
def removeReplica (repl : List String) (r : Rule) : Rule :=
  { r with labels := r.labels.filter (fun x => !repl.contains x.name) }

/-- the compaction loop of `dedupRules` over the sorted slice: `cur` is `rules[i]` -/
def dedupLoop (same : α → α → Bool) (wrs : α → α → Bool) : α → List α → List α
  | cur, [] => [cur]
  | cur, x :: xs =>
    if !same cur x then cur :: dedupLoop same wrs x xs
    else if wrs cur x then dedupLoop same wrs x xs
    else dedupLoop same wrs cur xs

def dedupSorted (same : α → α → Bool) (wrs : α → α → Bool) : List α → List α
  | [] => []
  | x :: xs => dedupLoop same wrs x xs

def sameRule (a b : Rule) : Bool := ruleCmp a b == .eq

/-- `dedupRules`; `sort.Slice` is modelled by a (stable) merge sort — the theorems hold for any
    sorted permutation -/
def dedupRules (repl : List String) (rs : List Rule) : List Rule :=
  dedupSorted sameRule worse ((rs.map (removeReplica repl)).mergeSort ruleLe)

/-- `RuleGroup.Key` -/
def Group.key (g : Group) : String := g.file ++ ";" ++ g.name

def groupLe (a b : Group) : Bool := (compare a.key b.key).isLE

/-- the merge loop of `dedupGroups` over the sorted slice -/
def mergeLoop : Group → List Group → List Group
  | cur, [] => [cur]
  | cur, g :: gs =>
    if g.key == cur.key then mergeLoop { cur with rules := cur.rules ++ g.rules } gs
    else cur :: mergeLoop g gs

def dedupGroups (gs : List Group) : List Group :=
  match gs.mergeSort groupLe with
  | [] => []
  | g :: rest => mergeLoop g rest

/-- `filterRulesByMatchers` -/
def filterGroups (fixed fresh : Bool) (sets : List (List Matcher)) (gs : List Group) : List Group :=
  if sets.isEmpty then gs else
  (gs.map (fun g => { g with rules := g.rules.filter (fun r => codeMatches fixed fresh sets r.labels) })).filter
    (fun g => !g.rules.isEmpty)

/-- The selector loop of `GRPCClient.Rules`: every `match[]` string of the request is parsed
    (`extpromql.ParseMetricSelector`, third party: the model receives the parse result, `none` = parse
    error) and becomes ONE matcher set, at its own position; a parse error fails the whole request.
    Nothing is skipped, merged or left empty — repeated strings give repeated sets. -/
def assembleSets : List (Option (List Matcher)) → Option (List (List Matcher))
  | [] => some []
  | none :: _ => none
  | some ms :: rest => (assembleSets rest).map (ms :: ·)

/-- `GRPCClient.Rules` (no name/group/file filters) -/
def rulesPipeline (fixed fresh : Bool) (repl : List String) (sets : List (List Matcher)) (gs : List Group) :
    List Group :=
  (dedupGroups (filterGroups fixed fresh sets gs)).map (fun g => { g with rules := dedupRules repl g.rules })

/-- `GRPCClient.Rules` from the request strings: `none` = the request fails ("parser ParseMetricSelector") -/
def rulesRequest (fixed fresh : Bool) (repl : List String) (sels : List (Option (List Matcher))) (gs : List Group) :
    Option (List Group) :=
  (assembleSets sels).map fun sets => rulesPipeline fixed fresh repl sets gs

end Thanos.Rules
