import Thanos.Model.Retention
/-
  Model/CleanerHist.lean — C32 over HISTORIES of one long-lived IgnoreDeletionMarkFilter +
  BlocksCleaner pair, wired as cmd/thanos/compact.go does (the cleaner takes its marks from the
  filter's in-memory map, which `Filter` fills during every metadata sync).

  State: the blocks in the bucket with their current deletion mark (DeletionTime, seconds) and the
  filter's map.  Steps: an operator / another component marks a block, removes the mark, a
  metadata sync runs, a compactor iteration runs (sync immediately followed by the cleaner).
  The clock does not move inside a history (`now` is a parameter): what matters is which marks
  are older than the delay.
-/
namespace Thanos.CleanerHist
open Thanos.Retention

structure St where
  blocks : List (Nat × Option Int)     -- block id (meta.json present) ↦ deletion-mark.json in the bucket
  fmap : List (Nat × Int)              -- IgnoreDeletionMarkFilter.deletionMarkMap
  deriving DecidableEq, Repr

inductive Step where
  | mark (id : Nat) (t : Int)          -- deletion-mark.json written with DeletionTime t (overwrites)
  | unmark (id : Nat)                  -- block.RemoveMark
  | sync                               -- a metadata sync: MetaFetcher.Fetch runs the filter
  | iterate                            -- BucketCompactor iteration: sync, then DeleteMarkedBlocks
  deriving DecidableEq, Repr

def setMark (id : Nat) (m : Option Int) : List (Nat × Option Int) → List (Nat × Option Int)
  | [] => []
  | (i, x) :: rest => if i = id then (i, m) :: rest else (i, x) :: setMark id m rest

/-- what `Filter` reads from the bucket: the mark of every block that has one -/
def fresh (blocks : List (Nat × Option Int)) : List (Nat × Int) :=
  blocks.filterMap fun p => p.2.map fun t => (p.1, t)

def lookup (m : List (Nat × Int)) (id : Nat) : Option Int := (m.find? (·.1 = id)).map (·.2)

/-- How `Filter` updates its map.
    `replace = true` (the code after the repair): the map IS what was just read.
    `replace = false` (the code before): the new reads are copied over the old map and only entries
    of blocks that left the view are dropped — a mark that was removed from the bucket stays. -/
def filterMap' (replace : Bool) (blocks : List (Nat × Option Int)) (old : List (Nat × Int)) : List (Nat × Int) :=
  if replace then fresh blocks else
  blocks.filterMap fun p =>
    match p.2 with
    | some t => some (p.1, t)
    | none => (lookup old p.1).map fun t => (p.1, t)

def codeReplace : Bool := false

/-- ids the cleaner deletes: entries of the filter's map older than the delay -/
def toDelete (now delay : Int) (fmap : List (Nat × Int)) : List Nat :=
  (fmap.filter fun p => cleans now delay ⟨p.1, p.2⟩).map (·.1)

/-- one step; returns the new state and the blocks deleted by this step -/
def step (replace : Bool) (now delay : Int) (s : St) : Step → St × List Nat
  | .mark id t => (⟨setMark id (some t) s.blocks, s.fmap⟩, [])
  | .unmark id => (⟨setMark id none s.blocks, s.fmap⟩, [])
  | .sync => (⟨s.blocks, filterMap' replace s.blocks s.fmap⟩, [])
  | .iterate =>
    let fm := filterMap' replace s.blocks s.fmap
    let del := (toDelete now delay fm).filter fun id => s.blocks.any (·.1 = id)
    (⟨s.blocks.filter (fun p => !del.contains p.1), fm⟩, del)

/-- run a history; the trace lists, per `iterate` step, what it deleted -/
def run (replace : Bool) (now delay : Int) : St → List Step → St × List (List Nat)
  | s, [] => (s, [])
  | s, st :: rest =>
    let r := step replace now delay s st
    let rr := run replace now delay r.1 rest
    match st with
    | .iterate => (rr.1, r.2 :: rr.2)
    | _ => (rr.1, rr.2)

end Thanos.CleanerHist
