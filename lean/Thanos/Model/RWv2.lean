/-
  C26 — pkg/receive/handler.go : translateV2ToV1, translateV2SpansToV1, and the part of
  handleV2HTTP that decides the answer for a decoded remote-write 2.0 request.

  Strings are opaque symbols (`Sym`); float64 values are their bit patterns (`Nat`) — the code only
  copies them.  The symbol table is a list, a reference is an index into it.  Core Lean only.
-/
namespace Thanos.RWv2

abbrev Sym := String

/-- the `count` / `zero_count` oneofs: unset, integer, float (bits) -/
inductive Cnt where
  | unset
  | int (v : Nat)
  | float (bits : Nat)
  deriving DecidableEq, Repr

structure Span where
  offset : Int
  length : Nat
  deriving DecidableEq, Repr

/-- the fields `prompb.Histogram` (v1) and `writev2.Histogram` have in common -/
structure Hist where
  count : Cnt
  sum : Nat
  schema : Int
  zeroThreshold : Nat
  zeroCount : Cnt
  negSpans : List Span
  negDeltas : List Int
  negCounts : List Nat
  posSpans : List Span
  posDeltas : List Int
  posCounts : List Nat
  resetHint : Int
  timestamp : Int
  customValues : List Nat
  deriving DecidableEq, Repr

/-- `writev2.Histogram`: the common fields plus the start timestamp -/
structure Hist2 where
  h : Hist
  startTs : Int
  deriving DecidableEq, Repr

structure Sample2 where
  value : Nat
  ts : Int
  startTs : Int
  deriving DecidableEq, Repr

structure Sample1 where
  value : Nat
  ts : Int
  deriving DecidableEq, Repr

structure Exemplar2 where
  refs : List Nat
  value : Nat
  ts : Int
  deriving DecidableEq, Repr

structure Exemplar1 where
  labels : List (Sym × Sym)
  value : Nat
  ts : Int
  deriving DecidableEq, Repr

structure Metadata where
  mtype : Nat
  helpRef : Nat
  unitRef : Nat
  deriving DecidableEq, Repr

structure TS2 where
  refs : List Nat
  samples : List Sample2
  exemplars : List Exemplar2
  hists : List Hist2
  metadata : Metadata
  deriving DecidableEq, Repr

structure TS1 where
  labels : List (Sym × Sym)
  samples : List Sample1
  exemplars : List Exemplar1
  hists : List Hist
  deriving DecidableEq, Repr

/-- how a request can end badly: the Go runtime panics (index out of range), or the handler
    answers 400 -/
inductive Err where
  | panic
  | badRequest
  deriving DecidableEq, Repr

/-- `symbols[ref]` in `symbolizedLabels`: with `checked = true` behind the bounds test of the
    repaired code (a reference outside the table ⇒ error ⇒ 400), with `checked = false` the bare
    index expression of the code before the repair (⇒ the runtime panics) -/
def sym (checked : Bool) (symbols : List Sym) (ref : Nat) : Except Err Sym :=
  match symbols[ref]? with
  | some s => .ok s
  | none => .error (if checked then .badRequest else .panic)

/-- `symbolizedLabels`: `for i := 0; i+1 < len(refs); i += 2 { … symbols[refs[i]], symbols[refs[i+1]] … }`;
    a trailing unpaired reference is never looked at -/
def resolve (checked : Bool) (symbols : List Sym) : List Nat → Except Err (List (Sym × Sym))
  | a :: b :: rest =>
    match sym checked symbols a with
    | .error e => .error e
    | .ok n =>
      match sym checked symbols b with
      | .error e => .error e
      | .ok v =>
        match resolve checked symbols rest with
        | .error e => .error e
        | .ok more => .ok ((n, v) :: more)
  | _ => .ok []

/-- a loop that stops at the first failure -/
def mapE {α β : Type} (f : α → Except Err β) : List α → Except Err (List β)
  | [] => .ok []
  | a :: as =>
    match f a with
    | .error e => .error e
    | .ok b =>
      match mapE f as with
      | .error e => .error e
      | .ok bs => .ok (b :: bs)

def translateExemplar (checked : Bool) (symbols : List Sym) (e : Exemplar2) : Except Err Exemplar1 :=
  match resolve checked symbols e.refs with
  | .error err => .error err
  | .ok ls => .ok ⟨ls, e.value, e.ts⟩

/-- the body of `for _, t := range w.Timeseries` -/
def translateTS (checked : Bool) (symbols : List Sym) (t : TS2) : Except Err TS1 :=
  match resolve checked symbols t.refs with
  | .error err => .error err
  | .ok ls =>
    match mapE (translateExemplar checked symbols) t.exemplars with
    | .error err => .error err
    | .ok es => .ok ⟨ls, t.samples.map (fun s => ⟨s.value, s.ts⟩), es, t.hists.map (·.h)⟩

/-- `translateV2ToV1` -/
def translate (checked : Bool) (symbols : List Sym) (req : List TS2) : Except Err (List TS1) :=
  mapE (translateTS checked symbols) req

/-- what the client / the peers see of one decoded request handled by `handleV2HTTP`:
    the runtime panics, or a status is written; with 200 also the three `…-Written` headers
    (samples, histograms, exemplars counted on the v2 request) and the series handed on -/
inductive Answer where
  | panic
  | status (code : Nat)
  | accepted (samples hists exemplars : Nat) (forwarded : List TS1)
  deriving DecidableEq, Repr

/-- `handleV2HTTP` after `proto.Unmarshal`, with a write path that stores everything -/
def handleV2 (checked : Bool) (symbols : List Sym) (req : List TS2) : Answer :=
  match translate checked symbols req with
  | .error .panic => .panic
  | .error .badRequest => .status 400
  | .ok ts =>
    .accepted (req.map (·.samples.length)).sum (req.map (·.hists.length)).sum (req.map (·.exemplars.length)).sum ts

/-- The code as it is now: are symbol references bounds-checked?  (Tied to the source by the
    regenerated facts `v2SymbolIndexFuncs` / `v2SymbolBoundCheck`, see Props/C26.lean.)  Before the
    repair of F26 it was `false` (bare index expressions); `C26_safe_full_false` and
    `C26_unchecked_panics` keep that behaviour provable. -/
def codeChecked : Bool := true

end Thanos.RWv2
