/-
  C09 — pkg/store/limiter.go : Limiter.Reserve / ReserveWithType

  `reserved` is an atomic counter that only grows (also by reservations that fail); `limit = 0` disables
  the limiter.  uint64 wrap-around is outside the domain (limits and reservations below 2^32).
-/
namespace Thanos.Limiter

structure Limiter where
  limit : Nat
  reserved : Nat
  deriving Repr, DecidableEq

def new (limit : Nat) : Limiter := ⟨limit, 0⟩

/-- `Reserve(num)`: the new state and whether the reservation was granted -/
def reserve (l : Limiter) (n : Nat) : Limiter × Bool :=
  if l.limit = 0 then (l, true)
  else
    let r := l.reserved + n
    (⟨l.limit, r⟩, decide (r ≤ l.limit))

/-- a sequence of reservations (in the order the atomic additions happen): the outcome of each -/
def run : Limiter → List Nat → List Bool
  | _, [] => []
  | l, n :: ns => (reserve l n).2 :: run (reserve l n).1 ns

end Thanos.Limiter
