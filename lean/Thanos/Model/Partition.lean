/-
  C10 — pkg/store/bucket.go : gapBasedPartitioner.Partition

  Ranges `(start, end)` arrive sorted by start; consecutive ranges are combined into one part as long as
  the next start is at most `maxGap` behind the end reached so far.  The two nested Go loops are one pass
  with the part under construction as accumulator.  uint64 overflow of `p.End + maxGapSize` is outside the
  domain (offsets inside a file).
-/
namespace Thanos.Partition

structure Part where
  start : Nat
  stop : Nat
  i : Nat
  j : Nat
  deriving Repr, DecidableEq

def go (maxGap : Nat) : Part → List (Nat × Nat) → Nat → List Part
  | cur, [], _ => [cur]
  | cur, (s, e) :: rs, k =>
    if cur.stop + maxGap < s then cur :: go maxGap ⟨s, e, k, k + 1⟩ rs (k + 1)
    else go maxGap { cur with stop := if cur.stop ≤ e then e else cur.stop, j := k + 1 } rs (k + 1)

def partition (maxGap : Nat) : List (Nat × Nat) → List Part
  | [] => []
  | (s, e) :: rs => go maxGap ⟨s, e, 0, 1⟩ rs 1

end Thanos.Partition
