/-
  C48 — pkg/compactv2/modifiers.go : delModifierSeriesSet.Next, delGenericSeriesIterator.next,
  delChunkSeriesIterator.Next (core Lean only).

  `rewriteSpec` is the specification (what a bucket rewrite with deletion requests has to leave
  of every series); `rewriteCode` follows the code chunk by chunk: the merged interval list
  (`tombstones.Intervals.Add`), the "chunk is a sub-range of one interval" shortcut, the
  overlapping-intervals filter and the re-encoding of partially deleted chunks.  Matchers are
  predicates on the label value (regex truth tables are inputs of the driver).
-/
namespace Thanos.Rewrite

structure Interval where
  mint : Int
  maxt : Int
  deriving Repr, DecidableEq

structure Matcher where
  name : String
  pred : String → Bool

structure Request where
  matchers : List Matcher
  intervals : List Interval     -- empty = delete the whole series

abbrev LSet := List (String × String)
abbrev Sample := Int × Int      -- (timestamp, value)
abbrev Chunk := List Sample

structure Series where
  labels : LSet
  chunks : List Chunk
  deriving Repr, DecidableEq

def get (l : LSet) (n : String) : String :=
  match l.find? (fun p => p.1 == n) with
  | some p => p.2
  | none => ""

/-- the loop over the matchers in `Next`: every matcher's label has to be present (non-empty)
    and to match -/
def reqMatches (l : LSet) (r : Request) : Bool :=
  r.matchers.all fun m => let v := get l m.name; v != "" && m.pred v

def Interval.has (i : Interval) (t : Int) : Bool := decide (i.mint ≤ t) && decide (t ≤ i.maxt)

def covered (ivs : List Interval) (t : Int) : Bool := ivs.any (·.has t)

/-! ### specification -/

/-- the intervals requested for a series: those of every matching request -/
def requested (reqs : List Request) (l : LSet) : List Interval :=
  (reqs.filter (reqMatches l)).flatMap (·.intervals)

/-- is the whole series requested: some matching request has no interval list -/
def wholeSeries (reqs : List Request) (l : LSet) : Bool :=
  (reqs.filter (reqMatches l)).any (·.intervals.isEmpty)

/-- what has to be left of a series: nothing when it is deleted as a whole or when no sample is
    left; otherwise every chunk without the samples inside the requested intervals (chunks that
    become empty disappear) -/
def specSeries (reqs : List Request) (s : Series) : Option Series :=
  if wholeSeries reqs s.labels then none else
  let cs := (s.chunks.map fun c => c.filter fun x => !covered (requested reqs s.labels) x.1).filter (!·.isEmpty)
  if cs.isEmpty then none else some { s with chunks := cs }

def rewriteSpec (reqs : List Request) (block : List Series) : List Series :=
  block.filterMap (specSeries reqs)

/-! ### the code -/

/-- `tombstones.Intervals.Add` on a sorted list of disjoint, non-adjacent intervals: intervals that
    overlap or touch (timestamps are integers) are merged -/
def addIv (n : Interval) : List Interval → List Interval
  | [] => [n]
  | r :: rs =>
    if r.maxt < n.mint - 1 then r :: addIv n rs
    else if n.maxt + 1 < r.mint then n :: r :: rs
    else addIv ⟨min n.mint r.mint, max n.maxt r.maxt⟩ rs

/-- the `intervals` variable `Next` builds for a series -/
def mergedIntervals (reqs : List Request) (l : LSet) : List Interval :=
  (requested reqs l).foldl (fun acc i => addIv i acc) []

def chunkMin (c : Chunk) : Option Int := c.head?.map (·.1)
def chunkMax (c : Chunk) : Option Int := c.getLast?.map (·.1)

/-- `delGenericSeriesIterator.next` + `delChunkSeriesIterator.Next`, chunk by chunk.
    `skipEmpty = true`: a chunk that loses all its samples without being inside ONE interval is
    skipped (the code after the repair); `false`: the iteration of the series stops there without
    an error and the remaining chunks are lost (as it was: `errors.Wrap(nil, …)` is nil). -/
def codeChunks (skipEmpty : Bool) (ivs : List Interval) : List Chunk → List Chunk
  | [] => []
  | c :: cs =>
    match chunkMin c, chunkMax c with
    | some mn, some mx =>
      -- chk.IsSubrange(d.intervals): inside one interval ⇒ dropped as a whole
      if ivs.any (fun i => i.has mn && i.has mx) then codeChunks skipEmpty ivs cs
      else
        -- the intervals overlapping the chunk go to the DeletedIterator
        let ov := ivs.filter fun i => decide (mn ≤ i.maxt) && decide (i.mint ≤ mx)
        if ov.isEmpty then c :: codeChunks skipEmpty ivs cs
        else
          let c' := c.filter fun x => !covered ov x.1
          if c'.isEmpty then (if skipEmpty then codeChunks skipEmpty ivs cs else [])
          else c' :: codeChunks skipEmpty ivs cs
    | _, _ => codeChunks skipEmpty ivs cs     -- an empty chunk (blocks do not contain one)

/-- one series through `delModifierSeriesSet.Next` and the block writer (a series left without
    chunks is not written) -/
def codeSeries (skipEmpty : Bool) (reqs : List Request) (s : Series) : Option Series :=
  if wholeSeries reqs s.labels then none else
  let cs := codeChunks skipEmpty (mergedIntervals reqs s.labels) s.chunks
  if cs.isEmpty then none else some { s with chunks := cs }

def rewriteCode (skipEmpty : Bool) (reqs : List Request) (block : List Series) : List Series :=
  block.filterMap (codeSeries skipEmpty reqs)

/-! ### native histogram chunks

`delChunkSeriesIterator.Next` re-encodes a partially deleted chunk with `chunkenc.NewXORChunk()` and
`p.currDelIter.At()`; for a histogram chunk `At()` panics ("cannot call histogramIterator.At", the
sample iterator carries `TODO: Needs to be implemented for native histogram support`).  A histogram
chunk is fine as long as it never reaches the re-encoding: inside one interval (dropped), disjoint
from every interval (kept), or emptied by the overlapping intervals (skipped). -/

/-- a chunk with its encoding: `true` = native histogram samples (the value stands for the histogram) -/
abbrev KChunk := Bool × Chunk

structure KSeries where
  labels : LSet
  chunks : List KChunk
  deriving Repr, DecidableEq

/-- the chunk loop with encodings; `none` = the process panics -/
def codeChunksK (ivs : List Interval) : List KChunk → Option (List KChunk)
  | [] => some []
  | (hist, c) :: cs =>
    match chunkMin c, chunkMax c with
    | some mn, some mx =>
      if ivs.any (fun i => i.has mn && i.has mx) then codeChunksK ivs cs
      else
        let ov := ivs.filter fun i => decide (mn ≤ i.maxt) && decide (i.mint ≤ mx)
        if ov.isEmpty then (codeChunksK ivs cs).map ((hist, c) :: ·)
        else
          let c' := c.filter fun x => !covered ov x.1
          if c'.isEmpty then codeChunksK ivs cs
          else if hist then none                      -- p.currDelIter.At() on a histogram iterator
          else (codeChunksK ivs cs).map ((false, c') :: ·)
    | _, _ => codeChunksK ivs cs

/-- one series; `none` = panic, `some none` = the series is not written -/
def codeSeriesK (reqs : List Request) (s : KSeries) : Option (Option KSeries) :=
  if wholeSeries reqs s.labels then some none else
  match codeChunksK (mergedIntervals reqs s.labels) s.chunks with
  | none => none
  | some cs => some (if cs.isEmpty then none else some { s with chunks := cs })

/-- the rewrite of a block with encodings; `none` = panic -/
def rewriteCodeK (reqs : List Request) : List KSeries → Option (List KSeries)
  | [] => some []
  | s :: rest =>
    match codeSeriesK reqs s with
    | none => none
    | some r =>
      match rewriteCodeK reqs rest with
      | none => none
      | some out => some (match r with | none => out | some s' => s' :: out)

def KSeries.erase (s : KSeries) : Series := { labels := s.labels, chunks := s.chunks.map (·.2) }

/-- `intersection` (used for the change log): the parts of `dranges` inside `i` -/
def intersection (i : Interval) (dranges : List Interval) : List Interval :=
  (dranges.filter fun r => decide (r.mint ≤ i.maxt) && decide (i.mint ≤ r.maxt)).foldl
    (fun acc r => addIv ⟨max r.mint i.mint, min r.maxt i.maxt⟩ acc) []

end Thanos.Rewrite
