/-
  Model/DedupFilter.lean — pkg/block/fetcher.go: DefaultDeduplicateFilter.Filter / filterGroup /
  contains (C31).

  A block is (ULID, compaction-group key, level, Compaction.Sources).  A ULID is (timestamp,
  entropy): `ULID.Compare` is the big-endian comparison of 16 bytes = the lexicographic order of
  that pair; `id` is the number that names the ULID in the protocol lines (the harness encodes
  `id = time * 1000 + entropy`), injective in the pair.  Group keys are numbers handed out by the
  harness for the distinct `Thanos.GroupKey()` strings.
-/
namespace Thanos.DedupFilter

structure Meta where
  id : Nat
  utime : Nat          -- ULID.Time()
  uent : Nat           -- ULID entropy
  group : Nat
  level : Nat          -- Compaction.Level
  sources : List Nat
  deriving DecidableEq, Repr

/-- `contains(s1, s2)`: every element of `s2` occurs in `s1` -/
def contains (s1 s2 : List Nat) : Bool := s2.all fun a => s1.contains a

/-- the `sort.Slice` comparator of `filterGroup`: more sources first, then the higher
    compaction level (repair af5d71aa9 of the compact family: a single-block compaction result has
    the sources of its parent and must win the tie), then ULID ascending (`ULID.Compare(…) < 0`: time, then entropy) -/
def ulidLess (a b : Meta) : Bool := decide (a.utime < b.utime ∨ (a.utime = b.utime ∧ a.uent < b.uent))

def less (a b : Meta) : Bool :=
  if a.sources.length = b.sources.length then
    (if a.level ≠ b.level then decide (a.level > b.level) else ulidLess a b)
  else decide (a.sources.length > b.sources.length)

def insertMeta (a : Meta) : List Meta → List Meta
  | [] => [a]
  | b :: bs => if less a b then a :: b :: bs else b :: insertMeta a bs

/-- `sort.Slice` is modelled by insertion sort: on blocks with distinct ULIDs the comparator is
    a strict total order, so every correct sort returns this list (Props: `sort_unique`) -/
def sortMetas (l : List Meta) : List Meta := l.foldr insertMeta []

/-- the `childLoop` of `filterGroup`: coveringSet and duplicates, both in append order -/
def childLoop : List Meta → List Meta → List Nat → List Meta × List Nat
  | [], cov, dups => (cov, dups)
  | c :: rest, cov, dups =>
    if cov.any (fun p => contains p.sources c.sources) then childLoop rest cov (dups ++ [c.id])
    else childLoop rest (cov ++ [c]) dups

def filterGroup (g : List Meta) : List Meta × List Nat := childLoop (sortMetas g) [] []

/-- distinct group keys in order of first occurrence (Go: a map, any order) -/
def groupsOf : List Meta → List Nat
  | [] => []
  | m :: ms => m.group :: (groupsOf ms).filter (· ≠ m.group)

def groupMetas (metas : List Meta) (g : Nat) : List Meta := metas.filter (fun m => m.group = g)

/-- the ids `Filter` removes from the map (= `DuplicateIDs()`), groups processed in the order
    `order` (the order in which workers pick up and finish groups) -/
def dupsIn (metas : List Meta) (order : List Nat) : List Nat :=
  order.flatMap fun g => (filterGroup (groupMetas metas g)).2

def dups (metas : List Meta) : List Nat := dupsIn metas (groupsOf metas)

def kept (metas : List Meta) : List Meta := metas.filter fun m => !(dups metas).contains m.id

-- ---------------------------------------------------------------- a comparator that is NOT a total order
-- (what a tie-break on `ULID.Time()` alone would be: two ULIDs minted in the same millisecond
-- compare equal) — used only for the witness `C31_time_only_order_dependent` in Props/C31.lean

def lessT (a b : Meta) : Bool :=
  if a.sources.length = b.sources.length then
    (if a.level ≠ b.level then decide (a.level > b.level) else decide (a.utime < b.utime))
  else decide (a.sources.length > b.sources.length)

def insertMetaT (a : Meta) : List Meta → List Meta
  | [] => [a]
  | b :: bs => if lessT a b then a :: b :: bs else b :: insertMetaT a bs

def sortMetasT (l : List Meta) : List Meta := l.foldr insertMetaT []

def dupsT (metas : List Meta) : List Nat :=
  (groupsOf metas).flatMap fun g => (childLoop (sortMetasT (groupMetas metas g)) [] []).2

end Thanos.DedupFilter
