/-
  C22 / C23 — pkg/receive/handler.go : handleRequest, forward, distributeTimeseriesToReplicas,
  fanoutForward (thresholds, response loop, canReturnEarly), writeQuorum,
  replicationErrors.Cause, writeErrors.Cause, the status mapping of handleV1HTTP and of the gRPC
  RemoteWrite.

  A request carries series `0 … n-1`.  The hashring is an input: `placement[i][r]` is the endpoint
  of replica `r` of series `i`.  A write goes to a pair (endpoint, replica) and carries the ids of
  the series placed there; every write is answered once; the order of the answers is an input
  (a list), so "every order" is "every permutation of the list".  Core Lean only.
-/
namespace Thanos.Quorum

/-- How the three classifiers of handler.go see the cause of a failed write:
    `isConflict`, `isNotReady`, `isUnavailable`.  (A gRPC `Unavailable` status satisfies the last
    two; `errUnavailable` only the last; `AlreadyExists` / `errConflict` / out-of-order only the
    first; an internal error none.) -/
structure ErrKind where
  conflict : Bool
  notReady : Bool
  unavail : Bool
  deriving DecidableEq, Repr

/-- `none` = the write succeeded -/
abbrev Outcome := Option ErrKind

def kConflict : ErrKind := ⟨true, false, false⟩      -- codes.AlreadyExists, errConflict, storage.ErrOutOfOrderSample …
def kGrpcUnavail : ErrKind := ⟨false, true, true⟩    -- codes.Unavailable
def kUnavail : ErrKind := ⟨false, false, true⟩       -- errUnavailable (peer in back-off)
def kNotReady : ErrKind := ⟨false, true, false⟩      -- errNotReady, tsdb.ErrNotReady
def kOther : ErrKind := ⟨false, false, false⟩        -- anything else

/-- one `writeResponse`: the series ids of the write and its outcome -/
structure Resp where
  ids : List Nat
  out : Outcome
  deriving DecidableEq, Repr

/-- `Handler.writeQuorum` -/
def writeQuorum (rf : Nat) : Nat := if rf = 2 then 1 else rf / 2 + 1

/-- the sentinel errors `errConflict`, `errNotReady`, `errUnavailable` -/
inductive Sentinel where
  | conflict | notReady | unavailable
  deriving DecidableEq, Repr

/-- what `replicationErrors.Cause` returns: a sentinel, `nil`, or the empty `errorSet{}` -/
inductive RCause where
  | sentinel (s : Sentinel)
  | nil
  | emptySet
  deriving DecidableEq, Repr

def countConflict (es : List ErrKind) : Nat := es.countP (·.conflict)
def countNotReady (es : List ErrKind) : Nat := es.countP (·.notReady)
def countUnavail (es : List ErrKind) : Nat := es.countP (·.unavail)

/-- one insertion step of Go's `insertionSort` under `sort.Reverse` (`Less(j, j-1)` is
    `count[j-1] < count[j]`): `revPre` is the sorted prefix in reverse order -/
def insertRev (x : Sentinel × Nat) : List (Sentinel × Nat) → List (Sentinel × Nat)
  | [] => [x]
  | y :: ys => if y.2 < x.2 then y :: insertRev x ys else x :: y :: ys

/-- `sort.Sort(sort.Reverse(expErrs))` for a slice of at most 12 elements (insertion sort) -/
def sortDesc (xs : List (Sentinel × Nat)) : List (Sentinel × Nat) :=
  (xs.foldl (fun revPre x => insertRev x revPre) []).reverse

/-- `replicationErrors.Cause` with `es.threshold = thr` -/
def replCause (thr : Nat) (es : List ErrKind) : RCause :=
  if es.isEmpty then .emptySet else
  match sortDesc [(.conflict, countConflict es), (.notReady, countNotReady es), (.unavailable, countUnavail es)] with
  | [] => .nil    -- unreachable: the sorted slice has three elements
  | top :: _ =>
    if top.2 ≥ thr then .sentinel top.1
    else if es.length ≥ thr then .sentinel .unavailable
    else .nil

/-- what `writeErrors.Cause` returns: a sentinel, `nil`, or some other non-nil error -/
inductive WCause where
  | sentinel (s : Sentinel)
  | nil
  | other
  deriving DecidableEq, Repr

def RCause.isUnknown : RCause → Bool
  | .sentinel _ => false
  | _ => true

/-- `writeErrors.Cause` over the causes (`errors.Cause(werr)`) of the added per-series errors:
    unavailable is preferred over not-ready over conflict; otherwise the last unknown cause -/
def writeCause (cs : List RCause) : WCause :=
  if cs.isEmpty then .nil
  else if cs.any (· == .sentinel .unavailable) then .sentinel .unavailable
  else if cs.any (· == .sentinel .notReady) then .sentinel .notReady
  else if cs.any (· == .sentinel .conflict) then .sentinel .conflict
  else match (cs.filter RCause.isUnknown).getLast? with
    | some .emptySet => .other
    | _ => .nil

/-- the counters of the response loop: `successes[i]` and `seriesErrs[i].errs`
    (`failures[i]` is the length of the latter, `conflictFailures[i]` its conflict count) -/
structure St where
  succ : Nat → Nat
  errs : Nat → List ErrKind

def St.init : St := ⟨fun _ => 0, fun _ => []⟩

def St.addOk (s : St) (i : Nat) : St :=
  { s with succ := fun j => if j = i then s.succ j + 1 else s.succ j }

def St.addErr (k : ErrKind) (s : St) (i : Nat) : St :=
  { s with errs := fun j => if j = i then s.errs j ++ [k] else s.errs j }

/-- the body of `case resp, hasMore := <-responses` before the early-return test -/
def step (s : St) (r : Resp) : St :=
  match r.out with
  | none => r.ids.foldl St.addOk s
  | some k => r.ids.foldl (St.addErr k) s

/-- `canReturnEarly` -/
def canReturnEarly (n sT fT : Nat) (s : St) : Bool :=
  (List.range n).all fun i => !(decide (s.succ i < sT) && decide (countConflict (s.errs i) < fT))

/-- the result of `fanoutForward`: `writeErrors.ErrOrNil()` — nil, or the causes of the added
    per-series errors in series order -/
inductive Result where
  | ok
  | failed (causes : List RCause)
  deriving DecidableEq, Repr

/-- `for i, seriesErr := range seriesErrs { if failures[i] >= failureThreshold { writeErrors.Add(seriesErr) } }` -/
def collect (n fT thr : Nat) (s : St) : List RCause :=
  (List.range n).filterMap fun i =>
    if (s.errs i).length ≥ fT then some (replCause thr (s.errs i)) else none

def finish (n fT thr : Nat) (s : St) : Result :=
  let cs := collect n fT thr s
  if cs.isEmpty then .ok else .failed cs

/-- the response loop; the end of the list is the closed channel -/
def loop (n sT fT thr : Nat) : St → List Resp → Result
  | s, [] => finish n fT thr s
  | s, r :: rs =>
    let s' := step s r
    if canReturnEarly n sT fT s' then finish n fT thr s' else loop n sT fT thr s' rs

/-- the loop without the early return (what is known once every response has arrived) -/
def final (n fT thr : Nat) (rs : List Resp) : Result := finish n fT thr (rs.foldl step St.init)

/-- which variable `fanoutForward` passes to `newReplicationErrors` -/
inductive ThrSel where
  | success | failure
  deriving DecidableEq, Repr

/-- the thresholds of `fanoutForward`: (successThreshold, failureThreshold, replication-error threshold) -/
def thresholds (sel : ThrSel) (rf : Nat) (replicated : Bool) : Nat × Nat × Nat :=
  let nrep := if replicated then 1 else rf
  let sT := if replicated then 1 else writeQuorum rf
  let fT := nrep - sT + 1
  (sT, fT, match sel with | .success => sT | .failure => fT)

/-- `fanoutForward` after `distributeTimeseriesToReplicas`, for `n` series and the given arrival
    order of the responses -/
def fanout (sel : ThrSel) (rf : Nat) (replicated : Bool) (n : Nat) (rs : List Resp) : Result :=
  let (sT, fT, thr) := thresholds sel rf replicated
  loop n sT fT thr St.init rs

/-- HTTP status written by `handleV1HTTP` for the error of `handleRequest` -/
def httpStatus : Result → Nat
  | .ok => 200
  | .failed cs =>
    match writeCause cs with
    | .sentinel .unavailable => 503
    | .sentinel .notReady => 503
    | .sentinel .conflict => 409
    | .nil => 500
    | .other => 500

/-- gRPC answer of `Handler.RemoteWrite` (`switch errors.Cause(err)`; `case nil` is success — also
    when `err` itself is a non-nil `writeErrors` whose `Cause()` is nil) -/
inductive GrpcCode where
  | ok | unavailable | alreadyExists | invalidArgument | internal
  deriving DecidableEq, Repr

def grpcCode : Result → GrpcCode
  | .ok => .ok
  | .failed cs =>
    match writeCause cs with
    | .sentinel .unavailable => .unavailable
    | .sentinel .notReady => .unavailable
    | .sentinel .conflict => .alreadyExists
    | .nil => .ok
    | .other => .internal

/-! ### distributeTimeseriesToReplicas -/

/-- the writes, keyed by (endpoint, replica), each with the series ids in request order -/
abbrev Writes := List ((Nat × Nat) × List Nat)

def addWrite (k : Nat × Nat) (id : Nat) : Writes → Writes
  | [] => [(k, [id])]
  | (k', ids) :: rest => if k' = k then (k', ids ++ [id]) :: rest else (k', ids) :: addWrite k id rest

/-- `forward`: the replicas to write -/
def replicasOf (rf rep : Nat) : List Nat := if rep = 0 then List.range rf else [rep - 1]

/-- the inner loop over the replicas of one series; `none` = `GetN` failed -/
def placeSeries (id : Nat) (pl : List Nat) : List Nat → Writes → Option Writes
  | [], ws => some ws
  | rn :: rns, ws =>
    match pl[rn]? with
    | none => none
    | some ep => placeSeries id pl rns (addWrite (ep, rn) id ws)

def distributeFrom (replicas : List Nat) : Nat → List (List Nat) → Writes → Option Writes
  | _, [], ws => some ws
  | id, pl :: pls, ws =>
    match placeSeries id pl replicas ws with
    | none => none
    | some ws' => distributeFrom replicas (id + 1) pls ws'

def distribute (replicas : List Nat) (placement : List (List Nat)) : Option Writes :=
  distributeFrom replicas 0 placement []

def lookupWrite (k : Nat × Nat) : Writes → Option (List Nat)
  | [] => none
  | (k', ids) :: rest => if k' = k then some ids else lookupWrite k rest

/-- outcome of a whole request at the level of `handleRequest` -/
inductive Handled where
  | badReplica
  | hashringError
  | badScript                 -- the script names a write that does not exist (ill-formed op)
  | done (ws : Writes) (r : Result)
  deriving DecidableEq, Repr

/-- `handleRequest` → `forward` → `fanoutForward`, with the answers arriving in the order of
    `script` (each entry: (endpoint, replica) of the answered write and its outcome) -/
def handle (sel : ThrSel) (rf rep : Nat) (placement : List (List Nat))
    (script : List ((Nat × Nat) × Outcome)) : Handled :=
  if rep > rf then .badReplica else
  match distribute (replicasOf rf rep) placement with
  | none => .hashringError
  | some ws =>
    match script.mapM (fun e => (lookupWrite e.1 ws).map (fun ids => Resp.mk ids e.2)) with
    | none => .badScript
    | some rs => .done ws (fanout sel rf (decide (rep ≠ 0)) placement.length rs)

/-- The threshold variable passed by the code as it is now (tied to the source by the regenerated
    fact `replicationErrorsThresholdArg`, see Props/C23.lean).  Before the repair of F23 it was
    `.success`; the theorems `C23_full_false` / `C22_grpc_ack_false` keep that behaviour provable. -/
def codeSel : ThrSel := .failure

end Thanos.Quorum
