/-
  Line-protocol helpers shared by every model driver (core Lean only: no Mathlib import,
  so that the `lean_exe` drivers link).
-/
namespace Thanos.Parse

def splitChar (c : Char) (s : String) : List String :=
  (s.splitOn (String.singleton c))

/-- split on `c`, but the empty string gives the empty list (Go's convention in the harness:
    an empty list is printed as the token `-` or as an empty field) -/
def listOf (c : Char) (s : String) : List String :=
  if s = "" ∨ s = "-" then [] else splitChar c s

def tokens (line : String) : List String :=
  (line.splitOn " ").filter (· ≠ "")

def parseInt? (s : String) : Option Int := s.toInt?
def parseNat? (s : String) : Option Nat := s.toNat?

def parseInts? (c : Char) (s : String) : Option (List Int) :=
  (listOf c s).mapM parseInt?

def parseNats? (c : Char) (s : String) : Option (List Nat) :=
  (listOf c s).mapM parseNat?

def hexVal? (c : Char) : Option Nat :=
  if '0' ≤ c ∧ c ≤ '9' then some (c.toNat - '0'.toNat)
  else if 'a' ≤ c ∧ c ≤ 'f' then some (c.toNat - 'a'.toNat + 10)
  else none

def hexDecodeAux : List Char → Option (List UInt8)
  | [] => some []
  | [_] => none
  | a :: b :: rest => do
    let x ← hexVal? a
    let y ← hexVal? b
    let r ← hexDecodeAux rest
    pure (UInt8.ofNat (16 * x + y) :: r)

/-- `-` encodes the empty byte string -/
def hexDecode? (s : String) : Option (List UInt8) :=
  if s = "-" then some [] else hexDecodeAux s.toList

def hexDigit (n : Nat) : Char :=
  if n < 10 then Char.ofNat ('0'.toNat + n) else Char.ofNat ('a'.toNat + (n - 10))

def hexEncode (bs : List UInt8) : String :=
  if bs.isEmpty then "-" else
  String.ofList (bs.flatMap fun b => [hexDigit (b.toNat / 16), hexDigit (b.toNat % 16)])

def hexString? (s : String) : Option String := do
  let bs ← hexDecode? s
  String.fromUTF8? (ByteArray.mk bs.toArray)

def joinWith (sep : String) (xs : List String) : String :=
  if xs.isEmpty then "-" else sep.intercalate xs

def showInts (sep : String) (xs : List Int) : String := joinWith sep (xs.map toString)
def showNats (sep : String) (xs : List Nat) : String := joinWith sep (xs.map toString)

/-- read stdin line by line, answer each line with exactly one output line -/
partial def loop (h : IO.FS.Stream) (out : IO.FS.Stream) (handle : List String → String) : IO Unit := do
  let line ← h.getLine
  if line.isEmpty then
    out.flush
    return ()
  let l := String.ofList ((line.toList.reverse.dropWhile (fun c => c = '\n' ∨ c = '\r')).reverse)
  out.putStrLn (handle (tokens l))
  loop h out handle

def runDriver (handle : List String → String) : IO Unit := do
  loop (← IO.getStdin) (← IO.getStdout) handle

end Thanos.Parse
