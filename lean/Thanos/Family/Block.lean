-- family block: C28 C31 C32 C33 C35.  Everything listed here must build: it is part of `lake build`.
import Thanos.Driver.Block
import Thanos.Props.C28
import Thanos.Props.C31
import Thanos.Props.C32
import Thanos.Props.C33
import Thanos.Props.C35
