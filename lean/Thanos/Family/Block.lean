-- family block: C28 C31 C32 C33 C35.  Everything listed here must build: it is part of `lake build`.
import Thanos.Driver.Block
