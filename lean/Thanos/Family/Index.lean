-- family index: C11 C12 C13 C14 C16.  Everything listed here must build: it is part of `lake build`.
import Thanos.Driver.Index
import Thanos.Props.C13
import Thanos.Props.C12
import Thanos.Props.C16
import Thanos.Props.C14
import Thanos.Props.C11
