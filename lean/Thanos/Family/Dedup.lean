-- family dedup: C01 C02 C04 C40.  Everything listed here must build: it is part of `lake build`.
import Thanos.Driver.Dedup
import Thanos.Props.C01
import Thanos.Props.C02
import Thanos.Props.C04
import Thanos.Props.C40
import Thanos.Lemmas.FirstFit
