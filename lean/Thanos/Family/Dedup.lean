-- family dedup: C01 C02 C04 C40.  Everything listed here must build: it is part of `lake build`.
import Thanos.Driver.Dedup
