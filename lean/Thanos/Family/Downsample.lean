-- family downsample: C36 C37 C38 C39.  Everything listed here must build: it is part of `lake build`.
import Thanos.Driver.Downsample
import Thanos.Props.C39
import Thanos.Props.C36
import Thanos.Props.C38
import Thanos.Props.C37
