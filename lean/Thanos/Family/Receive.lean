-- family receive: C22 C23 C24 C25 C26.  Everything listed here must build: it is part of `lake build`.
import Thanos.Driver.Receive
