-- family receive: C22 C23 C24 C25 C26.  Everything listed here must build: it is part of `lake build`.
import Thanos.Driver.Receive
import Thanos.Model.Quorum
import Thanos.Model.RWv2
import Thanos.Model.Gate
import Thanos.Model.GateId
import Thanos.Model.Capnp
import Thanos.Lemmas.Quorum
import Thanos.Lemmas.Capnp
import Thanos.Lemmas.CapnpOrder
import Thanos.Lemmas.GateId
import Thanos.Props.C22
import Thanos.Props.C23
import Thanos.Props.C24
import Thanos.Props.C25
import Thanos.Props.C26
