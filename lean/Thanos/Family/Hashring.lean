-- family hashring: C18 C19 C20 C21 C27.  Everything listed here must build: it is part of `lake build`.
import Thanos.Driver.Hashring
