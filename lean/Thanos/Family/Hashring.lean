-- family hashring: C18 C19 C20 C21 C27.  Everything listed here must build: it is part of `lake build`.
import Thanos.Driver.Hashring
import Thanos.Props.C18
import Thanos.Props.C19
import Thanos.Props.C20
import Thanos.Props.C21
import Thanos.Props.C27
