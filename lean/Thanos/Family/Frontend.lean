-- family frontend: C41 C42 C43 C44.  Everything listed here must build: it is part of `lake build`.
import Thanos.Driver.Frontend
import Thanos.Props.C41
import Thanos.Props.C43
import Thanos.Props.C42
import Thanos.Props.C44
