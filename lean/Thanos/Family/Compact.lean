-- family compact: C30 C34 C29.  Everything listed here must build: it is part of `lake build`.
import Thanos.Driver.Compact
import Thanos.Model.Planner
import Thanos.Lemmas.Planner
import Thanos.Props.C30
import Thanos.Model.CompactProto
import Thanos.Lemmas.CompactProto
import Thanos.Props.C34
import Thanos.Props.C29
