-- family compact: C29 C30 C34.  Everything listed here must build: it is part of `lake build`.
import Thanos.Driver.Compact
