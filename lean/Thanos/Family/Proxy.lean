-- family proxy: C03 C05 C06 C17.  Everything listed here must build: it is part of `lake build`.
import Thanos.Driver.Proxy
import Thanos.Props.C05
import Thanos.Props.C17
import Thanos.Props.C03
import Thanos.Props.C06
