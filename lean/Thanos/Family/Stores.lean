-- family stores: C07 C08 C09 C10 C15.  Everything listed here must build: it is part of `lake build`.
import Thanos.Driver.Stores
import Thanos.Props.C15
import Thanos.Props.C08
import Thanos.Props.C09
import Thanos.Props.C07
import Thanos.Props.C10
import Thanos.Props.C10Postings
