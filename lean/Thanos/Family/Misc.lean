-- family misc: C45 C46 C47 C48 C49.  Everything listed here must build: it is part of `lake build`.
import Thanos.Driver.Misc
import Thanos.Props.C45
import Thanos.Props.C49
import Thanos.Props.C46
import Thanos.Props.C47
import Thanos.Props.C48
