import Thanos.Model.Downsample
import Thanos.Model.DownsampleSpec
/-
  Helper lemmas for C36 / C37 / C38 (pkg/compact/downsample).  Core Lean only.
-/
namespace Thanos.Downsample

set_option exponentiation.threshold 1100 in
theorem maxFloat_eq : maxFloat = 2 ^ 1024 - 2 ^ 971 := by decide

theorem maxInt64_eq : maxInt64 = 2 ^ 63 - 1 := by decide
theorem minInt64_eq : minInt64 = -(2 ^ 63) := by decide

/-! ### currentWindow -/

theorem minInt64_val : minInt64 = -9223372036854775808 := rfl
theorem maxInt64_val : maxInt64 = 9223372036854775807 := rfl

/-- for a positive resolution `currentWindow` is the floored window end, for negative timestamps too -/
theorem currentWindow_eq {t r : Int} (hr : 0 < r) : currentWindow t r = t - t % r + r - 1 := by
  unfold currentWindow
  have h := @Int.tmod_eq_emod t r
  have hn : ((r.natAbs : Nat) : Int) = r := by omega
  have h1 := Int.emod_nonneg t (show r ≠ 0 by omega)
  have h2 := Int.emod_lt_of_pos t hr
  by_cases hc : 0 ≤ t ∨ r ∣ t
  · simp only [hc, if_true] at h
    simp only [h]
    have : ¬ (t % r - ((0 : Nat) : Int) < 0) := by omega
    simp only [this, if_false]
    omega
  · simp only [hc, if_false] at h
    simp only [h, hn]
    have : t % r - r < 0 := by omega
    simp only [this, if_true]
    omega

/-- before the repair: the truncating remainder puts −5 (resolution 50) into the window ending
    at 49, the window of 3, instead of the window [−50, −1] -/
theorem currentWindowTrunc_negative : currentWindowTrunc (-5) 50 = 49 ∧ currentWindow (-5) 50 = -1 ∧
    currentWindowTrunc 3 50 = 49 := by decide

theorem currentWindow_ge {t r : Int} (hr : 0 < r) : t ≤ currentWindow t r := by
  rw [currentWindow_eq hr]
  have := Int.emod_lt_of_pos t hr
  omega

theorem currentWindow_lt {t r : Int} (hr : 0 < r) : currentWindow t r < t + r := by
  rw [currentWindow_eq hr]
  have := Int.emod_nonneg t (show r ≠ 0 by omega)
  omega

theorem currentWindow_nonneg {t r : Int} (ht : 0 ≤ t) (hr : 0 < r) : 0 ≤ currentWindow t r :=
  Int.le_trans ht (currentWindow_ge hr)

/-- the window end is the last timestamp of its window: `(w + 1) % r = 0` -/
theorem currentWindow_aligned {t r : Int} (hr : 0 < r) : (currentWindow t r + 1) % r = 0 := by
  rw [currentWindow_eq hr]
  have h : t - t % r + r - 1 + 1 = r * (t / r) + r := by
    have := Int.emod_add_mul_ediv t r
    omega
  rw [h]
  simp

/-- two timestamps share a window iff they have the same quotient by `r` -/
theorem currentWindow_eq_iff {s t r : Int} (hr : 0 < r) :
    currentWindow s r = currentWindow t r ↔ s / r = t / r := by
  rw [currentWindow_eq hr, currentWindow_eq hr]
  have h1 := Int.emod_add_mul_ediv s r
  have h2 := Int.emod_add_mul_ediv t r
  constructor
  · intro h
    have : r * (s / r) = r * (t / r) := by omega
    exact Int.eq_of_mul_eq_mul_left (by omega) this
  · intro h
    rw [h] at h1
    omega

theorem currentWindow_mono {s t r : Int} (hst : s ≤ t) (hr : 0 < r) :
    currentWindow s r ≤ currentWindow t r := by
  rw [currentWindow_eq hr, currentWindow_eq hr]
  have h1 := Int.emod_add_mul_ediv s r
  have h2 := Int.emod_add_mul_ediv t r
  have h3 : s / r ≤ t / r := Int.ediv_le_ediv hr hst
  have h4 : r * (s / r) ≤ r * (t / r) := Int.mul_le_mul_of_nonneg_left h3 (by omega)
  omega

/-- a later timestamp is beyond the window end iff it lies in a different window -/
theorem gt_currentWindow_iff {s t r : Int} (hst : s ≤ t) (hr : 0 < r) :
    t > currentWindow s r ↔ currentWindow t r ≠ currentWindow s r := by
  constructor
  · intro h heq
    have := currentWindow_ge (t := t) hr
    omega
  · intro hne
    have hmono := currentWindow_mono hst hr
    have hlt : currentWindow s r < currentWindow t r := by omega
    -- both are window ends: they differ by a multiple of r
    rw [currentWindow_eq hr, currentWindow_eq hr] at hlt
    rw [currentWindow_eq hr]
    have h1 := Int.emod_add_mul_ediv s r
    have h2 := Int.emod_add_mul_ediv t r
    have h3 : s / r < t / r := by
      apply Decidable.byContradiction
      intro hc
      have : t / r ≤ s / r := by omega
      have := Int.mul_le_mul_of_nonneg_left this (show 0 ≤ r by omega)
      omega
    have h4 : r * (s / r + 1) ≤ r * (t / r) := Int.mul_le_mul_of_nonneg_left (by omega) (by omega)
    have h5 : r * (s / r + 1) = r * (s / r) + r := by rw [Int.mul_add]; simp
    have := Int.emod_nonneg t (show r ≠ 0 by omega)
    omega

/-! ### the aggregator -/

/-- feed the values to the aggregator in order -/
def feed (a : Agg) (vs : List Int) : Agg := vs.foldl Agg.add a

/-- the aggregator after the values `hist` of earlier windows and the values `cur` of the
    current window -/
def snap (hist cur : List Int) : Agg := feed (feed Agg.zero hist).reset cur

/-- what `downsampleBatch` must emit for the runs `gs`, `hist` being the values before them -/
def specEmit (lastT : Int) : List (Int × List Pt) → List Int → List (Int × Agg)
  | [], _ => []
  | (w, g) :: gs, hist =>
    (min w lastT, snap hist (g.map (·.2))) :: specEmit lastT gs (hist ++ g.map (·.2))

@[simp] theorem feed_nil (a : Agg) : feed a [] = a := rfl
@[simp] theorem feed_cons (a : Agg) (v : Int) (vs : List Int) : feed a (v :: vs) = feed (a.add v) vs := rfl
theorem feed_append (a : Agg) (xs ys : List Int) : feed a (xs ++ ys) = feed (feed a xs) ys := by
  simp [feed, List.foldl_append]

/-- `reset` only touches the per-window fields, `add` treats the cumulative fields independently -/
theorem reset_add_reset (a : Agg) (v : Int) : (a.reset.add v).reset = (a.add v).reset := rfl

theorem reset_feed_aux : ∀ (vs : List Int) (a b : Agg), a.reset = b.reset → (feed a vs).reset = (feed b vs).reset
  | [], _, _, h => h
  | v :: vs, a, b, h => by
    apply reset_feed_aux vs
    have : (a.add v).reset = (a.reset.add v).reset := (reset_add_reset a v).symm
    rw [this, h, reset_add_reset]

theorem reset_reset (a : Agg) : a.reset.reset = a.reset := by simp [Agg.reset]

theorem reset_feed_reset (a : Agg) (vs : List Int) : (feed a.reset vs).reset = (feed a vs).reset :=
  reset_feed_aux vs _ _ (reset_reset a)

theorem feed_total : ∀ (vs : List Int) (a : Agg), (feed a vs).total = a.total + vs.length
  | [], a => by simp
  | v :: vs, a => by simp [feed_total vs, Agg.add]; omega

theorem snap_total (hist cur : List Int) : (snap hist cur).total = hist.length + cur.length := by
  simp [snap, feed_total, Agg.reset, Agg.zero]

theorem snap_snoc (hist cur : List Int) (v : Int) : (snap hist cur).add v = snap hist (cur ++ [v]) := by
  simp [snap, feed_append]

theorem snap_next (hist cur : List Int) (v : Int) : (snap hist cur).reset.add v = snap (hist ++ cur) [v] := by
  simp [snap, feed_append, reset_feed_reset]

/-- **downsampleBatch computes the per-window snapshots**: from a state that stands for the
    window ending at `w` with samples `cur`, the loop emits exactly `specEmit` of the runs. -/
theorem batchEmit_runsAux (r lastT : Int) (hr : 0 < r) (hl : minInt64 < lastT) :
    ∀ (rest cur : List Pt) (hist : List Int) (w t0 : Int), cur ≠ [] → minInt64 < t0 → w = currentWindow t0 r →
      (∀ p ∈ rest, t0 ≤ p.1 ∧ p.1 ≤ lastT) → rest.Pairwise (fun a b => a.1 ≤ b.1) →
      batchEmit r lastT rest (min w lastT) (snap hist (cur.map (·.2))) =
        specEmit lastT (runsAux r w cur rest) hist := by
  intro rest
  induction rest with
  | nil =>
    intro cur hist w t0 hc _ _ _ _
    have : 0 < (snap hist (cur.map (·.2))).total := by
      rw [snap_total]
      cases cur with
      | nil => exact absurd rfl hc
      | cons _ _ => simp; omega
    simp [batchEmit, runsAux, specEmit, this]
  | cons p rest ih =>
    intro cur hist w t0 hc ht0 hw hb hs
    obtain ⟨t, v⟩ := p
    have hpt := hb (t, v) (by simp)
    simp only at hpt
    have ht : minInt64 < t := by omega
    have hwn : t0 ≤ w := hw ▸ currentWindow_ge hr
    have hne : min w lastT ≠ minInt64 := by
      simp only [Int.min_def]; split <;> omega
    have hrest : ∀ q ∈ rest, t ≤ q.1 ∧ q.1 ≤ lastT := by
      intro q hq
      have h1 := (List.pairwise_cons.mp hs).1 q hq
      exact ⟨h1, (hb q (List.mem_cons_of_mem _ hq)).2⟩
    have hs' := (List.pairwise_cons.mp hs).2
    -- the loop's test and the window test agree
    have htest : t > min w lastT ↔ currentWindow t r ≠ w := by
      rw [hw, ← gt_currentWindow_iff hpt.1 hr]
      simp only [Int.min_def]
      split <;> omega
    unfold batchEmit runsAux
    by_cases hgt : t > min w lastT
    · have hcw : ¬ currentWindow t r = w := htest.mp hgt
      simp only [hgt, if_true, hne, ne_eq, not_false_eq_true, hcw, if_false, specEmit]
      rw [snap_next]
      have := ih [(t, v)] (hist ++ cur.map (·.2)) (currentWindow t r) t (by simp) ht rfl hrest hs'
      simpa using this
    · have hcw : currentWindow t r = w := by
        apply Decidable.byContradiction
        intro h
        exact hgt (htest.mpr h)
      simp only [hgt, if_false, hcw, if_true]
      rw [snap_snoc]
      have := ih (cur ++ [(t, v)]) hist w t0 (by simp) ht0 hw
        (fun q hq => hb q (List.mem_cons_of_mem _ hq)) hs'
      simpa using this

/-! ### the fields of a snapshot -/

theorem feed_count : ∀ (vs : List Int) (a : Agg), (feed a vs).count = a.count + vs.length
  | [], a => by simp
  | v :: vs, a => by simp [feed_count vs, Agg.add]; omega

theorem feed_sum : ∀ (vs : List Int) (a : Agg), (feed a vs).sum = a.sum + vs.sum
  | [], a => by simp
  | v :: vs, a => by simp [feed_sum vs, Agg.add]; omega

theorem snap_count (hist cur : List Int) : (snap hist cur).count = cur.length := by
  simp [snap, feed_count, Agg.reset]

theorem snap_sum (hist cur : List Int) : (snap hist cur).sum = cur.sum := by
  simp [snap, feed_sum, Agg.reset]

theorem feed_min : ∀ (vs : List Int) (a : Agg), (feed a vs).min = vs.foldl min a.min
  | [], a => by simp
  | v :: vs, a => by
    simp only [feed_cons, feed_min vs, List.foldl_cons]
    congr 1
    simp only [Agg.add, Int.min_def]
    split <;> split <;> omega

theorem feed_max : ∀ (vs : List Int) (a : Agg), (feed a vs).max = vs.foldl max a.max
  | [], a => by simp
  | v :: vs, a => by
    simp only [feed_cons, feed_max vs, List.foldl_cons]
    congr 1
    simp only [Agg.add, Int.max_def]
    split <;> split <;> omega

/-- every finite float64 lies in [−MaxFloat64, MaxFloat64] -/
def Finite (v : Int) : Prop := -maxFloat ≤ v ∧ v ≤ maxFloat

instance (v : Int) : Decidable (Finite v) := by unfold Finite; infer_instance

theorem snap_min (hist : List Int) (v : Int) (vs : List Int) (hv : v ≤ maxFloat) :
    some (snap hist (v :: vs)).min = (v :: vs).min? := by
  rw [List.min?_cons']
  simp only [snap, feed_cons, feed_min]
  congr 2
  simp only [Agg.add, Agg.reset]
  by_cases h : v < maxFloat
  · simp [h]
  · simp only [h, if_false]; omega

theorem snap_max (hist : List Int) (v : Int) (vs : List Int) (hv : -maxFloat ≤ v) :
    some (snap hist (v :: vs)).max = (v :: vs).max? := by
  rw [List.max?_cons']
  simp only [snap, feed_cons, feed_max]
  congr 2
  simp only [Agg.add, Agg.reset]
  by_cases h : v > -maxFloat
  · simp [h]
  · simp only [h, if_false]; omega

/-- the cumulative part of the aggregator (what `reset` leaves alone) -/
def Agg.cum (a : Agg) : Nat × Int × Nat × Int := (a.total, a.counter, a.resets, a.last)

theorem cum_reset (a : Agg) : a.reset.cum = a.cum := rfl

theorem cum_add {a b : Agg} (v : Int) (h : a.cum = b.cum) : (a.add v).cum = (b.add v).cum := by
  simp only [Agg.cum, Prod.mk.injEq] at h
  obtain ⟨h1, h2, h3, h4⟩ := h
  simp [Agg.cum, Agg.add, h1, h2, h3, h4]

theorem cum_feed : ∀ (vs : List Int) {a b : Agg}, a.cum = b.cum → (feed a vs).cum = (feed b vs).cum
  | [], _, _, h => h
  | v :: vs, _, _, h => cum_feed vs (cum_add v h)

theorem snap_cum (hist cur : List Int) : (snap hist cur).cum = (feed Agg.zero (hist ++ cur)).cum := by
  rw [feed_append]
  exact cum_feed cur (cum_reset _)

/-- once a sample has been added, counter and last value follow `adjStep` -/
theorem feed_counter : ∀ (vs : List Int) (a : Agg), 0 < a.total →
    ((feed a vs).counter, (feed a vs).last) = vs.foldl adjStep (a.counter, a.last) ∧ 0 < (feed a vs).total
  | [], a, h => by simp [h]
  | v :: vs, a, h => by
    have ht : 0 < (a.add v).total := by simp [Agg.add]
    have := feed_counter vs (a.add v) ht
    simp only [feed_cons, List.foldl_cons]
    rw [this.1]
    refine ⟨?_, this.2⟩
    congr 1
    simp [Agg.add, adjStep, h]

theorem feed_zero_counter (v : Int) (vs : List Int) : (feed Agg.zero (v :: vs)).counter = adjusted (v :: vs) := by
  have h := (feed_counter vs (Agg.zero.add v) (by simp [Agg.add])).1
  have h1 : (Agg.zero.add v).counter = v := by simp [Agg.add, Agg.zero]
  have h2 : (Agg.zero.add v).last = v := by simp [Agg.add]
  rw [h1, h2] at h
  simp only [feed_cons, adjusted]
  rw [← h]

/-- the counter aggregate of a snapshot is the reset-adjusted counter over everything seen so far -/
theorem snap_counter (hist cur : List Int) (h : hist ++ cur ≠ []) :
    (snap hist cur).counter = adjusted (hist ++ cur) := by
  have hc := snap_cum hist cur
  have : (snap hist cur).counter = (feed Agg.zero (hist ++ cur)).counter := by
    simp only [Agg.cum, Prod.mk.injEq] at hc
    exact hc.2.1
  rw [this]
  cases hl : hist ++ cur with
  | nil => exact absurd hl h
  | cons v vs => exact feed_zero_counter v vs

/-! ### downsampleBatch as a whole -/

theorem batchNextT_last (r lastT : Int) (hr : 0 < r) : ∀ (rest : List Pt) (nextT : Int) (v : Int),
    nextT ≤ lastT → rest.getLast? = some (lastT, v) → batchNextT r lastT rest nextT = lastT := by
  intro rest
  induction rest with
  | nil => intro _ _ _ h; simp at h
  | cons p rest ih =>
    intro nextT v hle hlast
    obtain ⟨t, x⟩ := p
    cases rest with
    | nil =>
      simp at hlast
      obtain ⟨rfl, rfl⟩ := hlast
      have := currentWindow_ge (t := t) hr
      simp only [batchNextT, Int.min_def]
      split
      · split <;> omega
      · omega
    | cons q rest =>
      rw [List.getLast?_cons_cons] at hlast
      simp only [batchNextT]
      split
      · exact ih _ v (by simp only [Int.min_def]; split <;> omega) hlast
      · exact ih _ v hle hlast

/-- **downsampleBatch on a time-ordered batch**: one snapshot per window run, emitted at the
    window end (the last run: at the batch's last timestamp), and the returned `nextT` is the
    batch's last timestamp. -/
theorem downsampleBatch_runs (r : Int) (hr : 0 < r) (data : List Pt) (lastT lv : Int)
    (hlast : data.getLast? = some (lastT, lv)) (h0 : ∀ p ∈ data, minInt64 < p.1)
    (hs : data.Pairwise (fun a b => a.1 ≤ b.1)) :
    downsampleBatch data r = some (specEmit lastT (runs r data) [], lastT) := by
  have hmem : (lastT, lv) ∈ data := by
    obtain ⟨ys, rfl⟩ := List.getLast?_eq_some_iff.mp hlast
    simp
  have hl0 : minInt64 < lastT := h0 _ hmem
  have hle : ∀ p ∈ data, p.1 ≤ lastT := by
    obtain ⟨ys, rfl⟩ := List.getLast?_eq_some_iff.mp hlast
    intro p hp
    rw [List.pairwise_append] at hs
    rcases List.mem_append.mp hp with h | h
    · exact hs.2.2 p h (lastT, lv) (by simp)
    · simp at h; rw [h]; exact Int.le_refl _
  unfold downsampleBatch
  rw [hlast]
  simp only
  rw [batchNextT_last r lastT hr data minInt64 lv (by omega) hlast]
  cases data with
  | nil => simp at hlast
  | cons p rest =>
    obtain ⟨t, v⟩ := p
    have ht : minInt64 < t := h0 (t, v) (by simp)
    have hgt : t > minInt64 := ht
    have hrest : ∀ q ∈ rest, t ≤ q.1 ∧ q.1 ≤ lastT := fun q hq =>
      ⟨(List.pairwise_cons.mp hs).1 q hq, hle q (List.mem_cons_of_mem _ hq)⟩
    have := batchEmit_runsAux r lastT hr hl0 rest [(t, v)] [] (currentWindow t r) t (by simp) ht rfl hrest
      (List.pairwise_cons.mp hs).2
    simp only [batchEmit, hgt, if_true, ne_eq, not_true_eq_false, if_false, List.nil_append, runs]
    have h1 : Agg.zero.reset.add v = snap [] [v] := by simp [snap]
    rw [h1]
    simpa using this

/-! ### properties of `runs` -/

theorem runsAux_flatten (r : Int) : ∀ (rest cur : List Pt) (w : Int),
    (runsAux r w cur rest).flatMap (·.2) = cur ++ rest
  | [], cur, w => by simp [runsAux]
  | p :: rest, cur, w => by
    unfold runsAux
    split
    · rw [runsAux_flatten r rest]; simp
    · rw [List.flatMap_cons, runsAux_flatten r rest]; simp

/-- the runs partition the samples, in order -/
theorem runs_flatten (r : Int) : ∀ (l : List Pt), (runs r l).flatMap (·.2) = l
  | [] => rfl
  | p :: rest => by simp [runs, runsAux_flatten]

theorem runsAux_ne_nil (r : Int) : ∀ (rest cur : List Pt) (w : Int), cur ≠ [] →
    ∀ g ∈ runsAux r w cur rest, g.2 ≠ []
  | [], cur, w, hc, g, hg => by
    simp [runsAux] at hg; rw [hg]; exact hc
  | p :: rest, cur, w, hc, g, hg => by
    unfold runsAux at hg
    split at hg
    · exact runsAux_ne_nil r rest _ w (by simp) g hg
    · rcases List.mem_cons.mp hg with h | h
      · rw [h]; exact hc
      · exact runsAux_ne_nil r rest _ _ (by simp) g h

/-- no run is empty -/
theorem runs_ne_nil (r : Int) (l : List Pt) : ∀ g ∈ runs r l, g.2 ≠ [] := by
  cases l with
  | nil => intro g hg; simp [runs] at hg
  | cons p rest => exact runsAux_ne_nil r rest [p] _ (by simp)

theorem runsAux_window (r : Int) : ∀ (rest cur : List Pt) (w : Int), (∀ p ∈ cur, currentWindow p.1 r = w) →
    ∀ g ∈ runsAux r w cur rest, ∀ p ∈ g.2, currentWindow p.1 r = g.1
  | [], cur, w, hc, g, hg => by
    simp [runsAux] at hg; rw [hg]; exact hc
  | q :: rest, cur, w, hc, g, hg => by
    unfold runsAux at hg
    split at hg
    · rename_i hq
      refine runsAux_window r rest _ w ?_ g hg
      intro p hp
      rcases List.mem_append.mp hp with h | h
      · exact hc p h
      · simp at h; rw [h]; exact hq
    · rcases List.mem_cons.mp hg with h | h
      · rw [h]; exact hc
      · refine runsAux_window r rest _ _ ?_ g h
        intro p hp; simp at hp; rw [hp]

/-- every sample of a run lies in the run's window -/
theorem runs_window (r : Int) (l : List Pt) : ∀ g ∈ runs r l, ∀ p ∈ g.2, currentWindow p.1 r = g.1 := by
  cases l with
  | nil => intro g hg; simp [runs] at hg
  | cons q rest =>
    refine runsAux_window r rest [q] _ ?_
    intro p hp; simp at hp; rw [hp]

theorem runsAux_keys_ge (r : Int) (hr : 0 < r) : ∀ (rest cur : List Pt) (w t0 : Int), w = currentWindow t0 r →
    (∀ p ∈ rest, t0 ≤ p.1) → rest.Pairwise (fun a b => a.1 ≤ b.1) → ∀ g ∈ runsAux r w cur rest, w ≤ g.1
  | [], cur, w, t0, _, _, _, g, hg => by
    simp [runsAux] at hg; rw [hg]; exact Int.le_refl _
  | q :: rest, cur, w, t0, hw, hb, hs, g, hg => by
    unfold runsAux at hg
    have hq := hb q (by simp)
    have hs' := (List.pairwise_cons.mp hs).2
    split at hg
    · exact runsAux_keys_ge r hr rest _ w t0 hw (fun p hp => hb p (List.mem_cons_of_mem _ hp)) hs' g hg
    · rcases List.mem_cons.mp hg with h | h
      · rw [h]; exact Int.le_refl _
      · have hmono : w ≤ currentWindow q.1 r := hw ▸ currentWindow_mono hq hr
        have := runsAux_keys_ge r hr rest [q] _ q.1 rfl
          (fun p hp => (List.pairwise_cons.mp hs).1 p hp) hs' g h
        omega

theorem runsAux_keys_sorted (r : Int) (hr : 0 < r) : ∀ (rest cur : List Pt) (w t0 : Int), w = currentWindow t0 r →
    (∀ p ∈ rest, t0 ≤ p.1) → rest.Pairwise (fun a b => a.1 ≤ b.1) →
    (runsAux r w cur rest).Pairwise (fun a b => a.1 < b.1)
  | [], cur, w, t0, _, _, _ => by simp [runsAux]
  | q :: rest, cur, w, t0, hw, hb, hs => by
    unfold runsAux
    have hq := hb q (by simp)
    have hs' := (List.pairwise_cons.mp hs).2
    split
    · exact runsAux_keys_sorted r hr rest _ w t0 hw (fun p hp => hb p (List.mem_cons_of_mem _ hp)) hs'
    · rename_i hne
      have hrest : ∀ p ∈ rest, q.1 ≤ p.1 := fun p hp => (List.pairwise_cons.mp hs).1 p hp
      rw [List.pairwise_cons]
      refine ⟨?_, runsAux_keys_sorted r hr rest [q] _ q.1 rfl hrest hs'⟩
      intro g hg
      have hmono : w ≤ currentWindow q.1 r := hw ▸ currentWindow_mono hq hr
      have := runsAux_keys_ge r hr rest [q] _ q.1 rfl hrest hs' g hg
      simp only
      omega

/-- for time-ordered samples the windows of the runs strictly increase: every window occurs once -/
theorem runs_keys_sorted (r : Int) (hr : 0 < r) (l : List Pt)
    (hs : l.Pairwise (fun a b => a.1 ≤ b.1)) : (runs r l).Pairwise (fun a b => a.1 < b.1) := by
  cases l with
  | nil => simp [runs]
  | cons q rest =>
    exact runsAux_keys_sorted r hr rest [q] _ q.1 rfl
      (fun p hp => (List.pairwise_cons.mp hs).1 p hp) (List.pairwise_cons.mp hs).2

/-- a partition into groups with pairwise different keys, every element carrying the key of its
    group: filtering the concatenation by a group's key gives back the group -/
theorem filter_flatMap_key (key : Pt → Int) : ∀ (gs : List (Int × List Pt)),
    gs.Pairwise (fun a b => a.1 ≠ b.1) → (∀ g ∈ gs, ∀ p ∈ g.2, key p = g.1) →
    ∀ g ∈ gs, (gs.flatMap (·.2)).filter (fun p => key p = g.1) = g.2
  | [], _, _, g, hg => by simp at hg
  | g0 :: gs, hp, hk, g, hg => by
    rw [List.flatMap_cons, List.filter_append]
    have hp' := List.pairwise_cons.mp hp
    rcases List.mem_cons.mp hg with h | h
    · subst h
      have h1 : g.2.filter (fun p => key p = g.1) = g.2 :=
        List.filter_eq_self.mpr (fun p hp => by simpa using hk g (by simp) p hp)
      have h2 : (gs.flatMap (·.2)).filter (fun p => key p = g.1) = [] := by
        apply List.filter_eq_nil_iff.mpr
        intro p hpm
        obtain ⟨g', hg', hpg'⟩ := List.mem_flatMap.mp hpm
        have := hk g' (List.mem_cons_of_mem _ hg') p hpg'
        have hne := hp'.1 g' hg'
        simp only [decide_eq_true_eq]
        omega
      rw [h1, h2]; simp
    · have h1 : g0.2.filter (fun p => key p = g.1) = [] := by
        apply List.filter_eq_nil_iff.mpr
        intro p hpm
        have := hk g0 (by simp) p hpm
        have hne := hp'.1 g h
        simp only [decide_eq_true_eq]
        omega
      rw [h1, List.nil_append]
      exact filter_flatMap_key key gs hp'.2 (fun g' hg' => hk g' (List.mem_cons_of_mem _ hg')) g h

/-- **runs = grouping by window**: for time-ordered samples, the run with window end `w` consists
    of exactly the samples whose window ends at `w` -/
theorem runs_eq_filter (r : Int) (hr : 0 < r) (l : List Pt)
    (hs : l.Pairwise (fun a b => a.1 ≤ b.1)) :
    ∀ g ∈ runs r l, g.2 = l.filter (fun p => currentWindow p.1 r = g.1) := by
  intro g hg
  have hk := runs_keys_sorted r hr l hs
  have := filter_flatMap_key (fun p => currentWindow p.1 r) (runs r l)
    (hk.imp (fun h => by omega)) (runs_window r l) g hg
  rw [runs_flatten] at this
  exact this.symm

end Thanos.Downsample
