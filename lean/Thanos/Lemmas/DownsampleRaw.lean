import Thanos.Lemmas.Downsample
import Thanos.Lemmas.DownsampleAggr
/-
  Helper lemmas for C36: the batching loop of downsampleRawLoop (`rawLoop`, `rawBatches`).
-/
namespace Thanos.Downsample

/-- something is emitted: the loop ends with a non-empty aggregator -/
theorem batchEmit_ne_nil' (r lastT : Int) : ∀ (data : List Pt) (nextT : Int) (a : Agg), 0 < a.total →
    batchEmit r lastT data nextT a ≠ [] := by
  intro data
  induction data with
  | nil => intro nextT a h; simp [batchEmit, h]
  | cons q qs ih =>
    intro nextT a h
    unfold batchEmit
    split
    · intro hc
      have := List.append_eq_nil_iff.mp hc
      exact ih _ _ (by simp [Agg.add]) this.2
    · exact ih _ _ (by simp [Agg.add])

theorem floatBatch_isSome (r : Int) (b : List Pt) (h : b ≠ []) : ∃ c, floatBatch b r = some c := by
  cases b with
  | nil => exact absurd rfl h
  | cons p ps =>
    obtain ⟨l, hl⟩ : ∃ l, (p :: ps).getLast? = some l := by
      cases hg : (p :: ps).getLast? with
      | none => simp at hg
      | some l => exact ⟨l, rfl⟩
    simp only [floatBatch, List.head?_cons, hl, downsampleBatch]
    exact ⟨_, rfl⟩

/-- what a batch contributes: nothing if every sample is a NaN, else the chunk of its non-NaN samples -/
def batchChunk (r : Int) (b : List Raw) : Option Chunk :=
  if dropNaN b = [] then none else floatBatch (dropNaN b) r

/-- `rawLoop` = the batches, each aggregated on its own -/
theorem rawLoop_eq (r : Int) (bs : Nat) (hbs : 1 ≤ bs) : ∀ (fuel : Nat) (data : List Raw), data.length ≤ fuel →
    rawLoop r bs fuel data = some ((rawBatches r bs fuel data).filterMap (batchChunk r)) := by
  intro fuel
  induction fuel with
  | zero =>
    intro data h
    cases data with
    | nil => simp [rawLoop, rawBatches]
    | cons _ _ => simp at h
  | succ fuel ih =>
    intro data h
    cases data with
    | nil => simp [rawLoop, rawBatches]
    | cons d ds =>
      have hj : 1 ≤ min bs (d :: ds).length := by simp only [List.length_cons]; omega
      have hjl : min bs (d :: ds).length ≤ (d :: ds).length := Nat.min_le_right _ _
      simp only [rawLoop, rawBatches]
      generalize min bs (d :: ds).length = j at *
      obtain ⟨l, hl⟩ : ∃ l, ((d :: ds).take j).getLast? = some l := by
        cases hg : ((d :: ds).take j).getLast? with
        | none =>
          have := List.getLast?_eq_none_iff.mp hg
          have hlen := congrArg List.length this
          simp only [List.length_take, List.length_nil] at hlen
          omega
        | some l => exact ⟨l, rfl⟩
      have hrest : ((List.drop j (d :: ds)).dropWhile fun s => decide (s.1 ≤ currentWindow l.1 r)).length ≤ fuel := by
        have h1 := (List.dropWhile_suffix (fun s : Raw => decide (s.1 ≤ currentWindow l.1 r)) (l := List.drop j (d :: ds))).length_le
        simp only [List.length_drop] at h1
        omega
      have := ih _ hrest
      simp only [hl, this, List.filterMap_cons, batchChunk]
      by_cases hb : dropNaN (List.take j (d :: ds) ++
          List.takeWhile (fun s => decide (s.1 ≤ currentWindow l.1 r)) (List.drop j (d :: ds))) = []
      · simp only [hb, if_true]
      · obtain ⟨c, hc⟩ := floatBatch_isSome r _ hb
        simp only [hb, if_false, hc]

/-! ### the batches partition the series along window boundaries -/

theorem mem_takeWhile_pred {α : Type} (p : α → Bool) : ∀ (l : List α) (x : α), x ∈ l.takeWhile p → p x = true
  | [], _, h => by simp at h
  | y :: ys, x, h => by
    simp only [List.takeWhile_cons] at h
    split at h
    · rename_i hy
      rcases List.mem_cons.mp h with h | h
      · rw [h]; exact hy
      · exact mem_takeWhile_pred p ys x h
    · simp at h

/-- in a time-ordered list everything left after dropping the samples `≤ W` is `> W` -/
theorem dropWhile_le_gt (W : Int) : ∀ (l : List Raw), SortedRaw l →
    ∀ y ∈ l.dropWhile (fun s => decide (s.1 ≤ W)), W < y.1
  | [], _, y, h => by simp at h
  | x :: xs, hs, y, h => by
    simp only [List.dropWhile_cons] at h
    have hs' := List.pairwise_cons.mp hs
    split at h
    · exact dropWhile_le_gt W xs hs'.2 y h
    · rename_i hx
      have hx' : W < x.1 := by simpa using hx
      rcases List.mem_cons.mp h with h | h
      · rw [h]; exact hx'
      · have := hs'.1 y h; omega

/-- batches are window-aligned: everything in an earlier batch lies in an earlier window than
    everything in a later batch -/
def AlignedRaw (r : Int) (bs : List (List Raw)) : Prop :=
  bs.Pairwise fun b1 b2 => ∀ x ∈ b1, ∀ y ∈ b2, currentWindow x.1 r < currentWindow y.1 r

theorem rawBatches_props (r : Int) (hr : 0 < r) (bs : Nat) (hbs : 1 ≤ bs) : ∀ (fuel : Nat) (data : List Raw),
    data.length ≤ fuel → SortedRaw data →
    (rawBatches r bs fuel data).flatten = data ∧ (∀ b ∈ rawBatches r bs fuel data, b ≠ []) ∧
    AlignedRaw r (rawBatches r bs fuel data) := by
  intro fuel
  induction fuel with
  | zero =>
    intro data h _
    cases data with
    | nil => simp [rawBatches, AlignedRaw]
    | cons _ _ => simp at h
  | succ fuel ih =>
    intro data h hs
    cases data with
    | nil => simp [rawBatches, AlignedRaw]
    | cons d ds =>
      have hj : 1 ≤ min bs (d :: ds).length := by simp only [List.length_cons]; omega
      simp only [rawBatches]
      generalize min bs (d :: ds).length = j at *
      obtain ⟨l, hl⟩ : ∃ l, ((d :: ds).take j).getLast? = some l := by
        cases hg : ((d :: ds).take j).getLast? with
        | none =>
          have := List.getLast?_eq_none_iff.mp hg
          have hlen := congrArg List.length this
          simp only [List.length_take, List.length_nil, List.length_cons] at hlen
          omega
        | some l => exact ⟨l, rfl⟩
      simp only [hl]
      -- abbreviations
      generalize hhead : (d :: ds).take j = head at *
      generalize htail : (d :: ds).drop j = tail at *
      have hsplit : head ++ tail = d :: ds := by rw [← hhead, ← htail]; exact List.take_append_drop j _
      have hs2 : SortedRaw (head ++ tail) := hsplit ▸ hs
      have hsp := List.pairwise_append.mp hs2
      have hlmem : l ∈ head := List.mem_of_getLast? hl
      -- everything in `head` is at most `l`
      have hhead_le : ∀ x ∈ head, x.1 ≤ l.1 := by
        obtain ⟨ys, hys⟩ := List.getLast?_eq_some_iff.mp hl
        intro x hx
        rw [hys] at hx hsp
        rcases List.mem_append.mp hx with hx | hx
        · have := (List.pairwise_append.mp hsp.1).2.2 x hx l (by simp)
          omega
        · simp at hx; rw [hx]; exact Int.le_refl _
      let W := currentWindow l.1 r
      have hdrop_sub : (tail.dropWhile fun s => decide (s.1 ≤ W)).Sublist tail := List.dropWhile_sublist _
      have hrest_len : (tail.dropWhile fun s => decide (s.1 ≤ W)).length ≤ fuel := by
        have h1 := hdrop_sub.length_le
        have h2 := congrArg List.length hsplit
        have h3 : 1 ≤ head.length := by
          cases head with
          | nil => simp at hlmem
          | cons _ _ => simp
        simp only [List.length_append, List.length_cons] at h2 h
        omega
      have hrest_sorted : SortedRaw (tail.dropWhile fun s => decide (s.1 ≤ W)) := hsp.2.1.sublist hdrop_sub
      obtain ⟨ih1, ih2, ih3⟩ := ih _ hrest_len hrest_sorted
      refine ⟨?_, ?_, ?_⟩
      · rw [List.flatten_cons, ih1, List.append_assoc, List.takeWhile_append_dropWhile, hsplit]
      · intro b hb
        rcases List.mem_cons.mp hb with h | h
        · rw [h]
          intro hc
          have := (List.append_eq_nil_iff.mp hc).1
          rw [this] at hlmem; simp at hlmem
        · exact ih2 b h
      · refine List.pairwise_cons.mpr ⟨?_, ih3⟩
        intro b2 hb2 x hx y hy
        -- y lies in the rest, beyond W
        have hyrest : y ∈ tail.dropWhile fun s => decide (s.1 ≤ W) := by
          rw [← ih1]; exact List.mem_flatten.mpr ⟨b2, hb2, hy⟩
        have hyW : W < y.1 := dropWhile_le_gt W tail hsp.2.1 y hyrest
        have hcy := currentWindow_ge (t := y.1) hr
        -- x lies in the window of l or before
        have hxW : currentWindow x.1 r ≤ W := by
          rcases List.mem_append.mp hx with hx | hx
          · exact currentWindow_mono (hhead_le x hx) hr
          · have hxt : x ∈ tail := (List.takeWhile_sublist _).subset hx
            have hxle : x.1 ≤ W := by simpa using mem_takeWhile_pred _ tail x hx
            have hlx : l.1 ≤ x.1 := Int.le_of_lt (hsp.2.2 l hlmem x hxt)
            have hnot : ¬ x.1 > currentWindow l.1 r := by simp only [W] at hxle; omega
            have : currentWindow x.1 r = currentWindow l.1 r := by
              apply Decidable.byContradiction
              intro hne
              exact hnot ((gt_currentWindow_iff hlx hr).mpr hne)
            simp only [W]; omega
        omega

/-! ### runs of a window-aligned concatenation -/

def Aligned (r : Int) (bs : List (List Pt)) : Prop :=
  bs.Pairwise fun b1 b2 => ∀ x ∈ b1, ∀ y ∈ b2, currentWindow x.1 r < currentWindow y.1 r

theorem runsAux_append (r : Int) : ∀ (l1 cur : List Pt) (w : Int) (l2 : List Pt), cur ≠ [] →
    (∀ p ∈ cur, currentWindow p.1 r = w) → l2 ≠ [] →
    (∀ x ∈ cur ++ l1, ∀ y ∈ l2, currentWindow x.1 r < currentWindow y.1 r) →
    runsAux r w cur (l1 ++ l2) = runsAux r w cur l1 ++ runs r l2 := by
  intro l1
  induction l1 with
  | nil =>
    intro cur w l2 hc hw hl2 hlt
    cases l2 with
    | nil => exact absurd rfl hl2
    | cons q qs =>
      obtain ⟨c0, hc0⟩ : ∃ c0, c0 ∈ cur := by
        cases cur with
        | nil => exact absurd rfl hc
        | cons c _ => exact ⟨c, by simp⟩
      have h1 := hlt c0 (by simp [hc0]) q (by simp)
      have h2 := hw c0 hc0
      have hne : ¬ currentWindow q.1 r = w := by omega
      simp [runsAux, runs, hne]
  | cons p l1 ih =>
    intro cur w l2 hc hw hl2 hlt
    simp only [List.cons_append, runsAux]
    split
    · rename_i hp
      rw [ih (cur ++ [p]) w l2 (by simp) ?_ hl2 ?_]
      · intro x hx
        rcases List.mem_append.mp hx with h | h
        · exact hw x h
        · simp at h; rw [h]; exact hp
      · intro x hx y hy
        refine hlt x ?_ y hy
        simp only [List.mem_append, List.mem_cons, List.mem_singleton, List.not_mem_nil, or_false] at hx ⊢
        rcases hx with (h | h) | h
        · exact Or.inl h
        · exact Or.inr (Or.inl h)
        · exact Or.inr (Or.inr h)
    · rw [ih [p] _ l2 (by simp) (by intro x hx; simp at hx; rw [hx]) hl2 ?_]
      · simp
      · intro x hx y hy
        refine hlt x ?_ y hy
        simp only [List.mem_append, List.mem_cons, List.not_mem_nil, or_false] at hx ⊢
        rcases hx with h | h
        · exact Or.inr (Or.inl h)
        · exact Or.inr (Or.inr h)

theorem runs_append (r : Int) (l1 l2 : List Pt) (h1 : l1 ≠ []) (h2 : l2 ≠ [])
    (hlt : ∀ x ∈ l1, ∀ y ∈ l2, currentWindow x.1 r < currentWindow y.1 r) :
    runs r (l1 ++ l2) = runs r l1 ++ runs r l2 := by
  cases l1 with
  | nil => exact absurd rfl h1
  | cons p ps =>
    simp only [List.cons_append, runs]
    exact runsAux_append r ps [p] _ l2 (by simp) (by intro x hx; simp at hx; rw [hx]) h2
      (by intro x hx y hy; exact hlt x (by simpa using hx) y hy)

/-- no window is split across batches, so the runs of the whole series are the runs of the batches -/
theorem runs_flatten_aligned (r : Int) : ∀ (bs : List (List Pt)), Aligned r bs → (∀ b ∈ bs, b ≠ []) →
    runs r bs.flatten = bs.flatMap (runs r)
  | [], _, _ => rfl
  | b :: bs, ha, hn => by
    have ha' := List.pairwise_cons.mp ha
    have ih := runs_flatten_aligned r bs ha'.2 (fun b' hb' => hn b' (List.mem_cons_of_mem _ hb'))
    rw [List.flatten_cons, List.flatMap_cons]
    by_cases he : bs.flatten = []
    · have : bs.flatMap (runs r) = [] := by rw [← ih, he]; rfl
      rw [he, this]; simp
    · rw [runs_append r b bs.flatten (hn b (by simp)) he ?_, ih]
      intro x hx y hy
      obtain ⟨b2, hb2, hy2⟩ := List.mem_flatten.mp hy
      exact ha'.1 b2 hb2 x hx y hy2

/-! ### from raw batches to the non-NaN batches -/

/-- the batches after the NaN filter, all-NaN batches left out: one chunk is produced per element -/
def ptBatches (r : Int) (bs : Nat) (fuel : Nat) (data : List Raw) : List (List Pt) :=
  ((rawBatches r bs fuel data).map dropNaN).filter fun b => !b.isEmpty

theorem mem_dropNaN {b : List Raw} {p : Pt} (h : p ∈ dropNaN b) : (p.1, some p.2) ∈ b := by
  simp only [dropNaN, List.mem_filterMap] at h
  obtain ⟨s, hs, hp⟩ := h
  obtain ⟨t, ov⟩ := s
  cases ov with
  | none => simp at hp
  | some v => simp at hp; rw [← hp]; exact hs

theorem flatten_filter_nonempty {α : Type} : ∀ (L : List (List α)), (L.filter fun b => !b.isEmpty).flatten = L.flatten
  | [] => rfl
  | b :: L => by
    cases b with
    | nil => simp [flatten_filter_nonempty L]
    | cons x xs => simp [flatten_filter_nonempty L]

theorem filterMap_batchChunk (r : Int) : ∀ (bs : List (List Raw)),
    (bs.filterMap (batchChunk r)).map some = ((bs.map dropNaN).filter fun b => !b.isEmpty).map (fun b => floatBatch b r)
  | [] => rfl
  | b :: bs => by
    have ih := filterMap_batchChunk r bs
    simp only [List.filterMap_cons, batchChunk, List.map_cons, List.filter_cons]
    by_cases hb : dropNaN b = []
    · simp [hb, ih]
    · obtain ⟨c, hc⟩ := floatBatch_isSome r _ hb
      have : (dropNaN b).isEmpty = false := by
        cases hd : dropNaN b with
        | nil => exact absurd hd hb
        | cons _ _ => rfl
      simp [hb, hc, this, ih]

/-- **The structure of DownsampleRaw**: the non-NaN samples are cut into non-empty, window-aligned
    batches, and the result has exactly one chunk per batch, `downsampleFloatBatch` of it. -/
theorem downsampleRaw_batches (r : Int) (hr : 0 < r) (data : List Raw) (nc : Nat) (hnc : 0 < nc)
    (hs : SortedRaw data) :
    ∃ chunks, downsampleRaw data r nc = some chunks ∧
      let bs := ptBatches r (data.length / nc + 1) data.length data
      bs.flatten = dropNaN data ∧ (∀ b ∈ bs, b ≠ []) ∧ Aligned r bs ∧
      chunks.map some = bs.map (fun b => floatBatch b r) := by
  have hbs : 1 ≤ data.length / nc + 1 := Nat.le_add_left 1 _
  obtain ⟨p1, p2, p3⟩ := rawBatches_props r hr _ hbs data.length data (Nat.le_refl _) hs
  refine ⟨(rawBatches r (data.length / nc + 1) data.length data).filterMap (batchChunk r), ?_, ?_, ?_, ?_, ?_⟩
  · unfold downsampleRaw
    have hnc' : nc ≠ 0 := by omega
    by_cases hd : data = []
    · subst hd; simp [rawBatches]
    · simp only [hd, if_false, hnc']
      exact rawLoop_eq r _ hbs _ data (Nat.le_refl _)
  · simp only [ptBatches]
    rw [flatten_filter_nonempty]
    have : dropNaN data = dropNaN (rawBatches r (data.length / nc + 1) data.length data).flatten := by rw [p1]
    rw [this]
    unfold dropNaN
    rw [List.filterMap_flatten]
  · intro b hb
    simp only [ptBatches, List.mem_filter] at hb
    intro hc; rw [hc] at hb; simp at hb
  · simp only [ptBatches, Aligned]
    apply List.Pairwise.sublist (List.filter_sublist)
    rw [List.pairwise_map]
    refine p3.imp ?_
    intro a b h x hx y hy
    exact h _ (mem_dropNaN hx) _ (mem_dropNaN hy)
  · exact filterMap_batchChunk r _

/-! ### chunk ranges -/

theorem foldMint_le_init : ∀ (ts : List Int) (m : Int), foldMint ts m ≤ m := by
  intro ts
  induction ts with
  | nil => intro m; simp [foldMint]
  | cons t ts ih =>
    intro m
    simp only [foldMint, List.foldl_cons] at ih ⊢
    split
    · have := ih t; omega
    · exact ih m

/-- over timestamps that are all at least `m`, the builder's `mint` stays `m` -/
theorem foldMint_of_le : ∀ (ts : List Int) (m : Int), (∀ t ∈ ts, m ≤ t) → foldMint ts m = m := by
  intro ts
  induction ts with
  | nil => intro m _; rfl
  | cons t ts ih =>
    intro m h
    have ht := h t (by simp)
    simp only [foldMint, List.foldl_cons] at ih ⊢
    have : ¬ t < m := by omega
    simp only [this, if_false]
    exact ih m (fun x hx => h x (List.mem_cons_of_mem _ hx))

/-- strictly increasing timestamps below MaxInt64: `mint` is the first one -/
theorem foldMint_sorted (t : Int) (ts : List Int) (m : Int) (htm : t < m)
    (hs : (t :: ts).Pairwise (· < ·)) : foldMint (t :: ts) m = t := by
  simp only [foldMint, List.foldl_cons, htm, if_true]
  exact foldMint_of_le ts t (fun x hx => Int.le_of_lt ((List.pairwise_cons.mp hs).1 x hx))

theorem foldMaxt_sorted : ∀ (ts : List Int) (m : Int), (ts.Pairwise (· < ·)) → (∀ t ∈ ts, m < t) →
    foldMaxt ts m = (match ts.getLast? with | some l => l | none => m) := by
  intro ts
  induction ts with
  | nil => intro m _ _; rfl
  | cons t ts ih =>
    intro m hs hm
    have ht := hm t (by simp)
    have hs' := List.pairwise_cons.mp hs
    simp only [foldMaxt, List.foldl_cons] at ih ⊢
    have : t > m := ht
    simp only [this, if_true]
    rw [ih t hs'.2 (fun x hx => hs'.1 x hx)]
    cases ts with
    | nil => rfl
    | cons u us => rw [List.getLast?_cons_cons]; cases h : (u :: us).getLast? <;> simp_all

/-! ### pairing chunks with batches -/

theorem flatMap_of_map_some {α β γ : Type} (f : α → Option β) (proj : β → List γ) (G : α → List γ) :
    ∀ (bs : List α) (chunks : List β), chunks.map some = bs.map f →
      (∀ b ∈ bs, ∀ c, f b = some c → proj c = G b) → chunks.flatMap proj = bs.flatMap G
  | [], [], _, _ => rfl
  | [], _ :: _, h, _ => by simp at h
  | _ :: _, [], h, _ => by simp at h
  | b :: bs, c :: cs, h, hp => by
    simp only [List.map_cons, List.cons.injEq] at h
    rw [List.flatMap_cons, List.flatMap_cons, hp b (by simp) c h.1.symm,
      flatMap_of_map_some f proj G bs cs h.2 (fun b' hb' => hp b' (List.mem_cons_of_mem _ hb'))]

/-! ### the querier's chunk iterator on ordered chunks -/

theorem csChunkOut_nil_frames : ∀ (c : List Pt), csChunkOut c [] = c ∧ csChunkFrames c [] = []
  | [] => ⟨rfl, rfl⟩
  | (t, v) :: rest => by
    have := csChunkOut_nil_frames rest
    simp [csChunkOut, csChunkFrames, popFrames, this]

theorem csChunkOut_frame (x : Int) (t v : Int) (rest : List Pt) (h : x ≤ t) :
    csChunkOut ((t, v) :: rest) [x] = (t, v) :: rest ∧ csChunkFrames ((t, v) :: rest) [x] = [] := by
  have := csChunkOut_nil_frames rest
  have hx : t ≥ x := h
  simp [csChunkOut, csChunkFrames, popFrames, hx, this]

/-- chunks that are non-empty and start after the previous chunk's last timestamp are read back
    completely, in order -/
theorem csRest_ordered : ∀ (cs : List (List Pt)) (prevT : Int),
    (∀ c ∈ cs, c ≠ []) →
    (List.Pairwise (fun a b => chunkAtT a < (match b.head? with | some p => p.1 | none => 0)) cs) →
    (match cs.head? with | some c => (match c.head? with | some p => prevT < p.1 | none => True) | none => True) →
    csRest prevT [] cs = cs.flatten
  | [], _, _, _, _ => rfl
  | c :: cs, prevT, hne, hp, hh => by
    cases c with
    | nil => exact absurd rfl (hne [] (by simp))
    | cons p ps =>
      obtain ⟨t, v⟩ := p
      simp only [List.head?_cons] at hh
      obtain ⟨h1, h2⟩ := csChunkOut_frame (prevT + 1) t v ps (by omega)
      have hp' := List.pairwise_cons.mp hp
      simp only [csRest, h1, h2, List.flatten_cons]
      rw [csRest_ordered cs _ (fun c hc => hne c (List.mem_cons_of_mem _ hc)) hp'.2]
      cases cs with
      | nil => trivial
      | cons c2 cs2 =>
        have := hp'.1 c2 (by simp)
        cases c2 with
        | nil => exact absurd rfl (hne [] (by simp))
        | cons q qs => simpa using this

theorem chunkSeriesIter_ordered (cs : List (List Pt)) (hne : ∀ c ∈ cs, c ≠ [])
    (hp : List.Pairwise (fun a b => chunkAtT a < (match b.head? with | some p => p.1 | none => 0)) cs) :
    chunkSeriesIter cs = cs.flatten := by
  cases cs with
  | nil => rfl
  | cons c cs =>
    have hp' := List.pairwise_cons.mp hp
    simp only [chunkSeriesIter, (csChunkOut_nil_frames c).1, List.flatten_cons]
    rw [csRest_ordered cs _ (fun c hc => hne c (List.mem_cons_of_mem _ hc)) hp'.2]
    cases cs with
    | nil => trivial
    | cons c2 cs2 =>
      have := hp'.1 c2 (by simp)
      cases c2 with
      | nil => exact absurd rfl (hne [] (by simp))
      | cons q qs => simpa using this

/-! ### the shape of one chunk -/

theorem getLast?_append_ne {α : Type} (l1 l2 : List α) (h : l2 ≠ []) : (l1 ++ l2).getLast? = l2.getLast? := by
  rw [List.getLast?_append]
  cases h' : l2.getLast? with
  | none => simp at h'; exact absurd h' h
  | some x => simp

theorem batchEmit_getLast (r lastT : Int) : ∀ (data : List Pt) (nextT : Int) (a : Agg), 0 < a.total →
    ((batchEmit r lastT data nextT a).map (·.1)).getLast? = some (batchNextT r lastT data nextT) := by
  intro data
  induction data with
  | nil => intro nextT a h; simp [batchEmit, batchNextT, h]
  | cons p rest ih =>
    intro nextT a h
    obtain ⟨t, v⟩ := p
    simp only [batchEmit, batchNextT]
    split
    · have hne : (batchEmit r lastT rest (min (currentWindow t r) lastT) (a.reset.add v)).map (·.1) ≠ [] := by
        intro hc
        exact batchEmit_ne_nil' r lastT rest _ _ (by simp [Agg.add]) (List.map_eq_nil_iff.mp hc)
      rw [List.map_append, getLast?_append_ne _ _ hne]
      exact ih _ _ (by simp [Agg.add])
    · exact ih _ _ (by simp [Agg.add])

/-- timestamps of a chunk's count/sum/min/max sub-chunks (`ts`), its range and its counter
    sub-chunk, for a time-ordered batch -/
theorem floatBatch_shape (r : Int) (hr : 0 < r) (b : List Pt) (t0 v0 lastT lv : Int)
    (hhead : b.head? = some (t0, v0)) (hlast : b.getLast? = some (lastT, lv))
    (h0 : ∀ p ∈ b, minInt64 < p.1) (hs : Sorted b) (hmax : lastT < maxInt64) :
    ∃ c ts, floatBatch b r = some c ∧ c.count.map (·.1) = ts ∧ c.sum.map (·.1) = ts ∧
      c.min.map (·.1) = ts ∧ c.max.map (·.1) = ts ∧
      ts.Pairwise (· < ·) ∧ (∀ t ∈ ts, t0 ≤ t ∧ t ≤ lastT) ∧ ts.getLast? = some lastT ∧
      ts.head? = some c.mint ∧ c.maxt = lastT ∧
      ∃ mid, c.counter = (t0, v0) :: mid ++ [(lastT, lv)] ∧ mid.map (·.1) = ts := by
  have hs' : b.Pairwise (fun a b => a.1 ≤ b.1) := hs.imp (fun h => Int.le_of_lt h)
  have hle : ∀ p ∈ b, p.1 ≤ lastT := by
    obtain ⟨ys, rfl⟩ := List.getLast?_eq_some_iff.mp hlast
    intro p hp
    rw [List.pairwise_append] at hs'
    rcases List.mem_append.mp hp with h | h
    · exact hs'.2.2 p h (lastT, lv) (by simp)
    · simp at h; rw [h]; exact Int.le_refl _
  cases b with
  | nil => simp at hhead
  | cons p rest =>
    simp only [List.head?_cons, Option.some.injEq] at hhead
    subst hhead
    have ht0 : minInt64 < t0 := h0 (t0, v0) (by simp)
    have ht0l : t0 ≤ lastT := hle (t0, v0) (by simp)
    have hgt : t0 > minInt64 := ht0
    have hcw := currentWindow_ge (t := t0) hr
    have hn0 : t0 ≤ min (currentWindow t0 r) lastT := by simp only [Int.min_def]; split <;> omega
    have hle0 : min (currentWindow t0 r) lastT ≤ lastT := by simp only [Int.min_def]; split <;> omega
    have ha : 0 < (Agg.zero.reset.add v0).total := by simp [Agg.add]
    have hb' : ∀ p ∈ rest, minInt64 < p.1 ∧ p.1 ≤ lastT := fun p hp =>
      ⟨h0 p (List.mem_cons_of_mem _ hp), hle p (List.mem_cons_of_mem _ hp)⟩
    have hts := batchEmit_ts r lastT hr rest _ _ ha (by omega) hle0 hb'
    have hnt := batchNextT_last r lastT hr ((t0, v0) :: rest) minInt64 lv (by omega) hlast
    have hgl := batchEmit_getLast r lastT rest (min (currentWindow t0 r) lastT) _ ha
    have hnt' : batchNextT r lastT rest (min (currentWindow t0 r) lastT) = lastT := by
      simpa [batchNextT, hgt] using hnt
    rw [hnt'] at hgl
    have hout : downsampleBatch ((t0, v0) :: rest) r =
        some (batchEmit r lastT rest (min (currentWindow t0 r) lastT) (Agg.zero.reset.add v0), lastT) := by
      simp only [downsampleBatch, hlast, batchEmit, hgt, if_true, ne_eq, not_true_eq_false, if_false,
        List.nil_append, hnt]
    have hne : (batchEmit r lastT rest (min (currentWindow t0 r) lastT) (Agg.zero.reset.add v0)).map (·.1) ≠ [] := by
      intro hc
      exact batchEmit_ne_nil' r lastT rest _ _ ha (List.map_eq_nil_iff.mp hc)
    generalize batchEmit r lastT rest (min (currentWindow t0 r) lastT) (Agg.zero.reset.add v0) = out at hts hgl hout hne
    have hfb : floatBatch ((t0, v0) :: rest) r = some
        { mint := foldMint (out.map (·.1)) maxInt64, maxt := foldMaxt (out.map (·.1)) minInt64,
          count := out.map fun e => (e.1, (e.2.count : Int)), sum := out.map fun e => (e.1, e.2.sum),
          min := out.map fun e => (e.1, e.2.min), max := out.map fun e => (e.1, e.2.max),
          counter := (t0, v0) :: (out.map fun e => (e.1, e.2.counter)) ++ [(lastT, lv)] } := by
      simp only [floatBatch, List.head?_cons, hlast, hout]
    refine ⟨_, out.map (·.1), hfb, ?_, ?_, ?_, ?_, hts.1, ?_, hgl, ?_, ?_, ?_⟩
    · simp [List.map_map, Function.comp_def]
    · simp [List.map_map, Function.comp_def]
    · simp [List.map_map, Function.comp_def]
    · simp [List.map_map, Function.comp_def]
    · intro t ht
      have := hts.2 t ht
      omega
    · -- mint is the first timestamp
      cases hts1 : out.map (·.1) with
      | nil => exact absurd hts1 hne
      | cons u us =>
        have hu : u ≤ lastT := (hts.2 u (by rw [hts1]; simp)).2
        have := foldMint_sorted u us maxInt64 (by omega) (hts1 ▸ hts.1)
        simp only [List.head?_cons, Option.some.injEq]
        exact this.symm
    · -- maxt is the last timestamp
      have h1 := foldMaxt_sorted (out.map (·.1)) minInt64 hts.1 (fun t ht => by
        have := (hts.2 t ht).1
        have : minInt64 < 0 := by decide
        omega)
      rw [hgl] at h1
      exact h1
    · exact ⟨out.map (fun e => (e.1, e.2.counter)), by simp, by simp [List.map_map, Function.comp_def]⟩

/-! ### more pairing helpers -/

theorem pairwise_of_map_some {α β : Type} (f : α → Option β) (R' : α → α → Prop) (R : β → β → Prop) :
    ∀ (bs : List α) (chunks : List β), chunks.map some = bs.map f → bs.Pairwise R' →
      (∀ b1 ∈ bs, ∀ b2 ∈ bs, ∀ c1 c2, R' b1 b2 → f b1 = some c1 → f b2 = some c2 → R c1 c2) →
      chunks.Pairwise R
  | [], [], _, _, _ => List.Pairwise.nil
  | [], _ :: _, h, _, _ => by simp at h
  | _ :: _, [], h, _, _ => by simp at h
  | b :: bs, c :: cs, h, hp, hr => by
    simp only [List.map_cons, List.cons.injEq] at h
    have hp' := List.pairwise_cons.mp hp
    refine List.pairwise_cons.mpr ⟨?_, pairwise_of_map_some f R' R bs cs h.2 hp'.2
      (fun b1 h1 b2 h2 => hr b1 (List.mem_cons_of_mem _ h1) b2 (List.mem_cons_of_mem _ h2))⟩
    intro c2 hc2
    -- c2 comes from some b2 ∈ bs
    have : some c2 ∈ cs.map some := List.mem_map.mpr ⟨c2, hc2, rfl⟩
    rw [h.2] at this
    obtain ⟨b2, hb2, hfb2⟩ := List.mem_map.mp this
    exact hr b (by simp) b2 (List.mem_cons_of_mem _ hb2) c c2 (hp'.1 b2 hb2) h.1.symm hfb2

theorem forall_of_map_some {α β : Type} (f : α → Option β) (P : β → Prop) (bs : List α) (chunks : List β)
    (h : chunks.map some = bs.map f) (hP : ∀ b ∈ bs, ∀ c, f b = some c → P c) : ∀ c ∈ chunks, P c := by
  intro c hc
  have : some c ∈ chunks.map some := List.mem_map.mpr ⟨c, hc, rfl⟩
  rw [h] at this
  obtain ⟨b, hb, hfb⟩ := List.mem_map.mp this
  exact hP b hb c hfb

theorem sorted_dropNaN {data : List Raw} (hs : SortedRaw data) : Sorted (dropNaN data) := by
  unfold Sorted dropNaN
  refine List.Pairwise.filterMap _ ?_ hs
  intro a a' h b hb b' hb'
  obtain ⟨t, ov⟩ := a
  obtain ⟨t', ov'⟩ := a'
  cases ov <;> cases ov' <;> simp at hb hb'
  rw [← hb, ← hb']; exact h

theorem nonneg_dropNaN {data : List Raw} (h0 : ∀ p ∈ data, 0 ≤ p.1) : ∀ p ∈ dropNaN data, 0 ≤ p.1 :=
  fun p hp => h0 _ (mem_dropNaN hp)

/-- the values of the per-batch window samples do not depend on the batch -/
theorem flatMap_runs_values {β : Type} (r : Int) (T : List Pt → Int × List Pt → Int) (V : Int × List Pt → β) :
    ∀ (bs : List (List Pt)),
      (bs.flatMap (fun b => (runs r b).map fun g => (T b g, V g))).map (·.2) = (bs.flatMap (runs r)).map V
  | [] => rfl
  | b :: bs => by
    simp only [List.flatMap_cons, List.map_append, List.map_map, flatMap_runs_values r T V bs]
    rfl

theorem sum_lengths : ∀ (gs : List (Int × List Pt)),
    (gs.map fun g => (g.2.length : Int)).sum = ((gs.flatMap (·.2)).length : Int)
  | [] => rfl
  | g :: gs => by
    simp only [List.map_cons, List.sum_cons, List.flatMap_cons, List.length_append, sum_lengths gs]
    omega

theorem sum_sums : ∀ (gs : List (Int × List Pt)),
    (gs.map fun g => (g.2.map (·.2)).sum).sum = ((gs.flatMap (·.2)).map (·.2)).sum
  | [] => rfl
  | g :: gs => by
    simp only [List.map_cons, List.sum_cons, List.flatMap_cons, List.map_append, List.sum_append, sum_sums gs]

/-- a strictly increasing list lies between its first and last element -/
theorem sorted_bounds (l : List Int) (a b : Int) (hs : l.Pairwise (· < ·)) (hh : l.head? = some a)
    (hl : l.getLast? = some b) : ∀ t ∈ l, a ≤ t ∧ t ≤ b := by
  intro t ht
  constructor
  · cases l with
    | nil => simp at hh
    | cons x xs =>
      simp only [List.head?_cons, Option.some.injEq] at hh; subst hh
      rcases List.mem_cons.mp ht with h | h
      · omega
      · exact Int.le_of_lt ((List.pairwise_cons.mp hs).1 t h)
  · obtain ⟨ys, rfl⟩ := List.getLast?_eq_some_iff.mp hl
    rcases List.mem_append.mp ht with h | h
    · exact Int.le_of_lt ((List.pairwise_append.mp hs).2.2 t h b (by simp))
    · simp at h; omega

/-! ### the bounded read-back -/

/-- over strictly increasing timestamps the bounded iterator returns exactly the samples with
    `mint ≤ t ≤ maxt` -/
theorem filter_cons_pos' {α : Type} (f : α → Bool) (a : α) (l : List α) (h : f a = true) :
    List.filter f (a :: l) = a :: List.filter f l := by simp [List.filter_cons, h]

theorem filter_cons_neg' {α : Type} (f : α → Bool) (a : α) (l : List α) (h : f a = false) :
    List.filter f (a :: l) = List.filter f l := by simp [List.filter_cons, h]

theorem boundedDrain_sorted (mint maxt : Int) : ∀ (l : List Pt), Sorted l →
    boundedDrain mint maxt l = l.filter (fun p => mint ≤ p.1 ∧ p.1 ≤ maxt)
  | [], _ => rfl
  | (t, v) :: rest, hs => by
    have hs' := List.pairwise_cons.mp hs
    have ih := boundedDrain_sorted mint maxt rest hs'.2
    by_cases h1 : t < mint
    · rw [filter_cons_neg' _ (t, v) rest (by simp; omega)]
      simp only [boundedDrain, h1, if_true]
      exact ih
    · by_cases h2 : t ≤ maxt
      · rw [filter_cons_pos' _ (t, v) rest (by simp; omega)]
        simp only [boundedDrain, h1, if_false, h2, if_true]
        rw [ih]
      · rw [filter_cons_neg' _ (t, v) rest (by simp; omega)]
        simp only [boundedDrain, h1, if_false, h2]
        -- everything later is beyond maxt as well
        symm
        apply List.filter_eq_nil_iff.mpr
        intro p hp
        have := hs'.1 p hp
        simp only [decide_eq_true_eq]
        omega

end Thanos.Downsample
