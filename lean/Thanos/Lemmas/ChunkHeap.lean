import Thanos.Lemmas.ChunkMerge
/-
  C40: every chunk that `dedupChunksIterator` yields is either an input chunk or a chunk of
  `om.iterator(base)`; the heap operations only move iterators around.  Hence an invariant on
  all chunks held by the heap carries over to the output.
-/
namespace Thanos.Dedup

/-- every chunk of every iterator in the heap satisfies `P` -/
def HeapAll (P : AggrChk → Prop) (h : List ChunkIt) : Prop := ∀ it ∈ h, ∀ c ∈ it, P c

theorem hswap_sub (h : List ChunkIt) (i j : Nat) : ∀ it ∈ hswap h i j, it ∈ h := by
  intro it hit
  unfold hswap at hit
  split at hit
  · rename_i x y hx hy
    rcases List.mem_or_eq_of_mem_set hit with h1 | rfl
    · rcases List.mem_or_eq_of_mem_set h1 with h2 | rfl
      · exact h2
      · exact List.mem_of_getElem? hy
    · exact List.mem_of_getElem? hx
  · exact hit

theorem hup_sub : ∀ (f : Nat) (h : List ChunkIt) (j : Nat), ∀ it ∈ hup f h j, it ∈ h := by
  intro f
  induction f with
  | zero => intro h j it hit; exact hit
  | succ f ih =>
    intro h j it hit
    unfold hup at hit
    simp only at hit
    split at hit
    · exact hit
    · exact hswap_sub _ _ _ it (ih _ _ it hit)

theorem hdown_sub : ∀ (f : Nat) (h : List ChunkIt) (i n : Nat), ∀ it ∈ hdown f h i n, it ∈ h := by
  intro f
  induction f with
  | zero => intro h i n it hit; exact hit
  | succ f ih =>
    intro h i n it hit
    unfold hdown at hit
    split at hit
    · exact hit
    · split at hit
      · exact hit
      · exact hswap_sub _ _ _ it (ih _ _ _ it hit)

theorem hpush_all {P : AggrChk → Prop} {h : List ChunkIt} {x : ChunkIt} (hh : HeapAll P h)
    (hx : ∀ c ∈ x, P c) : HeapAll P (hpush h x) := by
  intro it hit
  have := hup_sub _ _ _ it hit
  rcases List.mem_append.mp this with h1 | h1
  · exact hh it h1
  · simp at h1; subst h1; exact hx

theorem hpop_all {P : AggrChk → Prop} {h h' : List ChunkIt} {x : ChunkIt} (hh : HeapAll P h)
    (hp : hpop h = some (x, h')) : (∀ c ∈ x, P c) ∧ HeapAll P h' := by
  unfold hpop at hp
  split at hp
  · simp at hp
  · simp only at hp
    split at hp
    · rename_i y hy
      simp only [Option.some.injEq, Prod.mk.injEq] at hp
      obtain ⟨rfl, rfl⟩ := hp
      have hsub : ∀ it ∈ hdown (h.length + 1) (hswap h 0 (h.length - 1)) 0 (h.length - 1), it ∈ h :=
        fun it hit => hswap_sub _ _ _ it (hdown_sub _ _ _ _ it hit)
      exact ⟨hh _ (hsub _ (List.mem_of_getLast? hy)),
        fun it hit => hh it (hsub it (List.dropLast_subset _ hit))⟩
    · simp at hp

theorem hadvance_all {P : AggrChk → Prop} {h : List ChunkIt} {it : ChunkIt} (hh : HeapAll P h)
    (hit : ∀ c ∈ it, P c) : HeapAll P (hadvance h it) := by
  unfold hadvance
  split
  · exact hh
  · exact hpush_all hh (fun c hc => hit c (List.mem_of_mem_tail hc))

theorem overlapLoop_all {P : AggrChk → Prop} : ∀ (f : Nat) (h : List ChunkIt) (om : List AggrChk)
    (oMax : Int) (prev : AggrChk), HeapAll P h → (∀ c ∈ om, P c) →
    HeapAll P (overlapLoop f h om oMax prev).1 ∧ ∀ c ∈ (overlapLoop f h om oMax prev).2, P c := by
  intro f
  induction f with
  | zero => intro h om oMax prev hh hom; exact ⟨hh, hom⟩
  | succ f ih =>
    intro h om oMax prev hh hom
    unfold overlapLoop
    cases hnext : h.head?.bind (·.head?) with
    | none => exact ⟨hh, hom⟩
    | some next =>
      simp only
      -- `next` is a chunk held by the heap
      have hPn : P next := by
        cases h with
        | nil => simp at hnext
        | cons it0 h0 =>
          simp only [List.head?_cons, Option.bind_some] at hnext
          exact hh it0 (by simp) next (List.mem_of_mem_head? hnext)
      split
      · exact ⟨hh, hom⟩
      · cases hp : hpop h with
        | none => exact ⟨hh, hom⟩
        | some p =>
          obtain ⟨it, h1⟩ := p
          obtain ⟨hit, hh1⟩ := hpop_all hh hp
          have hh2 := hadvance_all hh1 hit
          simp only
          split
          · exact ih _ _ _ _ hh2 hom
          · apply ih _ _ _ _ hh2
            intro c hc
            rcases List.mem_append.mp hc with hc | hc
            · exact hom c hc
            · simp at hc; subst hc; exact hPn

/-- one `dedupChunksIterator.Next` keeps "all chunks are well formed" and yields such a chunk -/
theorem dcNext_wf {split : Nat} (hsp : 0 < split) {h h' : List ChunkIt} {c : AggrChk}
    (hh : HeapAll (fun c => chunkWF c = true) h) (hn : dcNext true true split h = .chunk c h') :
    chunkWF c = true ∧ HeapAll (fun c => chunkWF c = true) h' := by
  unfold dcNext at hn
  cases hp : hpop h with
  | none => rw [hp] at hn; simp at hn
  | some p =>
    obtain ⟨it, h1⟩ := p
    rw [hp] at hn
    simp only at hn
    obtain ⟨hit, hh1⟩ := hpop_all hh hp
    cases hhd : it.head? with
    | none => rw [hhd] at hn; simp at hn
    | some curr =>
      rw [hhd] at hn
      simp only at hn
      have hcurr : chunkWF curr = true := hit curr (List.mem_of_mem_head? hhd)
      have hh2 := hadvance_all hh1 hit
      obtain ⟨hr1, hr2⟩ := overlapLoop_all (P := fun c => chunkWF c = true)
        (heapChunks (hadvance h1 it) + 1) (hadvance h1 it) [] curr.maxt curr hh2 (by simp)
      split at hn
      · cases hn
        exact ⟨hcurr, hr1⟩
      · rename_i hem
        have hne : (overlapLoop (heapChunks (hadvance h1 it) + 1) (hadvance h1 it) [] curr.maxt curr).2 ≠ [] := by
          intro he; apply hem; rw [he]; rfl
        obtain ⟨out, hout, hwf, _, _⟩ := aggrOut_wf hsp _ curr hne (by
          intro c' hc'
          rcases List.mem_append.mp hc' with hc' | hc'
          · exact hr2 c' hc'
          · simp at hc'; subst hc'; exact hcurr)
        rw [hout] at hn
        cases out with
        | nil => simp at hn
        | cons c0 rest =>
          simp only at hn
          cases hn
          refine ⟨hwf _ (by simp), ?_⟩
          split
          · exact hr1
          · exact hpush_all hr1 (fun c' hc' => hwf c' (by simp [hc']))

theorem dcDrain_wf {split : Nat} (hsp : 0 < split) : ∀ (f : Nat) (h : List ChunkIt) (out : List AggrChk),
    HeapAll (fun c => chunkWF c = true) h → dcDrain true true split f h = some out →
    ∀ c ∈ out, chunkWF c = true := by
  intro f
  induction f with
  | zero => intro h out _ hd; simp [dcDrain] at hd
  | succ f ih =>
    intro h out hh hd
    unfold dcDrain at hd
    cases hn : dcNext true true split h with
    | done => rw [hn] at hd; simp at hd; subst hd; simp
    | panic => rw [hn] at hd; simp at hd
    | chunk c h' =>
      rw [hn] at hd
      simp only at hd
      obtain ⟨hc, hh'⟩ := dcNext_wf hsp hh hn
      cases hr : dcDrain true true split f h' with
      | none => rw [hr] at hd; simp at hd
      | some rest =>
        rw [hr] at hd
        simp at hd; subst hd
        intro c' hc'
        rcases List.mem_cons.mp hc' with rfl | hc'
        · exact hc
        · exact ih h' rest hh' hr c' hc'

/-- a well-formed chunk has the property -/
theorem complete_of_wf {c : AggrChk} (h : chunkWF c = true) : chunkComplete c = true := by
  obtain ⟨cnt, s, mn, mx, ctr, heq, _, _, _, _, e1, e2, e3, e4⟩ := chunkWF_shape h
  unfold chunkComplete
  rw [heq]
  simp only [List.all_cons, List.all_nil, Bool.and_true, Bool.and_eq_true, List.all_eq_true,
    List.contains_iff_mem]
  refine ⟨?_, ?_, ?_, ?_⟩
  · intro t ht; rw [e1]; exact ht
  · intro t ht; rw [e2]; exact ht
  · intro t ht; rw [e3]; exact ht
  · intro t ht; rw [e4]; exact List.mem_append_left _ ht

end Thanos.Dedup
