import Thanos.Model.ResultsCache
import Thanos.Lemmas.Split
/-
  Helper lemmas for C42 (results cache): streams, lookups through `matrixMerge`, insertion sort,
  canonical matrices.
-/
namespace Thanos.ResultsCache

/-- strictly ascending timestamps -/
def Asc (l : List Sample) : Prop := l.Pairwise fun a b => a.t < b.t

theorem dropWhile_eq_filter_of_asc {l : List Sample} (h : Asc l) (m : Int) :
    l.dropWhile (fun x => x.t ≤ m) = l.filter (fun x => m < x.t) := by
  induction l with
  | nil => rfl
  | cons x xs ih =>
    have hxs : Asc xs := (List.pairwise_cons.mp h).2
    have hx := (List.pairwise_cons.mp h).1
    by_cases hle : x.t ≤ m
    · simp only [List.dropWhile_cons, hle, decide_true, if_true, List.filter_cons]
      have : ¬ m < x.t := by omega
      simp [this, ih hxs]
    · have hlt : m < x.t := by omega
      simp only [List.dropWhile_cons, hle, decide_false, List.filter_cons, hlt, decide_true, if_true]
      simp only [Bool.false_eq_true, if_false]
      congr 1
      symm
      apply List.filter_eq_self.mpr
      intro a ha
      have := hx a ha
      simp; omega

/-- `mergeStream` on an ascending stream: append what lies after the last existing sample -/
theorem mergeStream_asc (ex st : List Sample) (h : Asc st) :
    mergeStream ex st = match ex.getLast? with
      | none => ex ++ st
      | some e => ex ++ st.filter (fun x => e.t < x.t) := by
  unfold mergeStream
  cases hl : ex.getLast? with
  | none => simp
  | some e =>
    cases st with
    | nil => simp
    | cons x rest =>
      have hrest : Asc rest := (List.pairwise_cons.mp h).2
      have hx := (List.pairwise_cons.mp h).1
      simp only
      by_cases h1 : e.t = x.t
      · simp only [h1, if_true, List.filter_cons]
        have : ¬ x.t < x.t := by omega
        simp only [this, decide_false, Bool.false_eq_true, if_false]
        congr 1; symm
        apply List.filter_eq_self.mpr
        intro a ha; have := hx a ha; simp; omega
      · by_cases h2 : e.t > x.t
        · simp only [h1, if_false, h2, if_true, sliceSamples]
          rw [dropWhile_eq_filter_of_asc h]
        · simp only [h1, if_false, h2]
          congr 1; symm
          apply List.filter_eq_self.mpr
          intro a ha
          rcases List.mem_cons.mp ha with rfl | ha
          · simp; omega
          · have := hx a ha; simp; omega

/-- the samples of series `id` in a matrix (`[]` when the series is absent) -/
def look (m : Matrix) (id : Nat) : List Sample :=
  match m.find? (fun s => s.1 = id) with
  | some s => s.2
  | none => []

def ids (m : Matrix) : List Nat := m.map (·.1)

theorem look_nil (id : Nat) : look [] id = [] := rfl

theorem look_cons (s : Stream) (m : Matrix) (id : Nat) :
    look (s :: m) id = if s.1 = id then s.2 else look m id := by
  unfold look
  by_cases h : s.1 = id <;> simp [List.find?_cons, h]

theorem look_of_not_mem {m : Matrix} {id : Nat} (h : id ∉ ids m) : look m id = [] := by
  induction m with
  | nil => rfl
  | cons s m ih =>
    simp only [ids, List.map_cons, List.mem_cons, not_or] at h
    rw [look_cons]
    have : ¬ s.1 = id := fun e => h.1 e.symm
    simp [this, ih (by simpa [ids] using h.2)]

theorem mergeStream_nil_left (st : List Sample) : mergeStream [] st = st := by
  simp [mergeStream]

theorem look_upsert_same (out : Matrix) (id : Nat) (st : List Sample) :
    look (upsert out id st) id = mergeStream (look out id) st := by
  induction out with
  | nil => simp [upsert, look_cons, look_nil]
  | cons s out ih =>
    obtain ⟨i, ex⟩ := s
    by_cases h : i = id
    · subst h; simp [upsert, look_cons]
    · simp [upsert, look_cons, h, ih]

theorem look_upsert_other (out : Matrix) (id id' : Nat) (st : List Sample) (hne : id' ≠ id) :
    look (upsert out id st) id' = look out id' := by
  induction out with
  | nil =>
    have : ¬ id = id' := fun e => hne e.symm
    simp [upsert, look_cons, look_nil, this]
  | cons s out ih =>
    obtain ⟨i, ex⟩ := s
    by_cases h : i = id
    · subst h
      have : ¬ i = id' := fun e => hne e.symm
      simp [upsert, look_cons, this]
    · by_cases h' : i = id'
      · subst h'
        simp [upsert, look_cons, hne]
      · simp [upsert, look_cons, h, h', ih]

theorem ids_cons (s : Stream) (m : Matrix) : ids (s :: m) = s.1 :: ids m := rfl

theorem ids_upsert (out : Matrix) (id : Nat) (st : List Sample) :
    ids (upsert out id st) = if id ∈ ids out then ids out else ids out ++ [id] := by
  induction out with
  | nil => simp [upsert, ids]
  | cons s out ih =>
    obtain ⟨i, ex⟩ := s
    by_cases h : i = id
    · subst h; simp [upsert, ids]
    · have hne : ¬ id = i := fun e => h e.symm
      simp only [upsert, h, if_false, ids_cons, ih, List.mem_cons, hne, false_or]
      by_cases hm : id ∈ ids out
      · simp [hm]
      · simp [hm]

/-- the inner loop of `matrixMerge` over one response with distinct series -/
theorem look_foldl_upsert (m : Matrix) (hm : (ids m).Nodup) :
    ∀ (out : Matrix) (id : Nat),
      look (m.foldl (fun out s => upsert out s.1 s.2) out) id =
        if id ∈ ids m then mergeStream (look out id) (look m id) else look out id := by
  induction m with
  | nil => intro out id; simp [ids]
  | cons s m ih =>
    intro out id
    rw [ids_cons] at hm
    have hnd := List.nodup_cons.mp hm
    simp only [List.foldl_cons]
    rw [ih hnd.2, ids_cons, look_cons]
    by_cases hs : s.1 = id
    · subst hs
      simp only [hnd.1, if_false, List.mem_cons, true_or, if_true, look_upsert_same]
    · have hne : id ≠ s.1 := fun e => hs e.symm
      simp only [List.mem_cons, hne, false_or, hs, if_false]
      rw [look_upsert_other _ _ _ _ hne]

theorem ids_foldl_upsert_nodup (m : Matrix) : ∀ (out : Matrix), (ids out).Nodup →
    (ids (m.foldl (fun out s => upsert out s.1 s.2) out)).Nodup := by
  induction m with
  | nil => intro out h; exact h
  | cons s m ih =>
    intro out h
    simp only [List.foldl_cons]
    apply ih
    rw [ids_upsert]
    by_cases hm : s.1 ∈ ids out
    · simp [hm, h]
    · simp only [hm, if_false]
      exact List.nodup_append.mpr ⟨h, by simp, by intro a ha b hb; simp at hb; subst hb; exact fun e => hm (e ▸ ha)⟩

theorem mem_ids_foldl_upsert (m : Matrix) : ∀ (out : Matrix) (id : Nat),
    id ∈ ids (m.foldl (fun out s => upsert out s.1 s.2) out) ↔ id ∈ ids out ∨ id ∈ ids m := by
  induction m with
  | nil => intro out id; simp [ids]
  | cons s m ih =>
    intro out id
    simp only [List.foldl_cons]
    rw [ih, ids_upsert, ids_cons]
    by_cases hm : s.1 ∈ ids out
    · simp only [hm, if_true, List.mem_cons]
      constructor
      · rintro (h | h); exact Or.inl h; exact Or.inr (Or.inr h)
      · rintro (h | h | h); exact Or.inl h; exact Or.inl (h ▸ hm); exact Or.inr h
    · simp only [hm, if_false, List.mem_append, List.mem_cons, List.not_mem_nil, or_false]
      constructor
      · rintro ((h | h) | h); exact Or.inl h; exact Or.inr (Or.inl h); exact Or.inr (Or.inr h)
      · rintro (h | h | h); exact Or.inl (Or.inl h); exact Or.inl (Or.inr h); exact Or.inr h

/-! ### insertion sort by an integer key -/

theorem perm_insertLt {α : Type} (lt : α → α → Bool) (x : α) : ∀ l : List α, (insertLt lt x l).Perm (x :: l)
  | [] => List.Perm.refl _
  | y :: l => by
    unfold insertLt
    split
    · exact ((perm_insertLt lt x l).cons y).trans (List.Perm.swap x y l)
    · exact List.Perm.refl _

theorem perm_sortLt {α : Type} (lt : α → α → Bool) : ∀ l : List α, (sortLt lt l).Perm l
  | [] => List.Perm.refl _
  | x :: l => (perm_insertLt lt x (sortLt lt l)).trans ((perm_sortLt lt l).cons x)

/-- sortedness for a comparison by an integer key -/
def SortedBy {α : Type} (k : α → Int) (l : List α) : Prop := l.Pairwise fun a b => k a ≤ k b

theorem sortedBy_insertLt {α : Type} (k : α → Int) (x : α) :
    ∀ l : List α, SortedBy k l → SortedBy k (insertLt (fun a b => decide (k a < k b)) x l)
  | [], _ => by simp [insertLt, SortedBy]
  | y :: l, h => by
    unfold insertLt
    have hy := (List.pairwise_cons.mp h).1
    have hl := (List.pairwise_cons.mp h).2
    by_cases hlt : k y < k x
    · simp only [hlt, decide_true, if_true]
      refine List.pairwise_cons.mpr ⟨?_, sortedBy_insertLt k x l hl⟩
      intro z hz
      rcases List.mem_cons.mp ((perm_insertLt _ x l).subset hz) with rfl | hz
      · omega
      · exact hy z hz
    · simp only [hlt, decide_false, Bool.false_eq_true, if_false]
      refine List.pairwise_cons.mpr ⟨?_, h⟩
      intro z hz
      rcases List.mem_cons.mp hz with rfl | hz
      · omega
      · have := hy z hz; omega

theorem sortedBy_sortLt {α : Type} (k : α → Int) : ∀ l : List α, SortedBy k (sortLt (fun a b => decide (k a < k b)) l)
  | [] => by simp [sortLt, SortedBy]
  | x :: l => sortedBy_insertLt k x _ (sortedBy_sortLt k l)

/-! ### lookups are invariant under permutations that keep the series distinct -/

theorem look_of_mem {m : Matrix} (hnd : (ids m).Nodup) {id : Nat} {st : List Sample} (h : (id, st) ∈ m) :
    look m id = st := by
  induction m with
  | nil => simp at h
  | cons s m ih =>
    rw [ids_cons] at hnd
    have hn := List.nodup_cons.mp hnd
    rw [look_cons]
    rcases List.mem_cons.mp h with rfl | h
    · simp
    · have hne : ¬ s.1 = id := by
        intro e
        apply hn.1
        rw [e]
        exact List.mem_map.mpr ⟨(id, st), h, rfl⟩
      simp [hne, ih hn.2 h]

theorem look_perm {m1 m2 : Matrix} (hp : m1.Perm m2) (hnd : (ids m1).Nodup) (id : Nat) : look m1 id = look m2 id := by
  have hnd2 : (ids m2).Nodup := (hp.map _).nodup_iff.mp hnd
  by_cases hm : id ∈ ids m1
  · obtain ⟨s, hs, hsid⟩ := List.mem_map.mp hm
    have h1 : (id, s.2) ∈ m1 := by rw [← hsid]; exact hs
    rw [look_of_mem hnd h1, look_of_mem hnd2 (hp.subset h1)]
  · have hm2 : id ∉ ids m2 := fun h => hm ((hp.map _).symm.subset h)
    rw [look_of_not_mem hm, look_of_not_mem hm2]

/-! ### canonical matrices: ids strictly ascending, no empty stream -/

def Canon (m : Matrix) : Prop := (ids m).Pairwise (· < ·) ∧ ∀ s ∈ m, s.2 ≠ []

theorem canon_ext : ∀ {m1 m2 : Matrix}, Canon m1 → Canon m2 → (∀ id, look m1 id = look m2 id) → m1 = m2
  | [], [], _, _, _ => rfl
  | [], s :: m2, _, h2, h => by
    have := h s.1
    rw [look_nil, look_cons] at this
    simp at this
    exact absurd this (h2.2 s (by simp))
  | s :: m1, [], h1, _, h => by
    have := h s.1
    rw [look_nil, look_cons] at this
    simp at this
    exact absurd this (h1.2 s (by simp))
  | s1 :: m1, s2 :: m2, h1, h2, h => by
    have p1 := List.pairwise_cons.mp (by simpa [ids_cons] using h1.1)
    have p2 := List.pairwise_cons.mp (by simpa [ids_cons] using h2.1)
    have hn1 : s1.1 ∉ ids m1 := fun hm => by have := p1.1 _ hm; omega
    have hn2 : s2.1 ∉ ids m2 := fun hm => by have := p2.1 _ hm; omega
    have hid : s1.1 = s2.1 := by
      rcases Nat.lt_trichotomy s1.1 s2.1 with hlt | heq | hgt
      · have := h s1.1
        rw [look_cons, look_cons] at this
        have hne : ¬ s2.1 = s1.1 := by omega
        have hnm : s1.1 ∉ ids m2 := fun hm => by have := p2.1 _ hm; omega
        simp [hne, look_of_not_mem hnm] at this
        exact absurd this (h1.2 s1 (by simp))
      · exact heq
      · have := h s2.1
        rw [look_cons, look_cons] at this
        have hne : ¬ s1.1 = s2.1 := by omega
        have hnm : s2.1 ∉ ids m1 := fun hm => by have := p1.1 _ hm; omega
        simp [hne, look_of_not_mem hnm] at this
        exact absurd this (h2.2 s2 (by simp))
    have hst : s1.2 = s2.2 := by
      have := h s1.1
      rw [look_cons, look_cons] at this
      simpa [hid] using this
    have htail : m1 = m2 := by
      apply canon_ext ⟨p1.2, fun s hs => h1.2 s (List.mem_cons_of_mem _ hs)⟩
        ⟨p2.2, fun s hs => h2.2 s (List.mem_cons_of_mem _ hs)⟩
      intro id
      by_cases hi : id = s1.1
      · rw [hi, look_of_not_mem hn1, look_of_not_mem (hid ▸ hn2)]
      · have := h id
        rw [look_cons, look_cons] at this
        have e1 : ¬ s1.1 = id := fun e => hi e.symm
        have e2 : ¬ s2.1 = id := fun e => hi (hid ▸ e.symm)
        simpa [e1, e2] using this
    have : s1 = s2 := Prod.ext hid hst
    rw [this, htail]

theorem mergeStream_nil_right (ex : List Sample) : mergeStream ex [] = ex := by
  unfold mergeStream
  cases ex.getLast? <;> simp

theorem mergeStream_ne_nil {ex st : List Sample} (h : ex ≠ [] ∨ st ≠ []) : mergeStream ex st ≠ [] := by
  unfold mergeStream
  cases hl : ex.getLast? with
  | none =>
    have : ex = [] := List.getLast?_eq_none_iff.mp hl
    subst this
    simpa using h
  | some e =>
    have hex : ex ≠ [] := by intro h0; subst h0; simp at hl
    cases st with
    | nil => simpa using hex
    | cons x rest =>
      simp only
      split
      · simp [hex]
      · split <;> simp [hex]

/-- the fold of `matrixMerge` before the final sort -/
def mergeFold (rs : List Matrix) (out : Matrix) : Matrix :=
  rs.foldl (fun out m => m.foldl (fun out s => upsert out s.1 s.2) out) out

theorem look_mergeFold : ∀ (rs : List Matrix), (∀ r ∈ rs, (ids r).Nodup) → ∀ (out : Matrix) (id : Nat),
    look (mergeFold rs out) id = (rs.map fun r => look r id).foldl mergeStream (look out id)
  | [], _, out, id => rfl
  | r :: rs, h, out, id => by
    unfold mergeFold
    simp only [List.foldl_cons, List.map_cons]
    have := look_mergeFold rs (fun r' hr' => h r' (List.mem_cons_of_mem _ hr')) (r.foldl (fun out s => upsert out s.1 s.2) out) id
    unfold mergeFold at this
    rw [this, look_foldl_upsert r (h r (by simp))]
    by_cases hm : id ∈ ids r
    · simp [hm]
    · simp [hm, look_of_not_mem hm, mergeStream_nil_right]

theorem nodup_mergeFold : ∀ (rs : List Matrix) (out : Matrix), (ids out).Nodup → (ids (mergeFold rs out)).Nodup
  | [], out, h => h
  | r :: rs, out, h => by
    unfold mergeFold
    simp only [List.foldl_cons]
    exact nodup_mergeFold rs _ (ids_foldl_upsert_nodup r out h)

theorem upsert_ne_nil (out : Matrix) (id : Nat) (st : List Sample) (hst : st ≠ []) (h : ∀ s ∈ out, s.2 ≠ []) :
    ∀ s ∈ upsert out id st, s.2 ≠ [] := by
  induction out with
  | nil =>
    intro s hs
    simp [upsert, mergeStream_nil_left] at hs
    subst hs; exact hst
  | cons o out ih =>
    obtain ⟨i, ex⟩ := o
    intro s hs
    by_cases hi : i = id
    · simp only [upsert, hi, if_true, List.mem_cons] at hs
      rcases hs with rfl | hs
      · exact mergeStream_ne_nil (Or.inr hst)
      · exact h s (List.mem_cons_of_mem _ hs)
    · simp only [upsert, hi, if_false, List.mem_cons] at hs
      rcases hs with rfl | hs
      · exact h _ (by simp)
      · exact ih (fun s hs => h s (List.mem_cons_of_mem _ hs)) s hs

theorem ne_nil_foldl_upsert (m : Matrix) (hm : ∀ s ∈ m, s.2 ≠ []) : ∀ (out : Matrix), (∀ s ∈ out, s.2 ≠ []) →
    ∀ s ∈ m.foldl (fun out s => upsert out s.1 s.2) out, s.2 ≠ [] := by
  induction m with
  | nil => intro out h; exact h
  | cons x m ih =>
    intro out h
    simp only [List.foldl_cons]
    exact ih (fun s hs => hm s (List.mem_cons_of_mem _ hs)) _ (upsert_ne_nil out x.1 x.2 (hm x (by simp)) h)

theorem ne_nil_mergeFold : ∀ (rs : List Matrix), (∀ r ∈ rs, ∀ s ∈ r, s.2 ≠ []) → ∀ (out : Matrix), (∀ s ∈ out, s.2 ≠ []) →
    ∀ s ∈ mergeFold rs out, s.2 ≠ []
  | [], _, out, h => h
  | r :: rs, hr, out, h => by
    unfold mergeFold
    simp only [List.foldl_cons]
    exact ne_nil_mergeFold rs (fun r' hr' => hr r' (List.mem_cons_of_mem _ hr')) _
      (ne_nil_foldl_upsert r (hr r (by simp)) out h)

theorem matrixMerge_eq (rs : List Matrix) : matrixMerge rs = sortLt (fun a b => decide (a.1 < b.1)) (mergeFold rs []) := rfl

/-- `matrixMerge` series by series: the streams of the responses are folded with `mergeStream`
    in the given order -/
theorem look_matrixMerge (rs : List Matrix) (h : ∀ r ∈ rs, (ids r).Nodup) (id : Nat) :
    look (matrixMerge rs) id = (rs.map fun r => look r id).foldl mergeStream [] := by
  rw [matrixMerge_eq]
  have hnd : (ids (mergeFold rs [])).Nodup := nodup_mergeFold rs [] (by simp [ids])
  rw [← look_perm (perm_sortLt _ _).symm hnd]
  · exact look_mergeFold rs h [] id
  
/-- … and the result is canonical: series in strictly ascending order, none empty -/
theorem canon_matrixMerge (rs : List Matrix) (h : ∀ r ∈ rs, (ids r).Nodup) (hne : ∀ r ∈ rs, ∀ s ∈ r, s.2 ≠ []) :
    Canon (matrixMerge rs) := by
  rw [matrixMerge_eq]
  have hnd : (ids (mergeFold rs [])).Nodup := nodup_mergeFold rs [] (by simp [ids])
  have hperm := perm_sortLt (fun a b : Stream => decide (a.1 < b.1)) (mergeFold rs [])
  constructor
  · have hsorted := sortedBy_sortLt (fun s : Stream => (s.1 : Int)) (mergeFold rs [])
    have hfun : (fun a b : Stream => decide ((a.1 : Int) < (b.1 : Int))) = (fun a b : Stream => decide (a.1 < b.1)) := by
      funext a b; simp
    rw [hfun] at hsorted
    have hnd' : (ids (sortLt (fun a b : Stream => decide (a.1 < b.1)) (mergeFold rs []))).Nodup :=
      (hperm.map _).nodup_iff.mpr hnd
    unfold SortedBy at hsorted
    unfold ids at hnd' ⊢
    rw [List.pairwise_map]
    rw [List.nodup_iff_pairwise_ne, List.pairwise_map] at hnd'
    refine (hsorted.and hnd').imp ?_
    intro a b hab
    have h1 : (a.1 : Int) ≤ (b.1 : Int) := hab.1
    have h2 : a.1 ≠ b.1 := hab.2
    omega
  · intro s hs
    exact ne_nil_mergeFold rs hne [] (by simp) s (hperm.subset hs)

theorem asc_le_getLast {R : List Sample} (h : Asc R) {e : Sample} (he : R.getLast? = some e) :
    ∀ a ∈ R, a.t ≤ e.t := by
  induction R with
  | nil => simp at he
  | cons x xs ih =>
    intro a ha
    have hx := (List.pairwise_cons.mp h).1
    have hxs := (List.pairwise_cons.mp h).2
    cases xs with
    | nil =>
      simp at he ha
      subst he; subst ha; omega
    | cons y ys =>
      have he' : (y :: ys).getLast? = some e := by simpa [List.getLast?_cons_cons] using he
      rcases List.mem_cons.mp ha with rfl | ha
      · have hem : e ∈ y :: ys := List.mem_of_getLast? he'
        have := hx e hem; omega
      · exact ih hxs he' a ha

theorem getLast?_mem' {R : List Sample} {e : Sample} (he : R.getLast? = some e) : e ∈ R :=
  List.mem_of_getLast? he

/-- one step of the per-series fold, when nothing is dropped wrongly -/
theorem mergeStream_step {R P : List Sample} (hR : Asc R) (hP : Asc P)
    (hc : ∀ x ∈ P, ∀ y ∈ R, x.t ≤ y.t → x ∈ R) :
    Asc (mergeStream R P) ∧ ∀ x, x ∈ mergeStream R P ↔ x ∈ R ∨ x ∈ P := by
  rw [mergeStream_asc R P hP]
  cases hl : R.getLast? with
  | none =>
    have : R = [] := List.getLast?_eq_none_iff.mp hl
    subst this
    simp [hP]
  | some e =>
    have hle := asc_le_getLast hR hl
    have hem := getLast?_mem' hl
    simp only
    constructor
    · unfold Asc
      rw [List.pairwise_append]
      refine ⟨hR, List.Pairwise.filter _ hP, ?_⟩
      intro a ha b hb
      have hb' := (List.mem_filter.mp hb).2
      have := hle a ha
      simp at hb'
      omega
    · intro x
      simp only [List.mem_append, List.mem_filter, decide_eq_true_eq]
      constructor
      · rintro (h | h); exact Or.inl h; exact Or.inr h.1
      · rintro (h | h)
        · exact Or.inl h
        · by_cases hlt : e.t < x.t
          · exact Or.inr ⟨h, hlt⟩
          · exact Or.inl (hc x h e hem (by omega))

/-- "nothing is dropped wrongly" along a list of streams folded into `R`: a sample that is not
    later than something already merged is itself already merged -/
def NoWrongDrop (R : List Sample) (Ps : List (List Sample)) : Prop :=
  ∀ pre P post, Ps = pre ++ P :: post → ∀ x ∈ P, ∀ y, (y ∈ R ∨ ∃ Q ∈ pre, y ∈ Q) → x.t ≤ y.t →
    (x ∈ R ∨ ∃ Q ∈ pre, x ∈ Q)

theorem foldl_mergeStream_spec : ∀ (Ps : List (List Sample)) (R : List Sample), Asc R → (∀ P ∈ Ps, Asc P) →
    NoWrongDrop R Ps →
    Asc (Ps.foldl mergeStream R) ∧ ∀ x, x ∈ Ps.foldl mergeStream R ↔ x ∈ R ∨ ∃ P ∈ Ps, x ∈ P
  | [], R, hR, _, _ => by simp [hR]
  | P :: Ps, R, hR, hPs, hc => by
    have hP := hPs P (by simp)
    have hhead : ∀ x ∈ P, ∀ y ∈ R, x.t ≤ y.t → x ∈ R := by
      intro x hx y hy hxy
      have := hc [] P Ps rfl x hx y (Or.inl hy) hxy
      simpa using this
    obtain ⟨hA1, hM1⟩ := mergeStream_step hR hP hhead
    have hc' : NoWrongDrop (mergeStream R P) Ps := by
      intro pre Q post hsplit x hx y hy hxy
      have hy' : y ∈ R ∨ ∃ Q' ∈ P :: pre, y ∈ Q' := by
        rcases hy with hy | ⟨Q', hQ', hy⟩
        · rcases (hM1 y).mp hy with hy | hy
          · exact Or.inl hy
          · exact Or.inr ⟨P, by simp, hy⟩
        · exact Or.inr ⟨Q', List.mem_cons_of_mem _ hQ', hy⟩
      have := hc (P :: pre) Q post (by simp [hsplit]) x hx y hy' hxy
      rcases this with h | ⟨Q', hQ', h⟩
      · exact Or.inl ((hM1 x).mpr (Or.inl h))
      · rcases List.mem_cons.mp hQ' with rfl | hQ'
        · exact Or.inl ((hM1 x).mpr (Or.inr h))
        · exact Or.inr ⟨Q', hQ', h⟩
    obtain ⟨hA, hM⟩ := foldl_mergeStream_spec Ps (mergeStream R P) hA1 (fun Q hQ => hPs Q (List.mem_cons_of_mem _ hQ)) hc'
    refine ⟨hA, fun x => ?_⟩
    simp only [List.foldl_cons]
    rw [hM x, hM1 x]
    constructor
    · rintro ((h | h) | ⟨Q, hQ, h⟩)
      · exact Or.inl h
      · exact Or.inr ⟨P, by simp, h⟩
      · exact Or.inr ⟨Q, List.mem_cons_of_mem _ hQ, h⟩
    · rintro (h | ⟨Q, hQ, h⟩)
      · exact Or.inl (Or.inl h)
      · rcases List.mem_cons.mp hQ with rfl | hQ
        · exact Or.inl (Or.inr h)
        · exact Or.inr ⟨Q, hQ, h⟩

/-- two strictly ascending sample lists with the same members are equal -/
theorem asc_ext : ∀ {l1 l2 : List Sample}, Asc l1 → Asc l2 → (∀ x, x ∈ l1 ↔ x ∈ l2) → l1 = l2
  | [], [], _, _, _ => rfl
  | [], y :: l2, _, _, h => by have := (h y).mpr (by simp); simp at this
  | x :: l1, [], _, _, h => by have := (h x).mp (by simp); simp at this
  | x :: l1, y :: l2, h1, h2, h => by
    have p1 := List.pairwise_cons.mp h1
    have p2 := List.pairwise_cons.mp h2
    have hxy : x = y := by
      have hx := (h x).mp (by simp)
      have hy := (h y).mpr (by simp)
      rcases List.mem_cons.mp hx with rfl | hx
      · rfl
      · rcases List.mem_cons.mp hy with rfl | hy
        · rfl
        · have := p2.1 x hx; have := p1.1 y hy; omega
    subst hxy
    congr 1
    apply asc_ext p1.2 p2.2
    intro z
    constructor
    · intro hz
      rcases List.mem_cons.mp ((h z).mp (List.mem_cons_of_mem _ hz)) with rfl | hz'
      · have := p1.1 z hz; omega
      · exact hz'
    · intro hz
      rcases List.mem_cons.mp ((h z).mpr (List.mem_cons_of_mem _ hz)) with rfl | hz'
      · have := p2.1 z hz; omega
      · exact hz'

theorem mem_look {m : Matrix} {id : Nat} {x : Sample} (h : x ∈ look m id) : ∃ s ∈ m, s.1 = id ∧ x ∈ s.2 := by
  induction m with
  | nil => simp [look_nil] at h
  | cons s m ih =>
    rw [look_cons] at h
    by_cases hs : s.1 = id
    · simp only [hs, if_true] at h
      exact ⟨s, by simp, hs, h⟩
    · simp only [hs, if_false] at h
      obtain ⟨s', hs', h1, h2⟩ := ih h
      exact ⟨s', List.mem_cons_of_mem _ hs', h1, h2⟩

/-- the step function of the repaired `minTime()` -/
def mtStep (acc : Int) (s : Stream) : Int :=
  match s.2 with
  | [] => acc
  | x :: _ => if acc = -1 ∨ x.t < acc then x.t else acc

theorem minTime_true (m : Matrix) : minTime true m = m.foldl mtStep (-1) := by
  unfold minTime
  simp only [if_true]
  rfl

/-- all timestamps of a matrix are non-negative and every stream is ascending -/
def WellTimed (m : Matrix) : Prop := ∀ s ∈ m, Asc s.2 ∧ ∀ x ∈ s.2, 0 ≤ x.t

theorem mt_fold : ∀ (m : Matrix) (acc : Int), WellTimed m → (acc = -1 ∨ 0 ≤ acc) →
    let r := m.foldl mtStep acc
    (r = -1 ∨ 0 ≤ r) ∧ (acc ≠ -1 → r ≤ acc ∧ 0 ≤ r) ∧
    (∀ s ∈ m, ∀ x ∈ s.2, r ≠ -1 ∧ r ≤ x.t) ∧
    (r = acc ∨ ∃ s ∈ m, ∃ x ∈ s.2, r = x.t)
  | [], acc, _, hacc => by
    simp only [List.foldl_nil]
    exact ⟨hacc, fun h => ⟨Int.le_refl _, by omega⟩, by simp, Or.inl trivial⟩
  | s :: m, acc, hw, hacc => by
    have hws := hw s (by simp)
    have hwm : WellTimed m := fun s' hs' => hw s' (List.mem_cons_of_mem _ hs')
    simp only [List.foldl_cons]
    cases hs2 : s.2 with
    | nil =>
      have hstep : mtStep acc s = acc := by simp [mtStep, hs2]
      rw [hstep]
      obtain ⟨h1, h2, h3, h4⟩ := mt_fold m acc hwm hacc
      refine ⟨h1, h2, ?_, ?_⟩
      · intro s' hs' x hx
        rcases List.mem_cons.mp hs' with rfl | hs'
        · rw [hs2] at hx; simp at hx
        · exact h3 s' hs' x hx
      · rcases h4 with h4 | ⟨s', hs', x, hx, h4⟩
        · exact Or.inl h4
        · exact Or.inr ⟨s', List.mem_cons_of_mem _ hs', x, hx, h4⟩
    | cons x0 rest =>
      have hx0 : 0 ≤ x0.t := hws.2 x0 (by rw [hs2]; simp)
      have hasc : ∀ x ∈ s.2, x0.t ≤ x.t := by
        intro x hx
        rw [hs2] at hx
        rcases List.mem_cons.mp hx with rfl | hx
        · omega
        · have := (List.pairwise_cons.mp (by rw [hs2] at hws; exact hws.1)).1 x hx; omega
      have hstep : mtStep acc s = if acc = -1 ∨ x0.t < acc then x0.t else acc := by simp [mtStep, hs2]
      have hacc' : mtStep acc s = -1 ∨ 0 ≤ mtStep acc s := by
        rw [hstep]; split <;> omega
      have hne : mtStep acc s ≠ -1 := by
        rw [hstep]; split <;> omega
      have hle0 : mtStep acc s ≤ x0.t := by
        rw [hstep]; split <;> omega
      obtain ⟨h1, h2, h3, h4⟩ := mt_fold m (mtStep acc s) hwm hacc'
      have h2' := h2 hne
      refine ⟨h1, ?_, ?_, ?_⟩
      · intro hn
        have : mtStep acc s ≤ acc := by rw [hstep]; split <;> omega
        exact ⟨by omega, h2'.2⟩
      · intro s' hs' x hx
        rcases List.mem_cons.mp hs' with rfl | hs'
        · have := hasc x hx
          exact ⟨by omega, by omega⟩
        · exact h3 s' hs' x hx
      · rcases h4 with h4 | ⟨s', hs', x, hx, h4⟩
        · by_cases hc : acc = -1 ∨ x0.t < acc
          · refine Or.inr ⟨s, by simp, x0, by rw [hs2]; simp, ?_⟩
            rw [h4, hstep]; simp [hc]
          · refine Or.inl ?_
            rw [h4, hstep]; simp [hc]
        · exact Or.inr ⟨s', List.mem_cons_of_mem _ hs', x, hx, h4⟩

/-- the repaired `minTime()` is a lower bound of every sample of the response … -/
theorem minTime_le {m : Matrix} (hw : WellTimed m) {s : Stream} (hs : s ∈ m) {x : Sample} (hx : x ∈ s.2) :
    minTime true m ≤ x.t := by
  rw [minTime_true]
  exact ((mt_fold m (-1) hw (Or.inl rfl)).2.2.1 s hs x hx).2

/-- … and is attained when the response has a sample -/
theorem minTime_attained {m : Matrix} (hw : WellTimed m) {s : Stream} (hs : s ∈ m) {x : Sample} (hx : x ∈ s.2) :
    ∃ s' ∈ m, ∃ y ∈ s'.2, minTime true m = y.t := by
  rw [minTime_true]
  obtain ⟨_, _, h3, h4⟩ := mt_fold m (-1) hw (Or.inl rfl)
  rcases h4 with h4 | h4
  · exact absurd h4 (h3 s hs x hx).1
  · exact h4

/-- a response together with the time range it answers -/
structure Piece where
  a : Int
  b : Int
  m : Matrix

/-- responses that are restrictions of one and the same data to their ranges -/
structure Coherent (ps : List Piece) : Prop where
  nonneg : ∀ p ∈ ps, 0 ≤ p.a
  nodup : ∀ p ∈ ps, (ids p.m).Nodup
  asc : ∀ p ∈ ps, ∀ s ∈ p.m, s.2 ≠ [] ∧ Asc s.2
  inRange : ∀ p ∈ ps, ∀ s ∈ p.m, ∀ x ∈ s.2, p.a ≤ x.t ∧ x.t ≤ p.b
  agree : ∀ p ∈ ps, ∀ q ∈ ps, ∀ id x, x ∈ look p.m id → q.a ≤ x.t → x.t ≤ q.b → x ∈ look q.m id

theorem Coherent.wellTimed {ps : List Piece} (h : Coherent ps) {p : Piece} (hp : p ∈ ps) : WellTimed p.m := by
  intro s hs
  refine ⟨(h.asc p hp s hs).2, fun x hx => ?_⟩
  have := h.inRange p hp s hs x hx
  have := h.nonneg p hp
  omega

theorem Coherent.perm {ps qs : List Piece} (h : Coherent ps) (hp : qs.Perm ps) : Coherent qs :=
  ⟨fun p hp' => h.nonneg p (hp.subset hp'), fun p hp' => h.nodup p (hp.subset hp'),
   fun p hp' => h.asc p (hp.subset hp'), fun p hp' => h.inRange p (hp.subset hp'),
   fun p hp' q hq' => h.agree p (hp.subset hp') q (hp.subset hq')⟩

theorem asc_look {ps : List Piece} (h : Coherent ps) {p : Piece} (hp : p ∈ ps) (id : Nat) : Asc (look p.m id) := by
  by_cases hm : id ∈ ids p.m
  · obtain ⟨s, hs, hsid⟩ := List.mem_map.mp hm
    have : look p.m id = s.2 := look_of_mem (h.nodup p hp) (by rw [← hsid]; exact hs)
    rw [this]; exact (h.asc p hp s hs).2
  · rw [look_of_not_mem hm]; exact List.Pairwise.nil

/-- responses sorted by the repaired `minTime()`: folding their streams never drops a sample
    wrongly — whatever order they were in, overlapping or not -/
theorem noWrongDrop_sorted (sps : List Piece) (h : Coherent sps)
    (hsorted : SortedBy (fun p => minTime true p.m) sps) (id : Nat) :
    NoWrongDrop [] (sps.map fun p => look p.m id) := by
  intro pre P post hsplit x hx y hy hxy
  obtain ⟨pre', rest, hs1, hpre, hrest⟩ := List.map_eq_append_iff.mp hsplit
  obtain ⟨p, post', hs2, hP, _⟩ := List.map_eq_cons_iff.mp hrest
  subst hs1 hs2
  rcases hy with hy | ⟨Q, hQ, hy⟩
  · simp at hy
  · rw [← hpre] at hQ
    obtain ⟨q, hq, hQq⟩ := List.mem_map.mp hQ
    refine Or.inr ⟨Q, by rw [← hpre]; exact hQ, ?_⟩
    have hqm : q ∈ pre' ++ p :: post' := List.mem_append_left _ hq
    have hpm : p ∈ pre' ++ p :: post' := by simp
    rw [← hP] at hx
    rw [← hQq] at hy ⊢
    obtain ⟨sy, hsy, _, hysy⟩ := mem_look hy
    obtain ⟨sx, hsx, _, hxsx⟩ := mem_look hx
    have hyb := (h.inRange q hqm sy hsy y hysy).2
    apply h.agree p hpm q hqm id x hx ?_ (by omega)
    -- q.a ≤ x.t: otherwise minTime p ≤ x.t < q.a ≤ minTime q ≤ minTime p
    rcases Int.lt_or_le x.t q.a with hlt | hle
    · have h1 := minTime_le (h.wellTimed hpm) hsx hxsx
      obtain ⟨s', hs', z, hz, hmz⟩ := minTime_attained (h.wellTimed hqm) hsy hysy
      have h2 := (h.inRange q hqm s' hs' z hz).1
      have h3 : minTime true q.m ≤ minTime true p.m := by
        unfold SortedBy at hsorted
        rw [List.pairwise_append] at hsorted
        exact hsorted.2.2 q hq p (by simp)
      omega
    · exact hle

theorem insertLt_map {α β : Type} (f : α → β) (lt : β → β → Bool) (x : α) :
    ∀ l : List α, (insertLt (fun a b => lt (f a) (f b)) x l).map f = insertLt lt (f x) (l.map f)
  | [] => rfl
  | y :: l => by
    unfold insertLt
    by_cases h : lt (f y) (f x) = true
    · simp [h, insertLt_map f lt x l]
    · simp [h]

theorem sortLt_map {α β : Type} (f : α → β) (lt : β → β → Bool) :
    ∀ l : List α, (sortLt (fun a b => lt (f a) (f b)) l).map f = sortLt lt (l.map f)
  | [] => rfl
  | x :: l => by
    simp only [sortLt, List.map_cons]
    rw [insertLt_map, sortLt_map f lt l]

/-- **MergeResponse of coherent responses** (after the `minTime` repair), in any input order and
    with any overlaps: canonical, and every series carries exactly the samples of all responses,
    in ascending order. -/
theorem mergeResponse_spec (ps : List Piece) (h : Coherent ps) :
    Canon (mergeResponse true (ps.map (·.m))) ∧
    ∀ id, Asc (look (mergeResponse true (ps.map (·.m))) id) ∧
      ∀ x, x ∈ look (mergeResponse true (ps.map (·.m))) id ↔ ∃ p ∈ ps, x ∈ look p.m id := by
  unfold mergeResponse
  by_cases hemp : ps = []
  · subst hemp
    simp [Canon, ids, look_nil, Asc]
  · have hne : (ps.map (·.m)).isEmpty = false := by
      cases ps with
      | nil => exact absurd rfl hemp
      | cons _ _ => rfl
    simp only [hne, Bool.false_eq_true, if_false]
    let sps := sortLt (fun a b : Piece => decide (minTime true a.m < minTime true b.m)) ps
    have hmap : sortLt (fun a b : Matrix => decide (minTime true a < minTime true b)) (ps.map (·.m)) = sps.map (·.m) :=
      (sortLt_map (fun p : Piece => p.m) (fun a b => decide (minTime true a < minTime true b)) ps).symm
    rw [hmap]
    have hperm : sps.Perm ps := perm_sortLt _ ps
    have hc : Coherent sps := h.perm hperm
    have hsorted : SortedBy (fun p : Piece => minTime true p.m) sps := sortedBy_sortLt _ ps
    have hnd : ∀ r ∈ sps.map (·.m), (ids r).Nodup := by
      intro r hr; obtain ⟨p, hp, rfl⟩ := List.mem_map.mp hr; exact hc.nodup p hp
    have hnn : ∀ r ∈ sps.map (·.m), ∀ s ∈ r, s.2 ≠ [] := by
      intro r hr s hs; obtain ⟨p, hp, rfl⟩ := List.mem_map.mp hr; exact (hc.asc p hp s hs).1
    refine ⟨canon_matrixMerge _ hnd hnn, fun id => ?_⟩
    rw [look_matrixMerge _ hnd id, List.map_map]
    have hasc : ∀ P ∈ sps.map (fun p => look p.m id), Asc P := by
      intro P hP; obtain ⟨p, hp, rfl⟩ := List.mem_map.mp hP; exact asc_look hc hp id
    obtain ⟨hA, hM⟩ := foldl_mergeStream_spec (sps.map fun p => look p.m id) [] List.Pairwise.nil hasc
      (noWrongDrop_sorted sps hc hsorted id)
    refine ⟨hA, fun x => ?_⟩
    have := hM x
    simp only [Function.comp_def] at this ⊢
    rw [this]
    simp only [List.not_mem_nil, false_or, List.mem_map]
    constructor
    · rintro ⟨P, ⟨p, hp, rfl⟩, hx⟩; exact ⟨p, hperm.subset hp, hx⟩
    · rintro ⟨p, hp, hx⟩; exact ⟨_, ⟨p, hperm.symm.subset hp, rfl⟩, hx⟩

section
open Thanos.Split


/-- `x` is what the downstream has for series `id` at a multiple of `step` -/
def InData (D : Down) (step : Int) (id : Nat) (x : Sample) : Prop :=
  id ∈ D.ids ∧ x.t % step = 0 ∧ D.f id x.t = some x.v

/-- `m` is exactly the downstream's data on the multiples of `step` inside `[a, b]` -/
structure Exact (D : Down) (step a b : Int) (m : Matrix) : Prop where
  canon : Canon m
  asc : ∀ s ∈ m, Asc s.2
  mem : ∀ id x, x ∈ look m id ↔ InData D step id x ∧ a ≤ x.t ∧ x.t ≤ b

def Down.Sorted (D : Down) : Prop := D.ids.Pairwise (· < ·)

theorem canon_nodup {m : Matrix} (h : Canon m) : (ids m).Nodup := by
  rw [List.nodup_iff_pairwise_ne]
  exact h.1.imp (fun hab => by omega)

theorem asc_look_of {m : Matrix} (hc : Canon m) (ha : ∀ s ∈ m, Asc s.2) (id : Nat) : Asc (look m id) := by
  by_cases hm : id ∈ ids m
  · obtain ⟨s, hs, hsid⟩ := List.mem_map.mp hm
    rw [look_of_mem (canon_nodup hc) (show (id, s.2) ∈ m by rw [← hsid]; exact hs)]
    exact ha s hs
  · rw [look_of_not_mem hm]; exact List.Pairwise.nil

/-- two exact matrices for the same range are equal -/
theorem Exact.unique {D : Down} {step a b : Int} {m1 m2 : Matrix} (h1 : Exact D step a b m1) (h2 : Exact D step a b m2) :
    m1 = m2 := by
  apply canon_ext h1.canon h2.canon
  intro id
  apply asc_ext (asc_look_of h1.canon h1.asc id) (asc_look_of h2.canon h2.asc id)
  intro x
  rw [h1.mem, h2.mem]

/-- the samples the downstream returns for one series on a grid -/
def samplesOn (f : Int → Option Int) (T : List Int) : List Sample := T.filterMap fun t => (f t).map (Sample.mk t)

theorem mem_samplesOn {f : Int → Option Int} {T : List Int} {x : Sample} :
    x ∈ samplesOn f T ↔ x.t ∈ T ∧ f x.t = some x.v := by
  unfold samplesOn
  simp only [List.mem_filterMap, Option.map_eq_some_iff]
  constructor
  · rintro ⟨t, ht, v, hv, rfl⟩; exact ⟨ht, hv⟩
  · rintro ⟨ht, hv⟩; exact ⟨x.t, ht, x.v, hv, rfl⟩

theorem asc_samplesOn {f : Int → Option Int} {T : List Int} (hT : T.Pairwise (· < ·)) : Asc (samplesOn f T) := by
  unfold samplesOn Asc
  rw [List.pairwise_filterMap]
  refine hT.imp ?_
  intro a b hab x hx y hy
  simp only [Option.map_eq_some_iff] at hx hy
  obtain ⟨_, _, rfl⟩ := hx
  obtain ⟨_, _, rfl⟩ := hy
  exact hab

theorem evalD_eq (D : Down) (start stop step : Int) :
    evalD D start stop step = D.ids.filterMap fun id =>
      match samplesOn (D.f id) (grid start stop step) with
      | [] => none
      | s => some (id, s) := rfl

theorem look_filterMap_ids (g : Nat → List Sample) : ∀ (l : List Nat), l.Nodup → ∀ id,
    look (l.filterMap fun i => match g i with | [] => none | s => some (i, s)) id = if id ∈ l then g id else []
  | [], _, id => by simp [look_nil]
  | i :: l, hnd, id => by
    have hn := List.nodup_cons.mp hnd
    have ih := look_filterMap_ids g l hn.2 id
    simp only [List.filterMap_cons]
    cases hg : g i with
    | nil =>
      simp only
      rw [ih]
      by_cases hi : id = i
      · subst hi; simp [hn.1, hg]
      · simp [hi]
    | cons y ys =>
      simp only
      rw [look_cons, ih]
      by_cases hi : i = id
      · subst hi; simp [hg]
      · have : ¬ id = i := fun e => hi e.symm
        simp [hi, this]

theorem ids_filterMap_sub (g : Nat → List Sample) (l : List Nat) :
    (ids (l.filterMap fun i => match g i with | [] => none | s => some (i, s))).Sublist l := by
  induction l with
  | nil => simp [ids]
  | cons i l ih =>
    simp only [List.filterMap_cons]
    cases hg : g i with
    | nil => simp only; exact ih.cons _
    | cons y ys => simp only [ids_cons]; exact ih.cons_cons _

/-- the downstream's answer to an aligned range query is exact -/
theorem evalD_exact (D : Down) (hD : D.Sorted) (step a b : Int) (hs : 0 < step) (ha : a % step = 0) :
    Exact D step a b (evalD D a b step) := by
  rw [evalD_eq]
  have hnd : D.ids.Nodup := by
    rw [List.nodup_iff_pairwise_ne]; exact hD.imp (fun h => by omega)
  refine ⟨⟨List.Pairwise.sublist (ids_filterMap_sub _ _) hD, ?_⟩, ?_, ?_⟩
  · intro s hs'
    simp only [List.mem_filterMap] at hs'
    obtain ⟨i, _, hi⟩ := hs'
    cases hg : samplesOn (D.f i) (grid a b step) with
    | nil => simp [hg] at hi
    | cons y ys => simp [hg] at hi; subst hi; simp
  · intro s hs'
    simp only [List.mem_filterMap] at hs'
    obtain ⟨i, _, hi⟩ := hs'
    cases hg : samplesOn (D.f i) (grid a b step) with
    | nil => simp [hg] at hi
    | cons y ys =>
      simp [hg] at hi; subst hi
      simp only
      rw [← hg]
      exact asc_samplesOn (grid_pairwise hs)
  · intro id x
    rw [look_filterMap_ids (fun i => samplesOn (D.f i) (grid a b step)) D.ids hnd id]
    by_cases hid : id ∈ D.ids
    · simp only [hid, if_true, mem_samplesOn, mem_grid hs, InData, true_and]
      have hmod : (x.t - a) % step = 0 ↔ x.t % step = 0 := by
        rw [Int.sub_emod, ha]; simp
      constructor
      · rintro ⟨⟨h1, h2, h3⟩, h4⟩; exact ⟨⟨hmod.mp h3, h4⟩, h1, h2⟩
      · rintro ⟨⟨h3, h4⟩, h1, h2⟩; exact ⟨⟨h1, h2, hmod.mpr h3⟩, h4⟩
    · simp [hid, InData]

end

theorem look_extract (a' b' st : Int) : ∀ (m : Matrix), (ids m).Nodup → ∀ id,
    look (extract a' b' st m) id = (look m id).filter fun x => atStep a' b' st x.t
  | [], _, id => by simp [extract, look_nil]
  | s :: m, hnd, id => by
    rw [ids_cons] at hnd
    have hn := List.nodup_cons.mp hnd
    have ih := look_extract a' b' st m hn.2 id
    unfold extract at ih ⊢
    simp only [List.filterMap_cons]
    rw [look_cons]
    cases hf : s.2.filter (fun x => atStep a' b' st x.t) with
    | nil =>
      simp only
      rw [ih]
      by_cases hs : s.1 = id
      · subst hs
        simp [hf, look_of_not_mem hn.1]
      · simp [hs]
    | cons y ys =>
      simp only
      rw [look_cons, ih]
      by_cases hs : s.1 = id
      · simp [hs, hf]
      · simp [hs]

theorem ids_extract_sub (a' b' st : Int) (m : Matrix) : (ids (extract a' b' st m)).Sublist (ids m) := by
  induction m with
  | nil => simp [extract, ids]
  | cons s m ih =>
    unfold extract at ih ⊢
    simp only [List.filterMap_cons]
    cases hf : s.2.filter (fun x => atStep a' b' st x.t) with
    | nil => simp only [ids_cons]; exact ih.cons _
    | cons y ys => simp only [ids_cons]; exact ih.cons_cons _

theorem mem_extract {a' b' st : Int} {m : Matrix} {s : Stream} (h : s ∈ extract a' b' st m) :
    s.2 ≠ [] ∧ ∃ s0 ∈ m, s.1 = s0.1 ∧ s.2 = s0.2.filter fun x => atStep a' b' st x.t := by
  unfold extract at h
  simp only [List.mem_filterMap] at h
  obtain ⟨s0, hs0, hs⟩ := h
  cases hf : s0.2.filter (fun x => atStep a' b' st x.t) with
  | nil => simp [hf] at hs
  | cons y ys =>
    simp [hf] at hs
    subst hs
    exact ⟨by simp, s0, hs0, rfl, hf.symm⟩

theorem atStep_zero (a' b' t : Int) : atStep a' b' 0 t = true ↔ a' ≤ t ∧ t ≤ b' := by
  unfold atStep
  by_cases h : t < a' ∨ t > b'
  · simp [h]; omega
  · simp [h]; omega

/-- `Extract(start, end, ·)` of an exact response is exact on the intersection -/
theorem extract_exact {D : Down} {step a b : Int} {m : Matrix} (h : Exact D step a b m) (a' b' : Int) :
    Exact D step (max a a') (min b b') (extract a' b' 0 m) := by
  have hnd := canon_nodup h.canon
  refine ⟨⟨List.Pairwise.sublist (ids_extract_sub _ _ _ _) h.canon.1, fun s hs => (mem_extract hs).1⟩, ?_, ?_⟩
  · intro s hs
    obtain ⟨_, s0, hs0, _, heq⟩ := mem_extract hs
    rw [heq]
    exact List.Pairwise.filter _ (h.asc s0 hs0)
  · intro id x
    rw [look_extract _ _ _ _ hnd, List.mem_filter, h.mem, atStep_zero]
    constructor
    · rintro ⟨⟨h1, h2, h3⟩, h4, h5⟩; exact ⟨h1, by omega, by omega⟩
    · rintro ⟨h1, h2, h3⟩; exact ⟨⟨h1, by omega, by omega⟩, by omega, by omega⟩

/-- exact responses are coherent -/
theorem coherent_of_exact {D : Down} {step : Int} {ps : List Piece}
    (h : ∀ p ∈ ps, 0 ≤ p.a ∧ Exact D step p.a p.b p.m) : Coherent ps := by
  refine ⟨fun p hp => (h p hp).1, fun p hp => canon_nodup (h p hp).2.canon,
    fun p hp s hs => ⟨(h p hp).2.canon.2 s hs, (h p hp).2.asc s hs⟩, ?_, ?_⟩
  · intro p hp s hs x hx
    have hl : look p.m s.1 = s.2 := look_of_mem (canon_nodup (h p hp).2.canon) (show (s.1, s.2) ∈ p.m from hs)
    have := ((h p hp).2.mem s.1 x).mp (by rw [hl]; exact hx)
    exact this.2
  · intro p hp q hq id x hx h1 h2
    have := ((h p hp).2.mem id x).mp hx
    exact ((h q hq).2.mem id x).mpr ⟨this.1, h1, h2⟩

/-- **merging exact responses whose ranges cover `[A, B]`** gives the exact response for `[A, B]` -/
theorem merge_exact {D : Down} {step A B : Int} {ps : List Piece}
    (h : ∀ p ∈ ps, 0 ≤ p.a ∧ Exact D step p.a p.b p.m)
    (hin : ∀ p ∈ ps, A ≤ p.a ∧ p.b ≤ B)
    (hcover : ∀ t, A ≤ t → t ≤ B → t % step = 0 → ∃ p ∈ ps, p.a ≤ t ∧ t ≤ p.b) :
    Exact D step A B (mergeResponse true (ps.map (·.m))) := by
  obtain ⟨hcanon, hlook⟩ := mergeResponse_spec ps (coherent_of_exact h)
  refine ⟨hcanon, ?_, ?_⟩
  · intro s hs
    have hl : look _ s.1 = s.2 := look_of_mem (canon_nodup hcanon) (show (s.1, s.2) ∈ _ from hs)
    rw [← hl]; exact (hlook s.1).1
  · intro id x
    rw [(hlook id).2 x]
    constructor
    · rintro ⟨p, hp, hx⟩
      have h1 := ((h p hp).2.mem id x).mp hx
      have h2 := hin p hp
      exact ⟨h1.1, by omega, by omega⟩
    · rintro ⟨hd, h1, h2⟩
      obtain ⟨p, hp, h3, h4⟩ := hcover x.t h1 h2 hd.2.1
      exact ⟨p, hp, ((h p hp).2.mem id x).mpr ⟨hd, h3, h4⟩⟩

/-- what StepAlign establishes: a positive step dividing both ends -/
def Aligned (r : Req) : Prop :=
  0 < r.step ∧ 0 ≤ r.start ∧ r.start ≤ r.stop ∧ r.start % r.step = 0 ∧ r.stop % r.step = 0

/-- a cached extent holds exactly the downstream's data on its (aligned) range -/
def GoodExtent (D : Down) (step : Int) (e : Extent) : Prop :=
  0 ≤ e.start ∧ e.start % step = 0 ∧ e.stop % step = 0 ∧ Exact D step e.start e.stop e.resp

/-- the cached parts of a partition with their ranges -/
def PiecesOK (D : Down) (req : Req) (ps : List Piece) : Prop :=
  ∀ p ∈ ps, 0 ≤ p.a ∧ Exact D req.step p.a p.b p.m ∧ req.start ≤ p.a ∧ p.b ≤ req.stop

def ReqsOK (req : Req) (rs : List Req) : Prop :=
  ∀ r ∈ rs, r.step = req.step ∧ req.start ≤ r.start ∧ r.start % req.step = 0 ∧ r.stop ≤ req.stop ∧
    r.start ≤ r.stop ∧ r.stop % req.step = 0

/-- timestamp `t` lies in a cached part or in a sub-request -/
def Covered (ps : List Piece) (rs : List Req) (t : Int) : Prop :=
  (∃ p ∈ ps, p.a ≤ t ∧ t ≤ p.b) ∨ (∃ r ∈ rs, r.start ≤ t ∧ t ≤ r.stop)

theorem Covered.mono {ps ps' : List Piece} {rs rs' : List Req} {t : Int} (h : Covered ps rs t)
    (hp : ∀ p ∈ ps, p ∈ ps') (hr : ∀ r ∈ rs, r ∈ rs') : Covered ps' rs' t := by
  rcases h with ⟨p, hp', h⟩ | ⟨r, hr', h⟩
  · exact Or.inl ⟨p, hp p hp', h⟩
  · exact Or.inr ⟨r, hr r hr', h⟩

/-- loop invariant of `partition` (any-step mode): everything on the grid before the moving
    `start` is covered, and `start` itself once an extent has been used -/
structure PInv (D : Down) (req : Req) (start : Int) (rs : List Req) (ps : List Piece) : Prop where
  pieces : PiecesOK D req ps
  reqs : ReqsOK req rs
  lo : req.start ≤ start
  al : start % req.step = 0
  cov : ∀ t, req.start ≤ t → t ≤ req.stop → t % req.step = 0 → (t < start ∨ (t = start ∧ ps ≠ [])) → Covered ps rs t
  fresh : ps = [] → start = req.start ∧ rs = []

theorem partitionLoop_spec (cfg : Cfg) (D : Down) (req : Req) (hreq : Aligned req) :
    ∀ (exts : List Extent), (∀ e ∈ exts, GoodExtent D req.step e) →
    ∀ (start : Int) (rs : List Req) (ps : List Piece), PInv D req start rs ps →
      ∃ start' rs' ps', partitionLoop cfg req false exts start rs (ps.map (·.m)) = (start', rs', ps'.map (·.m)) ∧
        PInv D req start' rs' ps'
  | [], _, start, rs, ps, hinv => ⟨start, rs, ps, rfl, hinv⟩
  | e :: es, hgood, start, rs, ps, hinv => by
    have hes : ∀ e' ∈ es, GoodExtent D req.step e' := fun e' he' => hgood e' (List.mem_cons_of_mem _ he')
    obtain ⟨he0, hea, heb, hex⟩ := hgood e (by simp)
    obtain ⟨hstep, hr0, hrle, hra, hrb⟩ := hreq
    unfold partitionLoop
    by_cases h1 : e.stop < start ∨ e.start > req.stop
    · rw [if_pos h1]
      exact partitionLoop_spec cfg D req ⟨hstep, hr0, hrle, hra, hrb⟩ es hes start rs ps hinv
    · rw [if_neg h1]
      by_cases h2 : req.start ≠ req.stop ∧ req.stop - req.start > minCacheExtent ∧ e.stop - e.start < minCacheExtent
      · rw [if_pos h2]
        exact partitionLoop_spec cfg D req ⟨hstep, hr0, hrle, hra, hrb⟩ es hes start rs ps hinv
      · rw [if_neg h2]
        have ho1 : start ≤ e.stop := by omega
        have ho2 : e.start ≤ req.stop := by omega
        -- the new state
        let rs1 : List Req := if start < e.start then rs ++ [⟨start, e.start, req.step⟩] else rs
        let piece : Piece := ⟨max e.start start, min e.stop req.stop, extract start req.stop 0 e.resp⟩
        have hpm : (ps ++ [piece]).map (·.m) = ps.map (·.m) ++ [extract start req.stop 0 e.resp] := by simp [piece]
        have hnext : (if false = true ∧ cfg.gridFix = true ∧ req.step > 0 then e.stop - (e.stop - req.start).tmod req.step else e.stop) = e.stop := by simp
        have hinv' : PInv D req e.stop rs1 (ps ++ [piece]) := by
          have hpex : Exact D req.step (max e.start start) (min e.stop req.stop) (extract start req.stop 0 e.resp) :=
            extract_exact hex start req.stop
          refine ⟨?_, ?_, by have := hinv.lo; omega, heb, ?_, by simp⟩
          · intro p hp
            rcases List.mem_append.mp hp with hp | hp
            · exact hinv.pieces p hp
            · simp at hp; subst hp
              have := hinv.lo
              exact ⟨by simp [piece]; omega, hpex, by simp [piece]; omega, by simp [piece]; omega⟩
          · intro r hr
            by_cases hlt : start < e.start
            · simp only [rs1, hlt, if_true] at hr
              rcases List.mem_append.mp hr with hr | hr
              · exact hinv.reqs r hr
              · simp at hr; subst hr
                exact ⟨rfl, hinv.lo, hinv.al, ho2, by simp; omega, hea⟩
            · simp only [rs1, hlt, if_false] at hr
              exact hinv.reqs r hr
          · intro t ht1 ht2 ht3 _
            by_cases hts : t < start ∨ (t = start ∧ ps ≠ [])
            · refine (hinv.cov t ht1 ht2 ht3 hts).mono (fun p hp => List.mem_append_left _ hp) ?_
              intro r hr
              by_cases hlt : start < e.start
              · simp only [rs1, hlt, if_true]; exact List.mem_append_left _ hr
              · simp only [rs1, hlt, if_false]; exact hr
            · have hge : start ≤ t := by omega
              rename_i hcase
              have hte : t ≤ e.stop := by omega
              by_cases hin : e.start ≤ t
              · exact Or.inl ⟨piece, by simp, by simp [piece]; omega, by simp [piece]; omega⟩
              · have hlt : start < e.start := by omega
                refine Or.inr ⟨⟨start, e.start, req.step⟩, ?_, hge, by simp; omega⟩
                simp only [rs1, hlt, if_true]
                simp
        obtain ⟨start', rs', ps', heq, hfin⟩ := partitionLoop_spec cfg D req ⟨hstep, hr0, hrle, hra, hrb⟩ es hes e.stop rs1 (ps ++ [piece]) hinv'
        refine ⟨start', rs', ps', ?_, hfin⟩
        rw [← heq, hpm]
        simp only [Bool.false_eq_true, false_and, if_false]
        rfl

/-- the sub-requests of a partition, answered by the downstream, as pieces -/
def fetchedPieces (D : Down) (rs : List Req) : List Piece :=
  rs.map fun r => ⟨r.start, r.stop, evalD D r.start r.stop r.step⟩

theorem partition_spec (cfg : Cfg) (D : Down) (hD : D.Sorted) (req : Req) (hreq : Aligned req)
    (exts : List Extent) (hgood : ∀ e ∈ exts, GoodExtent D req.step e) :
    ∃ rs ps, partition cfg req false exts = (rs, ps.map (·.m)) ∧
      (∀ p ∈ ps ++ fetchedPieces D rs, 0 ≤ p.a ∧ Exact D req.step p.a p.b p.m) ∧
      (∀ p ∈ ps ++ fetchedPieces D rs, req.start ≤ p.a ∧ p.b ≤ req.stop) ∧
      (∀ t, req.start ≤ t → t ≤ req.stop → t % req.step = 0 → ∃ p ∈ ps ++ fetchedPieces D rs, p.a ≤ t ∧ t ≤ p.b) ∧
      (∀ r ∈ rs, r.step = req.step ∧ 0 ≤ r.start ∧ r.start % req.step = 0 ∧ req.start ≤ r.start ∧ r.stop ≤ req.stop ∧
        r.start ≤ r.stop ∧ r.stop % req.step = 0) := by
  have hreq' := hreq
  obtain ⟨hstep, hr0, hrle, hra, hrb⟩ := hreq
  have hinit : PInv D req req.start [] [] :=
    ⟨by intro p hp; simp at hp, by intro r hr; simp at hr, Int.le_refl _, hra,
     by intro t _ _ _ h; rcases h with h | h; omega; exact absurd rfl h.2, fun _ => ⟨rfl, rfl⟩⟩
  obtain ⟨start', rs', ps', heq, hinv⟩ := partitionLoop_spec cfg D req hreq' exts hgood req.start [] [] hinit
  simp only [List.map_nil] at heq
  let rs1 : List Req := if start' < req.stop then rs' ++ [⟨start', req.stop, req.step⟩] else rs'
  let rs2 : List Req := if req.start = req.stop ∧ (ps'.map (·.m)).isEmpty then rs1 ++ [req] else rs1
  have hpart : partition cfg req false exts = (rs2, ps'.map (·.m)) := by
    unfold partition
    rw [heq]
  have hrs2 : ∀ r ∈ rs2, r.step = req.step ∧ 0 ≤ r.start ∧ r.start % req.step = 0 ∧ req.start ≤ r.start ∧ r.stop ≤ req.stop ∧
      r.start ≤ r.stop ∧ r.stop % req.step = 0 := by
    intro r hr
    have hrs1 : ∀ r ∈ rs1, r.step = req.step ∧ 0 ≤ r.start ∧ r.start % req.step = 0 ∧ req.start ≤ r.start ∧ r.stop ≤ req.stop ∧
        r.start ≤ r.stop ∧ r.stop % req.step = 0 := by
      intro r hr
      have hold : ∀ r ∈ rs', r.step = req.step ∧ 0 ≤ r.start ∧ r.start % req.step = 0 ∧ req.start ≤ r.start ∧ r.stop ≤ req.stop ∧
          r.start ≤ r.stop ∧ r.stop % req.step = 0 := by
        intro r hr
        obtain ⟨a1, a2, a3, a4, a5, a6⟩ := hinv.reqs r hr
        exact ⟨a1, by omega, a3, a2, a4, a5, a6⟩
      by_cases hlt : start' < req.stop
      · simp only [rs1, hlt, if_true] at hr
        rcases List.mem_append.mp hr with hr | hr
        · exact hold r hr
        · simp at hr; subst hr
          have := hinv.lo
          exact ⟨rfl, by simp; omega, hinv.al, hinv.lo, Int.le_refl _, by simp; omega, hrb⟩
      · simp only [rs1, hlt, if_false] at hr
        exact hold r hr
    by_cases hsp : req.start = req.stop ∧ (ps'.map (·.m)).isEmpty
    · simp only [rs2, hsp, and_self, if_true] at hr
      rcases List.mem_append.mp hr with hr | hr
      · exact hrs1 r hr
      · simp at hr; subst hr
        exact ⟨rfl, hr0, hra, Int.le_refl _, Int.le_refl _, hrle, hrb⟩
    · simp only [rs2, hsp, if_false] at hr
      exact hrs1 r hr
  refine ⟨rs2, ps', hpart, ?_, ?_, ?_, hrs2⟩
  · intro p hp
    rcases List.mem_append.mp hp with hp | hp
    · exact ⟨(hinv.pieces p hp).1, (hinv.pieces p hp).2.1⟩
    · simp only [fetchedPieces, List.mem_map] at hp
      obtain ⟨r, hr, rfl⟩ := hp
      obtain ⟨a1, a2, a3, _, _, _, _⟩ := hrs2 r hr
      simp only
      rw [a1]
      exact ⟨a2, evalD_exact D hD req.step r.start r.stop hstep a3⟩
  · intro p hp
    rcases List.mem_append.mp hp with hp | hp
    · exact (hinv.pieces p hp).2.2
    · simp only [fetchedPieces, List.mem_map] at hp
      obtain ⟨r, hr, rfl⟩ := hp
      obtain ⟨_, _, _, a4, a5, _, _⟩ := hrs2 r hr
      exact ⟨a4, a5⟩
  · intro t ht1 ht2 ht3
    have hcov : Covered ps' rs2 t := by
      by_cases hts : t < start' ∨ (t = start' ∧ ps' ≠ [])
      · refine (hinv.cov t ht1 ht2 ht3 hts).mono (fun p hp => hp) ?_
        intro r hr
        have h1 : r ∈ rs1 := by
          by_cases hlt : start' < req.stop
          · simp only [rs1, hlt, if_true]; exact List.mem_append_left _ hr
          · simp only [rs1, hlt, if_false]; exact hr
        by_cases hsp : req.start = req.stop ∧ (ps'.map (·.m)).isEmpty
        · simp only [rs2, hsp, and_self, if_true]; exact List.mem_append_left _ h1
        · simp only [rs2, hsp, if_false]; exact h1
      · have hge : start' ≤ t := by omega
        by_cases hlt : start' < req.stop
        · refine Or.inr ⟨⟨start', req.stop, req.step⟩, ?_, hge, ht2⟩
          have h1 : (⟨start', req.stop, req.step⟩ : Req) ∈ rs1 := by
            simp only [rs1, hlt, if_true]; simp
          by_cases hsp : req.start = req.stop ∧ (ps'.map (·.m)).isEmpty
          · simp only [rs2, hsp, and_self, if_true]; exact List.mem_append_left _ h1
          · simp only [rs2, hsp, if_false]; exact h1
        · have hteq : t = start' := by omega
          have hps : ps' = [] := by
            by_cases hp : ps' = []
            · exact hp
            · exact absurd (Or.inr ⟨hteq, hp⟩) hts
          have hfr := hinv.fresh hps
          have hsp : req.start = req.stop ∧ (ps'.map (·.m)).isEmpty := by
            subst hps; refine ⟨by omega, rfl⟩
          refine Or.inr ⟨req, ?_, by omega, ht2⟩
          simp only [rs2, hsp, and_self, if_true]; simp
    rcases hcov with ⟨p, hp, h⟩ | ⟨r, hr, h⟩
    · exact ⟨p, List.mem_append_left _ hp, h⟩
    · exact ⟨⟨r.start, r.stop, evalD D r.start r.stop r.step⟩, List.mem_append_right _ (List.mem_map.mpr ⟨r, hr, rfl⟩), h⟩

/-- **a cache hit answers exactly**: with good extents under the request's key, `handleHit`
    (any-step mode, repaired `minTime`) returns the downstream's direct answer -/
theorem handleHit_resp (g : Bool) (env : Env) (D : Down) (hD : D.Sorted) (req : Req) (hreq : Aligned req)
    (exts : List Extent) (hgood : ∀ e ∈ exts, GoodExtent D req.step e) :
    (handleHit ⟨true, g⟩ env D req exts false).1 = evalD D req.start req.stop req.step := by
  obtain ⟨rs, ps, hpart, hex, hin, hcov, _⟩ := partition_spec ⟨true, g⟩ D hD req hreq exts hgood
  have hmerge := merge_exact hex hin hcov
  have hdirect := evalD_exact D hD req.step req.start req.stop hreq.1 hreq.2.2.2.1
  have hmap : (ps ++ fetchedPieces D rs).map (·.m) = ps.map (·.m) ++ rs.map (fun r => evalD D r.start r.stop r.step) := by
    simp [fetchedPieces, List.map_map, Function.comp_def]
  rw [hmap] at hmerge
  unfold handleHit
  rw [hpart]
  simp only
  by_cases hemp : rs.isEmpty = true
  · have : rs = [] := by simpa using hemp
    subst this
    simp only [List.isEmpty_nil, if_true]
    simp only [List.map_nil, List.append_nil] at hmerge
    exact hmerge.unique hdirect
  · simp only [hemp, Bool.false_eq_true, if_false]
    simp only [List.map_map, Function.comp_def]
    exact hmerge.unique hdirect

/-! ### the extent merge loop keeps extents good -/

theorem sortedRel_insertLt {α : Type} (lt : α → α → Bool) (R : α → α → Prop)
    (h1 : ∀ a b, lt a b = true → R a b) (h2 : ∀ a b, lt a b = false → R b a) (htr : ∀ a b c, R a b → R b c → R a c)
    (x : α) : ∀ l : List α, l.Pairwise R → (insertLt lt x l).Pairwise R
  | [], _ => by simp [insertLt]
  | y :: l, h => by
    unfold insertLt
    have hy := (List.pairwise_cons.mp h).1
    have hl := (List.pairwise_cons.mp h).2
    cases hlt : lt y x with
    | true =>
      simp only [if_true]
      refine List.pairwise_cons.mpr ⟨?_, sortedRel_insertLt lt R h1 h2 htr x l hl⟩
      intro z hz
      rcases List.mem_cons.mp ((perm_insertLt lt x l).subset hz) with rfl | hz
      · exact h1 _ _ hlt
      · exact hy z hz
    | false =>
      simp only [Bool.false_eq_true, if_false]
      refine List.pairwise_cons.mpr ⟨?_, h⟩
      intro z hz
      rcases List.mem_cons.mp hz with rfl | hz
      · exact h2 _ _ hlt
      · exact htr _ _ _ (h2 _ _ hlt) (hy z hz)

theorem sortedRel_sortLt {α : Type} (lt : α → α → Bool) (R : α → α → Prop)
    (h1 : ∀ a b, lt a b = true → R a b) (h2 : ∀ a b, lt a b = false → R b a) (htr : ∀ a b c, R a b → R b c → R a c) :
    ∀ l : List α, (sortLt lt l).Pairwise R
  | [] => by simp [sortLt]
  | x :: l => sortedRel_insertLt lt R h1 h2 htr x _ (sortedRel_sortLt lt R h1 h2 htr l)

theorem sorted_extents (l : List Extent) : (sortLt extentLt l).Pairwise fun a b => a.start ≤ b.start := by
  apply sortedRel_sortLt
  · intro a b h
    unfold extentLt at h
    split at h
    · omega
    · simp at h; omega
  · intro a b h
    unfold extentLt at h
    split at h
    · omega
    · simp at h; omega
  · intro a b c h1 h2; omega

theorem mergeExtentsLoop_good (g : Bool) (D : Down) (step : Int) (hs : 0 < step) :
    ∀ (es : List Extent) (acc : Extent), GoodExtent D step acc → (∀ e ∈ es, GoodExtent D step e) →
      (∀ e ∈ es, acc.start ≤ e.start) → es.Pairwise (fun a b => a.start ≤ b.start) →
      ∀ e ∈ mergeExtentsLoop ⟨true, g⟩ step acc es, GoodExtent D step e
  | [], acc, hacc, _, _, _ => by
    intro e he; simp [mergeExtentsLoop] at he; subst he; exact hacc
  | e :: es, acc, hacc, hes, hle, hsorted => by
    have he := hes e (by simp)
    have hes' : ∀ e' ∈ es, GoodExtent D step e' := fun e' h => hes e' (List.mem_cons_of_mem _ h)
    have hs' := (List.pairwise_cons.mp hsorted)
    unfold mergeExtentsLoop
    by_cases h1 : acc.stop + step < e.start
    · rw [if_pos h1]
      intro x hx
      rcases List.mem_cons.mp hx with rfl | hx
      · exact hacc
      · exact mergeExtentsLoop_good g D step hs es e he hes' hs'.1 hs'.2 x hx
    · rw [if_neg h1]
      by_cases h2 : acc.stop ≥ e.stop
      · rw [if_pos h2]
        exact mergeExtentsLoop_good g D step hs es acc hacc hes' (fun e' h => hle e' (List.mem_cons_of_mem _ h)) hs'.2
      · rw [if_neg h2]
        obtain ⟨a0, a2, a3, a4⟩ := hacc
        obtain ⟨e0, e2, e3, e4⟩ := he
        have hae := hle e (by simp)
        have hnew : GoodExtent D step ⟨acc.start, e.stop, mergeResponse true [acc.resp, e.resp]⟩ := by
          refine ⟨a0, a2, e3, ?_⟩
          have := merge_exact (D := D) (step := step) (A := acc.start) (B := e.stop)
            (ps := [⟨acc.start, acc.stop, acc.resp⟩, ⟨e.start, e.stop, e.resp⟩])
            (by intro p hp; simp at hp; rcases hp with rfl | rfl; exact ⟨a0, a4⟩; exact ⟨e0, e4⟩)
            (by intro p hp; simp at hp; rcases hp with rfl | rfl <;> simp <;> omega)
            (by
              intro t ht1 ht2 ht3
              by_cases hta : t ≤ acc.stop
              · exact ⟨⟨acc.start, acc.stop, acc.resp⟩, by simp, ht1, hta⟩
              · refine ⟨⟨e.start, e.stop, e.resp⟩, by simp, ?_, ht2⟩
                -- t and acc.stop are multiples of step, t > acc.stop, so t ≥ acc.stop + step ≥ e.start
                have hd : (t - acc.stop) % step = 0 := by
                  rw [Int.sub_emod, ht3, a3]; simp
                obtain ⟨k, hk⟩ := Int.dvd_of_emod_eq_zero hd
                have hkpos : 0 < k := by
                  rcases Int.lt_or_le 0 k with h | h
                  · exact h
                  · have : step * k ≤ 0 := Int.mul_nonpos_of_nonneg_of_nonpos (by omega) h
                    omega
                have : step * 1 ≤ step * k := Int.mul_le_mul_of_nonneg_left (by omega) (by omega)
                simp only
                omega)
          simpa using this
        exact mergeExtentsLoop_good g D step hs es _ hnew hes' (fun e' h => hle e' (List.mem_cons_of_mem _ h)) hs'.2

theorem mergeExtents_good (g : Bool) (D : Down) (step : Int) (hs : 0 < step) (all : List Extent)
    (h : ∀ e ∈ all, GoodExtent D step e) : ∀ e ∈ mergeExtents ⟨true, g⟩ step all, GoodExtent D step e := by
  unfold mergeExtents
  have hperm := perm_sortLt extentLt all
  have hsorted := sorted_extents all
  cases hsrt : sortLt extentLt all with
  | nil => intro e he; simp at he
  | cons x xs =>
    rw [hsrt] at hperm hsorted
    have hp := List.pairwise_cons.mp hsorted
    simp only
    exact mergeExtentsLoop_good g D step hs xs x (h x (hperm.subset (by simp)))
      (fun e he => h e (hperm.subset (List.mem_cons_of_mem _ he))) hp.1 hp.2

theorem handleHit_extents (g : Bool) (env : Env) (D : Down) (hD : D.Sorted) (req : Req) (hreq : Aligned req)
    (exts : List Extent) (hgood : ∀ e ∈ exts, GoodExtent D req.step e) :
    ∀ ex, (handleHit ⟨true, g⟩ env D req exts false).2 = some ex → ∀ e ∈ ex, GoodExtent D req.step e := by
  obtain ⟨rs, ps, hpart, _, _, _, hrs⟩ := partition_spec ⟨true, g⟩ D hD req hreq exts hgood
  intro ex hex
  unfold handleHit at hex
  rw [hpart] at hex
  simp only at hex
  by_cases hemp : rs.isEmpty = true
  · simp [hemp] at hex
  · simp only [hemp, Bool.false_eq_true, if_false, Option.some.injEq] at hex
    subst hex
    apply mergeExtents_good g D req.step hreq.1
    intro e he
    rcases List.mem_append.mp he with he | he
    · exact hgood e he
    · simp only [List.mem_map, List.mem_filter] at he
      obtain ⟨p, ⟨hp, _⟩, rfl⟩ := he
      obtain ⟨r, hr, rfl⟩ := hp
      obtain ⟨a1, a2, a3, _, _, _, a7⟩ := hrs r hr
      refine ⟨a2, a3, a7, ?_⟩
      simp only
      rw [a1]
      exact evalD_exact D hD req.step r.start r.stop hreq.1 a3

/-- `filterRecentExtents` keeps extents good: a truncated extent holds exactly the data of the
    truncated range -/
theorem filterRecent_good (env : Env) (D : Down) (step : Int) (hs : 0 < step) (exts : List Extent)
    (h : ∀ e ∈ exts, GoodExtent D step e) : ∀ e ∈ filterRecent env step exts, GoodExtent D step e := by
  intro e he
  unfold filterRecent at he
  simp only [List.mem_map] at he
  obtain ⟨e0, he0, rfl⟩ := he
  obtain ⟨a0, a1, a2, a3⟩ := h e0 he0
  by_cases hgt : e0.stop > env.mct.tdiv step * step
  · simp only [hgt, if_true]
    refine ⟨a0, a1, by simp, ?_⟩
    have := extract_exact a3 e0.start (env.mct.tdiv step * step)
    have e1 : max e0.start e0.start = e0.start := by omega
    have e2 : min e0.stop (env.mct.tdiv step * step) = env.mct.tdiv step * step := by omega
    rw [e1, e2] at this
    exact this
  · simp only [hgt, if_false]
    exact ⟨a0, a1, a2, a3⟩

/-- every key of the cache is for the one step `step`, every extent is good -/
def GoodCache (D : Down) (step : Int) (c : Cache) : Prop :=
  ∀ kv ∈ c, kv.1.step = step ∧ ∀ e ∈ kv.2, GoodExtent D step e

theorem cacheGet_mem {c : Cache} {k : Key} {v : List Extent} (h : cacheGet c k = some v) : (k, v) ∈ c := by
  unfold cacheGet at h
  cases hf : c.find? (fun kv => decide (kv.1 = k)) with
  | none => simp [hf] at h
  | some kv =>
    simp [hf] at h
    have hm := List.mem_of_find?_eq_some hf
    have hp := List.find?_some hf
    simp at hp
    subst h
    have : kv = (k, kv.2) := Prod.ext hp rfl
    rw [← this]; exact hm

theorem cacheGet_none_of_step {D : Down} {step : Int} {c : Cache} (hc : GoodCache D step c) {k : Key} (hk : k.step ≠ step) :
    cacheGet c k = none := by
  unfold cacheGet
  have : c.find? (fun kv => decide (kv.1 = k)) = none := by
    apply List.find?_eq_none.mpr
    intro kv hkv
    simp
    intro e
    exact hk (e ▸ (hc kv hkv).1)
  simp [this]

theorem mem_cachePut {c : Cache} {k : Key} {v : List Extent} {kv : Key × List Extent} (h : kv ∈ cachePut c k v) :
    kv ∈ c ∨ kv = (k, v) := by
  induction c with
  | nil => simp [cachePut] at h; exact Or.inr h
  | cons x c ih =>
    obtain ⟨k', v'⟩ := x
    unfold cachePut at h
    by_cases hk : k' = k
    · simp only [hk, if_true, List.mem_cons] at h
      rcases h with h | h
      · exact Or.inr h
      · exact Or.inl (List.mem_cons_of_mem _ h)
    · simp only [hk, if_false, List.mem_cons] at h
      rcases h with h | h
      · exact Or.inl (by rw [h]; simp)
      · rcases ih h with h | h
        · exact Or.inl (List.mem_cons_of_mem _ h)
        · exact Or.inr h

theorem goodCache_put {D : Down} {step : Int} {c : Cache} (hc : GoodCache D step c) {k : Key} (hk : k.step = step)
    {v : List Extent} (hv : ∀ e ∈ v, GoodExtent D step e) : GoodCache D step (cachePut c k v) := by
  intro kv hkv
  rcases mem_cachePut hkv with h | h
  · exact hc kv h
  · subst h; exact ⟨hk, hv⟩

theorem lowerSteps_lt {step s : Int} (h : s ∈ lowerSteps step) : s < step := by
  unfold lowerSteps at h
  split at h
  · have := (List.mem_filter.mp h).2
    simp at this
    omega
  · simp at h

/-- **one (sub-)request through the cache** when every cached key is for the request's own step:
    the answer is the downstream's direct answer and the cache stays good — whatever the
    freshness cut-off and the cacheability of the responses -/
theorem doReq_spec (g : Bool) (env : Env) (D : Down) (hD : D.Sorted) (splitMs : Int) (c : Cache) (req : Req)
    (hreq : Aligned req) (hc : GoodCache D req.step c) :
    (doReq ⟨true, g⟩ env D splitMs c req).1 = evalD D req.start req.stop req.step ∧
    GoodCache D req.step (doReq ⟨true, g⟩ env D splitMs c req).2 := by
  unfold doReq
  by_cases hfresh : req.start > env.mct
  · simp only [hfresh, if_true]; exact ⟨trivial, hc⟩
  simp only [hfresh, if_false]
  cases hget : cacheGet c ⟨req.step, splitMs, req.start.tdiv splitMs⟩ with
  | some exts =>
    have hgood : ∀ e ∈ exts, GoodExtent D req.step e := (hc _ (cacheGet_mem hget)).2
    have hresp := handleHit_resp g env D hD req hreq exts hgood
    have hext := handleHit_extents g env D hD req hreq exts hgood
    simp only
    cases hh : handleHit ⟨true, g⟩ env D req exts false with
    | mk resp oex =>
      rw [hh] at hresp hext
      simp only at hresp hext
      cases oex with
      | none => exact ⟨hresp, hc⟩
      | some ex => exact ⟨hresp, goodCache_put hc rfl (filterRecent_good env D req.step hreq.1 ex (hext ex rfl))⟩
  | none =>
    simp only
    have hnone : ((lowerSteps req.step).filter fun s => req.start.tmod s = 0).findSome?
        (fun s => cacheGet c ⟨s, splitMs, req.start.tdiv splitMs⟩) = none := by
      apply List.findSome?_eq_none_iff.mpr
      intro s hs
      have hlt := lowerSteps_lt (List.mem_filter.mp hs).1
      exact cacheGet_none_of_step hc (by simp; omega)
    rw [hnone]
    simp only
    by_cases hns : env.noStore req = true
    · simp only [hns, if_true]; exact ⟨trivial, hc⟩
    · simp only [hns, Bool.false_eq_true, if_false]
      refine ⟨trivial, goodCache_put hc rfl (filterRecent_good env D req.step hreq.1 _ ?_)⟩
      intro e he
      simp at he; subst he
      obtain ⟨h1, h2, _, h4, h5⟩ := hreq
      exact ⟨h2, h4, h5, evalD_exact D hD req.step req.start req.stop h1 h4⟩

section
open Thanos.Split


/-- the fold of `frontend` over the sub-requests of a split -/
def foldParts (cfg : Cfg) (env : Env) (D : Down) (splitMs step : Int) (parts : List (Int × Int)) (init : List Matrix × Cache) :
    List Matrix × Cache :=
  parts.foldl (fun (acc : List Matrix × Cache) p =>
    (acc.1 ++ [(doReq cfg env D splitMs acc.2 ⟨p.1, p.2, step⟩).1], (doReq cfg env D splitMs acc.2 ⟨p.1, p.2, step⟩).2)) init

theorem foldParts_spec (g : Bool) (env : Env) (D : Down) (hD : D.Sorted) (splitMs step : Int) :
    ∀ (parts : List (Int × Int)) (resps : List Matrix) (c : Cache), GoodCache D step c →
      (∀ p ∈ parts, Aligned ⟨p.1, p.2, step⟩) →
      (foldParts ⟨true, g⟩ env D splitMs step parts (resps, c)).1 = resps ++ parts.map (fun p => evalD D p.1 p.2 step) ∧
      GoodCache D step (foldParts ⟨true, g⟩ env D splitMs step parts (resps, c)).2
  | [], resps, c, hc, _ => by simp [foldParts, hc]
  | p :: parts, resps, c, hc, hal => by
    have hp := hal p (by simp)
    obtain ⟨h1, h2⟩ := doReq_spec g env D hD splitMs c ⟨p.1, p.2, step⟩ hp hc
    simp only at h1 h2
    have ih := foldParts_spec g env D hD splitMs step parts (resps ++ [(doReq ⟨true, g⟩ env D splitMs c ⟨p.1, p.2, step⟩).1])
      (doReq ⟨true, g⟩ env D splitMs c ⟨p.1, p.2, step⟩).2 h2 (fun q hq => hal q (List.mem_cons_of_mem _ hq))
    unfold foldParts at ih ⊢
    simp only [List.foldl_cons]
    constructor
    · rw [ih.1, h1]; simp
    · exact ih.2

theorem frontend_eq (cfg : Cfg) (env : Env) (D : Down) (splitMs : Int) (c : Cache) (req : Req) (hs : req.step ≠ 0) :
    frontend cfg env D true splitMs c req =
      match Split.split (req.start.tdiv req.step * req.step) (req.stop.tdiv req.step * req.step) req.step splitMs with
      | .ok parts =>
        some (mergeResponse cfg.minAll (foldParts cfg env D splitMs req.step parts ([], c)).1,
              (foldParts cfg env D splitMs req.step parts ([], c)).2)
      | _ => none := by
  unfold frontend foldParts
  simp only [hs, if_false, if_true]
  cases Split.split (req.start.tdiv req.step * req.step) (req.stop.tdiv req.step * req.step) req.step splitMs with
  | ok parts =>
    simp only
  | panic => rfl
  | fuel => rfl

/-- **one request through the whole chain** (StepAlign → SplitByInterval → results cache →
    MergeResponse) over a cache whose keys are all for the request's step: the answer is the
    direct answer to the step-aligned request, and the cache stays good -/
theorem frontend_spec (g : Bool) (env : Env) (D : Down) (hD : D.Sorted) (splitMs : Int) (hsp : 0 < splitMs) (c : Cache) (req : Req)
    (hstep : 0 < req.step) (h0 : 0 ≤ req.start) (hle : req.start ≤ req.stop) (hc : GoodCache D req.step c) :
    ∃ c', frontend ⟨true, g⟩ env D true splitMs c req =
        some (evalD D (req.start / req.step * req.step) (req.stop / req.step * req.step) req.step, c') ∧
      GoodCache D req.step c' := by
  have hne : req.step ≠ 0 := by omega
  have hs1 : req.start.tdiv req.step = req.start / req.step := Int.tdiv_eq_ediv_of_nonneg h0
  have hs2 : req.stop.tdiv req.step = req.stop / req.step := Int.tdiv_eq_ediv_of_nonneg (by omega)
  rw [frontend_eq _ _ _ _ _ _ hne, hs1, hs2]
  generalize hS : req.start / req.step * req.step = s
  generalize hE : req.stop / req.step * req.step = e
  have hsm : s % req.step = 0 := by rw [← hS]; simp
  have hem : e % req.step = 0 := by rw [← hE]; simp
  have hs0 : 0 ≤ s := by
    rw [← hS]; exact Int.mul_nonneg (Int.ediv_nonneg h0 (by omega)) (by omega)
  have hse : s ≤ e := by
    rw [← hS, ← hE]
    exact Int.mul_le_mul_of_nonneg_right (Int.ediv_le_ediv hstep hle) (by omega)
  obtain ⟨parts, hsplit, hgrid, hsub⟩ := split_spec s e req.step splitMs hstep hsp
  rw [hsplit]
  simp only
  have hal : ∀ p ∈ parts, Aligned ⟨p.1, p.2, req.step⟩ := by
    intro p hp
    obtain ⟨a1, a2, a3, a4, a5⟩ := hsub p hp
    have hp1 : p.1 % req.step = 0 := by
      have : p.1 = (p.1 - s) + s := by omega
      rw [this, Int.add_emod, Int.emod_eq_zero_of_dvd a1, hsm]; simp
    have hp2 : p.2 % req.step = 0 := by
      rcases a5 with a5 | a5
      · have : p.2 = (p.2 - p.1) + p.1 := by omega
        rw [this, Int.add_emod, Int.emod_eq_zero_of_dvd a5, hp1]; simp
      · rw [a5]; exact hem
    exact ⟨hstep, by simp; omega, a3, hp1, hp2⟩
  obtain ⟨hresp, hcache⟩ := foldParts_spec g env D hD splitMs req.step parts [] c hc hal
  refine ⟨(foldParts ⟨true, g⟩ env D splitMs req.step parts ([], c)).2, ?_, hcache⟩
  congr 2
  rw [hresp, List.nil_append]
  -- the merged sub-responses are exact for [s, e]
  let ps : List Piece := parts.map fun p => ⟨p.1, p.2, evalD D p.1 p.2 req.step⟩
  have hmap : parts.map (fun p => evalD D p.1 p.2 req.step) = ps.map (·.m) := by
    simp [ps, List.map_map, Function.comp_def]
  rw [hmap]
  have hex : Exact D req.step s e (mergeResponse true (ps.map (·.m))) := by
    apply merge_exact
    · intro p hp
      simp only [ps, List.mem_map] at hp
      obtain ⟨q, hq, rfl⟩ := hp
      have := hal q hq
      exact ⟨this.2.1, evalD_exact D hD req.step q.1 q.2 hstep this.2.2.2.1⟩
    · intro p hp
      simp only [ps, List.mem_map] at hp
      obtain ⟨q, hq, rfl⟩ := hp
      obtain ⟨_, a2, _, a4, _⟩ := hsub q hq
      exact ⟨a2, a4⟩
    · intro t ht1 ht2 ht3
      have hmem : t ∈ grid s e req.step := (mem_grid hstep).mpr ⟨ht1, ht2, by rw [Int.sub_emod, ht3, hsm]; simp⟩
      rw [← hgrid] at hmem
      obtain ⟨q, hq, htq⟩ := List.mem_flatMap.mp hmem
      have := (mem_grid hstep).mp htq
      exact ⟨⟨q.1, q.2, evalD D q.1 q.2 req.step⟩, List.mem_map.mpr ⟨q, hq, rfl⟩, this.1, this.2.1⟩
  exact hex.unique (evalD_exact D hD req.step s e hstep hsm)

end

theorem atStep_pos {a' b' step t : Int} (hs : 0 < step) (ha : a' % step = 0) :
    atStep a' b' step t = true ↔ a' ≤ t ∧ t ≤ b' ∧ t % step = 0 := by
  unfold atStep
  by_cases h : t < a' ∨ t > b'
  · simp [h]; omega
  · have hge : 0 ≤ t - a' := by omega
    have hns : ¬ step ≤ 0 := by omega
    simp only [h, if_false, hns, decide_false, Bool.false_or, decide_eq_true_eq]
    rw [Int.tmod_eq_emod_of_nonneg hge]
    have : (t - a') % step = 0 ↔ t % step = 0 := by rw [Int.sub_emod, ha]; simp
    rw [this]
    constructor
    · intro h3; exact ⟨by omega, by omega, h3⟩
    · intro h3; exact h3.2.2

/-- `ExtractForStep(start, end, step, ·)` of a response cached under a smaller step `s'` that
    divides `step`, with `start` on the request's grid: exact for `step` on the intersection -/
theorem extract_exact_step {D : Down} {s' step a b : Int} {m : Matrix} (h : Exact D s' a b m)
    (hs' : 0 < s') (hs : 0 < step) (hdvd : step % s' = 0) (a' b' : Int) (ha' : a' % step = 0) :
    Exact D step (max a a') (min b b') (extract a' b' step m) := by
  have hnd := canon_nodup h.canon
  refine ⟨⟨List.Pairwise.sublist (ids_extract_sub _ _ _ _) h.canon.1, fun s hs => (mem_extract hs).1⟩, ?_, ?_⟩
  · intro s hs
    obtain ⟨_, s0, hs0, _, heq⟩ := mem_extract hs
    rw [heq]
    exact List.Pairwise.filter _ (h.asc s0 hs0)
  · intro id x
    rw [look_extract _ _ _ _ hnd, List.mem_filter, h.mem, atStep_pos hs ha']
    have hmod : x.t % step = 0 → x.t % s' = 0 := by
      intro h0
      exact Int.emod_eq_zero_of_dvd (Int.dvd_trans (Int.dvd_of_emod_eq_zero hdvd) (Int.dvd_of_emod_eq_zero h0))
    constructor
    · rintro ⟨⟨⟨h1, _, h3⟩, h4, h5⟩, h6, h7, h8⟩
      exact ⟨⟨h1, h8, h3⟩, by omega, by omega⟩
    · rintro ⟨⟨h1, h2, h3⟩, h4, h5⟩
      exact ⟨⟨⟨h1, hmod h2, h3⟩, by omega, by omega⟩, by omega, by omega, h2⟩

/-- sub-requests of a matching-step partition (nothing is written back, so their ends need not be
    on the grid) -/
def ReqsOKm (req : Req) (rs : List Req) : Prop :=
  ∀ r ∈ rs, r.step = req.step ∧ req.start ≤ r.start ∧ r.start % req.step = 0 ∧ r.stop ≤ req.stop

structure PInvM (D : Down) (req : Req) (start : Int) (rs : List Req) (ps : List Piece) : Prop where
  pieces : PiecesOK D req ps
  reqs : ReqsOKm req rs
  lo : req.start ≤ start
  al : start % req.step = 0
  cov : ∀ t, req.start ≤ t → t ≤ req.stop → t % req.step = 0 → (t < start ∨ (t = start ∧ ps ≠ [])) → Covered ps rs t
  fresh : ps = [] → start = req.start ∧ rs = []

/-- the repaired continuation point: the largest point of the request's grid `≤ e.stop` -/
theorem gridFloor {reqStart step estop start : Int} (hs : 0 < step) (hra : reqStart % step = 0) (hlo : reqStart ≤ start)
    (hal : start % step = 0) (hle : start ≤ estop) :
    let next := estop - (estop - reqStart).tmod step
    next % step = 0 ∧ next ≤ estop ∧ start ≤ next := by
  intro next
  have hd0 : 0 ≤ estop - reqStart := by omega
  have htm : (estop - reqStart).tmod step = (estop - reqStart) % step := Int.tmod_eq_emod_of_nonneg hd0
  have hm0 := Int.emod_nonneg (estop - reqStart) (by omega : step ≠ 0)
  have hm1 := Int.emod_lt_of_pos (estop - reqStart) hs
  have hdm := Int.emod_add_mul_ediv (estop - reqStart) step
  have hnext : next = reqStart + step * ((estop - reqStart) / step) := by
    simp only [next, htm]; omega
  refine ⟨?_, by simp only [next, htm]; omega, ?_⟩
  · rw [hnext, Int.add_emod, hra]; simp
  · -- start - reqStart = step * k with step * k ≤ estop - reqStart, so k ≤ (estop - reqStart) / step
    have hk : (start - reqStart) % step = 0 := by rw [Int.sub_emod, hal, hra]; simp
    obtain ⟨k, hk⟩ := Int.dvd_of_emod_eq_zero hk
    have hkle : k ≤ (estop - reqStart) / step := by
      apply Int.le_ediv_of_mul_le hs
      rw [Int.mul_comm]; omega
    have : step * k ≤ step * ((estop - reqStart) / step) := Int.mul_le_mul_of_nonneg_left hkle (by omega)
    omega

theorem partitionLoop_spec_m (D : Down) (req : Req) (hreq : Aligned req) (s' : Int) (hs' : 0 < s') (hdvd : req.step % s' = 0) :
    ∀ (exts : List Extent), (∀ e ∈ exts, GoodExtent D s' e) →
    ∀ (start : Int) (rs : List Req) (ps : List Piece), PInvM D req start rs ps →
      ∃ start' rs' ps', partitionLoop ⟨true, true⟩ req true exts start rs (ps.map (·.m)) = (start', rs', ps'.map (·.m)) ∧
        PInvM D req start' rs' ps'
  | [], _, start, rs, ps, hinv => ⟨start, rs, ps, rfl, hinv⟩
  | e :: es, hgood, start, rs, ps, hinv => by
    have hes : ∀ e' ∈ es, GoodExtent D s' e' := fun e' he' => hgood e' (List.mem_cons_of_mem _ he')
    obtain ⟨he0, hea, heb, hex⟩ := hgood e (by simp)
    obtain ⟨hstep, hr0, hrle, hra, hrb⟩ := hreq
    unfold partitionLoop
    by_cases h1 : e.stop < start ∨ e.start > req.stop
    · rw [if_pos h1]
      exact partitionLoop_spec_m D req ⟨hstep, hr0, hrle, hra, hrb⟩ s' hs' hdvd es hes start rs ps hinv
    · rw [if_neg h1]
      by_cases h2 : req.start ≠ req.stop ∧ req.stop - req.start > minCacheExtent ∧ e.stop - e.start < minCacheExtent
      · rw [if_pos h2]
        exact partitionLoop_spec_m D req ⟨hstep, hr0, hrle, hra, hrb⟩ s' hs' hdvd es hes start rs ps hinv
      · rw [if_neg h2]
        have ho1 : start ≤ e.stop := by omega
        have ho2 : e.start ≤ req.stop := by omega
        obtain ⟨hn1, hn2, hn3⟩ := gridFloor hstep hra hinv.lo hinv.al ho1
        let next := e.stop - (e.stop - req.start).tmod req.step
        let rs1 : List Req := if start < e.start then rs ++ [⟨start, e.start, req.step⟩] else rs
        let piece : Piece := ⟨max e.start start, min e.stop req.stop, extract start req.stop req.step e.resp⟩
        have hpm : (ps ++ [piece]).map (·.m) = ps.map (·.m) ++ [extract start req.stop req.step e.resp] := by simp [piece]
        have hinv' : PInvM D req next rs1 (ps ++ [piece]) := by
          have hpex : Exact D req.step (max e.start start) (min e.stop req.stop) (extract start req.stop req.step e.resp) :=
            extract_exact_step hex hs' hstep hdvd start req.stop hinv.al
          refine ⟨?_, ?_, by have := hinv.lo; omega, hn1, ?_, by simp⟩
          · intro p hp
            rcases List.mem_append.mp hp with hp | hp
            · exact hinv.pieces p hp
            · simp at hp; subst hp
              have := hinv.lo
              exact ⟨by simp [piece]; omega, hpex, by simp [piece]; omega, by simp [piece]; omega⟩
          · intro r hr
            by_cases hlt : start < e.start
            · simp only [rs1, hlt, if_true] at hr
              rcases List.mem_append.mp hr with hr | hr
              · exact hinv.reqs r hr
              · simp at hr; subst hr
                exact ⟨rfl, hinv.lo, hinv.al, ho2⟩
            · simp only [rs1, hlt, if_false] at hr
              exact hinv.reqs r hr
          · intro t ht1 ht2 ht3 hcase
            by_cases hts : t < start ∨ (t = start ∧ ps ≠ [])
            · refine (hinv.cov t ht1 ht2 ht3 hts).mono (fun p hp => List.mem_append_left _ hp) ?_
              intro r hr
              by_cases hlt : start < e.start
              · simp only [rs1, hlt, if_true]; exact List.mem_append_left _ hr
              · simp only [rs1, hlt, if_false]; exact hr
            · have hge : start ≤ t := by omega
              have hte : t ≤ e.stop := by
                rcases hcase with h | h
                · exact Int.le_trans (Int.le_of_lt h) hn2
                · rw [h.1]; exact hn2
              by_cases hin : e.start ≤ t
              · exact Or.inl ⟨piece, by simp, by simp [piece]; omega, by simp [piece]; omega⟩
              · have hlt : start < e.start := by omega
                refine Or.inr ⟨⟨start, e.start, req.step⟩, ?_, hge, by simp; omega⟩
                simp only [rs1, hlt, if_true]
                simp
        obtain ⟨start', rs', ps', heq, hfin⟩ := partitionLoop_spec_m D req ⟨hstep, hr0, hrle, hra, hrb⟩ s' hs' hdvd es hes next rs1 (ps ++ [piece]) hinv'
        refine ⟨start', rs', ps', ?_, hfin⟩
        rw [← heq, hpm]
        have hgs : req.step > 0 := hstep
        simp only [hgs, and_self, if_true]
        rfl

theorem partition_spec_m (D : Down) (hD : D.Sorted) (req : Req) (hreq : Aligned req) (s' : Int) (hs' : 0 < s')
    (hdvd : req.step % s' = 0) (exts : List Extent) (hgood : ∀ e ∈ exts, GoodExtent D s' e) :
    ∃ rs ps, partition ⟨true, true⟩ req true exts = (rs, ps.map (·.m)) ∧
      (∀ p ∈ ps ++ fetchedPieces D rs, 0 ≤ p.a ∧ Exact D req.step p.a p.b p.m) ∧
      (∀ p ∈ ps ++ fetchedPieces D rs, req.start ≤ p.a ∧ p.b ≤ req.stop) ∧
      (∀ t, req.start ≤ t → t ≤ req.stop → t % req.step = 0 → ∃ p ∈ ps ++ fetchedPieces D rs, p.a ≤ t ∧ t ≤ p.b) := by
  have hreq' := hreq
  obtain ⟨hstep, hr0, hrle, hra, hrb⟩ := hreq
  have hinit : PInvM D req req.start [] [] :=
    ⟨by intro p hp; simp at hp, by intro r hr; simp at hr, Int.le_refl _, hra,
     by intro t _ _ _ h; rcases h with h | h; omega; exact absurd rfl h.2, fun _ => ⟨rfl, rfl⟩⟩
  obtain ⟨start', rs', ps', heq, hinv⟩ := partitionLoop_spec_m D req hreq' s' hs' hdvd exts hgood req.start [] [] hinit
  simp only [List.map_nil] at heq
  let rs1 : List Req := if start' < req.stop then rs' ++ [⟨start', req.stop, req.step⟩] else rs'
  let rs2 : List Req := if req.start = req.stop ∧ (ps'.map (·.m)).isEmpty then rs1 ++ [req] else rs1
  have hpart : partition ⟨true, true⟩ req true exts = (rs2, ps'.map (·.m)) := by
    unfold partition
    rw [heq]
  have hrs2 : ∀ r ∈ rs2, r.step = req.step ∧ 0 ≤ r.start ∧ r.start % req.step = 0 ∧ req.start ≤ r.start ∧ r.stop ≤ req.stop := by
    intro r hr
    have hrs1 : ∀ r ∈ rs1, r.step = req.step ∧ 0 ≤ r.start ∧ r.start % req.step = 0 ∧ req.start ≤ r.start ∧ r.stop ≤ req.stop := by
      intro r hr
      have hold : ∀ r ∈ rs', r.step = req.step ∧ 0 ≤ r.start ∧ r.start % req.step = 0 ∧ req.start ≤ r.start ∧ r.stop ≤ req.stop := by
        intro r hr
        obtain ⟨a1, a2, a3, a4⟩ := hinv.reqs r hr
        exact ⟨a1, by omega, a3, a2, a4⟩
      by_cases hlt : start' < req.stop
      · simp only [rs1, hlt, if_true] at hr
        rcases List.mem_append.mp hr with hr | hr
        · exact hold r hr
        · simp at hr; subst hr
          have := hinv.lo
          exact ⟨rfl, by simp; omega, hinv.al, hinv.lo, Int.le_refl _⟩
      · simp only [rs1, hlt, if_false] at hr
        exact hold r hr
    by_cases hsp : req.start = req.stop ∧ (ps'.map (·.m)).isEmpty
    · simp only [rs2, hsp, and_self, if_true] at hr
      rcases List.mem_append.mp hr with hr | hr
      · exact hrs1 r hr
      · simp at hr; subst hr
        exact ⟨rfl, hr0, hra, Int.le_refl _, Int.le_refl _⟩
    · simp only [rs2, hsp, if_false] at hr
      exact hrs1 r hr
  refine ⟨rs2, ps', hpart, ?_, ?_, ?_⟩
  · intro p hp
    rcases List.mem_append.mp hp with hp | hp
    · exact ⟨(hinv.pieces p hp).1, (hinv.pieces p hp).2.1⟩
    · simp only [fetchedPieces, List.mem_map] at hp
      obtain ⟨r, hr, rfl⟩ := hp
      obtain ⟨a1, a2, a3, _, _⟩ := hrs2 r hr
      simp only
      rw [a1]
      exact ⟨a2, evalD_exact D hD req.step r.start r.stop hstep a3⟩
  · intro p hp
    rcases List.mem_append.mp hp with hp | hp
    · exact (hinv.pieces p hp).2.2
    · simp only [fetchedPieces, List.mem_map] at hp
      obtain ⟨r, hr, rfl⟩ := hp
      obtain ⟨_, _, _, a4, a5⟩ := hrs2 r hr
      exact ⟨a4, a5⟩
  · intro t ht1 ht2 ht3
    have hcov : Covered ps' rs2 t := by
      by_cases hts : t < start' ∨ (t = start' ∧ ps' ≠ [])
      · refine (hinv.cov t ht1 ht2 ht3 hts).mono (fun p hp => hp) ?_
        intro r hr
        have h1 : r ∈ rs1 := by
          by_cases hlt : start' < req.stop
          · simp only [rs1, hlt, if_true]; exact List.mem_append_left _ hr
          · simp only [rs1, hlt, if_false]; exact hr
        by_cases hsp : req.start = req.stop ∧ (ps'.map (·.m)).isEmpty
        · simp only [rs2, hsp, and_self, if_true]; exact List.mem_append_left _ h1
        · simp only [rs2, hsp, if_false]; exact h1
      · have hge : start' ≤ t := by omega
        by_cases hlt : start' < req.stop
        · refine Or.inr ⟨⟨start', req.stop, req.step⟩, ?_, hge, ht2⟩
          have h1 : (⟨start', req.stop, req.step⟩ : Req) ∈ rs1 := by
            simp only [rs1, hlt, if_true]; simp
          by_cases hsp : req.start = req.stop ∧ (ps'.map (·.m)).isEmpty
          · simp only [rs2, hsp, and_self, if_true]; exact List.mem_append_left _ h1
          · simp only [rs2, hsp, if_false]; exact h1
        · have hteq : t = start' := by omega
          have hps : ps' = [] := by
            by_cases hp : ps' = []
            · exact hp
            · exact absurd (Or.inr ⟨hteq, hp⟩) hts
          have hfr := hinv.fresh hps
          have hsp : req.start = req.stop ∧ (ps'.map (·.m)).isEmpty := by
            subst hps; refine ⟨by omega, rfl⟩
          refine Or.inr ⟨req, ?_, by omega, ht2⟩
          simp only [rs2, hsp, and_self, if_true]; simp
    rcases hcov with ⟨p, hp, h⟩ | ⟨r, hr, h⟩
    · exact ⟨p, List.mem_append_left _ hp, h⟩
    · exact ⟨⟨r.start, r.stop, evalD D r.start r.stop r.step⟩, List.mem_append_right _ (List.mem_map.mpr ⟨r, hr, rfl⟩), h⟩

/-- **lower-step reuse answers exactly** (after the grid repair): a request answered from extents
    cached under a smaller common step that divides its step gets the direct answer -/
theorem handleHit_resp_m (env : Env) (D : Down) (hD : D.Sorted) (req : Req) (hreq : Aligned req) (s' : Int) (hs' : 0 < s')
    (hdvd : req.step % s' = 0) (exts : List Extent) (hgood : ∀ e ∈ exts, GoodExtent D s' e) :
    (handleHit ⟨true, true⟩ env D req exts true).1 = evalD D req.start req.stop req.step := by
  obtain ⟨rs, ps, hpart, hex, hin, hcov⟩ := partition_spec_m D hD req hreq s' hs' hdvd exts hgood
  have hmerge := merge_exact hex hin hcov
  have hdirect := evalD_exact D hD req.step req.start req.stop hreq.1 hreq.2.2.2.1
  have hmap : (ps ++ fetchedPieces D rs).map (·.m) = ps.map (·.m) ++ rs.map (fun r => evalD D r.start r.stop r.step) := by
    simp [fetchedPieces, List.map_map, Function.comp_def]
  rw [hmap] at hmerge
  unfold handleHit
  rw [hpart]
  simp only
  by_cases hemp : rs.isEmpty = true
  · have : rs = [] := by simpa using hemp
    subst this
    simp only [List.isEmpty_nil, if_true]
    simp only [List.map_nil, List.append_nil] at hmerge
    exact hmerge.unique hdirect
  · simp only [hemp, Bool.false_eq_true, if_false]
    simp only [List.map_map, Function.comp_def]
    exact hmerge.unique hdirect

section
open Thanos.Split


/-- a cache with keys of any (positive) steps: every extent is good for its key's step -/
def GoodCacheM (D : Down) (c : Cache) : Prop :=
  ∀ kv ∈ c, 0 < kv.1.step ∧ ∀ e ∈ kv.2, GoodExtent D kv.1.step e

theorem goodCacheM_put {D : Down} {c : Cache} (hc : GoodCacheM D c) {k : Key} (hk : 0 < k.step)
    {v : List Extent} (hv : ∀ e ∈ v, GoodExtent D k.step e) : GoodCacheM D (cachePut c k v) := by
  intro kv hkv
  rcases mem_cachePut hkv with h | h
  · exact hc kv h
  · subst h; exact ⟨hk, hv⟩

theorem commonSteps_pos : ∀ s ∈ commonQuerySteps, 0 < s := by decide

theorem lowerSteps_spec {step s : Int} (h : s ∈ lowerSteps step) : 0 < s ∧ s < step ∧ step % s = 0 := by
  unfold lowerSteps at h
  split at h
  · obtain ⟨hm, hp⟩ := List.mem_filter.mp h
    have hpos := commonSteps_pos s hm
    simp at hp
    have : step.tmod s = step % s := Int.tmod_eq_emod_of_nonneg (by omega)
    exact ⟨hpos, by omega, by omega⟩
  · simp at h

/-- **C42_step for one (sub-)request, any cache, any environment**: fresh-zone bypass, primary hit,
    lower-step reuse, or miss; with or without write-back -/
theorem doReq_spec_m (env : Env) (D : Down) (hD : D.Sorted) (splitMs : Int) (c : Cache) (req : Req) (hreq : Aligned req)
    (hc : GoodCacheM D c) :
    (doReq ⟨true, true⟩ env D splitMs c req).1 = evalD D req.start req.stop req.step ∧
    GoodCacheM D (doReq ⟨true, true⟩ env D splitMs c req).2 := by
  unfold doReq
  by_cases hfresh : req.start > env.mct
  · simp only [hfresh, if_true]; exact ⟨trivial, hc⟩
  simp only [hfresh, if_false]
  cases hget : cacheGet c ⟨req.step, splitMs, req.start.tdiv splitMs⟩ with
  | some exts =>
    have hgood : ∀ e ∈ exts, GoodExtent D req.step e := (hc _ (cacheGet_mem hget)).2
    have hresp := handleHit_resp true env D hD req hreq exts hgood
    have hext := handleHit_extents true env D hD req hreq exts hgood
    simp only
    cases hh : handleHit ⟨true, true⟩ env D req exts false with
    | mk resp oex =>
      rw [hh] at hresp hext
      simp only at hresp hext
      cases oex with
      | none => exact ⟨hresp, hc⟩
      | some ex => exact ⟨hresp, goodCacheM_put hc hreq.1 (filterRecent_good env D req.step hreq.1 ex (hext ex rfl))⟩
  | none =>
    simp only
    cases halt : ((lowerSteps req.step).filter fun s => req.start.tmod s = 0).findSome?
        (fun s => cacheGet c ⟨s, splitMs, req.start.tdiv splitMs⟩) with
    | some exts =>
      simp only
      obtain ⟨s, hs, hget'⟩ := List.exists_of_findSome?_eq_some halt
      obtain ⟨hs1, hs2, hs3⟩ := lowerSteps_spec (List.mem_filter.mp hs).1
      have hgood : ∀ e ∈ exts, GoodExtent D s e := (hc _ (cacheGet_mem hget')).2
      exact ⟨handleHit_resp_m env D hD req hreq s hs1 hs3 exts hgood, hc⟩
    | none =>
      simp only
      by_cases hns : env.noStore req = true
      · simp only [hns, if_true]; exact ⟨trivial, hc⟩
      · simp only [hns, Bool.false_eq_true, if_false]
        refine ⟨trivial, goodCacheM_put hc hreq.1 (filterRecent_good env D req.step hreq.1 _ ?_)⟩
        intro e he
        simp at he; subst he
        obtain ⟨h1, h2, _, h4, h5⟩ := hreq
        exact ⟨h2, h4, h5, evalD_exact D hD req.step req.start req.stop h1 h4⟩

theorem foldParts_spec_m (env : Env) (D : Down) (hD : D.Sorted) (splitMs step : Int) :
    ∀ (parts : List (Int × Int)) (resps : List Matrix) (c : Cache), GoodCacheM D c →
      (∀ p ∈ parts, Aligned ⟨p.1, p.2, step⟩) →
      (foldParts ⟨true, true⟩ env D splitMs step parts (resps, c)).1 = resps ++ parts.map (fun p => evalD D p.1 p.2 step) ∧
      GoodCacheM D (foldParts ⟨true, true⟩ env D splitMs step parts (resps, c)).2
  | [], resps, c, hc, _ => by simp [foldParts, hc]
  | p :: parts, resps, c, hc, hal => by
    have hp := hal p (by simp)
    obtain ⟨h1, h2⟩ := doReq_spec_m env D hD splitMs c ⟨p.1, p.2, step⟩ hp hc
    simp only at h1 h2
    have ih := foldParts_spec_m env D hD splitMs step parts (resps ++ [(doReq ⟨true, true⟩ env D splitMs c ⟨p.1, p.2, step⟩).1])
      (doReq ⟨true, true⟩ env D splitMs c ⟨p.1, p.2, step⟩).2 h2 (fun q hq => hal q (List.mem_cons_of_mem _ hq))
    unfold foldParts at ih ⊢
    simp only [List.foldl_cons]
    constructor
    · rw [ih.1, h1]; simp
    · exact ih.2

theorem frontend_spec_m (env : Env) (D : Down) (hD : D.Sorted) (splitMs : Int) (hsp : 0 < splitMs) (c : Cache) (req : Req)
    (hstep : 0 < req.step) (h0 : 0 ≤ req.start) (hle : req.start ≤ req.stop) (hc : GoodCacheM D c) :
    ∃ c', frontend ⟨true, true⟩ env D true splitMs c req =
        some (evalD D (req.start / req.step * req.step) (req.stop / req.step * req.step) req.step, c') ∧
      GoodCacheM D c' := by
  have hne : req.step ≠ 0 := by omega
  have hs1 : req.start.tdiv req.step = req.start / req.step := Int.tdiv_eq_ediv_of_nonneg h0
  have hs2 : req.stop.tdiv req.step = req.stop / req.step := Int.tdiv_eq_ediv_of_nonneg (by omega)
  rw [frontend_eq _ _ _ _ _ _ hne, hs1, hs2]
  generalize hS : req.start / req.step * req.step = s
  generalize hE : req.stop / req.step * req.step = e
  have hsm : s % req.step = 0 := by rw [← hS]; simp
  have hem : e % req.step = 0 := by rw [← hE]; simp
  have hs0 : 0 ≤ s := by
    rw [← hS]; exact Int.mul_nonneg (Int.ediv_nonneg h0 (by omega)) (by omega)
  have hse : s ≤ e := by
    rw [← hS, ← hE]
    exact Int.mul_le_mul_of_nonneg_right (Int.ediv_le_ediv hstep hle) (by omega)
  obtain ⟨parts, hsplit, hgrid, hsub⟩ := split_spec s e req.step splitMs hstep hsp
  rw [hsplit]
  simp only
  have hal : ∀ p ∈ parts, Aligned ⟨p.1, p.2, req.step⟩ := by
    intro p hp
    obtain ⟨a1, a2, a3, a4, a5⟩ := hsub p hp
    have hp1 : p.1 % req.step = 0 := by
      have : p.1 = (p.1 - s) + s := by omega
      rw [this, Int.add_emod, Int.emod_eq_zero_of_dvd a1, hsm]; simp
    have hp2 : p.2 % req.step = 0 := by
      rcases a5 with a5 | a5
      · have : p.2 = (p.2 - p.1) + p.1 := by omega
        rw [this, Int.add_emod, Int.emod_eq_zero_of_dvd a5, hp1]; simp
      · rw [a5]; exact hem
    exact ⟨hstep, by simp; omega, a3, hp1, hp2⟩
  obtain ⟨hresp, hcache⟩ := foldParts_spec_m env D hD splitMs req.step parts [] c hc hal
  refine ⟨(foldParts ⟨true, true⟩ env D splitMs req.step parts ([], c)).2, ?_, hcache⟩
  congr 2
  rw [hresp, List.nil_append]
  let ps : List Piece := parts.map fun p => ⟨p.1, p.2, evalD D p.1 p.2 req.step⟩
  have hmap : parts.map (fun p => evalD D p.1 p.2 req.step) = ps.map (·.m) := by
    simp [ps, List.map_map, Function.comp_def]
  rw [hmap]
  have hex : Exact D req.step s e (mergeResponse true (ps.map (·.m))) := by
    apply merge_exact
    · intro p hp
      simp only [ps, List.mem_map] at hp
      obtain ⟨q, hq, rfl⟩ := hp
      have := hal q hq
      exact ⟨this.2.1, evalD_exact D hD req.step q.1 q.2 hstep this.2.2.2.1⟩
    · intro p hp
      simp only [ps, List.mem_map] at hp
      obtain ⟨q, hq, rfl⟩ := hp
      obtain ⟨_, a2, _, a4, _⟩ := hsub q hq
      exact ⟨a2, a4⟩
    · intro t ht1 ht2 ht3
      have hmem : t ∈ grid s e req.step := (mem_grid hstep).mpr ⟨ht1, ht2, by rw [Int.sub_emod, ht3, hsm]; simp⟩
      rw [← hgrid] at hmem
      obtain ⟨q, hq, htq⟩ := List.mem_flatMap.mp hmem
      have := (mem_grid hstep).mp htq
      exact ⟨⟨q.1, q.2, evalD D q.1 q.2 req.step⟩, List.mem_map.mpr ⟨q, hq, rfl⟩, this.1, this.2.1⟩
  exact hex.unique (evalD_exact D hD req.step s e hstep hsm)

theorem goodCacheM_nil (D : Down) : GoodCacheM D [] := by intro kv hkv; simp at hkv

/-- **the history invariant**: whatever the environments of the moment (freshness cut-offs,
    uncacheable responses) and whenever the cache loses its entries -/
theorem historyE_spec (D : Down) (hD : D.Sorted) (splitMs : Int) (hsp : 0 < splitMs) :
    ∀ (steps : List Step) (c : Cache), GoodCacheM D c →
      (∀ s ∈ steps, 0 < s.req.step ∧ 0 ≤ s.req.start ∧ s.req.start ≤ s.req.stop) →
      historyE ⟨true, true⟩ D true splitMs c steps =
        steps.map fun s => some (evalD D (s.req.start / s.req.step * s.req.step) (s.req.stop / s.req.step * s.req.step) s.req.step)
  | [], _, _, _ => rfl
  | s :: rs, c, hc, hr => by
    obtain ⟨h1, h2, h3⟩ := hr s (by simp)
    have hc0 : GoodCacheM D (evict s.lose c) := fun kv hkv => hc kv (List.mem_filter.mp hkv).1
    obtain ⟨c', hf, hc'⟩ := frontend_spec_m s.env D hD splitMs hsp _ s.req h1 h2 h3 hc0
    unfold historyE
    simp only
    rw [hf]
    simp only [List.map_cons]
    rw [historyE_spec D hD splitMs hsp rs c' hc' (fun r' hr' => hr r' (List.mem_cons_of_mem _ hr'))]

theorem history_spec_m (D : Down) (hD : D.Sorted) (splitMs : Int) (hsp : 0 < splitMs) (reqs : List Req) (c : Cache)
    (hc : GoodCacheM D c) (hr : ∀ r ∈ reqs, 0 < r.step ∧ 0 ≤ r.start ∧ r.start ≤ r.stop) :
    history ⟨true, true⟩ D true splitMs c reqs =
      reqs.map fun r => some (evalD D (r.start / r.step * r.step) (r.stop / r.step * r.step) r.step) := by
  unfold history
  rw [historyE_spec D hD splitMs hsp _ c hc (by
    intro s hs
    obtain ⟨r, hr', rfl⟩ := List.mem_map.mp hs
    exact hr r hr')]
  simp [List.map_map, Function.comp_def]

end

end Thanos.ResultsCache
