import Thanos.Model.Hashring
import Thanos.Lemmas.Hashring
/-
  When does the replica loop get stuck?  Exactly when `rf` exceeds the capacity of the zone
  layout: `Σ_z min(size_z, m+1)` with `m` the smallest zone (≥ 2 zones), the number of
  endpoints (≤ 1 zone).  Used by C19 (the error is reported iff the zones cannot be balanced),
  C18 (balance "whenever the zones can accommodate that") and C21 (sub-rings).
-/
namespace Thanos.Hashring

/-! ### zones of a ring -/

/-- every endpoint lives in one zone -/
def AzConsistent (ring : List Sec) : Prop :=
  ∀ s ∈ ring, ∀ t ∈ ring, s.ep = t.ep → s.az = t.az

/-- the endpoints of zone `z` -/
def zoneEps (ring : List Sec) (z : Nat) : List Nat :=
  dedup ((ring.filter (fun s => s.az == z)).map (·.ep))

/-- the number of endpoints of zone `z` -/
def zsize (ring : List Sec) (z : Nat) : Nat := (zoneEps ring z).length

theorem mem_zoneEps {ring : List Sec} {z e : Nat} : e ∈ zoneEps ring z ↔ ∃ s ∈ ring, s.az = z ∧ s.ep = e := by
  simp only [zoneEps, mem_dedup, List.mem_map, List.mem_filter, beq_iff_eq]
  constructor
  · rintro ⟨s, ⟨hs, hz⟩, he⟩; exact ⟨s, hs, hz, he⟩
  · rintro ⟨s, hs, hz, he⟩; exact ⟨s, ⟨hs, hz⟩, he⟩

theorem cnt_eq_length_filter (z : Nat) (chosen : List Sec) :
    cnt z chosen = (chosen.filter (fun s => s.az == z)).length := by
  simp [cnt, List.countP_eq_length_filter]

/-- chosen sections of the ring with pairwise different endpoints: no zone holds more of them
    than it has endpoints -/
theorem cnt_le_zsize {ring chosen : List Sec} (z : Nat) (hsub : ∀ s ∈ chosen, s ∈ ring)
    (hn : (chosen.map (·.ep)).Nodup) : cnt z chosen ≤ zsize ring z := by
  rw [cnt_eq_length_filter, zsize]
  have h1 : ((chosen.filter (fun s => s.az == z)).map (·.ep)).Nodup :=
    hn.sublist ((List.filter_sublist).map _)
  have h2 : ∀ e ∈ (chosen.filter (fun s => s.az == z)).map (·.ep), e ∈ zoneEps ring z := by
    intro e he
    simp only [List.mem_map, List.mem_filter, beq_iff_eq] at he
    obtain ⟨s, ⟨hs, hz⟩, rfl⟩ := he
    exact mem_zoneEps.mpr ⟨s, hsub s hs, hz, rfl⟩
  have := List.Nodup.length_le_of_subset h1 h2
  simpa using this

/-- a zone that is not full has a section whose endpoint is not taken -/
theorem exists_free {ring chosen : List Sec} (z : Nat) (hcons : AzConsistent ring)
    (hsub : ∀ s ∈ chosen, s ∈ ring) (hlt : cnt z chosen < zsize ring z) :
    ∃ s ∈ ring, s.az = z ∧ taken chosen s.ep = false := by
  refine Classical.byContradiction fun hno => ?_
  have hall : ∀ s ∈ ring, s.az = z → taken chosen s.ep = true := by
    intro s hs hz
    cases h : taken chosen s.ep with
    | true => rfl
    | false => exact absurd ⟨s, hs, hz, h⟩ hno
  have hsubset : ∀ e ∈ zoneEps ring z, e ∈ (chosen.filter (fun s => s.az == z)).map (·.ep) := by
    intro e he
    obtain ⟨s, hs, hz, rfl⟩ := mem_zoneEps.mp he
    have ht := hall s hs hz
    simp only [taken, List.any_eq_true, beq_iff_eq] at ht
    obtain ⟨c, hc, hce⟩ := ht
    have hcz : c.az = z := by rw [hcons c (hsub c hc) s hs hce]; exact hz
    simp only [List.mem_map, List.mem_filter, beq_iff_eq]
    exact ⟨c, ⟨hc, hcz⟩, hce⟩
  have := List.Nodup.length_le_of_subset (nodup_dedup _) hsubset
  rw [cnt_eq_length_filter, zsize] at hlt
  simp only [List.length_map] at this
  simp only [zoneEps] at hlt
  omega

/-! ### sums over the zones -/

theorem sum_map_add_indicator (f : Nat → Nat) (a : Nat) : ∀ (zones : List Nat), zones.Nodup → a ∈ zones →
    (zones.map fun z => f z + (if a = z then 1 else 0)).sum = (zones.map f).sum + 1
  | [], _, h => by simp at h
  | z :: zs, hn, h => by
    rw [List.nodup_cons] at hn
    simp only [List.map_cons, List.sum_cons]
    by_cases haz : a = z
    · subst haz
      have : (zs.map fun z => f z + (if a = z then 1 else 0)) = zs.map f := by
        apply List.map_congr_left
        intro x hx
        have : a ≠ x := fun h => hn.1 (h ▸ hx)
        simp [this]
      rw [this]; simp; omega
    · have hmem : a ∈ zs := by
        simp only [List.mem_cons] at h
        rcases h with h | h
        · exact absurd h haz
        · exact h
      rw [sum_map_add_indicator f a zs hn.2 hmem]
      simp [haz]; omega

/-- the chosen sections are counted once each by the per-zone counters -/
theorem length_eq_sum_cnt (zones : List Nat) (hn : zones.Nodup) : ∀ (chosen : List Sec),
    (∀ s ∈ chosen, s.az ∈ zones) → chosen.length = (zones.map fun z => cnt z chosen).sum := by
  intro chosen
  induction chosen with
  | nil =>
    intro _
    have : (zones.map fun z => cnt z []) = zones.map fun _ => 0 := by
      apply List.map_congr_left; intro z _; simp [cnt]
    rw [this]
    clear this hn
    induction zones with
    | nil => simp
    | cons a l ih => simpa using ih
  | cons s chosen ih =>
    intro h
    have h' : ∀ t ∈ chosen, t.az ∈ zones := fun t ht => h t (by simp [ht])
    have hs : s.az ∈ zones := h s (by simp)
    have : (zones.map fun z => cnt z (s :: chosen)) = zones.map fun z => cnt z chosen + (if s.az = z then 1 else 0) := by
      apply List.map_congr_left
      intro z _
      simp only [cnt, List.countP_cons, beq_iff_eq]
    rw [this, sum_map_add_indicator _ _ zones hn hs, ← ih h']
    simp

theorem sum_le_sum_of_le (f g : Nat → Nat) : ∀ (l : List Nat), (∀ z ∈ l, f z ≤ g z) → (l.map f).sum ≤ (l.map g).sum
  | [], _ => by simp
  | a :: l, h => by
    have := sum_le_sum_of_le f g l (fun z hz => h z (by simp [hz]))
    have := h a (by simp)
    simp only [List.map_cons, List.sum_cons]
    omega

theorem sum_eq_sum_of_eq (f g : Nat → Nat) (l : List Nat) (h : ∀ z ∈ l, f z = g z) : (l.map f).sum = (l.map g).sum := by
  rw [List.map_congr_left h]

/-! ### `listMin` and `least` -/

theorem listMin_le : ∀ {l : List Nat} {a : Nat}, a ∈ l → listMin l ≤ a
  | [], _, h => by simp at h
  | [b], a, h => by simp at h; simp [listMin, h]
  | b :: c :: l, a, h => by
    simp only [listMin]
    simp only [List.mem_cons] at h
    rcases h with rfl | h
    · omega
    · have := listMin_le (l := c :: l) (a := a) (by simpa using h)
      omega

theorem listMin_mem : ∀ {l : List Nat}, l ≠ [] → listMin l ∈ l
  | [], h => absurd rfl h
  | [b], _ => by simp [listMin]
  | b :: c :: l, _ => by
    simp only [listMin]
    have := listMin_mem (l := c :: l) (by simp)
    by_cases hb : b ≤ listMin (c :: l)
    · rw [Nat.min_eq_left hb]; simp
    · rw [Nat.min_eq_right (by omega)]; exact List.mem_cons_of_mem _ this

/-- the least occupied zone exists (all counters are far below MaxInt64) -/
theorem least_attained (chosen : List Sec) (hb : chosen.length < 2 ^ 63 - 1) : ∀ {zones : List Nat}, zones ≠ [] →
    ∃ z ∈ zones, cnt z chosen = least chosen zones
  | [], h => absurd rfl h
  | [z], _ => by
    refine ⟨z, by simp, ?_⟩
    have : cnt z chosen ≤ chosen.length := by simp only [cnt]; exact List.countP_le_length
    simp only [least]
    omega
  | z :: y :: zs, _ => by
    obtain ⟨w, hw, he⟩ := least_attained chosen hb (zones := y :: zs) (by simp)
    simp only [least] at he ⊢
    by_cases hz : cnt z chosen ≤ min (cnt y chosen) (least chosen zs)
    · exact ⟨z, by simp, by omega⟩
    · exact ⟨w, List.mem_cons_of_mem _ hw, by omega⟩

/-! ### capacity -/

/-- how many replicas zone `z` can take before the loop gets stuck -/
def cap (ring : List Sec) (zones : List Nat) (z : Nat) : Nat :=
  if zones.length ≤ 1 then zsize ring z
  else min (zsize ring z) (listMin (zones.map (zsize ring)) + 1)

/-- the number of replicas the loop can place -/
def capacity (ring : List Sec) (zones : List Nat) : Nat := (zones.map (cap ring zones)).sum

theorem canBalance_iff (ring : List Sec) (zones : List Nat) (rf : Nat) :
    canBalance (zones.map (zsize ring)) rf = true ↔ rf ≤ capacity ring zones := by
  simp only [canBalance, capacity, List.length_map]
  by_cases h : zones.length ≤ 1
  · simp only [h, if_true, decide_eq_true_eq]
    have : zones.map (cap ring zones) = zones.map (zsize ring) := by
      apply List.map_congr_left; intro z _; simp [cap, h]
    rw [this]
  · simp only [h, if_false, decide_eq_true_eq, List.map_map]
    have : zones.map (cap ring zones) =
        zones.map ((fun s => min s (listMin (zones.map (zsize ring)) + 1)) ∘ zsize ring) := by
      apply List.map_congr_left; intro z _; simp [cap, h]
    rw [this]

/-! ### what the loop maintains -/

/-- the state invariant: chosen sections of the ring, different endpoints, at most `rf`, and
    (with several zones) balanced -/
structure Reach (ring : List Sec) (zones : List Nat) (rf : Nat) (chosen : List Sec) : Prop where
  sub : ∀ s ∈ chosen, s ∈ ring
  nodup : (chosen.map (·.ep)).Nodup
  len : chosen.length ≤ rf
  bal : zones.length > 1 → Bal zones chosen

theorem reach_nil (ring : List Sec) (zones : List Nat) (rf : Nat) : Reach ring zones rf [] :=
  ⟨by simp, by simp, by simp, fun _ => bal_nil zones⟩

theorem reach_step {ring : List Sec} {zones : List Nat} {rf : Nat} {chosen : List Sec} {rep : Sec}
    (hr : Reach ring zones rf chosen) (hrep : rep ∈ ring) (ht : taken chosen rep.ep = false)
    (hs : skipAZ zones chosen rep = false) (hlen : chosen.length < rf) : Reach ring zones rf (chosen ++ [rep]) := by
  refine ⟨?_, ?_, by simp; omega, fun hz => bal_step hz (hr.bal hz) hs⟩
  · intro s hs'
    rw [List.mem_append] at hs'
    rcases hs' with h | h
    · exact hr.sub s h
    · simp at h; subst h; exact hrep
  · rw [List.map_append, List.nodup_append]
    refine ⟨hr.nodup, by simp, ?_⟩
    intro a ha b hb
    simp at hb; subst hb
    intro hab; subst hab
    exact (taken_false_iff.mp ht) ha

/-- no state holds more replicas of a zone than its cap -/
theorem cnt_le_cap {ring : List Sec} {zones : List Nat} {rf : Nat} {chosen : List Sec}
    (hr : Reach ring zones rf chosen) (hb : rf < 2 ^ 63 - 1) (z : Nat) (hz : z ∈ zones) :
    cnt z chosen ≤ cap ring zones z := by
  have h1 := cnt_le_zsize (ring := ring) z hr.sub hr.nodup
  unfold cap
  by_cases hl : zones.length ≤ 1
  · simp [hl]; exact h1
  · simp only [hl, if_false]
    have hz1 : zones.length > 1 := by omega
    have hne : zones ≠ [] := by intro h; simp [h] at hz1
    -- the smallest zone bounds the least counter
    have hm : listMin (zones.map (zsize ring)) ∈ zones.map (zsize ring) := listMin_mem (by simpa using hne)
    obtain ⟨zm, hzm, hzme⟩ := List.mem_map.mp hm
    have h2 : least chosen zones ≤ cnt zm chosen := least_le_of_mem chosen hzm
    have h3 := cnt_le_zsize (ring := ring) zm hr.sub hr.nodup
    have h4 := hr.bal hz1 z hz
    have : cnt z chosen ≤ listMin (zones.map (zsize ring)) + 1 := by omega
    omega

/-- … hence no state holds more replicas than the capacity -/
theorem length_le_capacity {ring : List Sec} {zones : List Nat} {rf : Nat} {chosen : List Sec}
    (hr : Reach ring zones rf chosen) (hb : rf < 2 ^ 63 - 1) (hn : zones.Nodup)
    (hcover : ∀ s ∈ ring, s.az ∈ zones) : chosen.length ≤ capacity ring zones := by
  rw [length_eq_sum_cnt zones hn chosen (fun s hs => hcover s (hr.sub s hs))]
  exact sum_le_sum_of_le _ _ zones (fun z hz => cnt_le_cap hr hb z hz)

/-- a stuck state is filled to capacity -/
theorem stuck_full {ring : List Sec} {zones : List Nat} {rf : Nat} {chosen : List Sec}
    (hr : Reach ring zones rf chosen) (hb : rf < 2 ^ 63 - 1) (hn : zones.Nodup)
    (hcover : ∀ s ∈ ring, s.az ∈ zones) (hcons : AzConsistent ring) (hne : zones ≠ [])
    (hst : Stuck ring zones chosen) : chosen.length = capacity ring zones := by
  rw [length_eq_sum_cnt zones hn chosen (fun s hs => hcover s (hr.sub s hs))]
  apply sum_eq_sum_of_eq
  intro z hz
  have hle := cnt_le_cap hr hb z hz
  -- a zone below its number of endpoints has a free section; being stuck, the zone rule refuses it
  have hfull_or : cnt z chosen = zsize ring z ∨
      (zones.length > 1 ∧ cnt z chosen > least chosen zones) := by
    by_cases hlt : cnt z chosen < zsize ring z
    · right
      obtain ⟨s, hs, hsz, hst'⟩ := exists_free z hcons hr.sub hlt
      rcases hst s hs with h | h
      · rw [hst'] at h; cases h
      · simp only [skipAZ, Bool.and_eq_true, decide_eq_true_eq] at h
        rw [hsz] at h
        exact ⟨h.1.1, h.2⟩
    · left
      have := cnt_le_zsize (ring := ring) z hr.sub hr.nodup
      omega
  unfold cap at hle ⊢
  by_cases hl : zones.length ≤ 1
  · simp only [hl, if_true] at hle ⊢
    rcases hfull_or with h | ⟨h, _⟩
    · exact h
    · omega
  · simp only [hl, if_false] at hle ⊢
    have hz1 : zones.length > 1 := by omega
    have hlen : chosen.length < 2 ^ 63 - 1 := by have := hr.len; omega
    -- the least occupied zone is full, so the least counter is the smallest zone size
    obtain ⟨z0, hz0, hz0e⟩ := least_attained chosen hlen hne
    have hz0full : cnt z0 chosen = zsize ring z0 := by
      by_cases hlt : cnt z0 chosen < zsize ring z0
      · obtain ⟨s, hs, hsz, hst'⟩ := exists_free z0 hcons hr.sub hlt
        rcases hst s hs with h | h
        · rw [hst'] at h; cases h
        · simp only [skipAZ, Bool.and_eq_true, decide_eq_true_eq] at h
          rw [hsz] at h
          omega
      · have := cnt_le_zsize (ring := ring) z0 hr.sub hr.nodup
        omega
    have hmle : listMin (zones.map (zsize ring)) ≤ zsize ring z0 :=
      listMin_le (List.mem_map.mpr ⟨z0, hz0, rfl⟩)
    have hm : listMin (zones.map (zsize ring)) ∈ zones.map (zsize ring) := listMin_mem (by simpa using hne)
    obtain ⟨zm, hzm, hzme⟩ := List.mem_map.mp hm
    have h2 : least chosen zones ≤ cnt zm chosen := least_le_of_mem chosen hzm
    have h3 := cnt_le_zsize (ring := ring) zm hr.sub hr.nodup
    have hL : least chosen zones = listMin (zones.map (zsize ring)) := by omega
    have hbal := hr.bal hz1 z hz
    have hlz : least chosen zones ≤ cnt z chosen := least_le_of_mem chosen hz
    rcases hfull_or with h | ⟨_, h⟩
    · omega
    · omega

/-! ### answers of the loop carry the invariant -/

theorem loop_ok_reach (lc : Bool) (ring : List Sec) (n : Nat) (zones : List Nat) (rf : Nat) :
    ∀ (fuel : Nat) (rest : List Sec) (skipped : Nat) (chosen : List Sec) (reps : List Nat),
      (∀ s ∈ rest, s ∈ ring) → Reach ring zones rf chosen →
      loop lc ring n zones rf fuel rest skipped chosen = .ok reps →
      ∃ final, Reach ring zones rf final ∧ rf ≤ final.length ∧ reps = final.map (·.ep) := by
  intro fuel
  induction fuel with
  | zero => intro rest skipped chosen reps _ _ h; simp [loop] at h
  | succ fuel ih =>
    intro rest skipped chosen reps hsub hr h
    unfold loop at h
    by_cases h1 : rf ≤ chosen.length
    · simp only [h1, if_true] at h
      injection h with h
      exact ⟨chosen, hr, h1, h.symm⟩
    · simp only [h1, if_false] at h
      by_cases h2 : (lc && skipped == n) = true
      · simp [h2] at h
      · simp only [h2] at h
        cases hc : cursor ring rest with
        | none => simp [hc] at h
        | some p =>
          obtain ⟨rep, rest'⟩ := p
          simp only [hc] at h
          obtain ⟨hrep, hsub'⟩ := cursor_mem hsub hc
          by_cases ht : taken chosen rep.ep = true
          · simp only [ht, if_true] at h; exact ih _ _ _ _ hsub' hr h
          · simp only [ht] at h
            by_cases hs : skipAZ zones chosen rep = true
            · simp only [hs, if_true] at h; exact ih _ _ _ _ hsub' hr h
            · simp only [hs] at h
              exact ih _ _ _ _ hsub' (reach_step hr hrep (by simpa using ht) (by simpa using hs) (by omega)) h

/-- the skipped sections since the last progress: the `skipped` sections in front of the cursor
    (cyclically) are all refused in the current state -/
def Window (ring : List Sec) (zones : List Nat) (rest : List Sec) (skipped : Nat) (chosen : List Sec) : Prop :=
  ∃ pre, ring = pre ++ rest ∧
    ∀ s ∈ (pre.reverse ++ rest.reverse).take skipped, taken chosen s.ep = true ∨ skipAZ zones chosen s = true

theorem window_zero {ring : List Sec} {zones : List Nat} {rest : List Sec} {chosen : List Sec}
    (h : ∃ pre, ring = pre ++ rest) : Window ring zones rest 0 chosen := by
  obtain ⟨pre, hp⟩ := h
  exact ⟨pre, hp, by simp⟩

/-- one cursor step keeps the window: the examined (refused) section joins it -/
theorem window_step {ring : List Sec} {zones : List Nat} {rest rest' : List Sec} {rep : Sec} {skipped : Nat}
    {chosen : List Sec} (hw : Window ring zones rest skipped chosen) (hc : cursor ring rest = some (rep, rest'))
    (hlt : skipped < ring.length) (hskip : taken chosen rep.ep = true ∨ skipAZ zones chosen rep = true) :
    Window ring zones rest' (skipped + 1) chosen := by
  obtain ⟨pre, hp, hall⟩ := hw
  cases rest with
  | cons a r =>
    simp only [cursor, Option.some.injEq, Prod.mk.injEq] at hc
    obtain ⟨rfl, rfl⟩ := hc
    refine ⟨pre ++ [a], by simp [hp], ?_⟩
    intro s hs
    simp only [List.reverse_append, List.reverse_cons, List.reverse_nil, List.nil_append,
      List.singleton_append, List.cons_append, List.take_succ_cons, List.mem_cons] at hs
    rcases hs with rfl | hs
    · exact hskip
    · apply hall s
      -- take k (pre.reverse ++ r.reverse) ⊆ take k (pre.reverse ++ (r.reverse ++ [a]))
      have hlen : skipped ≤ (pre.reverse ++ r.reverse).length := by
        have : ring.length = pre.length + (r.length + 1) := by rw [hp]; simp
        simp; omega
      have : (pre.reverse ++ (a :: r).reverse).take skipped = (pre.reverse ++ r.reverse).take skipped := by
        simp only [List.reverse_cons, ← List.append_assoc]
        exact List.take_append_of_le_length hlen
      rw [this]; exact hs
  | nil =>
    cases hr : ring with
    | nil => simp [cursor, hr] at hc
    | cons a r =>
      simp only [cursor, hr, Option.some.injEq, Prod.mk.injEq] at hc
      obtain ⟨rfl, rfl⟩ := hc
      have hpre : pre = a :: r := by simpa [hr] using hp.symm
      refine ⟨[a], by simp, ?_⟩
      intro s hs
      simp only [List.reverse_cons, List.reverse_nil, List.nil_append, List.singleton_append,
        List.take_succ_cons, List.mem_cons] at hs
      rcases hs with rfl | hs
      · exact hskip
      · apply hall s
        have hlen : skipped ≤ r.reverse.length := by
          have : ring.length = r.length + 1 := by rw [hr]; simp
          simp; omega
        have : (pre.reverse ++ ([] : List Sec).reverse).take skipped = r.reverse.take skipped := by
          rw [hpre]
          simp only [List.reverse_cons, List.reverse_nil, List.append_nil]
          exact List.take_append_of_le_length hlen
        rw [this]; exact hs

theorem window_full {ring : List Sec} {zones : List Nat} {rest : List Sec} {chosen : List Sec}
    (hw : Window ring zones rest ring.length chosen) : Stuck ring zones chosen := by
  obtain ⟨pre, hp, hall⟩ := hw
  intro s hs
  apply hall s
  have hlen : (pre.reverse ++ rest.reverse).length = ring.length := by rw [hp]; simp
  rw [← hlen, List.take_length]
  rw [hp] at hs
  simp only [List.mem_append, List.mem_reverse] at hs ⊢
  exact hs

/-- when the repaired loop answers `stuck`, it is in a reachable state in which every section
    of the ring is refused and replicas are still missing -/
theorem loop_stuck_reach (ring : List Sec) (zones : List Nat) (rf : Nat) :
    ∀ (fuel : Nat) (rest : List Sec) (skipped : Nat) (chosen : List Sec),
      (∀ s ∈ rest, s ∈ ring) → Reach ring zones rf chosen → Window ring zones rest skipped chosen →
      skipped ≤ ring.length →
      loop true ring ring.length zones rf fuel rest skipped chosen = .stuck →
      ∃ final, Reach ring zones rf final ∧ final.length < rf ∧ Stuck ring zones final := by
  intro fuel
  induction fuel with
  | zero => intro rest skipped chosen _ _ _ _ h; simp [loop] at h
  | succ fuel ih =>
    intro rest skipped chosen hsub hr hw hsk h
    unfold loop at h
    by_cases h1 : rf ≤ chosen.length
    · simp [h1] at h
    · simp only [h1, if_false] at h
      by_cases h2 : skipped = ring.length
      · subst h2
        exact ⟨chosen, hr, by omega, window_full hw⟩
      · have h2' : (true && skipped == ring.length) = false := by simp [h2]
        simp only [h2', Bool.false_eq_true, if_false] at h
        cases hc : cursor ring rest with
        | none => simp [hc] at h
        | some p =>
          obtain ⟨rep, rest'⟩ := p
          simp only [hc] at h
          obtain ⟨hrep, hsub'⟩ := cursor_mem hsub hc
          have hpre' : ∃ pre, ring = pre ++ rest' := by
            obtain ⟨pre, hp, _⟩ := hw
            cases rest with
            | cons a r =>
              simp only [cursor, Option.some.injEq, Prod.mk.injEq] at hc
              obtain ⟨rfl, rfl⟩ := hc
              exact ⟨pre ++ [a], by simp [hp]⟩
            | nil =>
              cases hr' : ring with
              | nil => simp [cursor, hr'] at hc
              | cons a r =>
                simp only [cursor, hr', Option.some.injEq, Prod.mk.injEq] at hc
                obtain ⟨rfl, rfl⟩ := hc
                exact ⟨[a], by simp⟩
          by_cases ht : taken chosen rep.ep = true
          · simp only [ht, if_true] at h
            exact ih _ _ _ hsub' hr (window_step hw hc (by omega) (Or.inl ht)) (by omega) h
          · simp only [ht] at h
            by_cases hs : skipAZ zones chosen rep = true
            · simp only [hs, if_true] at h
              exact ih _ _ _ hsub' hr (window_step hw hc (by omega) (Or.inr hs)) (by omega) h
            · simp only [hs] at h
              exact ih _ _ _ hsub' (reach_step hr hrep (by simpa using ht) (by simpa using hs) (by omega))
                (window_zero hpre') (by omega) h

/-- Where the repaired loop answers `stuck`, the loop as it was never answers: both make the same
    decisions until the lap check fires, and from that state on every section is refused forever. -/
theorem unrepaired_hangs_of_stuck (ring : List Sec) (zones : List Nat) (rf : Nat) (hne : ring ≠ []) :
    ∀ (fuel : Nat) (rest : List Sec) (skipped : Nat) (chosen : List Sec),
      (∀ s ∈ rest, s ∈ ring) → Window ring zones rest skipped chosen → skipped ≤ ring.length →
      loop true ring ring.length zones rf fuel rest skipped chosen = .stuck →
      ∀ (fuel' skipped' : Nat), loop false ring ring.length zones rf fuel' rest skipped' chosen = .fuelOut := by
  intro fuel
  induction fuel with
  | zero => intro rest skipped chosen _ _ _ h; simp [loop] at h
  | succ fuel ih =>
    intro rest skipped chosen hsub hw hsk h fuel' skipped'
    unfold loop at h
    by_cases h1 : rf ≤ chosen.length
    · simp [h1] at h
    · simp only [h1, if_false] at h
      by_cases h2 : skipped = ring.length
      · subst h2
        exact stuck_forever ring ring.length zones rf chosen hne (window_full hw) (by omega) fuel' rest skipped' hsub
      · have h2' : (true && skipped == ring.length) = false := by simp [h2]
        simp only [h2', Bool.false_eq_true, if_false] at h
        cases fuel' with
        | zero => rfl
        | succ fuel' =>
          unfold loop
          simp only [h1, if_false, Bool.false_and, Bool.false_eq_true]
          cases hc : cursor ring rest with
          | none => simp [hc] at h
          | some p =>
            obtain ⟨rep, rest'⟩ := p
            simp only [hc] at h ⊢
            obtain ⟨hrep, hsub'⟩ := cursor_mem hsub hc
            have hpre' : ∃ pre, ring = pre ++ rest' := by
              obtain ⟨pre, hp, _⟩ := hw
              cases rest with
              | cons a r =>
                simp only [cursor, Option.some.injEq, Prod.mk.injEq] at hc
                obtain ⟨rfl, rfl⟩ := hc
                exact ⟨pre ++ [a], by simp [hp]⟩
              | nil =>
                cases hr' : ring with
                | nil => simp [cursor, hr'] at hc
                | cons a r =>
                  simp only [cursor, hr', Option.some.injEq, Prod.mk.injEq] at hc
                  obtain ⟨rfl, rfl⟩ := hc
                  exact ⟨[a], by simp⟩
            by_cases ht : taken chosen rep.ep = true
            · simp only [ht, if_true] at h ⊢
              exact ih _ _ _ hsub' (window_step hw hc (by omega) (Or.inl ht)) (by omega) h fuel' _
            · simp only [ht] at h ⊢
              by_cases hs : skipAZ zones chosen rep = true
              · simp only [hs, if_true] at h ⊢
                exact ih _ _ _ hsub' (window_step hw hc (by omega) (Or.inr hs)) (by omega) h fuel' _
              · simp only [hs] at h ⊢
                exact ih _ _ _ hsub' (window_zero hpre') (by omega) h fuel' _

/-! ### the ring built from an endpoint list -/

theorem mem_sectionsFrom : ∀ {eps : List Ep} {i : Nat} {s : Sec},
    s ∈ sectionsFrom i eps ↔ ∃ k e, eps[k]? = some e ∧ s.ep = i + k ∧ s.az = e.az ∧ s.hash ∈ e.hashes
  | [], i, s => by simp [sectionsFrom]
  | e :: es, i, s => by
    simp only [sectionsFrom, List.mem_append, List.mem_map]
    rw [mem_sectionsFrom (eps := es) (i := i + 1)]
    constructor
    · rintro (⟨h, hh, rfl⟩ | ⟨k, e', hk, h1, h2, h3⟩)
      · exact ⟨0, e, by simp, by simp, rfl, hh⟩
      · exact ⟨k + 1, e', by simpa using hk, by omega, h2, h3⟩
    · rintro ⟨k, e', hk, h1, h2, h3⟩
      cases k with
      | zero =>
        simp at hk; subst hk
        left
        refine ⟨s.hash, h3, ?_⟩
        cases s; simp_all
      | succ k => exact Or.inr ⟨k, e', by simpa using hk, by omega, h2, h3⟩

theorem mem_mkRing {eps : List Ep} {s : Sec} :
    s ∈ mkRing eps ↔ ∃ e, eps[s.ep]? = some e ∧ s.az = e.az ∧ s.hash ∈ e.hashes := by
  rw [mkRing, List.mem_mergeSort, mem_sectionsFrom]
  constructor
  · rintro ⟨k, e, hk, h1, h2, h3⟩
    have : s.ep = k := by omega
    exact ⟨e, by rw [this]; exact hk, h2, h3⟩
  · rintro ⟨e, hk, h2, h3⟩
    exact ⟨s.ep, e, hk, by omega, h2, h3⟩

theorem azConsistent_mkRing (eps : List Ep) : AzConsistent (mkRing eps) := by
  intro s hs t ht hst
  obtain ⟨e, he, hz, _⟩ := mem_mkRing.mp hs
  obtain ⟨e', he', hz', _⟩ := mem_mkRing.mp ht
  rw [hst, he'] at he
  injection he with he
  rw [hz, hz', he]

theorem mkRing_cover (eps : List Ep) : ∀ s ∈ mkRing eps, s.az ∈ zonesOf eps := by
  intro s hs
  obtain ⟨e, he, hz, _⟩ := mem_mkRing.mp hs
  rw [zonesOf, mem_dedup, List.mem_map]
  exact ⟨e, List.mem_of_getElem? he, hz.symm⟩

/-- the positions of the endpoints of zone `z` in the endpoint list -/
def zoneIdx (eps : List Ep) (z : Nat) : List Nat :=
  (List.range eps.length).filter fun k => match eps[k]? with | some e => e.az == z | none => false

theorem length_zoneIdx : ∀ (eps : List Ep) (z : Nat), (zoneIdx eps z).length = (eps.filter (·.az == z)).length
  | [], _ => by simp [zoneIdx]
  | e :: es, z => by
    have ih := length_zoneIdx es z
    simp only [zoneIdx, List.length_cons, List.range_succ_eq_map, List.filter_cons, List.filter_map] at ih ⊢
    have : ((List.range es.length).filter ((fun k => match (e :: es)[k]? with | some e => e.az == z | none => false) ∘ Nat.succ))
        = (List.range es.length).filter (fun k => match es[k]? with | some e => e.az == z | none => false) := by
      apply List.filter_congr
      intro k _
      simp
    rw [this]
    by_cases h : e.az = z <;> simp [h, ih]

/-- when every endpoint has a section, the zone sizes of the ring are the numbers of endpoints
    per zone in the configuration — hash values play no role -/
theorem zsize_mkRing (eps : List Ep) (z : Nat) (hh : ∀ e ∈ eps, e.hashes ≠ []) :
    zsize (mkRing eps) z = (eps.filter (·.az == z)).length := by
  rw [← length_zoneIdx, zsize]
  have hmem : ∀ k, k ∈ zoneEps (mkRing eps) z ↔ k ∈ zoneIdx eps z := by
    intro k
    rw [mem_zoneEps]
    simp only [zoneIdx, List.mem_filter, List.mem_range]
    constructor
    · rintro ⟨s, hs, hz, rfl⟩
      obtain ⟨e, he, hze, _⟩ := mem_mkRing.mp hs
      have hlt : s.ep < eps.length := by
        rcases Nat.lt_or_ge s.ep eps.length with h | h
        · exact h
        · rw [List.getElem?_eq_none h] at he; cases he
      refine ⟨hlt, ?_⟩
      rw [he]; simp [← hze, hz]
    · rintro ⟨hlt, hk⟩
      have he : eps[k]? = some eps[k] := List.getElem?_eq_getElem hlt
      rw [he] at hk
      have hz : eps[k].az = z := by simpa using hk
      obtain ⟨h, hmemh⟩ := List.exists_mem_of_ne_nil _ (hh eps[k] (List.getElem_mem hlt))
      exact ⟨⟨h, k, z⟩, mem_mkRing.mpr ⟨eps[k], he, hz.symm, hmemh⟩, rfl, rfl⟩
  have h1 := List.Nodup.length_le_of_subset (nodup_dedup _) (fun k hk => (hmem k).mp hk)
  have h2 := List.Nodup.length_le_of_subset ((List.nodup_range).filter _) (fun k hk => (hmem k).mpr hk)
  simp only [zoneEps] at h1 h2 ⊢
  simp only [zoneIdx] at h1 h2 ⊢
  omega

end Thanos.Hashring
